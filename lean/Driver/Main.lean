import Driver.Registry
/-!
  `jjmodel`: reads one request per line on stdin (`<property> <op> <args…>`), answers one line
  per request on stdout with the *model's* result.  Lines starting with `#` are echoed.
  Unknown property/op or unparsable arguments ⇒ `bad-op` (never a default value).
-/
partial def loop (h : IO.FS.Stream) (out : IO.FS.Stream) : IO Unit := do
  let line ← h.getLine
  if line.isEmpty then return ()
  let l := (line.dropEndWhile (fun c => c == '\n' || c == '\r')).toString
  if l.startsWith "#" then
    out.putStrLn l
  else
    match l.splitOn " " with
    | p :: args =>
      match Driver.dispatch p args with
      | some r => out.putStrLn r
      | none => out.putStrLn "bad-op"
    | [] => out.putStrLn "bad-op"
  loop h out

def main : IO Unit := do
  let stdin ← IO.getStdin
  let stdout ← IO.getStdout
  loop stdin stdout
  stdout.flush
