import JjModel.Model.Codec
import JjModel.Model.Merge
/-
  Model of `lib/src/op_store.rs` (`View`, `Operation`, `RefTarget`, `RemoteRef`, …),
  of their `#[derive(ContentHash)]` encodings (via `Model/Codec.lean`), and of the protobuf
  conversions of `lib/src/simple_op_store.rs` (`view_to_proto`/`view_from_proto`,
  `operation_to_proto`/`operation_from_proto`, all ref-target proto forms incl. the legacy ones).

  * ids (`CommitId`, `ViewId`, `OperationId`) and names (`String` new-types) are byte strings;
  * `BTreeMap<K, V>` = association list in key order (`BMap`), `HashSet<CommitId>` = list in order;
    `BMap.ofList`/`setOfList` are the `collect()`s (insert one by one, last one wins);
  * `Merge<Option<CommitId>>` = the interleaved list of terms (as in `Model/Merge.lean`);
  * a prost message = a Lean structure with the same fields (wire format = assumption A2).
-/
namespace JjModel.OpStore
open JjModel.Codec

abbrev Id := Bytes
abbrev Name := Bytes

/-! ### ordered containers -/

/-- byte-wise lexicographic `<` (`Ord` of `Vec<u8>` and of `String`) -/
def bLt : Bytes → Bytes → Bool
  | [], [] => false
  | [], _ :: _ => true
  | _ :: _, [] => false
  | a :: as, b :: bs => if a.toNat < b.toNat then true else if a = b then bLt as bs else false

abbrev BMap (V : Type) := List (Bytes × V)

/-- `BTreeMap::insert` -/
def BMap.insert {V} (k : Bytes) (v : V) : BMap V → BMap V
  | [] => [(k, v)]
  | (k', v') :: r =>
    if bLt k k' then (k, v) :: (k', v') :: r
    else if k = k' then (k, v) :: r
    else (k', v') :: BMap.insert k v r

/-- `iter.collect::<BTreeMap<_, _>>()` -/
def BMap.ofList {V} (l : List (Bytes × V)) : BMap V := l.foldl (fun m p => m.insert p.1 p.2) []

def BMap.get? {V} (m : BMap V) (k : Bytes) : Option V := (m.find? (fun p => p.1 = k)).map (·.2)

/-- keys strictly ascending (what a `BTreeMap` guarantees) -/
def BMap.Sorted {V} : BMap V → Prop
  | [] => True
  | [_] => True
  | (k, _) :: (k', v') :: r => bLt k k' = true ∧ BMap.Sorted ((k', v') :: r)

def setInsert (k : Bytes) : List Bytes → List Bytes
  | [] => [k]
  | k' :: r => if bLt k k' then k :: k' :: r else if k = k' then k' :: r else k' :: setInsert k r

/-- `iter.collect::<HashSet<_>>()`, listed in `Ord` order (the order `ContentHash` uses) -/
def setOfList (l : List Bytes) : List Bytes := l.foldl (fun s k => setInsert k s) []

def SetSorted : List Bytes → Prop
  | [] => True
  | [_] => True
  | k :: k' :: r => bLt k k' = true ∧ SetSorted (k' :: r)

/-! ### `op_store.rs` values -/

/-- `RefTarget { merge: Merge<Option<CommitId>> }`, interleaved terms (adds at even positions) -/
abbrev RefTarget := List (Option Id)

def RefTarget.absent : RefTarget := [none]
def RefTarget.normal (id : Id) : RefTarget := [some id]
/-- `Merge::is_absent`: resolved to `None` -/
def RefTarget.isAbsent : RefTarget → Bool
  | [none] => true
  | _ => false
def RefTarget.isPresent (t : RefTarget) : Bool := !t.isAbsent

inductive RemoteRefState where
  | new | tracked
  deriving DecidableEq, Repr

structure RemoteRef where
  target : RefTarget
  state : RemoteRefState
  deriving DecidableEq, Repr

structure RemoteView where
  bookmarks : BMap RemoteRef
  tags : BMap RemoteRef
  deriving DecidableEq, Repr

structure View where
  headIds : List Id
  localBookmarks : BMap RefTarget
  localTags : BMap RefTarget
  remoteViews : BMap RemoteView
  gitRefs : BMap RefTarget
  gitHeads : BMap RefTarget
  wcCommitIds : BMap Id
  deriving DecidableEq, Repr

structure Timestamp where
  timestamp : Int     -- MillisSinceEpoch(i64)
  tzOffset : Int      -- i32, minutes
  deriving DecidableEq, Repr

structure TimestampRange where
  start : Timestamp
  «end» : Timestamp
  deriving DecidableEq, Repr

structure OperationMetadata where
  time : TimestampRange
  description : Name
  hostname : Name
  username : Name
  isSnapshot : Bool
  workspaceName : Option Name
  attributes : BMap Name
  deriving DecidableEq, Repr

structure Operation where
  viewId : Id
  parents : List Id
  metadata : OperationMetadata
  commitPredecessors : Option (BMap (List Id))
  deriving DecidableEq, Repr

/-! ### `ContentHash` encodings, in the field order of the Rust structs
(`Props/C16.layout_*` ties every `desc` to `Generated/HashLayout.lean`) -/

/-- `id_type!`: `struct CommitId(Vec<u8>)` -/
def idC (tyName : String) : C Id := (bytes.named "0").structure tyName
/-- `struct RefNameBuf(String)` etc. -/
def nameC (tyName : String) : C Name := (bytes.named "0").structure tyName

def commitIdC : C Id := idC "CommitId"

/-- `Merge<T>` hashes `self.as_slice()` -/
def refTargetC : C RefTarget := ((list (opt commitIdC)).named "merge").structure "RefTarget"

def RemoteRefState.ord : RemoteRefState → Nat
  | .new => 0
  | .tracked => 1
def RemoteRefState.ofOrd : Nat → RemoteRefState
  | 0 => .new
  | _ => .tracked

def remoteRefStateC : C RemoteRefState :=
  ((enumUnit ["New", "Tracked"]).iso RemoteRefState.ord RemoteRefState.ofOrd
    (by intro x; cases x <;> rfl)).structure "RemoteRefState"

def remoteRefC : C RemoteRef :=
  ((pair (refTargetC.named "target") (remoteRefStateC.named "state")).iso
    (fun r => (r.target, r.state)) (fun p => ⟨p.1, p.2⟩) (by intro x; rfl)).structure "RemoteRef"

/-- `BTreeMap<K, V>`: length, then key, value, key, value, … -/
def mapC {V} (k : C Bytes) (v : C V) : C (BMap V) := list (pair k v)

def remoteViewC : C RemoteView :=
  ((pair ((mapC (nameC "RefNameBuf") remoteRefC).named "bookmarks")
         ((mapC (nameC "RefNameBuf") remoteRefC).named "tags")).iso
    (fun r => (r.bookmarks, r.tags)) (fun p => ⟨p.1, p.2⟩) (by intro x; rfl)).structure "RemoteView"

def viewC : C View :=
  ((pair ((list commitIdC).named "head_ids")
    (pair ((mapC (nameC "RefNameBuf") refTargetC).named "local_bookmarks")
    (pair ((mapC (nameC "RefNameBuf") refTargetC).named "local_tags")
    (pair ((mapC (nameC "RemoteNameBuf") remoteViewC).named "remote_views")
    (pair ((mapC (nameC "GitRefNameBuf") refTargetC).named "git_refs")
    (pair ((mapC (nameC "WorkspaceNameBuf") refTargetC).named "git_heads")
          ((mapC (nameC "WorkspaceNameBuf") commitIdC).named "wc_commit_ids"))))))).iso
    (fun v => (v.headIds, v.localBookmarks, v.localTags, v.remoteViews, v.gitRefs, v.gitHeads, v.wcCommitIds))
    (fun p => ⟨p.1, p.2.1, p.2.2.1, p.2.2.2.1, p.2.2.2.2.1, p.2.2.2.2.2.1, p.2.2.2.2.2.2⟩)
    (by intro x; rfl)).structure "View"

def millisC : C Int := (i64.named "0").structure "MillisSinceEpoch"

def timestampC : C Timestamp :=
  ((pair (millisC.named "timestamp") (i32.named "tz_offset")).iso
    (fun t => (t.timestamp, t.tzOffset)) (fun p => ⟨p.1, p.2⟩) (by intro x; rfl)).structure "Timestamp"

def timestampRangeC : C TimestampRange :=
  ((pair (timestampC.named "start") (timestampC.named "end")).iso
    (fun t => (t.start, t.end)) (fun p => ⟨p.1, p.2⟩) (by intro x; rfl)).structure "TimestampRange"

def operationMetadataC : C OperationMetadata :=
  ((pair (timestampRangeC.named "time")
    (pair (bytes.named "description")
    (pair (bytes.named "hostname")
    (pair (bytes.named "username")
    (pair (bool.named "is_snapshot")
    (pair ((opt (nameC "WorkspaceNameBuf")).named "workspace_name")
          ((mapC bytes bytes).named "attributes"))))))).iso
    (fun m => (m.time, m.description, m.hostname, m.username, m.isSnapshot, m.workspaceName, m.attributes))
    (fun p => ⟨p.1, p.2.1, p.2.2.1, p.2.2.2.1, p.2.2.2.2.1, p.2.2.2.2.2.1, p.2.2.2.2.2.2⟩)
    (by intro x; rfl)).structure "OperationMetadata"

def operationC : C Operation :=
  ((pair ((idC "ViewId").named "view_id")
    (pair ((list (idC "OperationId")).named "parents")
    (pair (operationMetadataC.named "metadata")
          ((opt (mapC commitIdC (list commitIdC))).named "commit_predecessors")))).iso
    (fun o => (o.viewId, o.parents, o.metadata, o.commitPredecessors))
    (fun p => ⟨p.1, p.2.1, p.2.2.1, p.2.2.2⟩)
    (by intro x; rfl)).structure "Operation"

/-- the byte stream fed to BLAKE2b for a view id -/
def encView (v : View) : Bytes := viewC.enc v
/-- the byte stream fed to BLAKE2b for an operation id -/
def encOperation (o : Operation) : Bytes := operationC.enc o

/-! ### prost messages of `simple_op_store.proto` -/

/-- `ref_target::Value` (oneof) -/
inductive PRefTargetValue where
  | commitId (id : Bytes)                                    -- deprecated
  | conflictLegacy (removes adds : List Bytes)               -- deprecated
  | conflict (removes adds : List (Option Bytes))
  deriving DecidableEq, Repr

/-- `Option<RefTarget>` field (the inner `oneof` is always set by jj; unset ⇒ `unwrap` panic, not modelled) -/
abbrev PRefTarget := Option PRefTargetValue

structure PRemoteBookmark where
  remoteName : Name
  target : PRefTarget
  state : Option Int
  deriving DecidableEq, Repr

structure PBookmark where
  name : Name
  localTarget : PRefTarget
  remoteBookmarks : List PRemoteBookmark
  deriving DecidableEq, Repr

structure PGitRef where
  name : Name
  commitId : Bytes
  target : PRefTarget
  deriving DecidableEq, Repr

structure PNamedTarget where   -- `Tag`, `GitHead`
  name : Name
  target : PRefTarget
  deriving DecidableEq, Repr

structure PRemoteRef where
  name : Name
  targetTerms : List (Option Bytes)
  state : Int
  deriving DecidableEq, Repr

structure PRemoteView where
  name : Name
  bookmarks : List PRemoteRef
  tags : List PRemoteRef
  deriving DecidableEq, Repr

structure PView where
  headIds : List Bytes
  wcCommitId : Bytes                      -- deprecated
  wcCommitIds : List (Name × Bytes)       -- map<string, bytes>
  bookmarks : List PBookmark
  localTags : List PNamedTarget
  remoteViews : List PRemoteView
  gitRefs : List PGitRef
  gitHeadLegacy : Bytes                   -- deprecated
  gitHead : PRefTarget                    -- deprecated
  migrated : Bool                         -- has_git_refs_migrated_to_remote_tags
  gitHeads : List PNamedTarget
  deriving DecidableEq, Repr

structure PTimestamp where
  millis : Int
  tzOffset : Int
  deriving DecidableEq, Repr

structure POperationMetadata where
  startTime : Option PTimestamp
  endTime : Option PTimestamp
  description : Name
  hostname : Name
  username : Name
  isSnapshot : Bool
  workspaceName : Option Name
  attributes : List (Name × Name)         -- map<string, string>
  deriving DecidableEq, Repr

structure PCommitPredecessors where
  commitId : Bytes
  predecessorIds : List Bytes
  deriving DecidableEq, Repr

structure POperation where
  viewId : Bytes
  parents : List Bytes
  metadata : Option POperationMetadata
  commitPredecessors : List PCommitPredecessors
  storesCommitPredecessors : Bool
  deriving DecidableEq, Repr

/-- `PostDecodeError` + the panics (`expect`/`assert!`) reachable from decoded data -/
inductive Err where
  | hashLen | badState | evenTerms | panic
  deriving DecidableEq, Repr

/-- `iter.map(f).try_collect()` / `collect::<Result<Vec<_>, _>>()`: stop at the first error -/
def mapE {α β} (f : α → Except Err β) : List α → Except Err (List β)
  | [] => .ok []
  | x :: xs =>
    match f x with
    | .error e => .error e
    | .ok y =>
      match mapE f xs with
      | .error e => .error e
      | .ok ys => .ok (y :: ys)

/-- a `for` loop with `?` in its body -/
def foldE {α σ} (f : σ → α → Except Err σ) : σ → List α → Except Err σ
  | s, [] => .ok s
  | s, x :: xs =>
    match f s x with
    | .error e => .error e
    | .ok s' => foldE f s' xs

/-! ### ref targets -/

open JjModel.Merge (adds removes)

/-- `Merge::from_removes_adds` loop body: `removes.zip_longest(adds)` must be `Both` throughout -/
def zipRA {α} : List α → List α → Option (List α)
  | [], [] => some []
  | r :: rs, a :: as => (zipRA rs as).map (fun l => r :: a :: l)
  | _, _ => none

/-- `Merge::from_removes_adds`; `none` = one of its two `expect`s fires -/
def fromRemovesAdds {α} (rs as : List α) : Option (List α) :=
  match as with
  | [] => none
  | a :: as => (zipRA rs as).map (fun l => a :: l)

/-- `zip_longest(..).map_any(Some, Some).or_default()` -/
def zipLegacy {α} : List α → List α → List (Option α)
  | [], [] => []
  | r :: rs, a :: as => some r :: some a :: zipLegacy rs as
  | r :: rs, [] => some r :: none :: zipLegacy rs []
  | [], a :: as => none :: some a :: zipLegacy [] as

/-- `Merge::from_legacy_form` -/
def fromLegacyForm {α} (rs as : List α) : List (Option α) :=
  as.head? :: zipLegacy rs as.tail

/-- `ref_target_to_proto` (always `Some(Conflict {removes, adds})`) -/
def refTargetToProto (t : RefTarget) : PRefTarget :=
  some (.conflict (removes t) (adds t))

/-- `ref_target_from_proto` -/
def refTargetFromProto : PRefTarget → Except Err RefTarget
  | none => .ok RefTarget.absent
  | some (.commitId id) => .ok (RefTarget.normal id)
  | some (.conflictLegacy rs as) => .ok (fromLegacyForm rs as)
  | some (.conflict rs as) =>
    match fromRemovesAdds rs as with
    | some l => .ok l
    | none => .error .panic

/-- `ref_target_to_terms_proto` -/
def refTargetToTermsProto (t : RefTarget) : List (Option Bytes) := t

/-- `ref_target_from_terms_proto` -/
def refTargetFromTermsProto (terms : List (Option Bytes)) : Except Err RefTarget :=
  if terms.length % 2 = 0 then .error .evenTerms else .ok terms

def remoteRefStateToProto : RemoteRefState → Int
  | .new => 0
  | .tracked => 1

def remoteRefStateFromProto (n : Int) : Except Err RemoteRefState :=
  if n = 0 then .ok .new else if n = 1 then .ok .tracked else .error .badState

/-! ### `merge_join_ref_views` / legacy bookmark form -/

/-- `RemoteRefSymbol` order: name first, then remote -/
def symLt (a b : Name × Name) : Bool :=
  bLt a.1 b.1 || (a.1 == b.1 && bLt a.2 b.2)

def symInsert (e : (Name × Name) × RemoteRef) :
    List ((Name × Name) × RemoteRef) → List ((Name × Name) × RemoteRef)
  | [] => [e]
  | f :: r => if symLt e.1 f.1 then e :: f :: r else f :: symInsert e r

/-- `flatten_remote_refs`: all `(name@remote, ref)` in symbol order (`kmerge_by` of sorted maps) -/
def flattenRemoteRefs (rvs : BMap RemoteView) (get : RemoteView → BMap RemoteRef) :
    List ((Name × Name) × RemoteRef) :=
  (rvs.flatMap fun rv => (get rv.2).map fun b => ((b.1, rv.1), b.2)).foldl (fun acc e => symInsert e acc) []

def bLe (a b : Bytes) : Bool := !bLt b a

/-- `merge_join_ref_views` (fuel ≥ `locals.length + remotes.length`) -/
def mergeJoin : Nat → List (Name × RefTarget) → List ((Name × Name) × RemoteRef) →
    List (Name × RefTarget × List (Name × RemoteRef))
  | 0, _, _ => []
  | fuel + 1, locals, remotes =>
    match remotes with
    | [] =>
      match locals with
      | [] => []
      | (ln, t) :: ls => (ln, t, []) :: mergeJoin fuel ls []
    | ((rn, _), _) :: _ =>
      let pick : Name × RefTarget × List (Name × RefTarget) :=
        match locals with
        | (ln, t) :: ls => if bLe ln rn then (ln, t, ls) else (rn, RefTarget.absent, locals)
        | [] => (rn, RefTarget.absent, [])
      let taken := remotes.takeWhile (fun e => e.1.1 == pick.1)
      let rest := remotes.dropWhile (fun e => e.1.1 == pick.1)
      (pick.1, pick.2.1, taken.map (fun e => (e.1.2, e.2))) :: mergeJoin fuel pick.2.2 rest

abbrev JoinEntry := Name × RefTarget × List (Name × RemoteRef)

def remoteBookmarkToProto (rb : Name × RemoteRef) : PRemoteBookmark :=
  { remoteName := rb.1, target := refTargetToProto rb.2.target,
    state := some (remoteRefStateToProto rb.2.state) }

def joinEntryToProto (e : JoinEntry) : PBookmark :=
  { name := e.1
    localTarget := refTargetToProto e.2.1
    remoteBookmarks := e.2.2.map remoteBookmarkToProto }

/-- `bookmark_views_to_proto_legacy` -/
def bookmarkViewsToProtoLegacy (lb : BMap RefTarget) (rvs : BMap RemoteView) : List PBookmark :=
  let remotes := flattenRemoteRefs rvs (·.bookmarks)
  (mergeJoin (lb.length + remotes.length + 1) lb remotes).map joinEntryToProto

def RemoteView.empty : RemoteView := ⟨[], []⟩

/-- the inner loop of `bookmark_views_from_proto_legacy` over one bookmark's remote bookmarks -/
def legacyRemoteStep (bname : Name) (rvs : BMap RemoteView) (rb : PRemoteBookmark) :
    Except Err (BMap RemoteView) := do
  let state ← match rb.state with
    | some n => remoteRefStateFromProto n
    | none => .ok .new
  let rv := (rvs.get? rb.remoteName).getD RemoteView.empty
  let target ← refTargetFromProto rb.target
  let rv' : RemoteView := { rv with bookmarks := rv.bookmarks.insert bname ⟨target, state⟩ }
  .ok (rvs.insert rb.remoteName rv')

/-- one iteration of the outer loop of `bookmark_views_from_proto_legacy` -/
def legacyStep (acc : BMap RefTarget × BMap RemoteView) (b : PBookmark) :
    Except Err (BMap RefTarget × BMap RemoteView) := do
  let localTarget ← refTargetFromProto b.localTarget
  let rvs ← foldE (legacyRemoteStep b.name) acc.2 b.remoteBookmarks
  .ok (if localTarget.isPresent then acc.1.insert b.name localTarget else acc.1, rvs)

/-- `bookmark_views_from_proto_legacy` -/
def bookmarkViewsFromProtoLegacy (bs : List PBookmark) : Except Err (BMap RefTarget × BMap RemoteView) :=
  foldE legacyStep ([], []) bs

/-! ### new-style remote views -/

def remoteRefToProto (e : Name × RemoteRef) : PRemoteRef :=
  { name := e.1, targetTerms := refTargetToTermsProto e.2.target, state := remoteRefStateToProto e.2.state }

def remoteRefsToProto (m : BMap RemoteRef) : List PRemoteRef := m.map remoteRefToProto

def remoteRefFromProto (p : PRemoteRef) : Except Err (Name × RemoteRef) := do
  let target ← refTargetFromTermsProto p.targetTerms
  let state ← remoteRefStateFromProto p.state
  .ok (p.name, ⟨target, state⟩)

def remoteRefsFromProto (l : List PRemoteRef) : Except Err (BMap RemoteRef) := do
  let es ← mapE remoteRefFromProto l
  .ok (BMap.ofList es)

def remoteViewToProto (e : Name × RemoteView) : PRemoteView :=
  { name := e.1, bookmarks := remoteRefsToProto e.2.bookmarks, tags := remoteRefsToProto e.2.tags }

def remoteViewsToProto (rvs : BMap RemoteView) : List PRemoteView := rvs.map remoteViewToProto

def remoteViewFromProto (p : PRemoteView) : Except Err (Name × RemoteView) := do
  let bookmarks ← remoteRefsFromProto p.bookmarks
  let tags ← remoteRefsFromProto p.tags
  .ok (p.name, ⟨bookmarks, tags⟩)

def remoteViewsFromProto (l : List PRemoteView) : Except Err (BMap RemoteView) := do
  let es ← mapE remoteViewFromProto l
  .ok (BMap.ofList es)

/-! ### views -/

/-- `WorkspaceName::DEFAULT` = "default" -/
def defaultWorkspace : Name := [100, 101, 102, 97, 117, 108, 116]
/-- `REMOTE_NAME_FOR_LOCAL_GIT_REPO` = "git" -/
def gitRemote : Name := [103, 105, 116]
/-- "refs/tags/" -/
def refsTagsPrefix : Name := [114, 101, 102, 115, 47, 116, 97, 103, 115, 47]

/-- `view_to_proto` -/
def viewToProto (v : View) : PView :=
  { headIds := v.headIds
    wcCommitId := []
    wcCommitIds := v.wcCommitIds
    bookmarks := bookmarkViewsToProtoLegacy v.localBookmarks v.remoteViews
    localTags := v.localTags.map fun e => ⟨e.1, refTargetToProto e.2⟩
    remoteViews := remoteViewsToProto v.remoteViews
    gitRefs := v.gitRefs.map fun e => ⟨e.1, [], refTargetToProto e.2⟩
    gitHeadLegacy := []
    gitHead := (v.gitHeads.get? defaultWorkspace).bind refTargetToProto
    migrated := true
    gitHeads := v.gitHeads.map fun e => ⟨e.1, refTargetToProto e.2⟩ }

def namedTargetFromProto (p : PNamedTarget) : Except Err (Name × RefTarget) := do
  let t ← refTargetFromProto p.target
  .ok (p.name, t)

def gitRefFromProto (p : PGitRef) : Except Err (Name × RefTarget) := do
  let t ← if p.target.isSome then refTargetFromProto p.target else .ok (RefTarget.normal p.commitId)
  .ok (p.name, t)

def stripPrefix (pre s : Bytes) : Option Bytes :=
  if s.take pre.length = pre then some (s.drop pre.length) else none

/-- the `#[cfg(feature = "git")]` migration block of `view_from_proto` -/
def migrateGitTags (gitRefs : BMap RefTarget) (rvs : BMap RemoteView) : Except Err (BMap RemoteView) :=
  let stripped := gitRefs.filterMap fun e => (stripPrefix refsTagsPrefix e.1).map fun n => (n, e.2)
  if stripped.any (fun e => e.1.isEmpty) then .error .panic
  else
    let gitTags : BMap RemoteRef := BMap.ofList (stripped.map fun e => (e.1, ⟨e.2, .tracked⟩))
    if gitTags.isEmpty then .ok rvs
    else
      let gv := (rvs.get? gitRemote).getD RemoteView.empty
      if !gv.tags.isEmpty then .error .panic
      else .ok (rvs.insert gitRemote { gv with tags := gitTags })

/-- `view_from_proto`, the choice between legacy and new-style remote views + tag migration -/
def remoteViewsOfProto (p : PView) (legacyRemoteViews : BMap RemoteView) (gitRefs : BMap RefTarget) :
    Except Err (BMap RemoteView) := do
  let remoteViews ← if p.remoteViews.isEmpty then .ok legacyRemoteViews else remoteViewsFromProto p.remoteViews
  if p.migrated then .ok remoteViews else migrateGitTags gitRefs remoteViews

/-- `view_from_proto`, the `git_heads` part (with the `git_head` / `git_head_legacy` fallbacks) -/
def gitHeadsOfProto (p : PView) : Except Err (BMap RefTarget) := do
  let gitHeads ← mapE namedTargetFromProto p.gitHeads
  let gitHeads := BMap.ofList gitHeads
  if gitHeads.isEmpty then do
    let gitHead ← if p.gitHead.isSome then refTargetFromProto p.gitHead
                  else if !p.gitHeadLegacy.isEmpty then .ok (RefTarget.normal p.gitHeadLegacy)
                  else .ok RefTarget.absent
    .ok (if gitHead.isPresent then gitHeads.insert defaultWorkspace gitHead else gitHeads)
  else .ok gitHeads

/-- `view_from_proto` -/
def viewFromProto (p : PView) : Except Err View := do
  let wc0 : BMap Id := if p.wcCommitId.isEmpty then [] else [(defaultWorkspace, p.wcCommitId)]
  let wcCommitIds := p.wcCommitIds.foldl (fun m e => m.insert e.1 e.2) wc0
  let headIds := setOfList p.headIds
  let (localBookmarks, legacyRemoteViews) ← bookmarkViewsFromProtoLegacy p.bookmarks
  let localTags ← mapE namedTargetFromProto p.localTags
  let gitRefs ← mapE gitRefFromProto p.gitRefs
  let gitRefs := BMap.ofList gitRefs
  let remoteViews ← remoteViewsOfProto p legacyRemoteViews gitRefs
  let gitHeads ← gitHeadsOfProto p
  .ok { headIds, localBookmarks, localTags := BMap.ofList localTags, remoteViews, gitRefs, gitHeads,
        wcCommitIds }

/-- what `read_view(write_view(v))` computes (file + prost in between = A2) -/
def viewRoundTrip (v : View) : Except Err View := viewFromProto (viewToProto v)

/-! ### operations -/

def timestampToProto (t : Timestamp) : PTimestamp := ⟨t.timestamp, t.tzOffset⟩
def timestampFromProto (p : PTimestamp) : Timestamp := ⟨p.millis, p.tzOffset⟩

def operationMetadataToProto (m : OperationMetadata) : POperationMetadata :=
  { startTime := some (timestampToProto m.time.start)
    endTime := some (timestampToProto m.time.end)
    description := m.description, hostname := m.hostname, username := m.username
    isSnapshot := m.isSnapshot, workspaceName := m.workspaceName, attributes := m.attributes }

def operationMetadataFromProto (p : POperationMetadata) : OperationMetadata :=
  { time := ⟨timestampFromProto (p.startTime.getD ⟨0, 0⟩), timestampFromProto (p.endTime.getD ⟨0, 0⟩)⟩
    description := p.description, hostname := p.hostname, username := p.username
    isSnapshot := p.isSnapshot, workspaceName := p.workspaceName
    attributes := BMap.ofList p.attributes }

def POperationMetadata.default : POperationMetadata :=
  ⟨none, none, [], [], [], false, none, []⟩

/-- `operation_to_proto` -/
def operationToProto (o : Operation) : POperation :=
  { viewId := o.viewId
    parents := o.parents
    metadata := some (operationMetadataToProto o.metadata)
    commitPredecessors := match o.commitPredecessors with
      | some m => m.map fun e => ⟨e.1, e.2⟩
      | none => []
    storesCommitPredecessors := o.commitPredecessors.isSome }

/-- `OPERATION_ID_LENGTH` = `VIEW_ID_LENGTH` = 64 (BLAKE2b-512) -/
def idLength : Nat := 64

def checkIdLen (b : Bytes) : Except Err Id := if b.length = idLength then .ok b else .error .hashLen

/-- `operation_from_proto` -/
def operationFromProto (p : POperation) : Except Err Operation := do
  let parents ← mapE checkIdLen p.parents
  let viewId ← checkIdLen p.viewId
  let metadata := operationMetadataFromProto (p.metadata.getD POperationMetadata.default)
  let commitPredecessors :=
    if p.storesCommitPredecessors then
      some (BMap.ofList (p.commitPredecessors.map fun e => (e.commitId, e.predecessorIds)))
    else none
  .ok { viewId, parents, metadata, commitPredecessors }

/-- `read_operation(write_operation(o))`; `write_operation` asserts `!parents.is_empty()`
(so the "push the root operation id when there are no parents" branch of `read_operation` is dead
after a write). -/
def operationRoundTrip (o : Operation) : Except Err Operation :=
  if o.parents.isEmpty then .error .panic else operationFromProto (operationToProto o)

end JjModel.OpStore
