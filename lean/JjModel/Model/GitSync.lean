import JjModel.Model.Merge
/-
  L5 — model of the ref-map part of `lib/src/git.rs` (C34: import/export, C45: push) and of
  `classify_ref_push_action` / `merge_ref_targets` (`lib/src/refs.rs`).

  * commits are natural numbers; the index is an arbitrary ancestry test
    `anc : Nat → Nat → Bool` (`anc a b` = "`a` is an ancestor of `b`"); the driver instantiates it
    from an explicit parents table;
  * bookmark names are natural numbers, remotes are natural numbers with `0 = "git"` (the
    colocated/backing Git repo, `REMOTE_NAME_FOR_LOCAL_GIT_REPO`) and `1 = "origin"`;
  * a `Key = (name, remote)` is both a jj remote symbol `name@remote` and the Git ref it maps to
    (`parse_git_ref` / `to_git_ref_name` are mutually inverse on valid names):
    `(n, 0) ↔ refs/heads/n`, `(n, r) ↔ refs/remotes/r/n`;
  * a `RefTarget` is the interleaved term list of its `Merge<Option<CommitId>>`
    (even positions adds, odd positions removes, `none` = absent);
  * maps of the view (`BTreeMap`s that never store absent entries) are total functions whose
    default value is "absent"; the loops that the source runs over map entries run here over an
    explicit key universe `keys` (sorted by symbol, as the source sorts its work lists).  A key
    outside every map is absent everywhere and none of the loops does anything for it.
  Tags, `HEAD` handling, commit import/abandonment and invalid/clashing Git ref names are not
  modelled.  Import-free apart from `Model.Merge` (the driver executable links this file).
-/
namespace JjModel.GitSync
open JjModel.Merge

abbrev Target := List (Option Nat)

def absent : Target := [none]
def normal (c : Nat) : Target := [some c]
/-- `RefTarget::resolved` -/
def ofOpt (o : Option Nat) : Target := [o]

/-- `RefTarget::is_present` (`!is_absent`, absent = resolved to `None`) -/
def isPresent (t : Target) : Bool := t != absent
/-- `RefTarget::has_conflict` (`!is_resolved`, resolved = one term) -/
def hasConflict (t : Target) : Bool := t.length != 1
/-- `RefTarget::as_normal` -/
def asNormal : Target → Option Nat
  | [some c] => some c
  | _ => none

/-! ### ancestry from an explicit DAG (driver instantiation of the index) -/

/-- `dag[i]` = parents of commit `i`. Fuel `dag.length + 1` suffices for an acyclic table. -/
def isAncestorFuel (dag : List (List Nat)) : Nat → Nat → Nat → Bool
  | 0, a, b => a == b
  | fuel + 1, a, b => a == b || (dag.getD b []).any (fun p => isAncestorFuel dag fuel a p)

def isAncestor (dag : List (List Nat)) (a b : Nat) : Bool :=
  isAncestorFuel dag (dag.length + 1) a b

/-! ### `merge_ref_targets` (`lib/src/refs.rs`)

The same definitions as `Model/Refs.lean` of property C12 (kept local: that file is not part of
this property's import closure). -/

/-- `Vec::swap_remove(i)` -/
def vecSwapRemove {α : Type} (l : List α) (i : Nat) : List α :=
  match l.getLast? with
  | none => l
  | some last => (l.set i last).dropLast

/-- `Merge::swap_remove(remove_index, add_index)` -/
def swapRemove {α : Type} (m : List α) (removeIndex addIndex : Nat) : List α :=
  vecSwapRemove (vecSwapRemove m (addIndex * 2)) (removeIndex * 2 + 1)

def pickAdd (anc : Nat → Nat → Bool) (i1 i2 : Nat) (a1 a2 : Option Nat) : Option (Nat × Nat) :=
  match a1, a2 with
  | some id1, some id2 =>
    if id1 = id2 then some (i1, id1)
    else if anc id1 id2 then some (i1, id1)
    else if anc id2 id1 then some (i2, id2)
    else none
  | _, _ => none

def removeOk (anc : Nat → Nat → Bool) (addId : Nat) : Option Nat → Bool
  | some id => anc id addId
  | none => true

def position {α : Type} (p : α → Bool) : List α → Nat → Option Nat
  | [], _ => none
  | x :: xs, i => if p x then some i else position p xs (i + 1)

def innerLoop (anc : Nat → Nat → Bool) (rems : Target) (i1 : Nat) (a1 : Option Nat) :
    List (Option Nat) → Nat → Option (Nat × Nat)
  | [], _ => none
  | a2 :: rest, i2 =>
    match pickAdd anc i1 i2 a1 a2 with
    | some (addIndex, addId) =>
      match position (removeOk anc addId) rems 0 with
      | some removeIndex => some (removeIndex, addIndex)
      | none => innerLoop anc rems i1 a1 rest (i2 + 1)
    | none => innerLoop anc rems i1 a1 rest (i2 + 1)

def outerLoop (anc : Nat → Nat → Bool) (rems : Target) : List (Option Nat) → Nat → Option (Nat × Nat)
  | [], _ => none
  | a1 :: rest, i1 =>
    match innerLoop anc rems i1 a1 rest (i1 + 1) with
    | some p => some p
    | none => outerLoop anc rems rest (i1 + 1)

/-- `find_pair_to_remove`: `(remove_index, add_index)` -/
def findPairToRemove (anc : Nat → Nat → Bool) (m : Target) : Option (Nat × Nat) :=
  outerLoop anc (removes m) (adds m) 0

def nonTrivialLoop (anc : Nat → Nat → Bool) : Nat → Target → Target
  | 0, m => m
  | fuel + 1, m =>
    match findPairToRemove anc m with
    | some (ri, ai) => nonTrivialLoop anc fuel (swapRemove m ri ai)
    | none => m

/-- `merge_ref_targets(index, left, base, right)` -/
def mergeRefTargets (anc : Nat → Nat → Bool) (left base right : Target) : Target :=
  match trivialMerge [left, base, right] .accept with
  | some resolved => resolved
  | none =>
    let merge := simplify (flatten [left, base, right])
    match trivialMerge merge .accept with
    | some resolved => [resolved]
    | none => nonTrivialLoop anc merge.length merge

/-! ### the view (`lib/src/view.rs`, `op_store.rs`) -/

/-- `RemoteRef { target, state }`, `tracked = (state == Tracked)` -/
structure RemoteRef where
  target : Target
  tracked : Bool
  deriving DecidableEq, Repr

/-- `RemoteRef::absent_ref()` = absent target, state `New` -/
def RemoteRef.absentRef : RemoteRef := ⟨absent, false⟩

/-- `RemoteRef::tracked_target` -/
def RemoteRef.trackedTarget (r : RemoteRef) : Target := if r.tracked then r.target else absent

/-- `(name, remote)`; ordered name-major like `RemoteRefSymbol` -/
abbrev Key := Nat × Nat

structure View where
  /-- `local_bookmarks` -/
  locals : Nat → Target
  /-- `remote_views[remote].bookmarks[name]` -/
  remotes : Key → RemoteRef
  /-- `git_refs` (last imported/exported position of each Git ref) -/
  gitRefs : Key → Target

/-- the refs of a Git repository: ref ↦ commit -/
abbrev Git := Key → Option Nat

def setAt {κ α : Type} [DecidableEq κ] (m : κ → α) (k : κ) (v : α) : κ → α :=
  fun k' => if k' = k then v else m k'

/-- `View::set_local_bookmark_target`: an absent target removes the bookmark *and* every absent
remote bookmark record of that name ("absent remote bookmarks tracked by the newly-absent local
bookmark"). -/
def View.setLocal (v : View) (n : Nat) (t : Target) : View :=
  if isPresent t then { v with locals := setAt v.locals n t }
  else { v with
    locals := setAt v.locals n absent
    remotes := fun k => if k.1 = n ∧ (v.remotes k).target = absent then RemoteRef.absentRef
                        else v.remotes k }

/-- `View::set_remote_bookmark`: an absent record is kept only while it is tracked and the local
bookmark exists. -/
def View.setRemote (v : View) (k : Key) (r : RemoteRef) : View :=
  if isPresent r.target || (r.tracked && isPresent (v.locals k.1)) then
    { v with remotes := setAt v.remotes k r }
  else { v with remotes := setAt v.remotes k RemoteRef.absentRef }

/-- `View::set_git_ref_target` -/
def View.setGitRef (v : View) (k : Key) (t : Target) : View :=
  { v with gitRefs := setAt v.gitRefs k (if isPresent t then t else absent) }

/-- `MutableRepo::merge_local_bookmark` -/
def View.mergeLocal (anc : Nat → Nat → Bool) (v : View) (n : Nat) (base other : Target) : View :=
  v.setLocal n (mergeRefTargets anc (v.locals n) base other)

/-- `MutableRepo::track_remote_bookmark` -/
def View.track (anc : Nat → Nat → Bool) (v : View) (k : Key) : View :=
  let r := v.remotes k
  let v1 := v.mergeLocal anc k.1 r.trackedTarget r.target
  v1.setRemote k ⟨r.target, true⟩

/-- `MutableRepo::untrack_remote_bookmark` -/
def View.untrack (v : View) (k : Key) : View :=
  v.setRemote k ⟨(v.remotes k).target, false⟩

/-! ### C34 — `import_refs` -/

/-- `GitImportRefUpdate` -/
structure RefUpdate where
  key : Key
  old : RemoteRef
  new : Target
  deriving DecidableEq, Repr

/-- `changed_git_refs` entry of one ref: the body of `collect_changed_refs_to_import` for a ref
that exists in Git, the trailing `for full_name in known_git_refs.into_keys()` loop of
`diff_refs_to_import` for one that does not. -/
def diffGitRef (v : View) (git : Git) (k : Key) : Option Target :=
  match git k with
  | some c => if normal c ≠ v.gitRefs k then some (normal c) else none
  | none => if isPresent (v.gitRefs k) then some absent else none

/-- `changed_remote_bookmarks` entry of one ref (same two places). -/
def diffRemote (v : View) (git : Git) (k : Key) : Option RefUpdate :=
  let old := v.remotes k
  match git k with
  | some c => if normal c ≠ old.target then some ⟨k, old, normal c⟩ else none
  | none => if isPresent old.target then some ⟨k, old, absent⟩ else none

/-- `RefsToImport` -/
structure RefsToImport where
  changedGitRefs : List (Key × Target)
  changedRemote : List RefUpdate

/-- `diff_refs_to_import`; `keys` = the refs passing `git_ref_filter`, sorted by symbol. -/
def diffRefsToImport (keys : List Key) (v : View) (git : Git) : RefsToImport :=
  { changedGitRefs := keys.filterMap (fun k => (diffGitRef v git k).map (fun t => (k, t)))
    changedRemote := keys.filterMap (diffRemote v git) }

/-- `default_remote_ref_state_for(Bookmark, ..)`: `@git` is always tracked; other remotes when the
auto-track matcher accepts (`auto`). -/
def defaultTracked (auto : Bool) (k : Key) : Bool := k.2 == 0 || auto

/-- one iteration of `for update in &changed_remote_bookmarks` in `import_refs_inner` -/
def applyRemoteUpdate (anc : Nat → Nat → Bool) (auto : Bool) (v : View) (u : RefUpdate) : View :=
  let base := u.old.trackedTarget
  let tracked := if u.old ≠ RemoteRef.absentRef then u.old.tracked else defaultTracked auto u.key
  let v1 := if tracked then v.mergeLocal anc u.key.1 base u.new else v
  v1.setRemote u.key ⟨u.new, tracked⟩

/-- the ref part of `import_refs_inner` -/
def importRefsInner (anc : Nat → Nat → Bool) (auto : Bool) (v : View) (d : RefsToImport) : View :=
  let v1 := d.changedGitRefs.foldl (fun v e => v.setGitRef e.1 e.2) v
  d.changedRemote.foldl (applyRemoteUpdate anc auto) v1

/-- `import_refs` / `import_some_refs` (the filter is the choice of `keys`) -/
def importRefs (anc : Nat → Nat → Bool) (auto : Bool) (keys : List Key) (v : View) (git : Git) : View :=
  importRefsInner anc auto v (diffRefsToImport keys v git)

/-! ### C34 — `export_refs` -/

/-- `FailedRefExportReason` (`InvalidGitName`, `FailedToDelete` cannot arise in the model) -/
inductive FailReason where
  | conflictedOldState
  | onRootCommit
  | deletedInJjModifiedInGit
  | addedInJjAddedInGit
  | modifiedInJjDeletedInGit
  | failedToSet
  deriving DecidableEq, Repr

/-- `RefsToExport` -/
structure RefsToExport where
  toUpdate : List (Key × (Option Nat × Nat))
  toDelete : List (Key × Nat)
  failed : List (Key × FailReason)

/-- the "new" side in `diff_refs_to_export`: local bookmarks are the new `@git` refs, remote
bookmarks of other remotes are exported as they are -/
def exportNewTarget (v : View) (k : Key) : Target :=
  if k.2 = 0 then v.locals k.1 else (v.remotes k).target

inductive ExportItem where
  | skip
  | fail (r : FailReason)
  | update (old : Option Nat) (new : Nat)
  | delete (old : Nat)
  deriving DecidableEq, Repr

/-- loop body of `collect_changed_refs_to_export` -/
def classifyExport (root : Nat) (old new : Target) : ExportItem :=
  if new = old then .skip
  else if new = normal root then .fail .onRootCommit
  else
    match old with
    | [some o] =>
      (match new with
       | [some c] => .update (some o) c
       | [none] => .delete o
       | _ => .skip)
    | [none] =>
      (match new with
       | [some c] => .update none c
       | _ => .skip)
    | _ => .fail .conflictedOldState

def exportItem (root : Nat) (v : View) (k : Key) : ExportItem :=
  classifyExport root (v.gitRefs k) (exportNewTarget v k)

/-- `diff_refs_to_export` + `collect_changed_refs_to_export` (bookmarks only) -/
def diffRefsToExport (root : Nat) (keys : List Key) (v : View) : RefsToExport :=
  { toUpdate := keys.filterMap (fun k =>
      match exportItem root v k with | .update o c => some (k, (o, c)) | _ => none)
    toDelete := keys.filterMap (fun k =>
      match exportItem root v k with | .delete o => some (k, o) | _ => none)
    failed := keys.filterMap (fun k =>
      match exportItem root v k with | .fail r => some (k, r) | _ => none) }

/-- result of one compare-and-swap on a Git ref: the new ref map or the failure -/
inductive CasResult where
  | ok (git : Git)
  | err (r : FailReason)

/-- `delete_git_ref` -/
def deleteGitRef (git : Git) (k : Key) (old : Nat) : CasResult :=
  match git k with
  | none => .ok git
  | some c => if c = old then .ok (setAt git k none) else .err .deletedInJjModifiedInGit

/-- `update_git_ref` = `create_git_ref` / `move_git_ref` -/
def updateGitRef (git : Git) (k : Key) (old : Option Nat) (new : Nat) : CasResult :=
  match old with
  | none =>
    (match git k with
     | none => .ok (setAt git k (some new))
     | some c => if c = new then .ok git else .err .addedInJjAddedInGit)
  | some o =>
    (match git k with
     | some c =>
       if c = o then .ok (setAt git k (some new))
       else if c = new then .ok git
       else .err .failedToSet
     | none => .err .modifiedInJjDeletedInGit)

structure ExportState where
  view : View
  git : Git
  failed : List (Key × FailReason)

def stepDelete (s : ExportState) (e : Key × Nat) : ExportState :=
  match deleteGitRef s.git e.1 e.2 with
  | .ok g => { s with git := g, view := s.view.setGitRef e.1 absent }
  | .err r => { s with failed := s.failed ++ [(e.1, r)] }

def stepUpdate (s : ExportState) (e : Key × (Option Nat × Nat)) : ExportState :=
  match updateGitRef s.git e.1 e.2.1 e.2.2 with
  | .ok g => { s with git := g, view := s.view.setGitRef e.1 (normal e.2.2) }
  | .err r => { s with failed := s.failed ++ [(e.1, r)] }

def keyLe (a b : Key) : Bool := a.1 < b.1 || (a.1 == b.1 && a.2 <= b.2)

def insertFailed (x : Key × FailReason) : List (Key × FailReason) → List (Key × FailReason)
  | [] => [x]
  | y :: ys => if keyLe x.1 y.1 then x :: y :: ys else y :: insertFailed x ys

/-- `failed.sort_unstable_by(symbol)` (keys are distinct, so stability is irrelevant) -/
def sortFailed (l : List (Key × FailReason)) : List (Key × FailReason) :=
  l.foldr insertFailed []

/-- `export_refs_to_git`: deletions first, then updates; every success is recorded in `git_refs` -/
def exportRefsToGit (v : View) (git : Git) (r : RefsToExport) : ExportState :=
  let s0 : ExportState := ⟨v, git, r.failed⟩
  let s1 := r.toDelete.foldl stepDelete s0
  let s2 := r.toUpdate.foldl stepUpdate s1
  { s2 with failed := sortFailed s2.failed }

def isFailed (failed : List (Key × FailReason)) (k : Key) : Bool := failed.any (fun e => e.1 == k)

/-- `copy_exportable_local_bookmarks_to_remote_view(mut_repo, "git", not failed)` -/
def copyExportable (names : List Nat) (failed : List (Key × FailReason)) (v : View) : View :=
  let todo := names.filterMap (fun n =>
    let old := (v.remotes (n, 0)).target
    let new := v.locals n
    if !hasConflict new && old != new && !isFailed failed (n, 0) then some (n, new) else none)
  todo.foldl (fun v e => v.setRemote (e.1, 0) ⟨e.2, true⟩) v

def gitNames (keys : List Key) : List Nat := (keys.filter (fun k => k.2 == 0)).map (·.1)

/-- `export_refs` (bookmarks; `HEAD` detaching not modelled) -/
def exportRefs (root : Nat) (keys : List Key) (v : View) (git : Git) : ExportState :=
  let s := exportRefsToGit v git (diffRefsToExport root keys v)
  { s with view := copyExportable (gitNames keys) s.failed s.view }

/-! ### C45 — push -/

/-- `RefPushAction` -/
inductive PushAction where
  | update (before after : Option Nat)
  | alreadyMatches
  | localConflicted
  | remoteConflicted
  | remoteUntracked
  deriving DecidableEq, Repr

/-- `classify_ref_push_action` -/
def classifyPushAction (localTarget : Target) (r : RemoteRef) : PushAction :=
  let remoteTarget := r.trackedTarget
  if localTarget = remoteTarget then .alreadyMatches
  else if hasConflict localTarget then .localConflicted
  else if hasConflict remoteTarget then .remoteConflicted
  else if isPresent r.target && !r.tracked then .remoteUntracked
  else .update (asNormal remoteTarget) (asNormal localTarget)

/-- one entry of `GitPushRefTargets.bookmarks` = `GitRefUpdate` for `refs/heads/<name>`:
`before` is the expected position on the remote, `after` the position to push -/
structure PushUpdate where
  name : Nat
  before : Option Nat
  after : Option Nat
  deriving DecidableEq, Repr

/-- what the command line does for the selected bookmarks: every `Update` action becomes a push
update whose expected value is the tracked remote target; everything else is not pushed -/
def pushTargets (remote : Nat) (v : View) (names : List Nat) : List PushUpdate :=
  names.filterMap (fun n =>
    match classifyPushAction (v.locals n) (v.remotes (n, remote)) with
    | .update b a => some ⟨n, b, a⟩
    | _ => none)

/-- `RefToPush::to_git_lease`: `--force-with-lease=<ref>:<expected>`; `none` = "must not exist" -/
def lease (u : PushUpdate) : Nat × Option Nat := (u.name, u.before)

inductive PushStatus where
  | pushed
  | rejected
  deriving DecidableEq, Repr

/-- Assumption A7: what the remote does with one ref of
`git push --force-with-lease=<ref>:<expected> <new>:<ref>`: a ref already at the pushed position
is reported up to date (Git checks this before the lease); otherwise an atomic compare-and-swap
against the expected value. Returns the status and the new position of the remote ref. -/
def remoteCas (cur expected new : Option Nat) : PushStatus × Option Nat :=
  if new.isSome && cur = new then (.pushed, cur)
  else if cur = expected then (.pushed, new)
  else (.rejected, cur)

/-- state of a push in progress: the remote's branches, the local Git repo's refs, the statuses -/
structure PushRun where
  remoteRefs : Nat → Option Nat
  git : Git
  pushed : List Nat
  rejected : List Nat

/-- `git push` for one ref: the remote applies `remoteCas`; on success Git also moves the local
remote-tracking ref `refs/remotes/<remote>/<name>` -/
def pushOne (remote : Nat) (s : PushRun) (u : PushUpdate) : PushRun :=
  match remoteCas (s.remoteRefs u.name) (lease u).2 u.after with
  | (.pushed, pos) =>
    { s with remoteRefs := setAt s.remoteRefs u.name pos
             git := setAt s.git (u.name, remote) u.after
             pushed := s.pushed ++ [u.name] }
  | (.rejected, _) => { s with rejected := s.rejected ++ [u.name] }

/-- `push_updates` (the subprocess of `spawn_push`, per A7) -/
def pushUpdates (remote : Nat) (remoteRefs : Nat → Option Nat) (git : Git) (ups : List PushUpdate) : PushRun :=
  ups.foldl (pushOne remote) ⟨remoteRefs, git, [], []⟩

/-- `build_pushed_bookmarks_to_export` -/
def pushedToExport (remote : Nat) (ups : List PushUpdate) : RefsToExport :=
  { toUpdate := ups.filterMap (fun u => match u.after with
      | some c => some ((u.name, remote), (u.before, c)) | none => none)
    toDelete := ups.filterMap (fun u => match u.before, u.after with
      | some o, none => some ((u.name, remote), o) | _, _ => none)
    failed := [] }

structure PushResult where
  view : View
  git : Git
  remoteRefs : Nat → Option Nat
  pushed : List Nat
  rejected : List Nat
  unexported : List (Key × FailReason)

/-- `push_refs`: push, then record the new positions **of the pushed refs only**: in the local
Git repo / `git_refs` (`export_refs_to_git`) and in the remote-tracking bookmarks. -/
def pushRefs (remote : Nat) (v : View) (git : Git) (remoteRefs : Nat → Option Nat)
    (ups : List PushUpdate) : PushResult :=
  let run := pushUpdates remote remoteRefs git ups
  let pushedUps := ups.filter (fun u => run.pushed.contains u.name)
  let ex := exportRefsToGit v run.git (pushedToExport remote pushedUps)
  let recorded := pushedUps.filter (fun u => !isFailed ex.failed (u.name, remote))
  let v2 := recorded.foldl (fun v u => v.setRemote (u.name, remote) ⟨ofOpt u.after, true⟩) ex.view
  ⟨v2, ex.git, run.remoteRefs, run.pushed, run.rejected, ex.failed⟩

/-- `git fetch <remote>` with the default refspec and pruning: the local remote-tracking refs
become a copy of the remote's branches -/
def fetchGit (remote : Nat) (names : List Nat) (git : Git) (remoteRefs : Nat → Option Nat) : Git :=
  names.foldl (fun g n => setAt g (n, remote) (remoteRefs n)) git

end JjModel.GitSync
