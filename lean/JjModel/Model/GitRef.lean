/-!
  Model of the Git ref name ↔ jj symbol mapping in `/repo/lib/src/git.rs`.

  Strings are `List Char` (the Rust code uses `str::strip_prefix` / `str::split_once('/')`, which
  are char-level operations).  Constants are written as explicit character lists so that proofs
  can compute with them.
-/
namespace JjModel.GitRef

abbrev Str := List Char

/-- `"git"`: `REMOTE_NAME_FOR_LOCAL_GIT_REPO` -/
def gitRemote : Str := ['g', 'i', 't']
/-- `"HEAD"` -/
def headName : Str := ['H', 'E', 'A', 'D']
/-- `"refs/heads/"` -/
def refsHeads : Str := ['r', 'e', 'f', 's', '/', 'h', 'e', 'a', 'd', 's', '/']
/-- `"refs/remotes/"`: `REMOTE_BOOKMARK_REF_NAMESPACE` -/
def refsRemotes : Str := ['r', 'e', 'f', 's', '/', 'r', 'e', 'm', 'o', 't', 'e', 's', '/']
/-- `"refs/tags/"` -/
def refsTags : Str := ['r', 'e', 'f', 's', '/', 't', 'a', 'g', 's', '/']

/-- `enum GitRefKind` -/
inductive Kind where
  | bookmark | tag
  deriving DecidableEq, Repr

/-- `RemoteRefSymbol { name, remote }` -/
structure Symbol where
  name : Str
  remote : Str
  deriving DecidableEq, Repr

/-- `str::strip_prefix` -/
def stripPrefix : Str → Str → Option Str
  | [], s => some s
  | _ :: _, [] => none
  | p :: ps, c :: cs => if p = c then stripPrefix ps cs else none

/-- `str::split_once(c)`: split at the first occurrence of `c` -/
def splitOnce (c : Char) : Str → Option (Str × Str)
  | [] => none
  | x :: xs =>
    if x = c then some ([], xs)
    else match splitOnce c xs with
      | some (a, b) => some (x :: a, b)
      | none => none

/-- `pub fn parse_git_ref(full_name) -> Option<(GitRefKind, RemoteRefSymbol)>` -/
def parseGitRef (fullName : Str) : Option (Kind × Symbol) :=
  match stripPrefix refsHeads fullName with
  | some name =>
    if name = headName then none
    else some (.bookmark, ⟨name, gitRemote⟩)
  | none =>
    match stripPrefix refsRemotes fullName with
    | some remoteAndName =>
      match splitOnce '/' remoteAndName with
      | none => none
      | some (remote, name) =>
        if remote = gitRemote ∨ name = headName then none
        else some (.bookmark, ⟨name, remote⟩)
    | none =>
      match stripPrefix refsTags fullName with
      | some name => some (.tag, ⟨name, gitRemote⟩)
      | none => none

/-- `fn to_git_ref_name(kind, symbol) -> Option<GitRefNameBuf>` -/
def toGitRefName (kind : Kind) (symbol : Symbol) : Option Str :=
  let name := symbol.name
  let remote := symbol.remote
  if name = [] ∨ remote = [] then none
  else match kind with
    | .bookmark =>
      if name = headName then none
      else if remote = gitRemote then some (refsHeads ++ name)
      else some (refsRemotes ++ remote ++ '/' :: name)
    | .tag =>
      if remote = gitRemote then some (refsTags ++ name) else none

/-- result of `fn validate_remote_name` (`GitRemoteNameError` variants) -/
inductive RemoteNameCheck where
  | ok | invalidName | reserved | withSlash
  deriving DecidableEq, Repr

/-- `fn validate_remote_name(name)`.  The first check is `gix::remote::name::validated`, i.e. Git's
refspec/refname rules applied to `refs/remotes/<name>/test`; it is a parameter here
(`gixValid`).  The remaining checks are jj's own: reserved name `git`, no `/`. -/
def validateRemoteName (gixValid : Str → Bool) (name : Str) : RemoteNameCheck :=
  if ¬ gixValid name then .invalidName
  else if name = gitRemote then .reserved
  else if '/' ∈ name then .withSlash
  else .ok

/-- The part of Git's refname rules that matters for names over `[A-Za-z0-9_-]` and `/`:
no empty path component (so: non-empty, no leading/trailing/double `/`).  The driver uses this
as `gixValid`; the harness generates remote names over that alphabet only. -/
def noEmptyComponent : Str → Bool
  | [] => false
  | c :: cs => c ≠ '/' ∧ go c cs
where
  /-- `prev` is the previous character -/
  go (prev : Char) : Str → Bool
    | [] => prev ≠ '/'
    | c :: cs => if prev = '/' ∧ c = '/' then false else go c cs

end JjModel.GitRef
