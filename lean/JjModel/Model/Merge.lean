/-
  L1 — model of `lib/src/merge.rs` (`trivial_merge`, `Merge::simplify`,
  `get_simplified_mapping`, `update_from_simplified`, `flatten`).

  A `Merge α` is modelled as the `List α` of its interleaved terms
  (`values`): even positions are adds (sides), odd positions removes (bases).
  Import-free on purpose: the driver executable links this file.
-/
namespace JjModel.Merge

inductive SameChange where
  | keep
  | accept
  deriving DecidableEq, Repr

variable {α : Type} [DecidableEq α]

/-! ### signed counts (the specification vocabulary of C01/C02) -/

/-- `ind x v = 1` when `x = v`, else `0`. -/
def ind (x v : α) : Int := if x = v then 1 else 0

/-- Signed number of occurrences of `v`: `+1` per add (even index), `-1` per remove. -/
def count : List α → α → Int
  | [], _ => 0
  | [a], v => ind a v
  | a :: r :: rest, v => ind a v - ind r v + count rest v

/-- the adds (even positions) -/
def adds : List α → List α
  | [] => []
  | [a] => [a]
  | a :: _ :: rest => a :: adds rest

/-- the removes (odd positions) -/
def removes : List α → List α
  | [] => []
  | [_] => []
  | _ :: r :: rest => r :: removes rest

/-! ### `trivial_merge` -/

/-- `counts.entry(value).and_modify(|e| *e += n).or_insert(n)` on an association list.
New keys are appended, so the list is in first-occurrence order (the `HashMap` of the
source has *some* order; `Props/C02` proves the result does not depend on it). -/
def bump (v : α) (n : Int) : List (α × Int) → List (α × Int)
  | [] => [(v, n)]
  | (w, c) :: rest => if w = v then (w, c + n) :: rest else (w, c) :: bump v n rest

/-- the counting loop: `zip(values, [1,-1].cycle())` -/
def countsFrom : List α → Int → List (α × Int) → List (α × Int)
  | [], _, acc => acc
  | x :: xs, s, acc => countsFrom xs (-s) (bump x s acc)

def counts (vs : List α) : List (α × Int) := countsFrom vs 1 []

/-- Mirror of `trivial_merge`; the caller guarantees odd length (the source asserts it). -/
def trivialMerge (vs : List α) (sc : SameChange) : Option α :=
  match vs with
  | [a] => some a
  | [a0, r, a1] =>
    if a0 = a1 ∧ sc = .accept then some a0
    else if a0 = r then some a1
    else if a1 = r then some a0
    else none
  | _ =>
    match (counts vs).filter (fun e => e.2 != 0) with
    | [(v, _)] => some v
    | [(v1, c1), (v2, _)] =>
      if sc = .accept then (if c1 > 0 then some v1 else some v2) else none
    | _ => none

/-- The counting path alone (what the fast paths must agree with). -/
def trivialMergeGeneral (vs : List α) (sc : SameChange) : Option α :=
  match (counts vs).filter (fun e => e.2 != 0) with
  | [(v, _)] => some v
  | [(v1, c1), (v2, _)] =>
    if sc = .accept then (if c1 > 0 then some v1 else some v2) else none
  | _ => none

/-! ### `get_simplified_mapping`, literal mirror on the interleaved index vector -/

/-- `Vec::swap(i, j)` -/
def swapIdx (l : List Nat) (i j : Nat) : List Nat :=
  match l[i]?, l[j]? with
  | some x, some y => (l.set i y).set j x
  | _, _ => l

/-- first odd position `r` of `idx` (scanning 1,3,5,…) whose value equals `add` -/
def findRemove (vals : List α) (add : α) (idx : List Nat) (pos : Nat) : Option Nat :=
  match idx with
  | [] => none
  | [_] => none
  | _ :: r :: rest =>
    match vals[r]? with
    | some x => if x = add then some (pos + 1) else findRemove vals add rest (pos + 2)
    | none => findRemove vals add rest (pos + 2)

def mappingLoop (vals : List α) : Nat → List Nat → Nat → List Nat
  | 0, idx, _ => idx
  | fuel + 1, idx, addIndex =>
    if addIndex < idx.length then
      match idx[addIndex]? >>= (vals[·]?) with
      | none => idx
      | some add =>
        match findRemove vals add idx 0 with
        | some r =>
          let idx' := ((swapIdx idx (r + 1) addIndex).eraseIdx r).eraseIdx r
          mappingLoop vals fuel idx' addIndex
        | none => mappingLoop vals fuel idx (addIndex + 2)
    else idx

/-- `get_simplified_mapping` (fuel `len + 1`: every iteration removes two entries or advances
`add_index` by two, so at most `len/2 + len/2 + 1` iterations happen). -/
def simplifiedMapping (vals : List α) : List Nat :=
  mappingLoop vals (vals.length + 1) (List.range vals.length) 0

def applyMapping (vals : List α) (m : List Nat) : List α :=
  m.filterMap (vals[·]?)

def simplify (vals : List α) : List α := applyMapping vals (simplifiedMapping vals)

/-- `update_from_simplified`: `none` where the source's `assert_eq!` on lengths would fire. -/
def updateFromSimplified (vals simplified : List α) : Option (List α) :=
  let m := simplifiedMapping vals
  if m.length = simplified.length then
    some ((m.zip simplified).foldl (fun acc p => acc.set p.1 p.2) vals)
  else none

/-! ### `flatten` -/

/-- `rotate_left(1)` then swap each pair `(2i, 2i+1)`:
`[r0, x1, r1, x2, r2] ↦ [x1, r0, x2, r1, …, rlast]` i.e. removes' adds become removes. -/
def swapPairs : List α → List α
  | a :: b :: rest => b :: a :: swapPairs rest
  | l => l

def negateTerm (t : List α) : List α :=
  match t with
  | [] => []
  | x :: rest => swapPairs (rest ++ [x])

/-- `Merge<Merge<T>>::flatten`; outer list alternates add / remove terms. -/
def flattenFrom : List α → List (List α) → List α
  | acc, [] => acc
  | acc, [r] => acc ++ negateTerm r      -- malformed (even outer arity): source would panic
  | acc, r :: a :: rest => flattenFrom (acc ++ negateTerm r ++ a) rest

def flatten : List (List α) → List α
  | [] => []
  | first :: rest => flattenFrom first rest

end JjModel.Merge
