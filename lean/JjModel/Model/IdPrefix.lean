import JjModel.Model.Index
/-
  Model of id-prefix resolution:
  `lib/src/default_index/composite.rs` (`shortest_unique_commit_id_prefix_len`,
  `resolve_neighbor_commit_ids`, `resolve_commit_id_prefix`, the change-id equivalents,
  `resolve_change_targets_for_positions`), the per-segment lookups of `readonly.rs`
  (`PositionLookupResult::{neighbors, prefix_matches}` on the sorted lookup table) and
  `mutable.rs` (`resolve_neighbor_ids`, `resolve_id_prefix` on the `BTreeMap`), `bit_set.rs`
  (`AncestorsBitSet`), `core/src/hex_util.rs` (`common_hex_len`), `lib/src/object_id.rs`
  (`HexPrefix::matches`, `PrefixResolution::plus`) and `lib/src/id_prefix.rs`
  (`IdPrefixIndex`, `disambiguate_prefix_with_refs`).

  An id is the list of its hexadecimal digits (most significant first).  Byte-wise `Ord` on ids
  is the lexicographic order on digit lists.  A `HexPrefix` is a digit list too;
  `min_prefix_bytes` pads an odd prefix with a `0` digit.

  Both kinds of segment keep their ids in a sorted table (`BTreeMap` keys / the sorted lookup
  table found by binary search); the model sorts the segment's ids and scans: `lowerBound` is the
  position the binary search (`Err(low)` / `Ok(mid)`) and `BTreeMap::range` start from.
-/
namespace JjModel.IdPrefix
open JjModel.Index

abbrev Id := List Nat

/-- `hex_util::common_hex_len` -/
def commonLen : Id → Id → Nat
  | a :: as, b :: bs => if a = b then commonLen as bs + 1 else 0
  | _, _ => 0

/-- byte-wise `Ord` of ids / of an id against `min_prefix_bytes` -/
def idLt : Id → Id → Bool
  | [], [] => false
  | [], _ :: _ => true
  | _ :: _, [] => false
  | a :: as, b :: bs => if a < b then true else if a = b then idLt as bs else false

/-- `HexPrefix::matches` -/
def matchesPrefix : Id → Id → Bool
  | [], _ => true
  | _ :: _, [] => false
  | p :: ps, a :: as => p == a && matchesPrefix ps as

/-- `HexPrefix::min_prefix_bytes`: an odd prefix is padded with a zero digit -/
def padEven (p : Id) : Id := if p.length % 2 = 1 then p ++ [0] else p

inductive Resolution (α : Type) where
  | noMatch
  | single (x : α)
  | ambiguous
  deriving DecidableEq, Repr

/-- `PrefixResolution::plus` -/
def Resolution.plus {α : Type} : Resolution α → Resolution α → Resolution α
  | .noMatch, other => other
  | s, .noMatch => s
  | .ambiguous, _ => .ambiguous
  | _, .ambiguous => .ambiguous
  | .single _, .single _ => .ambiguous

/-! ### one segment: sorted table of ids -/

/-- insertion into the sorted table (a key is stored once) -/
def insertId (x : Id) : List Id → List Id
  | [] => [x]
  | y :: ys => if idLt x y then x :: y :: ys else if x = y then y :: ys else y :: insertId x ys

/-- the sorted lookup table of a segment (`commit_lookup` keys / the lookup table of the file) -/
def sortIds (l : List Id) : List Id := l.foldr insertId []

/-- number of table entries smaller than `key` (specification of the position the binary search
returns and of where `BTreeMap::range(key..)` starts) -/
def lowerBound : List Id → Id → Nat
  | [], _ => 0
  | x :: xs, key => if idLt x key then lowerBound xs key + 1 else 0

/-- `binary_search_pos_by` of `readonly.rs` on the sorted lookup table: `(found, pos)` is
`Ok(pos)` / `Err(pos)`.  (The `BTreeMap` of the mutable segment answers `range` queries with the
same position; `Lemmas/IdPrefix` proves `pos = lowerBound` on a sorted table.) -/
def bsearch (tbl : List Id) (key : Id) : Nat → Nat → Nat → Bool × Nat
  | 0, low, _ => (false, low)
  | fuel + 1, low, high =>
    if low < high then
      let mid := (low + high) / 2
      match tbl[mid]? with
      | none => (false, low)
      | some x =>
        if idLt x key then bsearch tbl key fuel (mid + 1) high
        else if x = key then (true, mid)
        else bsearch tbl key fuel low mid
    else (false, low)

def lookupPos (tbl : List Id) (key : Id) : Bool × Nat := bsearch tbl key (tbl.length + 1) 0 tbl.length

/-- `PositionLookupResult::neighbors` + `map_neighbors` (`resolve_neighbor_ids` on a `BTreeMap`) -/
def neighborsIn (tbl : List Id) (key : Id) : Option Id × Option Id :=
  let r := lookupPos tbl key
  let pos := r.2
  let prev := if pos = 0 then none else tbl[pos - 1]?
  let next := if r.1 then tbl[pos + 1]? else tbl[pos]?
  (prev, next)

/-- `PositionLookupResult::prefix_matches` / `resolve_id_prefix`: scan from the position found for
`min_prefix_bytes` while the prefix matches -/
def prefixMatches (tbl : List Id) (p : Id) : Resolution Id :=
  match ((tbl.drop (lookupPos tbl (padEven p)).2).takeWhile (matchesPrefix p)) with
  | [] => .noMatch
  | [x] => .single x
  | _ => .ambiguous

/-! ### the composite index -/

/-- one index segment: ids of its local positions -/
structure Seg where
  numParent : Nat
  commits : List Id
  changes : List Id
  deriving Repr

def maxId : Option Id → Option Id → Option Id
  | none, b => b
  | a, none => a
  | some a, some b => if idLt a b then some b else some a

def minId : Option Id → Option Id → Option Id
  | none, b => b
  | a, none => a
  | some a, some b => if idLt b a then some b else some a

/-- `resolve_neighbor_commit_ids` / `resolve_neighbor_change_ids`: per-segment neighbours reduced
with `max` of the previous and `min` of the next ids; `tables` = the sorted tables child first -/
def resolveNeighbors (tables : List (List Id)) (key : Id) : Option Id × Option Id :=
  tables.foldl (fun acc tbl =>
    let n := neighborsIn tbl key
    (maxId acc.1 n.1, minId acc.2 n.2)) (none, none)

/-- `shortest_unique_commit_id_prefix_len` / `shortest_unique_change_id_prefix_len` -/
def shortestLen (tables : List (List Id)) (key : Id) : Nat :=
  match resolveNeighbors tables key with
  | (none, none) => 0
  | (some p, none) => commonLen key p + 1
  | (none, some n) => commonLen key n + 1
  | (some p, some n) => max (commonLen key p + 1) (commonLen key n + 1)

/-- `resolve_commit_id_prefix`: `plus` over the segments, stopping at the first ambiguity -/
def resolvePrefix (tables : List (List Id)) (p : Id) : Resolution Id :=
  tables.foldl (fun acc tbl => if acc = .ambiguous then acc else acc.plus (prefixMatches tbl p)) .noMatch

/-- cut id lists given in global position order into segments of the given local sizes (oldest
first); the result lists the segments child first, as `ancestor_index_segments` does -/
def mkSegs (commits : Bool) : List Nat → List Id → Nat → List Seg → List Seg
  | [], _, _, acc => acc
  | n :: ns, ids, start, acc =>
    let own := ids.take n
    mkSegs commits ns (ids.drop n) (start + n)
      ({ numParent := start, commits := if commits then own else [], changes := if commits then [] else own } :: acc)

def commitTables (segs : List Seg) : List (List Id) := segs.map fun s => sortIds s.commits
def changeTables (segs : List Seg) : List (List Id) := segs.map fun s => sortIds s.changes

def hasId (tables : List (List Id)) (id : Id) : Bool := tables.any fun t => t.contains id

/-! ### change ids: positions and visibility -/

/-- local positions (ascending) of the commits of a segment that carry change id `c` -/
def localPositions (changes : List Id) (c : Id) : List Nat :=
  (List.range changes.length).filter fun i => changes[i]? == some c

/-- per-segment `resolve_change_id_prefix` -/
def segResolveChange (s : Seg) (p : Id) : Resolution (Id × List Nat) :=
  match prefixMatches (sortIds s.changes) p with
  | .noMatch => .noMatch
  | .ambiguous => .ambiguous
  | .single c => .single (c, localPositions s.changes c)

/-- composite `resolve_change_id_prefix`: matches of the same id are merged, positions descending -/
def resolveChangePrefix (segs : List Seg) (p : Id) : Resolution (Id × List Nat) :=
  segs.foldl (fun acc s =>
    if acc = .ambiguous then acc else
    let toGlobal := fun (l : List Nat) => l.reverse.map (· + s.numParent)
    match acc, segResolveChange s p with
    | .noMatch, .single (c, ps) => .single (c, toGlobal ps)
    | .noMatch, other => other
    | acc, .noMatch => acc
    | .ambiguous, _ => .ambiguous
    | _, .ambiguous => .ambiguous
    | .single (c1, acc), .single (c2, ps) =>
      if c1 = c2 then .single (c1, acc ++ toGlobal ps) else .ambiguous) .noMatch

/-- `AncestorsBitSet` after `add_head` of every head and `visit_until(0)`: positions are visited
from high to low; a set position marks its parents. -/
def sweep (idx : Index) : Nat → List Nat → List Nat
  | 0, marked => marked
  | p + 1, marked => if marked.contains p then sweep idx p (parentsOf idx p ++ marked) else sweep idx p marked

def reachableSet (idx : Index) (heads : List Nat) : List Nat := sweep idx idx.length heads

/-- `ChangeIdIndexImpl::resolve_prefix`: positions with their visibility flag -/
def resolveChangeTargets (idx : Index) (heads : List Nat) (segs : List Seg) (p : Id) :
    Resolution (List (Nat × Bool)) :=
  match resolveChangePrefix segs p with
  | .noMatch => .noMatch
  | .ambiguous => .ambiguous
  | .single (_, ps) =>
    let r := reachableSet idx heads
    .single (ps.map fun q => (q, r.contains q))

/-! ### `IdPrefixIndex`: the disambiguation index in front of the repo-wide index -/

/-- the first `N = 4` bytes of a key (`unwrap_as_short_key`) -/
def shortKey (k : Id) : Id := k.take 8

/-- `IdIndexBuilder::build`: the entries sorted by short key.  (`sort_unstable_by_key` leaves the
order of entries with equal short keys open; `Props/C20` shows no answer depends on it.) -/
def insertByShort (k : Id) : List Id → List Id
  | [] => [k]
  | y :: ys => if idLt (shortKey y) (shortKey k) then y :: insertByShort k ys else k :: y :: ys

def idIndexBuild (keys : List Id) : List Id := keys.foldr insertByShort []

/-- `index.partition_point(|(s, _)| s < bound)` on the table sorted by short key -/
def partitionPoint (index : List Id) (bound : Id) : Nat :=
  (index.takeWhile fun k => idLt (shortKey k) bound).length

/-- the inner `collect` of `resolve_prefix_with`: the first key, if every other scanned entry has
the same key -/
def collect : List Id → Resolution Id
  | [] => .noMatch
  | k :: rest => if rest.all (· == k) then .single k else .ambiguous

/-- `IdIndex::resolve_prefix_to_key` on the sorted short-key table -/
def idIndexResolveT (index : List Id) (p : Id) : Resolution Id :=
  let minBytes := padEven p
  if minBytes = [] then .ambiguous
  else if minBytes.length > 8 then
    -- the prefix is longer than the short key: take the chunk with that short key, then filter
    let sb := minBytes.take 8
    let pos := partitionPoint index sb
    collect (((index.drop pos).takeWhile fun k => shortKey k = sb).filter (matchesPrefix p))
  else
    let pos := partitionPoint index minBytes
    collect ((index.drop pos).takeWhile (matchesPrefix p))

/-- `lookup_exact(..).map(IdIndexLookup::shortest_unique_prefix_len)`: the left and right
neighbours of the chunk are compared by *short* key, the entries of the chunk by full key; at
least one digit -/
def idIndexShortestT (index : List Id) (key : Id) : Option Nat :=
  let sk := shortKey key
  let pos := partitionPoint index sk
  let chunk := (index.drop pos).takeWhile fun k => shortKey k = sk
  if chunk.contains key then
    let left := if pos = 0 then none else index[pos - 1]?
    let right := index[pos + chunk.length]?
    let neighborLens := (left.toList ++ right.toList).map fun k => commonLen (shortKey k) sk + 1
    let currentLens := (chunk.filter (· != key)).map fun k => commonLen k key + 1
    some ((neighborLens ++ currentLens).foldl max 1)
  else none

/-- set-level specification of `resolve_prefix_to_key` (what `Props/C20` reasons with): the
empty prefix is ambiguous, otherwise `collect` on the matching keys -/
def idIndexResolveSpec (keys : List Id) (p : Id) : Resolution Id :=
  if p = [] then .ambiguous else collect (keys.filter (matchesPrefix p))

/-- set-level specification of the shortest length in the disambiguation set -/
def idIndexShortestSpec (keys : List Id) (key : Id) : Option Nat :=
  if keys.contains key then
    some (((keys.filter (· != key)).map fun k => commonLen key k + 1).foldl max 1)
  else none

/-- the disambiguation index of a key list -/
def idIndexResolve (keys : List Id) (p : Id) : Resolution Id := idIndexResolveT (idIndexBuild keys) p
def idIndexShortest (keys : List Id) (key : Id) : Option Nat := idIndexShortestT (idIndexBuild keys) key

/-- `IdPrefixIndex::resolve_commit_prefix` -/
def resolveCommitWithin (dis : Option (List Id)) (tables : List (List Id)) (p : Id) : Resolution Id :=
  match dis with
  | none => resolvePrefix tables p
  | some keys =>
    match idIndexResolve keys p with
    | .noMatch => resolvePrefix tables p
    | .single id => if hasId tables id then .single id else .noMatch
    | .ambiguous => .ambiguous

/-- `shortest_commit_prefix_len_exact` / `shortest_change_prefix_len_exact` -/
def shortestWithin (dis : Option (List Id)) (tables : List (List Id)) (key : Id) : Nat :=
  match dis with
  | none => shortestLen tables key
  | some keys =>
    match idIndexShortest keys key with
    | some l => l
    | none => shortestLen tables key

/-- `IdPrefixIndex::resolve_change_prefix`: a single match in the disambiguation set is resolved
as the *full* change id in the repo -/
def resolveChangeWithin (dis : Option (List Id)) (idx : Index) (heads : List Nat) (segs : List Seg) (p : Id) :
    Resolution (List (Nat × Bool)) :=
  match dis with
  | none => resolveChangeTargets idx heads segs p
  | some keys =>
    match idIndexResolve keys p with
    | .noMatch => resolveChangeTargets idx heads segs p
    | .single c => resolveChangeTargets idx heads segs c
    | .ambiguous => .ambiguous

/-- `disambiguate_prefix_with_refs`: the first length `≥ minLen` whose prefix is not the name of a
local tag or bookmark (`refs` = those names, as digit lists) -/
def disambiguateWithRefs (refs : List Id) (sym : Id) (minLen : Nat) : Nat :=
  match (List.range sym.length).find? (fun n => minLen ≤ n && !refs.contains (sym.take n)) with
  | some n => n
  | none => sym.length

end JjModel.IdPrefix
