import JjModel.Model.Merge
/-
  L4 — model of `lib/src/refs.rs`: `merge_ref_targets`, `merge_ref_targets_non_trivial`,
  `find_pair_to_remove`, and of `Merge::swap_remove` (`lib/src/merge.rs`).

  A `RefTarget` (`Merge<Option<CommitId>>`) is the `List (Option Nat)` of its interleaved terms:
  even positions adds, odd positions removes, `none` = absent.  Commit ids are natural numbers.
  The index is an arbitrary ancestry test `anc : Nat → Nat → Bool` (`anc a b` = "`a` is an
  ancestor of `b`", reflexive in the real index).  The driver instantiates it with `isAncestor`
  of an explicit parents table; the theorems of `Props/C12` quantify over every `anc`.
  Import-free apart from `Model.Merge` (the driver executable links this file).
-/
namespace JjModel.Refs
open JjModel.Merge

abbrev Target := List (Option Nat)

/-! ### ancestry from an explicit DAG (driver instantiation of the index) -/

/-- `parents[i]` = parents of commit `i`.  Fuelled reachability search towards the parents;
fuel `dag.length + 1` suffices for every acyclic table (each step follows a parent edge). -/
def isAncestorFuel (dag : List (List Nat)) : Nat → Nat → Nat → Bool
  | 0, a, b => a == b
  | fuel + 1, a, b => a == b || (dag.getD b []).any (fun p => isAncestorFuel dag fuel a p)

def isAncestor (dag : List (List Nat)) (a b : Nat) : Bool :=
  isAncestorFuel dag (dag.length + 1) a b

/-! ### `Merge::swap_remove` -/

/-- `Vec::swap_remove(i)`: the last element takes the place of element `i`.
(The source panics for `i ≥ len`; callers below only pass valid positions.) -/
def vecSwapRemove {α : Type} (l : List α) (i : Nat) : List α :=
  match l.getLast? with
  | none => l
  | some last => (l.set i last).dropLast

/-- `Merge::swap_remove(remove_index, add_index)`:
`values.swap_remove(add_index * 2)` then `values.swap_remove(remove_index * 2 + 1)`. -/
def swapRemove {α : Type} (m : List α) (removeIndex addIndex : Nat) : List α :=
  vecSwapRemove (vecSwapRemove m (addIndex * 2)) (removeIndex * 2 + 1)

/-! ### `find_pair_to_remove` -/

/-- the `match (add1, add2)` of the inner loop body: which add is the candidate for removal -/
def pickAdd (anc : Nat → Nat → Bool) (i1 i2 : Nat) (a1 a2 : Option Nat) : Option (Nat × Nat) :=
  match a1, a2 with
  | some id1, some id2 =>
    if id1 = id2 then some (i1, id1)
    else if anc id1 id2 then some (i1, id1)
    else if anc id2 id1 then some (i2, id2)
    else none
  | _, _ => none

/-- the predicate of `fallible_position(conflict.removes(), …)` -/
def removeOk (anc : Nat → Nat → Bool) (addId : Nat) : Option Nat → Bool
  | some id => anc id addId
  | none => true          -- "Absent ref can be considered a root"

/-- `position` -/
def position {α : Type} (p : α → Bool) : List α → Nat → Option Nat
  | [], _ => none
  | x :: xs, i => if p x then some i else position p xs (i + 1)

/-- inner `for (add_index2, add2) in adds.enumerate().skip(add_index1 + 1)` -/
def innerLoop (anc : Nat → Nat → Bool) (rems : Target) (i1 : Nat) (a1 : Option Nat) :
    List (Option Nat) → Nat → Option (Nat × Nat)
  | [], _ => none
  | a2 :: rest, i2 =>
    match pickAdd anc i1 i2 a1 a2 with
    | some (addIndex, addId) =>
      match position (removeOk anc addId) rems 0 with
      | some removeIndex => some (removeIndex, addIndex)
      | none => innerLoop anc rems i1 a1 rest (i2 + 1)
    | none => innerLoop anc rems i1 a1 rest (i2 + 1)

/-- outer `for (add_index1, add1) in adds.enumerate()` -/
def outerLoop (anc : Nat → Nat → Bool) (rems : Target) : List (Option Nat) → Nat → Option (Nat × Nat)
  | [], _ => none
  | a1 :: rest, i1 =>
    match innerLoop anc rems i1 a1 rest (i1 + 1) with
    | some p => some p
    | none => outerLoop anc rems rest (i1 + 1)

/-- `find_pair_to_remove`: `(remove_index, add_index)` -/
def findPairToRemove (anc : Nat → Nat → Bool) (m : Target) : Option (Nat × Nat) :=
  outerLoop anc (removes m) (adds m) 0

/-! ### `merge_ref_targets_non_trivial` and `merge_ref_targets` -/

/-- the `while let Some(..) = find_pair_to_remove(..)` loop; `Props/C12.fuel_enough` shows that
fuel `m.length` reaches the fixpoint (every iteration removes two terms). -/
def nonTrivialLoop (anc : Nat → Nat → Bool) : Nat → Target → Target
  | 0, m => m
  | fuel + 1, m =>
    match findPairToRemove anc m with
    | some (ri, ai) => nonTrivialLoop anc fuel (swapRemove m ri ai)
    | none => m

def mergeRefTargetsNonTrivial (anc : Nat → Nat → Bool) (m : Target) : Target :=
  nonTrivialLoop anc m.length m

/-- `merge_ref_targets(index, left, base, right)` -/
def mergeRefTargets (anc : Nat → Nat → Bool) (left base right : Target) : Target :=
  match trivialMerge [left, base, right] .accept with
  | some resolved => resolved
  | none =>
    let merge := simplify (flatten [left, base, right])
    match trivialMerge merge .accept with
    | some resolved => [resolved]
    | none => mergeRefTargetsNonTrivial anc merge

end JjModel.Refs
