import JjModel.Model.Merge
import JjModel.Model.Conflicts
/-
  L2 — model of `lib/src/conflicts.rs::update_from_content` over a content-addressed store.

  A `FileId` *is* the file's content (`Option Bytes`, `none` = absent side): the test backend hashes
  the bytes, so two ids are equal iff the contents are.  `store.write_file(content)` is `some content`,
  `get_file_contents(None)` is the empty string.

  `files::merge_hunks(old_contents, store.merge_options())` is C04's subject; its result for the
  (simplified) old contents is a *parameter* (`old`) computed by the harness with the real function.
-/
namespace JjModel.Conflicts
open JjModel.Merge

/-- `files::MergeResult` -/
inductive MergeResult where
  | resolved (content : Bytes)
  | conflict (hunks : List (List Bytes))
  deriving DecidableEq, Repr

abbrev FileId := Option Bytes

/-- the new content of side `i`: resolved hunks go to every side, term `i` of the others
(`zip(&mut contents, hunk)`: nothing when the hunk has no term `i`) -/
def sideContent (hunks : List (List Bytes)) (i : Nat) : Bytes :=
  (hunks.map fun h => match h with
    | [c] => c
    | _ => h.getD i []).flatten

/-- ids of the re-written sides: an absent side stays absent iff its new content is empty -/
def newIdsFrom (hunks : List (List Bytes)) : Nat → List FileId → List FileId
  | _, [] => []
  | i, id :: rest =>
    let c := sideContent hunks i
    (if id.isSome || !c.isEmpty then some c else none) :: newIdsFrom hunks (i + 1) rest

/-- `update_from_content`; `none` = the `assert_eq!` of `update_from_simplified` would fire -/
def updateFromContent (old : MergeResult) (fileIds : List FileId) (content : Bytes)
    (markerLen : Nat) : Option (List FileId) :=
  let simplified := simplify fileIds
  let newHunks := parseConflict content (simplified.length / 2 + 1) markerLen
  let unchanged : Bool :=
    match old, newHunks with
    | .resolved o, none => o = content
    | .conflict o, some n => o = n
    | _, _ => false
  if unchanged then some fileIds
  else
    match newHunks with
    | none => some [some content]
    | some hunks =>
      let newIds := newIdsFrom hunks 0 simplified
      if newIds.length ≠ fileIds.length then updateFromSimplified fileIds newIds else some newIds

end JjModel.Conflicts
