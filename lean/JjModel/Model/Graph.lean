import JjModel.Model.Dag
/-!
  Model of the log-graph edge computation, `lib/src/default_index/revset_graph_iterator.rs`
  (`RevsetGraphWalk`) with `lib/src/graph.rs` (`GraphEdge`, `GraphEdgeType`).

  Input: the commit DAG `G` (by index position), the set `S` of shown commits, and the flag
  `skip_transitive_edges`.  Output: the nodes of `S` in descending position order, each with its
  edge list, in the order the implementation emits them.

  Abstraction (justified in notes/C39.md and exercised by the correspondence check):
  * the look-ahead / `consume_to` machinery is set membership (`look_ahead.binary_search(p).is_ok()`
    ⇔ `p ∈ S`, because `consume_to(p)` has consumed every element of `S` that is `≥ p`);
  * the shortcut `parent_position < self.min_position ⇒ missing(parent)` equals the recursive
    computation (no ancestor of such a parent is in `S`);
  * the explicit stack of `edges_from_external_commit` and the `edges` cache are a bottom-up memo
    table over positions;
  * the DFS of `remove_transitive_edges` (bounded by `min_pos` / `min_generation`, mixing cached
    simplified edges and raw parents) is "target is a proper ancestor of another non-missing target".
-/
namespace JjModel.Graph
open JjModel.Dag

/-- `GraphEdgeType` -/
inductive Kind | direct | indirect | missing
deriving Repr, DecidableEq

/-- `GraphEdge<GlobalCommitPosition>` -/
structure Edge where
  target : Nat
  kind : Kind
deriving Repr, DecidableEq

def Edge.isMissing (e : Edge) : Bool := e.kind == .missing
def Edge.isIndirect (e : Edge) : Bool := e.kind == .indirect

/-- `edges.iter().all(|edge| edge.is_missing())` (true for the empty list) -/
def allMissing (es : List Edge) : Bool := es.all Edge.isMissing

/-- `edges.extend(parent_edges.iter().filter(|edge| !known_ancestors.get_set(edge.target)))`:
returns the updated `known_ancestors` and the edges that pass the filter -/
def dedupInto (known : List Nat) : List Edge → List Nat × List Edge
  | [] => (known, [])
  | e :: es =>
    if known.contains e.target then dedupInto known es
    else
      let r := dedupInto (e.target :: known) es
      (r.1, e :: r.2)

/-- what one parent contributes: `(filtered through known_ancestors?, edges)` -/
abbrev Part := Bool × List Edge

/-- the `for parent in parent_entries` loop of the multi-parent branch -/
def mergeParts : List Nat → List Part → List Edge
  | _, [] => []
  | known, (false, es) :: rest => es ++ mergeParts known rest
  | known, (true, es) :: rest =>
    let r := dedupInto known es
    r.2 ++ mergeParts r.1 rest

/-- `reachable_positions(edges)`: targets of the non-missing edges -/
def reachableTargets (es : List Edge) : List Nat := (es.filter fun e => !e.isMissing).map (·.target)

/-- `remove_transitive_edges` -/
def removeTransitive (A : List (List Nat)) (es : List Edge) : List Edge :=
  if !(es.any Edge.isIndirect) then es
  else
    let ts := reachableTargets es
    es.filter fun e => e.isMissing || !(ts.any fun t => t != e.target && isAnc A e.target t)

/-- contribution of parent `p`; `inKind` = `direct` for a shown commit, `indirect` while walking
external commits; `ext` = edges of the external commits computed so far -/
def partOf (S : List Nat) (inKind : Kind) (ext : List (List Edge)) (p : Nat) : Part :=
  if S.contains p then (false, [⟨p, inKind⟩])
  else
    let pe := ext.getD p []
    if allMissing pe then (false, [⟨p, .missing⟩]) else (true, pe)

/-- `new_edges_from_internal_commit` (`inKind = direct`) and the body of the loop of
`edges_from_external_commit` (`inKind = indirect`) -/
def combine (A : List (List Nat)) (S : List Nat) (skipT : Bool) (inKind : Kind)
    (ext : List (List Edge)) (ps : List Nat) : List Edge :=
  match ps with
  | [p] => (partOf S inKind ext p).2
  | _ =>
    let es := mergeParts [] (ps.map (partOf S inKind ext))
    if skipT then removeTransitive A es else es

/-- `self.edges`: edges of every commit seen as an external commit -/
def extTable (G : Graph) (A : List (List Nat)) (S : List Nat) (skipT : Bool) : List (List Edge) :=
  memo (fun t i => combine A S skipT .indirect t (parents G i)) G.length

/-- edges of the shown commit `c` -/
def nodeEdges (G : Graph) (A : List (List Nat)) (S : List Nat) (skipT : Bool)
    (ext : List (List Edge)) (c : Nat) : List Edge :=
  combine A S skipT .direct ext (parents G c)

/-- the whole stream `(commit, edges)` in emission order -/
def graphOf (G : Graph) (S : List Nat) (skipT : Bool) : List (Nat × List Edge) :=
  let A := ancTable G
  let ext := extTable G A S skipT
  (descFilter G.length fun c => S.contains c).map fun c => (c, nodeEdges G A S skipT ext c)

end JjModel.Graph
