/-!
  Model of `/repo/lib/src/evolution.rs` (`walk_predecessors`) for C46.

  * commits are natural numbers (the harness numbers real commits in creation order);
  * an operation is its `commit_predecessors` field: `none` for an operation written by an old jj
    (`stores_commit_predecessors() == false`), `some m` with `m` an association list
    `new commit ↦ predecessors` (a `BTreeMap` in Rust; only looked up by key, so the entry order is
    irrelevant for the walk);
  * the operation log is the list of operations **in the order produced by
    `op_walk::walk_ancestors`** (newest first, every operation before its parents).  The harness
    takes that order from the real `walk_ancestors`, so the model does not re-implement the
    timestamp heuristic of `dag_walk_async::topo_order_reverse_lazy`.

  Everything here is core-only Lean (the driver executable links this file).
-/
namespace JjModel.Evolution

/-- `op_store::Operation::commit_predecessors` of one operation, as an association list. -/
abbrev PMap := List (Nat × List Nat)

/-- `Operation::predecessors_for_commit` on a map that is present. -/
def PMap.get (m : PMap) (c : Nat) : Option (List Nat) := List.lookup c m

/-- Is `c` a key (a commit created/rewritten by this operation)? -/
def PMap.isKey (m : PMap) (c : Nat) : Bool := (m.get c).isSome

/-- neighbours used by both topological sorts: recorded predecessors, nothing for other commits
(`op.predecessors_for_commit(id).into_iter().flatten()`) -/
def PMap.nbrs (m : PMap) (c : Nat) : List Nat := (m.get c).getD []

/-- entries of `m` whose key is not in `seen`: the termination measure of both loops -/
def free : PMap → List Nat → Nat
  | [], _ => 0
  | e :: m, seen => (if e.1 ∈ seen then 0 else 1) + free m seen

theorem free_mono (m : PMap) (s t : List Nat) (h : ∀ x, x ∈ s → x ∈ t) : free m t ≤ free m s := by
  induction m with
  | nil => simp [free]
  | cons e m ih =>
    simp only [free]
    by_cases hs : e.1 ∈ s
    · have ht := h _ hs
      simp only [hs, ht, if_true]; omega
    · by_cases ht : e.1 ∈ t <;> simp only [hs, ht, if_true, if_false] <;> omega

theorem free_lt (m : PMap) (s t : List Nat) (c : Nat) (ps : List Nat)
    (hget : m.get c = some ps) (hc : c ∉ s) (hct : c ∈ t) (h : ∀ x, x ∈ s → x ∈ t) :
    free m t < free m s := by
  unfold PMap.get at hget
  induction m with
  | nil => simp [List.lookup] at hget
  | cons e m ih =>
    obtain ⟨k, v⟩ := e
    simp only [free]
    by_cases hk : c = k
    · subst hk
      have := free_mono m s t h
      simp only [hc, hct, if_true, if_false]; omega
    · have hget' : List.lookup c m = some ps := by
        simp only [List.lookup] at hget
        have : (c == k) = false := by simp [hk]
        simpa [this] using hget
      have ih' := ih hget'
      by_cases hs : k ∈ s
      · have ht := h _ hs
        simp only [hs, ht, if_true]; omega
      · by_cases ht : k ∈ t <;> simp only [hs, ht, if_true, if_false] <;> omega

theorem lex_le_lt {a₁ a₂ b₁ b₂ : Nat} (h₁ : a₁ ≤ a₂) (h₂ : b₁ < b₂) :
    Prod.Lex (· < ·) (· < ·) (a₁, b₁) (a₂, b₂) := by
  rcases Nat.lt_or_eq_of_le h₁ with h | h
  · exact Prod.Lex.left _ _ h
  · subst h; exact Prod.Lex.right _ h₂

/-! ### `visit_op`: the splice loop -/

/-- The `while let Some(cur_id) = self.to_visit.get(i)` loop of `WalkPredecessors::visit_op`.
`done` is `to_visit[..i]`, `rest` is `to_visit[i..]`.  Returns the new `to_visit`, `to_emit`
(in discovery order) and `has_dup`. -/
def spliceLoop (m : PMap) (done rest toEmit : List Nat) (dup : Bool) :
    List Nat × List Nat × Bool :=
  match rest with
  | [] => (done, toEmit, dup)
  | c :: rest' =>
    match h : m.get c with
    | none => spliceLoop m (done ++ [c]) rest' toEmit dup          -- `i += 1`
    | some next =>
      if hc : c ∈ toEmit then
        spliceLoop m done rest' toEmit true                          -- `remove(i); has_dup = true`
      else
        spliceLoop m done (next ++ rest') (toEmit ++ [c]) dup        -- `splice(i..=i, next_ids)`
termination_by (free m toEmit, rest.length)
decreasing_by
  · exact Prod.Lex.right _ (by simp)
  · exact Prod.Lex.right _ (by simp)
  · exact Prod.Lex.left _ _ (free_lt m toEmit (toEmit ++ [c]) c next h hc (by simp)
      (fun x hx => by simp [hx]))

/-! ### `dag_walk::topo_order_forward_ok` -/

/-- weight of the explicit DFS stack (an unexpanded node will be popped at most twice) -/
def stackWeight : List (Nat × Bool) → Nat
  | [] => 0
  | (_, false) :: s => 2 + stackWeight s
  | (_, true) :: s => 1 + stackWeight s

theorem stackWeight_append (a b : List (Nat × Bool)) :
    stackWeight (a ++ b) = stackWeight a + stackWeight b := by
  induction a with
  | nil => simp [stackWeight]
  | cons e a ih => obtain ⟨n, f⟩ := e; cases f <;> simp [stackWeight, ih] <;> omega

/-- The `while let Some((node, neighbors_visited)) = stack.pop()` loop of
`topo_order_forward_ok`, neighbours taken from `m`.  The stack is a list whose head is the top
(Rust pops from the end of the `Vec`); `emitted` is the set of `result`.  `Except.error c` is
`Err(cycle_fn(c))`. -/
def topoLoop (m : PMap) (stack : List (Nat × Bool)) (visiting result : List Nat) :
    Except Nat (List Nat) :=
  match stack with
  | [] => .ok result
  | (n, expanded) :: s =>
    if hr : n ∈ result then topoLoop m s visiting result           -- `emitted.contains(&id)`
    else if expanded then
      topoLoop m s (visiting.erase n) (result ++ [n])
    else if hv : n ∈ visiting then .error n                         -- `!visiting.insert(id)`
    else
      topoLoop m ((m.nbrs n).reverse.map (·, false) ++ (n, true) :: s) (n :: visiting) result
termination_by (free m (visiting ++ result), stackWeight stack)
decreasing_by
  · exact Prod.Lex.right _ (by cases expanded <;> simp [stackWeight] <;> omega)
  · rename_i he
    subst he
    refine lex_le_lt ?_ (by simp [stackWeight])
    apply free_mono
    intro x hx
    simp only [List.mem_append, List.mem_singleton] at hx ⊢
    by_cases hxn : x = n
    · exact Or.inr (Or.inr hxn)
    · rcases hx with hx | hx
      · exact Or.inl ((List.mem_erase_of_ne hxn).mpr hx)
      · exact Or.inr (Or.inl hx)
  · rename_i he
    have he : expanded = false := by simpa using he
    subst he
    cases hg : m.get n with
    | none =>
      have hn : m.nbrs n = [] := by simp [PMap.nbrs, hg]
      refine lex_le_lt ?_ (by simp [hn, stackWeight])
      apply free_mono
      intro x hx
      simp only [List.mem_append, List.mem_cons] at hx ⊢
      rcases hx with hx | hx
      · exact Or.inl (Or.inr hx)
      · exact Or.inr hx
    | some ps =>
      refine Prod.Lex.left _ _ (free_lt m _ _ n ps hg ?_ (by simp) ?_)
      · simp [hv, hr]
      · intro x hx
        simp only [List.mem_append, List.mem_cons] at hx ⊢
        rcases hx with hx | hx
        · exact Or.inl (Or.inr hx)
        · exact Or.inr hx

/-- `dag_walk::topo_order_reverse_ok(start, id, nbrs, cycle)` -/
def topoOrderReverse (m : PMap) (start : List Nat) : Except Nat (List Nat) :=
  (topoLoop m (start.reverse.map (·, false)) [] []).map List.reverse

/-! ### `visit_op`, `flush_commits`, the stream -/

/-- `WalkPredecessors::visit_op`: new `to_visit` and the commit ids queued for this operation, in
order; `Except.error c` is `WalkPredecessorsError::CycleDetected(c)`. -/
def visitOp (m : PMap) (toVisit : List Nat) : Except Nat (List Nat × List Nat) :=
  match spliceLoop m [] toVisit [] false with
  | (toVisit', [], _) => .ok (toVisit', [])
  | (toVisit', [id], false) => .ok (toVisit', [id])
  | (toVisit', toEmit, _) =>
    match topoOrderReverse m toEmit with
    | .error c => .error c
    | .ok sorted => .ok (toVisit', sorted.filter m.isKey)

/-- One item of the stream: `CommitEvolutionEntry` with `operation` given as the position of the
operation in the walked list and `predecessor_ids()` spelled out. -/
structure Entry where
  commit : Nat
  op : Option Nat
  preds : List Nat
deriving Repr, DecidableEq

/-- `flush_commits` -/
def flush (toVisit : List Nat) : List Entry := toVisit.map fun c => ⟨c, none, []⟩

/-- The whole stream of `walk_predecessors` up to (and including) the first error:
`ops` is the remaining part of `op_ancestors`, `k` the position of its head. -/
def walkFrom : List (Option PMap) → Nat → List Nat → List Entry × Option Nat
  | [], _, toVisit => (flush toVisit, none)
  | op :: rest, k, toVisit =>
    if toVisit.isEmpty then ([], none)
    else match op with
      | none => (flush toVisit, none)                       -- legacy operation: flush and stop
      | some m =>
        match visitOp m toVisit with
        | .error c => ([], some c)
        | .ok (toVisit', ids) =>
          let r := walkFrom rest (k + 1) toVisit'
          (ids.map (fun c => ⟨c, some k, m.nbrs c⟩) ++ r.1, r.2)

/-- `walk_predecessors(repo, start)` with `ops = walk_ancestors([repo.operation()])`. -/
def walkPredecessors (ops : List (Option PMap)) (start : List Nat) : List Entry × Option Nat :=
  walkFrom ops 0 start

end JjModel.Evolution
