import JjModel.Model.Rebase
/-
  Model of the history rewrites of property C09 at the level of trees:
  `rewrite::squash_commits` (whole commit into its parent), `absorb::absorb_hunks`, the sequential
  split of `cli/src/commands/split.rs`, each followed by `MutableRepo::rebase_descendants`
  (`transform_descendants` + `rebase_commit_with_options`, `EmptyBehavior::Keep`, no ancestor-merge
  simplification).

  The rewritten history keeps the old numbering: entry `i` of `hist` is the rewritten version of old
  commit `i`; commits created by an operation are appended.  `repl i` lists the commits that replace
  old commit `i` as a parent (`MutableRepo::parent_mapping`).  Commits are processed in index order,
  which is a topological order; every commit's result depends only on its parents' results, so any
  other topological order (the one `order_commits_for_rebase` picks) gives the same trees.
  A `none` result means a `debug_assert` of `MergedTree::resolve` fires on the way (C07 finding).
-/
namespace JjModel.Rewrite
open JjModel.Merge JjModel.Trees JjModel.Rebase

structure RW where
  hist : History
  repl : List (List Nat)
  abandoned : List Nat
  deriving Repr

def RW.init (h : History) : RW := { hist := h, repl := (List.range h.length).map (fun i => [i]), abandoned := [] }

def replOf (st : RW) (i : Nat) : List Nat := (st.repl[i]?).getD [i]

/-- keep the first occurrence of every element -/
def dedupKeepFirst (l : List Nat) : List Nat :=
  l.foldl (fun acc a => if acc.contains a then acc else acc ++ [a]) []

/-- `MutableRepo::new_parents`: substitute rewritten / abandoned parents, first occurrence wins -/
def newParents (st : RW) (old : List Nat) : List Nat := dedupKeepFirst (old.flatMap (replOf st))

/-- `MergedTree::merge` with the debug assertion of `resolve` -/
def mergeChecked (sc : SameChange) (cm : ContentMerge) (inputs : List (List Tree)) : Option (List Tree) :=
  let flat := mergeNoResolve inputs
  if resolveDebugAssert sc cm flat then some (resolve sc cm flat) else none

/-- `merge_commit_trees` with the debug assertion -/
def mctChecked (sc : SameChange) (cm : ContentMerge) (h : History) (cs : List Nat) : Option (List Tree) :=
  match cs with
  | [c] => some (treeOf h c)
  | _ =>
    let flat := mergeCommitTreesNoResolve h cs
    if resolveDebugAssert sc cm flat then some (resolve sc cm flat) else none

/-- `rebase_with_empty_behavior`: the tree of a commit moved from `oldPs` (in `hOld`) to `newPs` (in `hNew`) -/
def rebaseChecked (sc : SameChange) (cm : ContentMerge) (hOld hNew : History) (oldPs newPs : List Nat)
    (commitTree : List Tree) : Option (List Tree) :=
  if newPs.map (treeOf hNew) = oldPs.map (treeOf hOld) then some commitTree
  else do
    let ob ← mctChecked sc cm hOld oldPs
    let nb ← mctChecked sc cm hNew newPs
    mergeChecked sc cm [nb, ob, commitTree]

/-- what `rebase_descendants` does with old commit `i` -/
def rebaseStep (sc : SameChange) (cm : ContentMerge) (hOld : History) (st : RW) (i : Nat) : Option RW := do
  let np := newParents st (parentsOf hOld i)
  let tree ← rebaseChecked sc cm hOld st.hist (parentsOf hOld i) np (treeOf hOld i)
  some { st with hist := st.hist.set i { parents := np, tree := tree } }

/-- one commit of the walk: the root is left alone, `special st i` overrides the default rebase -/
def stepWith (sc : SameChange) (cm : ContentMerge) (hOld : History)
    (special : RW → Nat → Option (Option RW)) (st : RW) (i : Nat) : Option RW :=
  if i = 0 then some st else
  match special st i with
  | some r => r
  | none => rebaseStep sc cm hOld st i

def runList (step : RW → Nat → Option RW) : List Nat → RW → Option RW
  | [], st => some st
  | i :: rest, st => (step st i).bind (runList step rest)

/-- process the commits in index order -/
def run (sc : SameChange) (cm : ContentMerge) (hOld : History)
    (special : RW → Nat → Option (Option RW)) : Option RW :=
  runList (stepWith sc cm hOld special) (List.range hOld.length) (RW.init hOld)

/-- `squash_commits` of the whole commit `c` into its only parent `p`: the destination gets
`merge [P, parent_tree(c), C]`; `c` is abandoned (its children move to `c`'s rewritten parents). -/
def squashSpecial (sc : SameChange) (cm : ContentMerge) (h : History) (c p : Nat) (st : RW) (i : Nat) :
    Option (Option RW) :=
  if i = p then some do
    let st ← rebaseStep sc cm h st i
    let parentTree ← mctChecked sc cm h (parentsOf h c)
    let t ← mergeChecked sc cm [treeOf h p, parentTree, treeOf h c]
    some { st with hist := st.hist.set p { parents := parentsOf st.hist p, tree := t } }
  else if i = c then
    some (some { st with repl := st.repl.set c (newParents st (parentsOf h c)), abandoned := c :: st.abandoned })
  else none

/-- … then `rebase_descendants`. -/
def squashWhole (sc : SameChange) (cm : ContentMerge) (h : History) (c : Nat) : Option RW :=
  match parentsOf h c with
  | [p] => run sc cm h (squashSpecial sc cm h c p)
  | _ => none

/-- `absorb_hunks`: the source is reparented (keeps its tree); every destination is rebased and then
gets `merge [rebased, parent_tree(source), selected]`; everything else is rebased. -/
def absorbSpecial (sc : SameChange) (cm : ContentMerge) (h : History) (c : Nat) (sel : List (Nat × List Tree))
    (st : RW) (i : Nat) : Option (Option RW) :=
  if i = c then
    some (some { st with hist := st.hist.set c { parents := newParents st (parentsOf h c), tree := treeOf h c } })
  else match sel.lookup i with
    | some selected => some do
      let st ← rebaseStep sc cm h st i
      let parentTree ← mctChecked sc cm h (parentsOf h c)
      let t ← mergeChecked sc cm [treeOf st.hist i, parentTree, selected]
      some { st with hist := st.hist.set i { parents := parentsOf st.hist i, tree := t } }
    | none => none

def absorb (sc : SameChange) (cm : ContentMerge) (h : History) (c : Nat) (sel : List (Nat × List Tree)) : Option RW :=
  run sc cm h (absorbSpecial sc cm h c sel)

/-- sequential split: the first commit takes `selected`, a new second commit on top of it takes the
original tree; descendants are moved onto the second commit. -/
def splitSpecial (h : History) (c : Nat) (selected : List Tree) (st : RW) (i : Nat) : Option (Option RW) :=
  if i = c then
    some (some { st with
      hist := (st.hist.set c { parents := newParents st (parentsOf h c), tree := selected })
                ++ [{ parents := [c], tree := treeOf h c }],
      repl := st.repl.set c [st.hist.length] })
  else none

def split (sc : SameChange) (cm : ContentMerge) (h : History) (c : Nat) (selected : List Tree) : Option RW :=
  run sc cm h (splitSpecial h c selected)

end JjModel.Rewrite
