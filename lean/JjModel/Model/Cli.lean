/-!
  C40 — working-copy changes are never lost by commands.  Executable model (imports nothing).

  Mirrors the command protocol of `/repo/cli/src/cli_util.rs`:
    * `CommandHelper::workspace_helper` → `maybe_snapshot` (`may_snapshot_working_copy` is false with
      `--at-op` / `--ignore-working-copy`, and then `may_update_working_copy` is false too),
    * loading the repo at the head operation merges divergent operation heads first,
    * `snapshot_working_copy`: `handle_stale_working_copy` (`WorkingCopyFreshness::check_stale`,
      lib/src/working_copy.rs: Fresh | Updated | WorkingCopyStale | SiblingOperation), then
      `locked_wc.snapshot`; a new operation is published iff the snapshotted tree differs from the
      tree of the working-copy commit; `locked_ws.finish(op)` records the operation in the working copy,
    * the command's transaction (its effect on the view is an *input*: any function of the repo),
    * `finish_transaction` → `update_working_copy` → `Workspace::check_out` (files are written only here
      and in `update_stale_working_copy`),
    * `workspace update-stale` = `recover_stale_working_copy_impl`.

  Trees and disk states are opaque values `T` (digests chosen by the harness); every file is
  tracked, so `snapshot disk = disk` as a tree.  Operations are indices into the append-only log.
-/
namespace JjModel.Cli

abbrev T := Nat
abbrev Ws := Nat
abbrev OpId := Nat

/-- the part of an operation's view the property talks about: the tree of every workspace's
working-copy commit -/
abbrev View := List (Ws × T)

structure Op where
  parents : List OpId
  view : View
deriving Repr, DecidableEq

structure WsState where
  /-- files on disk -/
  disk : T
  /-- `tree_state`: the tree recorded at the last snapshot / checkout -/
  tree : T
  /-- the operation recorded in the working copy -/
  op : OpId
deriving Repr, DecidableEq

structure State where
  ops : List Op
  heads : List OpId
  wss : List (Ws × WsState)
deriving Repr, DecidableEq

inductive OpKind where
  | merge | snapshot | tx
deriving Repr, DecidableEq

inductive Event where
  /-- an operation was added to the op heads (`opheads.add`) -/
  | publish (id : OpId) (kind : OpKind)
  /-- files of workspace `ws` were modified by a checkout; `disk` is the state afterwards -/
  | write (ws : Ws) (disk : T)
deriving Repr, DecidableEq

inductive Status where
  | ok
  /-- refused: stale working copy / sibling operation / unknown operation — nothing on disk touched -/
  | stale
  | err
deriving Repr, DecidableEq

inductive Kind where
  | normal
  /-- `jj workspace add`: the transaction also creates workspace `nw` -/
  | wsAdd (nw : Ws)
  | updateStale
deriving Repr, DecidableEq

structure CmdIn where
  ws : Ws
  atOp : Option OpId := none
  ignoreWc : Bool := false
  kind : Kind := .normal
  /-- view of the implicit merge operation when the op heads have diverged (input) -/
  mergeView : View := []
  /-- view after the command's transaction; `none` = the command publishes no operation (input) -/
  txView : Option View := none
deriving Repr, DecidableEq

def lookup {α : Type} (l : List (Nat × α)) (k : Nat) : Option α :=
  match l with
  | [] => none
  | (k', v) :: rest => if k' = k then some v else lookup rest k

def update {α : Type} (l : List (Nat × α)) (k : Nat) (v : α) : List (Nat × α) :=
  match l with
  | [] => [(k, v)]
  | (k', v') :: rest => if k' = k then (k, v) :: rest else (k', v') :: update rest k v

def opAt (s : State) (i : OpId) : Option Op := s.ops[i]?

def viewAt (s : State) (i : OpId) : View := match opAt s i with | some o => o.view | none => []

/-- `a` is a (reflexive) ancestor of `b` in the op log; parents have smaller indices, `fuel`
bounds the walk by the log length. -/
def isAncFuel (ops : List Op) : Nat → OpId → OpId → Bool
  | 0, a, b => a == b
  | fuel + 1, a, b =>
    a == b || (match ops[b]? with
      | some o => o.parents.any (fun p => isAncFuel ops fuel a p)
      | none => false)

def isAnc (s : State) (a b : OpId) : Bool := isAncFuel s.ops s.ops.length a b

/-- append an operation and make it a head in place of its parents -/
def publish (s : State) (parents : List OpId) (view : View) : State × OpId :=
  let id := s.ops.length
  ({ s with ops := s.ops ++ [{ parents, view }], heads := (s.heads.filter (fun h => !parents.contains h)) ++ [id] }, id)

inductive Freshness where
  | fresh | updated | stale | sibling
deriving Repr, DecidableEq

/-- `WorkingCopyFreshness::check_stale` -/
def checkStale (s : State) (w : WsState) (repoOp : OpId) (wcCommitTree : T) : Freshness :=
  if w.op = repoOp then .fresh
  else if isAnc s repoOp w.op then .updated
  else if isAnc s w.op repoOp then (if w.tree = wcCommitTree then .fresh else .stale)
  else .sibling

structure Result where
  state : State
  events : List Event
  status : Status
deriving Repr, DecidableEq

/-- state, events so far, and the operation the repo is loaded at -/
structure Phase where
  state : State
  events : List Event
  cur : OpId
deriving Repr, DecidableEq

/-- Load the repo at the head operation; divergent heads are merged first (`mergeView` input). -/
def loadHead (s : State) (mergeView : View) : Option Phase :=
  match s.heads with
  | [] => none
  | [h] => some { state := s, events := [], cur := h }
  | hs =>
    let p := publish s hs mergeView
    some { state := p.1, events := [.publish p.2 .merge], cur := p.2 }

/-- the transaction: publishes one operation on top of `cur` if the command changes the repo -/
def runTx (s : State) (cur : OpId) (txView : Option View) : Phase :=
  match txView with
  | none => { state := s, events := [], cur := cur }
  | some v =>
    let p := publish s [cur] v
    { state := p.1, events := [.publish p.2 .tx], cur := p.2 }

/-- `snapshot_working_copy` after a successful freshness check, with the repo at `cur`: a snapshot
operation is published iff the files on disk differ from the working-copy commit's tree; the
working copy then records the (possibly new) operation. -/
def snapshotAt (s : State) (ws : Ws) (w : WsState) (cur : OpId) : Phase × WsState :=
  if lookup (viewAt s cur) ws = some w.disk then
    ({ state := s, events := [], cur := cur }, { w with tree := w.disk, op := cur })
  else
    let p := publish s [cur] (update (viewAt s cur) ws w.disk)
    ({ state := p.1, events := [.publish p.2 .snapshot], cur := p.2 }, { w with tree := w.disk, op := p.2 })

/-- `update_working_copy`: check out the new working-copy commit; files are written iff its tree
differs from the tree the working copy holds. -/
def checkout (ws : Ws) (w : WsState) (newTree : T) (op : OpId) : WsState × List Event :=
  if newTree = w.tree then ({ w with op := op }, [])
  else ({ disk := newTree, tree := newTree, op := op }, [.write ws newTree])

def setWs (s : State) (ws : Ws) (w : WsState) : State := { s with wss := update s.wss ws w }

/-- `finish_transaction` → `update_working_copy` -/
def finishFull (c : CmdIn) (s3 : State) (evs : List Event) (w2 : WsState) (cur3 : OpId) : Result :=
  match lookup (viewAt s3 cur3) c.ws with
  | none => { state := setWs s3 c.ws w2, events := evs, status := .ok }  -- workspace forgotten
  | some newTree =>
    let co := checkout c.ws w2 newTree cur3
    { state := setWs s3 c.ws co.1, events := evs ++ co.2, status := .ok }

/-- `jj workspace add` (commands/workspace/add.rs): the invoking workspace is only snapshotted; the
transaction is run and finished by the helper of the *new* workspace `nw`, whose directory is
created from its working-copy commit (no earlier disk state exists there). -/
def finishAdd (c : CmdIn) (nw : Ws) (s3 : State) (evs : List Event) (w2 : WsState) (cur3 : OpId) : Result :=
  let s4 := setWs s3 c.ws w2
  let s5 := match lookup (viewAt s3 cur3) nw with
    | some t => setWs s4 nw { disk := t, tree := t, op := cur3 }
    | none => s4
  { state := s5, events := evs, status := .ok }

/-- snapshot, transaction, checkout — with the repo loaded at `cur` and the working copy fresh -/
def afterFresh (c : CmdIn) (s1 : State) (ev1 : List Event) (w : WsState) (cur : OpId) : Result :=
  let sn := snapshotAt s1 c.ws w cur
  let tx := runTx sn.1.state sn.1.cur c.txView
  match c.kind with
  | .wsAdd nw => finishAdd c nw tx.state (ev1 ++ sn.1.events ++ tx.events) sn.2 tx.cur
  | _ => finishFull c tx.state (ev1 ++ sn.1.events ++ tx.events) sn.2 tx.cur

/-- The workspace has no working-copy commit in the view of the loaded operation (it was forgotten,
or its creation was undone): `handle_stale_working_copy` returns `None` and the snapshot is
**skipped**, but the transaction runs and `finish_transaction` still checks out the new
working-copy commit if the transaction brings the workspace back (`update_working_copy(None, new)`:
the diff from the stale `tree_state` tree is written over whatever is on disk). -/
def afterAbsent (c : CmdIn) (s1 : State) (ev1 : List Event) (w : WsState) (cur : OpId) : Result :=
  let tx := runTx s1 cur c.txView
  match c.kind with
  | .wsAdd nw => finishAdd c nw tx.state (ev1 ++ tx.events) w tx.cur
  | _ => finishFull c tx.state (ev1 ++ tx.events) w tx.cur

/-- A command that may snapshot and update the working copy (no `--at-op`, no `--ignore-working-copy`). -/
def execFull (s : State) (c : CmdIn) : Result :=
  match lookup s.wss c.ws, loadHead s c.mergeView with
  | some w, some ld =>
    match lookup (viewAt ld.state ld.cur) c.ws with
    | none => afterAbsent c ld.state ld.events w ld.cur
    | some wcTree =>
      match checkStale ld.state w ld.cur wcTree with
      | .stale => { state := ld.state, events := ld.events, status := .stale }
      | .sibling => { state := ld.state, events := ld.events, status := .stale }
      | .updated => afterFresh c ld.state ld.events w w.op
      | .fresh => afterFresh c ld.state ld.events w ld.cur
  | _, _ => { state := s, events := [], status := .err }

/-- `--at-op=<op>` / `--ignore-working-copy`: no snapshot, no checkout; the transaction (if any) is
published on top of the loaded operation. -/
def execNoWc (s : State) (c : CmdIn) : Result :=
  match c.atOp with
  | some o =>
    if o < s.ops.length then
      let tx := runTx s o c.txView
      { state := tx.state, events := tx.events, status := .ok }
    else { state := s, events := [], status := .err }
  | none =>
    match loadHead s c.mergeView with
    | none => { state := s, events := [], status := .err }
    | some ld =>
      let tx := runTx ld.state ld.cur c.txView
      { state := tx.state, events := ld.events ++ tx.events, status := .ok }

/-- `jj workspace update-stale` (`recover_stale_working_copy_impl`): snapshot on top of the working
copy's own operation, reload at the (merged) head, check out the desired commit if stale. -/
def execUpdateStale (s : State) (c : CmdIn) : Result :=
  match lookup s.wss c.ws with
  | none => { state := s, events := [], status := .err }
  | some w =>
    if w.op < s.ops.length then
      let sn := snapshotAt s c.ws w w.op
      match loadHead sn.1.state c.mergeView with
      | none => { state := setWs sn.1.state c.ws sn.2, events := sn.1.events, status := .err }
      | some ld =>
        match lookup (viewAt ld.state ld.cur) c.ws with
        -- "Nothing checked out in this workspace": a plain command error after the snapshot
        | none => { state := setWs ld.state c.ws sn.2, events := sn.1.events ++ ld.events, status := .ok }
        | some desired =>
          match checkStale ld.state sn.2 ld.cur desired with
          -- "not stale": nothing is checked out; the final `snapshot_impl` records the head operation
          | .fresh => { state := setWs ld.state c.ws { sn.2 with op := ld.cur }, events := sn.1.events ++ ld.events, status := .ok }
          | .updated => { state := setWs ld.state c.ws sn.2, events := sn.1.events ++ ld.events, status := .ok }
          | _ =>
            let co := checkout c.ws sn.2 desired ld.cur
            { state := setWs ld.state c.ws co.1, events := sn.1.events ++ ld.events ++ co.2, status := .ok }
    else { state := s, events := [], status := .err }

def exec (s : State) (c : CmdIn) : Result :=
  if c.atOp.isSome || c.ignoreWc then execNoWc s c
  else match c.kind with
    | .updateStale => execUpdateStale s c
    | _ => execFull s c

/-- a file edit by the user: only the disk changes -/
def editDisk (s : State) (ws : Ws) (d : T) : State :=
  match lookup s.wss ws with
  | some w => setWs s ws { w with disk := d }
  | none => s

def diskOf (s : State) (ws : Ws) : Option T := (lookup s.wss ws).map (·.disk)

/-- operation `id` records tree `t` as workspace `ws`'s working-copy commit -/
def records (s : State) (id : OpId) (ws : Ws) (t : T) : Bool := lookup (viewAt s id) ws == some t

end JjModel.Cli
