/-!
  Generic "head-set protocol" (shared by C14 op heads and C21 stacked tables).

  A directory `heads/` holds one marker file per current head.  A writer **adds** its new head and
  then **removes** the heads it supersedes, one file at a time; a reader that finds several heads
  merges them (under a lock that may be ineffective) with the same add-then-remove discipline.

  Mirrors the common shape of
    * `/repo/lib/src/simple_op_heads_store.rs` `update_op_heads` (add new; for old in olds: skip old == new; remove)
    * `/repo/lib/src/stacked_table.rs` `TableStore::save_table` (add head; remove parent if name differs)
      and `get_head_locked` (save merged; remove `tables[1..]`).

  The machine is a small-step interpreter at the granularity of the `verif_hooks::point` calls:
  every instruction below is exactly one hook point of the real code.  It is generic in
    * `α` — head identities (operation numbers / table structures),
    * `κ` — client instructions (read the directory, write a segment, …) whose effect is given by a
      `Client.expand` function: it sees the directory listing in the order the real `read_dir`
      returned it (the event argument is that order as indices into the insertion-ordered head list),
      may update the process-local state `σ` and pushes further instructions.
-/
namespace JjModel.HeadProto

inductive Instr (α κ : Type) where
  /-- `*.lock` hook: take the store lock (blocks in working-lock mode while another process holds it) -/
  | lock
  /-- `*.add` hook: create the marker file of `t`; afterwards remove every `o` of `olds` one by one.
      The flag says whether the code guards that removal by `o ≠ t` (name comparison). -/
  | add (t : α) (olds : List (Bool × α))
  /-- pending removals of the update whose new head is `new`; one `*.remove` hook per element -/
  | rms (new : α) (pend : List α)
  /-- a client step (one hook point) -/
  | client (c : κ)
deriving Repr

structure Proc (α κ σ : Type) where
  loc : σ
  instrs : List (Instr α κ)

structure State (α κ σ : Type) where
  /-- marker files in `heads/`, in insertion order, no duplicates -/
  heads : List α
  /-- every head that was ever added (ghost) -/
  pub : List α
  procs : List (Proc α κ σ)
  /-- lock holder (only meaningful when locks work) -/
  lock : Option Nat

structure Client (α κ σ : Type) where
  /-- effect of a client instruction: event argument, directory listing (insertion order), local
      state ↦ new local state and instructions to run next; `none` = the event does not fit -/
  expand : κ → List Nat → List α → σ → Option (σ × List (Instr α κ))
  /-- which pending removal the observed `remove` event performs (index into the pending list) -/
  pick : List Nat → List α → Option Nat
  /-- the operation ended normally: what the process keeps (e.g. the table the call returned) -/
  commit : σ → σ

inductive Event (α κ : Type) where
  /-- process `pid` (idle) starts an operation given as its hook-point program -/
  | start (pid : Nat) (prog : List (Instr α κ))
  /-- process `pid` performs its next hook point; `arg` = observed data of that step -/
  | step (pid : Nat) (arg : List Nat)
  /-- process `pid` dies (its remaining steps never happen, its lock is released) -/
  | crash (pid : Nat)

variable {α κ σ : Type} [DecidableEq α]

def insertHead (t : α) (hs : List α) : List α := if t ∈ hs then hs else hs ++ [t]

def removeHead (o : α) (hs : List α) : List α := hs.filter (· ≠ o)

/-- removals that really happen after adding `t`: a guarded removal of `t` itself is skipped
    (`if old_id == new_id { continue }`, `parent_table.name != table.name`) -/
def pending (t : α) (olds : List (Bool × α)) : List α :=
  (olds.filter (fun go => !(go.1 && decide (go.2 = t)))).map (·.2)

def rmsInstr (new : α) (pend : List α) : List (Instr α κ) :=
  if pend.isEmpty then [] else [.rms new pend]

/-- the lock is released when the holder's operation has ended -/
def releaseIfDone (pid : Nat) (rest : List (Instr α κ)) (l : Option Nat) : Option Nat :=
  if rest.isEmpty && l == some pid then none else l

/-- process record after a step: when its program is exhausted the operation has returned -/
def mkProc (cl : Client α κ σ) (loc : σ) (is : List (Instr α κ)) : Proc α κ σ :=
  { loc := if is.isEmpty then cl.commit loc else loc, instrs := is }

/-- one hook point of process `pid`.  `working` = locks really exclude. -/
def stepProc (working : Bool) (cl : Client α κ σ) (s : State α κ σ) (pid : Nat) (arg : List Nat) :
    Option (State α κ σ) :=
  match s.procs[pid]? with
  | none => none
  | some p =>
    match p.instrs with
    | [] => none
    | .lock :: rest =>
      if working && s.lock.isSome then none
      else some { s with procs := s.procs.set pid (mkProc cl p.loc rest),
                         lock := releaseIfDone pid rest (some pid) }
    | .add t olds :: rest =>
      let is := rmsInstr t (pending t olds) ++ rest
      some { heads := insertHead t s.heads, pub := t :: s.pub,
             procs := s.procs.set pid (mkProc cl p.loc is),
             lock := releaseIfDone pid is s.lock }
    | .rms new pend :: rest =>
      match cl.pick arg pend with
      | none => none
      | some i =>
        match pend[i]? with
        | none => none
        | some o =>
          let is := rmsInstr new (pend.eraseIdx i) ++ rest
          some { heads := removeHead o s.heads, pub := s.pub,
                 procs := s.procs.set pid (mkProc cl p.loc is),
                 lock := releaseIfDone pid is s.lock }
    | .client c :: rest =>
      match cl.expand c arg s.heads p.loc with
      | none => none
      | some (loc', is) =>
        some { s with procs := s.procs.set pid (mkProc cl loc' (is ++ rest)),
                      lock := releaseIfDone pid (is ++ rest) s.lock }

def apply (working : Bool) (cl : Client α κ σ) (s : State α κ σ) : Event α κ → Option (State α κ σ)
  | .start pid prog =>
    match s.procs[pid]? with
    | none => none
    | some p =>
      if p.instrs.isEmpty && !prog.isEmpty then
        some { s with procs := s.procs.set pid { p with instrs := prog } }
      else none
  | .step pid arg => stepProc working cl s pid arg
  | .crash pid =>
    match s.procs[pid]? with
    | none => none
    | some p =>
      some { s with procs := s.procs.set pid { p with instrs := [] },
                    lock := if s.lock == some pid then none else s.lock }

def run (working : Bool) (cl : Client α κ σ) (s : State α κ σ) : List (Event α κ) → Option (State α κ σ)
  | [] => some s
  | e :: es => match apply working cl s e with
    | none => none
    | some t => run working cl t es

def init (heads : List α) (locs : List σ) : State α κ σ :=
  { heads := heads, pub := heads, procs := locs.map fun l => { loc := l, instrs := [] }, lock := none }

/-- elements at the given positions -/
def pickAll (hs : List α) : List Nat → Option (List α)
  | [] => some []
  | i :: r =>
    match hs[i]?, pickAll hs r with
    | some x, some xs => some (x :: xs)
    | _, _ => none

/-- reorder the directory listing as the real `read_dir` returned it: `perm` must name every
    position exactly once -/
def permute (hs : List α) (perm : List Nat) : Option (List α) :=
  if perm.length = hs.length ∧ (List.range hs.length).all (fun i => perm.contains i) then pickAll hs perm
  else none

end JjModel.HeadProto
