import JjModel.Generated.UnicodeXid
/-!
  PEG recogniser for pest grammars (C36).

  * `PExpr`, `Rule`, `Grammar`: the *surface* syntax of a `.pest` file, as written by
    `tools/translate.py` into `JjModel/Generated/Grammars.lean` from `/repo/lib/src/revset.pest`,
    `/repo/lib/src/fileset.pest`, `/repo/cli/src/template.pest`.  Rule references are indices into
    the rule list; string literals are lists of code points.
  * `compile`: what `pest_meta::optimizer::unroller` and `pest_generator::generator`
    (`generate_rule`, `generate_expr`, `generate_expr_atomic`, `generate_skip`; pest 2.9.0) do to
    the surface syntax, as far as *recognition* is concerned:
      - `e+` ↦ `e ~ e*`, `e{n}` ↦ `e ~ … ~ e`, `e?` ↦ `e | ""`, `&e` ↦ `!!e`;
      - if the grammar defines `WHITESPACE`: in the body of a rule that is not `@`/`$` and is
        executed with atomicity `NonAtomic`, `a ~ b` ↦ `a ~ skip ~ b` and
        `a*` ↦ `(a ~ (skip ~ a)*)?` with `skip = WHITESPACE*`; the dynamic atomicity is set by
        `@`/`$` (atomic), `!` (non-atomic) and inherited by normal and silent rules, so every rule
        is compiled twice (index `2i`: called with atomicity NonAtomic, `2i+1`: otherwise);
        `WHITESPACE` itself is atomic.  (`COMMENT`, the stack operations and tags are rejected by
        the translator.)
    The other optimizer passes of pest (rotater, skipper, concatenator, factorizer, lister) do not
    change the recognised language and are not modelled.
  * `run`: fuelled interpreter of the compiled grammar, mirroring `pest::ParserState`
    (`match_string`, `match_insensitive`, `match_range`, `match_char_by`, `skip(1)`,
    `start_of_input`, `end_of_input`, `sequence`, `or_else`, `repeat`, `optional`, `lookahead`):
    the remaining input on success, `fail`, or `oof` (fuel exhausted).
  * `wellFormed`, `fuelBound`: checker (no left recursion, no nullable body under `*`) and the
    fuel it guarantees to be enough (theorems in `JjModel/Lemmas/Peg.lean`, `Props/C36.lean`).
-/
namespace JjModel.Peg

/-! ### surface syntax -/

/-- pest built-in character classes (`pest_generator::generator::generate_builtin_rules`) -/
inductive Builtin where
  | any | asciiDigit | asciiNonzeroDigit | asciiBinDigit | asciiOctDigit | asciiHexDigit
  | asciiAlphaLower | asciiAlphaUpper | asciiAlpha | asciiAlphanumeric | ascii | xidContinue
  deriving DecidableEq, Repr

inductive PExpr where
  /-- `"…"` (code points) -/
  | str (s : List Nat)
  /-- `^"…"` -/
  | insens (s : List Nat)
  /-- `'a'..'z'` -/
  | range (lo hi : Nat)
  | cls (b : Builtin)
  | soi
  | eoi
  /-- reference to the rule with this index -/
  | ref (i : Nat)
  | seq (a b : PExpr)
  | choice (a b : PExpr)
  | star (a : PExpr)
  | plus (a : PExpr)
  | opt (a : PExpr)
  | not (a : PExpr)
  | and (a : PExpr)
  /-- `e{n}` -/
  | rep (a : PExpr) (n : Nat)
  deriving Repr

/-- rule modifiers: `{…}`, `_{…}`, `@{…}`, `${…}`, `!{…}` -/
inductive RuleKind where
  | normal | silent | atomic | compound | nonAtomic
  deriving DecidableEq, Repr

structure Rule where
  name : String
  kind : RuleKind
  body : PExpr
  deriving Repr

structure Grammar where
  rules : List Rule
  /-- index of the rule named `WHITESPACE`, if the grammar defines one -/
  whitespace : Option Nat
  deriving Repr

/-! ### compiled syntax -/

inductive CharPred where
  | range (lo hi : Nat)
  | cls (b : Builtin)
  deriving Repr

inductive Expr where
  /-- one character satisfying the predicate -/
  | chr (p : CharPred)
  | str (s : List Nat)
  | insens (s : List Nat)
  | soi
  | eoi
  | ref (i : Nat)
  | seq (a b : Expr)
  | alt (a b : Expr)
  | star (a : Expr)
  | not (a : Expr)
  deriving Repr

/-- sorted inclusive ranges -/
def inRanges : List (Nat × Nat) → Nat → Bool
  | [], _ => false
  | (lo, hi) :: t, c => if c < lo then false else if c ≤ hi then true else inRanges t c

def Builtin.test (b : Builtin) (c : Nat) : Bool :=
  let digit := 48 ≤ c && c ≤ 57
  let lower := 97 ≤ c && c ≤ 122
  let upper := 65 ≤ c && c ≤ 90
  match b with
  | .any => true
  | .asciiDigit => digit
  | .asciiNonzeroDigit => 49 ≤ c && c ≤ 57
  | .asciiBinDigit => c == 48 || c == 49
  | .asciiOctDigit => 48 ≤ c && c ≤ 55
  | .asciiHexDigit => digit || (97 ≤ c && c ≤ 102) || (65 ≤ c && c ≤ 70)
  | .asciiAlphaLower => lower
  | .asciiAlphaUpper => upper
  | .asciiAlpha => lower || upper
  | .asciiAlphanumeric => digit || lower || upper
  | .ascii => c ≤ 127
  | .xidContinue => inRanges JjModel.Generated.xidContinueRanges c

def CharPred.test : CharPred → Nat → Bool
  | .range lo hi, c => lo ≤ c && c ≤ hi
  | .cls b, c => b.test c

/-! ### compilation (unroller + generator) -/

structure Ctx where
  /-- the grammar defines WHITESPACE: rule `j` lives at `2j` (non-atomic) and `2j+1` (atomic) -/
  dup : Bool
  /-- implicit whitespace is inserted in this body -/
  skipOn : Bool
  /-- the `skip` expression (`WHITESPACE*`) -/
  skip : Expr

def Ctx.seq (c : Ctx) (a b : Expr) : Expr :=
  if c.skipOn then .seq a (.seq c.skip b) else .seq a b

/-- `generate_expr`'s `Rep`: `(a ~ (skip ~ a)*)?`; `generate_expr_atomic`'s: `a*` -/
def Ctx.star (c : Ctx) (a : Expr) : Expr :=
  if c.skipOn then .alt (.seq a (.star (.seq c.skip a))) (.str []) else .star a

/-- `RepExact` in `unroller.rs`: right-nested sequence of `n` copies -/
def Ctx.rep (c : Ctx) (a : Expr) : Nat → Expr
  | 0 => .str []
  | 1 => a
  | n + 1 => c.seq a (c.rep a n)

/-- A rule that inserts implicit whitespace runs with atomicity NonAtomic, so the rules it calls
are entered non-atomically (`2j`); otherwise atomically (`2j+1`). -/
def Ctx.ref (c : Ctx) (j : Nat) : Expr :=
  if c.dup then .ref (2 * j + (if c.skipOn then 0 else 1)) else .ref j

def trExpr (c : Ctx) : PExpr → Expr
  | .str s => .str s
  | .insens s => .insens s
  | .range lo hi => .chr (.range lo hi)
  | .cls b => .chr (.cls b)
  | .soi => .soi
  | .eoi => .eoi
  | .ref j => c.ref j
  | .seq a b => c.seq (trExpr c a) (trExpr c b)
  | .choice a b => .alt (trExpr c a) (trExpr c b)
  | .star a => c.star (trExpr c a)
  | .plus a => let a' := trExpr c a; c.seq a' (c.star a')
  | .opt a => .alt (trExpr c a) (.str [])
  | .not a => .not (trExpr c a)
  | .and a => .not (.not (trExpr c a))
  | .rep a n => c.rep (trExpr c a) n

/-- does the body of a rule of this kind, called with the given dynamic atomicity
(`callerAtomic` = anything but NonAtomic), run with atomicity NonAtomic? -/
def RuleKind.nonAtomicInside (k : RuleKind) (callerAtomic : Bool) : Bool :=
  match k with
  | .atomic | .compound => false
  | .nonAtomic => true
  | .normal | .silent => !callerAtomic

def compileDup (w : Nat) : Nat → List Rule → List Expr
  | _, [] => []
  | i, r :: rs =>
    let skip := Expr.star (.ref (2 * w + 1))
    let mk (callerAtomic : Bool) : Expr :=
      trExpr { dup := true, skipOn := i != w && r.kind.nonAtomicInside callerAtomic, skip := skip } r.body
    mk false :: mk true :: compileDup w (i + 1) rs

/-- the compiled grammar: one expression per (rule, calling atomicity) -/
def compile (g : Grammar) : List Expr :=
  match g.whitespace with
  | none => g.rules.map fun r => trExpr { dup := false, skipOn := false, skip := .str [] } r.body
  | some w => compileDup w 0 g.rules

/-- compiled index of surface rule `i` when parsing starts there (initial atomicity NonAtomic) -/
def Grammar.start (g : Grammar) (i : Nat) : Nat :=
  match g.whitespace with
  | none => i
  | some _ => 2 * i

/-! ### interpreter -/

inductive Res where
  /-- fuel exhausted -/
  | oof
  | fail
  /-- success; the remaining input -/
  | ok (rest : List Char)
  deriving Repr, DecidableEq

def lowerAscii (n : Nat) : Nat := if 65 ≤ n ∧ n ≤ 90 then n + 32 else n

def eqCp (insens : Bool) (c p : Nat) : Bool :=
  if insens then lowerAscii c == lowerAscii p else c == p

/-- `match_string` / `match_insensitive` -/
def stripPrefix (insens : Bool) : List Nat → List Char → Option (List Char)
  | [], s => some s
  | _ :: _, [] => none
  | p :: ps, c :: cs =>
    if eqCp insens c.toNat p then stripPrefix insens ps cs else none

/-- `total` is the length of the whole input (`SOI` holds when nothing has been consumed). -/
def run (g : List Expr) (total : Nat) : Nat → Expr → List Char → Res
  | 0, _, _ => .oof
  | n + 1, e, s =>
    match e with
    | .chr p =>
      match s with
      | [] => .fail
      | c :: t => if p.test c.toNat then .ok t else .fail
    | .str cs =>
      match stripPrefix false cs s with
      | some t => .ok t
      | none => .fail
    | .insens cs =>
      match stripPrefix true cs s with
      | some t => .ok t
      | none => .fail
    | .soi => if s.length = total then .ok s else .fail
    | .eoi => if s.isEmpty then .ok s else .fail
    | .ref i =>
      match g[i]? with
      | some b => run g total n b s
      | none => .fail
    | .seq a b =>
      match run g total n a s with
      | .ok t => run g total n b t
      | r => r
    | .alt a b =>
      match run g total n a s with
      | .fail => run g total n b s
      | r => r
    | .star a =>
      match run g total n a s with
      | .ok t => run g total n (.star a) t
      | .fail => .ok s
      | .oof => .oof
    | .not a =>
      match run g total n a s with
      | .ok _ => .fail
      | .fail => .ok s
      | .oof => .oof

/-! ### well-formedness checker -/

/-- over-approximation of "can succeed without consuming input"; `N[i]` answers for rule `i` -/
def nullable (N : List Bool) : Expr → Bool
  | .chr _ => false
  | .str s => s.isEmpty
  | .insens s => s.isEmpty
  | .soi => true
  | .eoi => true
  | .ref i => N.getD i true
  | .seq a b => nullable N a && nullable N b
  | .alt a b => nullable N a || nullable N b
  | .star _ => true
  | .not _ => true

/-- 1 + the largest rank of a rule that can be entered from `e` before any input is consumed -/
def lrank (N : List Bool) (rk : List Nat) : Expr → Nat
  | .ref i => rk.getD i 0 + 1
  | .seq a b => if nullable N a then max (lrank N rk a) (lrank N rk b) else lrank N rk a
  | .alt a b => max (lrank N rk a) (lrank N rk b)
  | .star a => lrank N rk a
  | .not a => lrank N rk a
  | _ => 0

/-- no repetition of an expression that can succeed without consuming input -/
def starsOK (N : List Bool) : Expr → Bool
  | .seq a b => starsOK N a && starsOK N b
  | .alt a b => starsOK N a && starsOK N b
  | .star a => !nullable N a && starsOK N a
  | .not a => starsOK N a
  | _ => true

def size : Expr → Nat
  | .seq a b => size a + size b + 1
  | .alt a b => size a + size b + 1
  | .star a => size a + 1
  | .not a => size a + 1
  | _ => 1

def maxList : List Nat → Nat
  | [] => 0
  | x :: xs => max x (maxList xs)

/-- per rule `i` with body `b`: `N` is closed (`nullable b → N[i]`), the ranks of the rules
reachable from `b` without consuming input are below `rk[i]`, and `b` has no nullable repetition -/
def checkFrom (N : List Bool) (rk : List Nat) : Nat → List Expr → Bool
  | _, [] => true
  | i, b :: bs =>
    (!nullable N b || N.getD i true) && decide (lrank N rk b ≤ rk.getD i 0) && starsOK N b
      && checkFrom N rk (i + 1) bs

def wellFormedWith (g : List Expr) (N : List Bool) (rk : List Nat) : Bool := checkFrom N rk 0 g

def iterNullable (g : List Expr) : Nat → List Bool → List Bool
  | 0, N => N
  | k + 1, N =>
    let N' := g.map (nullable N)
    if N' == N then N else iterNullable g k N'

/-- least fixed point of the nullability equations (iteration from all-false) -/
def computeNullable (g : List Expr) : List Bool := iterNullable g (g.length + 1) (g.map fun _ => false)

def iterRank (g : List Expr) (N : List Bool) : Nat → List Nat → List Nat
  | 0, rk => rk
  | k + 1, rk =>
    let rk' := g.map (lrank N rk)
    if rk' == rk then rk else iterRank g N k rk'

/-- longest-path ranks in the "enters without consuming" graph; does not stabilise (and the check
fails) when that graph has a cycle, i.e. the grammar is left-recursive -/
def computeRank (g : List Expr) (N : List Bool) : List Nat := iterRank g N (g.length + 1) (g.map fun _ => 0)

/-- the grammar has no left recursion and no repetition of a nullable expression -/
def wellFormed (g : List Expr) : Bool :=
  let N := computeNullable g
  wellFormedWith g N (computeRank g N)

/-- bound on the size of rule bodies (at least 1) -/
def bodyBound (g : List Expr) : Nat := maxList (g.map size) + 1

/-- weight of one input position: more than the weight of any expression of size ≤ `bodyBound` -/
def posWeight (g : List Expr) (rk : List Nat) : Nat := (maxList rk + 2) * (bodyBound g + 1)

/-- fuel that suffices to run a rule of a well-formed grammar on an input of length `len` -/
def fuelBound (g : List Expr) (len : Nat) : Nat :=
  let N := computeNullable g
  (len + 1) * posWeight g (computeRank g N)

/-- recogniser: does surface rule `i` of `g` match a prefix of the input (the start rules of the
jj grammars all end in `EOI`, so for them this is "the whole input")? -/
def recognise (g : Grammar) (i : Nat) (input : List Char) : Res :=
  let cg := compile g
  run cg input.length (fuelBound cg input.length) (.ref (g.start i)) input

end JjModel.Peg
