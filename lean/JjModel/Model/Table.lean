import JjModel.Model.HeadProto
/-!
  Stacked tables (`/repo/lib/src/stacked_table.rs`), modelled structurally.

  * A segment file = (parent name, sorted key→value entries); its name is the BLAKE2 hash of its
    serialization, which contains the parent's name.  **Assumption A1** (hash injectivity): name
    equality = structural equality of the whole chain.  A table is therefore modelled *as* its chain
    `List Entries` (newest segment first, root last); `[]` stands for "no parent"; the empty root
    table written by `get_head` on an empty store is `[[]]`.
  * Keys (fixed-size byte strings, compared lexicographically) are encoded as naturals by the harness
    (big-endian), values likewise; `Entries` mirrors `BTreeMap<Vec<u8>, Vec<u8>>` iteration order.
  * Segment files themselves are never deleted (no `gc` in the model); only `heads/` is shared state.
-/
namespace JjModel.Table
open JjModel.HeadProto

abbrev Entries := List (Nat × Nat)
/-- a table = its ancestor chain, newest segment first (`ReadonlyTable::ancestor_segments`) -/
abbrev Table := List Entries

/-- `segment_get_value` (binary search on the sorted index = association lookup) -/
def lookup : Entries → Nat → Option Nat
  | [], _ => none
  | (k', v) :: r, k => if k = k' then some v else lookup r k

/-- `BTreeMap::insert` on the sorted association list (`MutableTable::add_entry`) -/
def insert (k v : Nat) : Entries → Entries
  | [] => [(k, v)]
  | (k', v') :: r =>
    if k < k' then (k, v) :: (k', v') :: r
    else if k = k' then (k, v) :: r
    else (k', v') :: insert k v r

/-- `add_entries_from`: insert every entry of `es` (in order) into `acc` -/
def insertAll (es : Entries) (acc : Entries) : Entries :=
  es.foldl (fun a kv => insert kv.1 kv.2 a) acc

/-- `TableSegment::get_value`: own segment first, then the parent chain -/
def getValue : Table → Nat → Option Nat
  | [], _ => none
  | seg :: parent, k =>
    match lookup seg k with
    | some v => some v
    | none => getValue parent k

/-- `TableSegment::num_entries` (cumulative, duplicates counted) -/
def numEntries : Table → Nat
  | [] => 0
  | seg :: parent => numEntries parent + seg.length

/-- `MutableTable` -/
structure Mut where
  parent : Table
  entries : Entries
deriving DecidableEq, Repr

def Mut.getValue (m : Mut) (k : Nat) : Option Nat :=
  match lookup m.entries k with
  | some v => some v
  | none => JjModel.Table.getValue m.parent k

/-- the iterations of `merge_in`'s loop in which only `maybe_own_ancestor` moves -/
def advance : Table → Table → Table
  | [], _ => []
  | a :: ar, oth =>
    if (a :: ar) = oth then a :: ar
    else if numEntries (a :: ar) < numEntries oth then a :: ar
    else advance ar oth

/-- `files_to_add` of `MutableTable::merge_in`, in push order (newest first) -/
def walk : Table → Table → List Entries
  | _, [] => []
  | own, o :: orest =>
    let own' := advance own (o :: orest)
    if own' = o :: orest then [] else o :: walk own' orest

def addFiles (files : List Entries) (acc : Entries) : Entries :=
  files.foldl (fun a seg => insertAll seg a) acc

/-- `MutableTable::merge_in` -/
def mergeIn (m : Mut) (other : Table) : Mut :=
  { m with entries := addFiles (walk m.parent other).reverse m.entries }

/-- the loop of `maybe_squash_with_ancestors`: (`files_to_squash` in push order, remaining parent) -/
def squashScan : Nat → Table → List Entries × Table
  | _, [] => ([], [])
  | n, p :: rest =>
    if 2 * n < p.length then ([], p :: rest)
    else
      let r := squashScan (n + p.length) rest
      (p :: r.1, r.2)

/-- `MutableTable::maybe_squash_with_ancestors` -/
def maybeSquash (m : Mut) : Mut :=
  let r := squashScan m.entries.length m.parent
  if r.1.isEmpty then m
  else { parent := r.2, entries := insertAll m.entries (addFiles r.1.reverse []) }

/-- `MutableTable::save_in` (the resulting `ReadonlyTable`, i.e. its chain) -/
def saveIn (m : Mut) : Table :=
  if m.entries.isEmpty && !m.parent.isEmpty then m.parent
  else
    let q := maybeSquash m
    q.entries :: q.parent

/-- `ReadonlyTable::start_mutation` + `add_entry`* -/
def mutate (base : Table) (es : Entries) : Mut := { parent := base, entries := insertAll es [] }

/-- the merged table of `get_head_locked` for the listing `t0 :: rest` -/
def mergeHeads (t0 : Table) (rest : List Table) : Table :=
  saveIn (rest.foldl mergeIn { parent := t0, entries := [] })

/-- client hook points of the table store -/
inductive TInstr where
  /-- `table.read-heads` in `get_head` (`locked = false`) / `get_head_locked` (`true`) -/
  | read (locked : Bool)
  /-- `table.write-segment` of a table computed earlier (merged / empty table) -/
  | write
  /-- `table.write-segment` of `save_table(base.start_mutation() + es)` -/
  | save (onCur : Bool) (es : Entries)
deriving Repr

/-- process-local state: the table the process holds (result of its last completed operation) and
    the table its running operation is going to return -/
structure TLoc where
  held : Table
  cur : Table
deriving DecidableEq, Repr

/-- `TableStore::{get_head, get_head_locked, save_table}`.  `guardEq = false` is the code before the
    F8 repair (/repo 9f7a0d7): `get_head_locked` removed `tables[1..]` without comparing their names
    with the merged table's name.  The driver uses the generated constant `tableGuardEq`.  `save onCur es` mutates the table just returned by `get_head_locked` (`onCur`) or
    the table the process already held (a possibly stale head). -/
def expand (guardEq : Bool) : TInstr → List Nat → List Table → TLoc → Option (TLoc × List (Instr Table TInstr))
  | .write, _, _, l => some (l, [])
  | .save onCur es, _, _, l =>
    let base := if onCur then l.cur else l.held
    if base.isEmpty then none
    else
      let t := saveIn (mutate base es)
      some ({ l with cur := t }, [.add t [(true, base)]])
  | .read locked, perm, heads, l =>
    match permute heads perm with
    | none => none
    | some [] => some ({ l with cur := [[]] }, [.client .write, .add [[]] []])
    | some [t] => some ({ l with cur := t }, [])
    | some (t0 :: rest) =>
      if !locked then some (l, [.lock, .client (.read true)])
      else
        let m := mergeHeads t0 rest
        some ({ l with cur := m }, [.client .write, .add m ((true, t0) :: rest.map fun t => (guardEq, t))])

def tableClient (guardEq : Bool) : Client Table TInstr TLoc :=
  { expand := expand guardEq, pick := fun _ _ => some 0, commit := fun l => { l with held := l.cur } }

/-- operations of a process (hook-point programs) -/
abbrev TProg := List (Instr Table TInstr)
def progGetHead : TProg := [.client (.read false)]
def progGetHeadLocked : TProg := [.lock, .client (.read true)]
def progSave (es : Entries) : TProg := [.client (.save false es)]
/-- the Git backend's pattern: `get_head_locked`, mutate, `save_table` while holding the lock -/
def progLockedSave (es : Entries) : TProg := [.lock, .client (.read true), .client (.save true es)]

abbrev TState := State Table TInstr TLoc
abbrev TEvent := Event Table TInstr

end JjModel.Table
