import JjModel.Model.Revset
/-
  C19 — the *set-theoretic* semantics of revset expressions, written from `docs/revsets.md`
  (and, for the optimizer-internal nodes, from the doc comments of `RevsetExpression`).
  Nothing here is executable or mirrors an algorithm: sets are predicates `Nat → Prop`,
  ancestry is an inductive path relation.
-/
namespace JjModel.Revset

/-- `PathK adj k x y`: `y` is reached from `x` by exactly `k` steps along `adj`. -/
inductive PathK (adj : Nat → List Nat) : Nat → Nat → Nat → Prop
  | zero (x : Nat) : PathK adj 0 x x
  | step {k x q y : Nat} : q ∈ adj x → PathK adj k q y → PathK adj (k + 1) x y

/-- reflexive-transitive closure -/
def Path (adj : Nat → List Nat) (x y : Nat) : Prop := ∃ k, PathK adj k x y

/-- parent edges of the graph; `fp = true`: first parent only -/
def Graph.adj (g : Graph) (fp : Bool) : Nat → List Nat := fun x => filterPar fp (g.par x)

/-- `k ∈ lo..hi` (`hi = none`: unbounded) -/
def inGen (lo : Nat) (hi : Option Nat) (k : Nat) : Prop :=
  lo ≤ k ∧ match hi with
    | none => True
    | some h => k < h

/-- well-formed commit graph: index order is a topological order, the visible heads exist,
there is a root commit, and the index has fewer than `2^32` commits (positions are `u32`) -/
structure Graph.WF (g : Graph) : Prop where
  topo : ∀ p q, q ∈ g.par p → q < p
  heads_lt : ∀ h ∈ g.heads, h < g.size
  size_pos : 0 < g.size
  size_le : g.size ≤ U32MAX

end JjModel.Revset
