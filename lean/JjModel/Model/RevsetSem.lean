import JjModel.Model.Revset
/-
  C19 — the *set-theoretic* semantics of revset expressions, written from `docs/revsets.md`
  (and, for the optimizer-internal nodes, from the doc comments of `RevsetExpression`).
  Nothing here is executable or mirrors an algorithm: sets are predicates `Nat → Prop`,
  ancestry is an inductive path relation.
-/
namespace JjModel.Revset

/-- `PathK adj k x y`: `y` is reached from `x` by exactly `k` steps along `adj`. -/
inductive PathK (adj : Nat → List Nat) : Nat → Nat → Nat → Prop
  | zero (x : Nat) : PathK adj 0 x x
  | step {k x q y : Nat} : q ∈ adj x → PathK adj k q y → PathK adj (k + 1) x y

/-- reflexive-transitive closure -/
def Path (adj : Nat → List Nat) (x y : Nat) : Prop := ∃ k, PathK adj k x y

/-- parent edges of the graph; `fp = true`: first parent only -/
def Graph.adj (g : Graph) (fp : Bool) : Nat → List Nat := fun x => filterPar fp (g.par x)

/-- `k ∈ lo..hi` (`hi = none`: unbounded) -/
def inGen (lo : Nat) (hi : Option Nat) (k : Nat) : Prop :=
  lo ≤ k ∧ match hi with
    | none => True
    | some h => k < h

/-- well-formed commit graph: index order is a topological order, the visible heads exist,
there is a root commit, and the index has fewer than `2^32` commits (positions are `u32`) -/
structure Graph.WF (g : Graph) : Prop where
  topo : ∀ p q, q ∈ g.par p → q < p
  heads_lt : ∀ h ∈ g.heads, h < g.size
  size_pos : 0 < g.size
  size_le : g.size ≤ U32MAX
  /-- a commit does not list the same parent twice -/
  par_nodup : ∀ p, (g.par p).Nodup

/-! ## vocabulary -/

/-- ancestors of `S` at a generation in `lo..hi`, following all parents or first parents only -/
def AncOf (g : Graph) (fp : Bool) (lo : Nat) (hi : Option Nat) (S : Nat → Prop) (p : Nat) : Prop :=
  ∃ x, S x ∧ ∃ k, inGen lo hi k ∧ PathK (g.adj fp) k x p

/-- `::S` -/
def AncAll (g : Graph) (S : Nat → Prop) (p : Nat) : Prop := ∃ x, S x ∧ Path g.par x p

/-- commits of `S` with no *other* commit of `S` among their descendants -/
def HeadsOf (g : Graph) (S : Nat → Prop) (p : Nat) : Prop :=
  S p ∧ ¬ ∃ q, S q ∧ q ≠ p ∧ Path g.par q p

/-- commits of `S` with no *other* commit of `S` among their ancestors -/
def RootsOf (g : Graph) (S : Nat → Prop) (p : Nat) : Prop :=
  S p ∧ ¬ ∃ q, S q ∧ q ≠ p ∧ Path g.par p q

/-- connected inside `D` by parent/child edges -/
inductive Conn (g : Graph) (D : Nat → Prop) : Nat → Nat → Prop
  | refl (x : Nat) : Conn g D x x
  | step {x y z : Nat} : Conn g D x y → D z → (z ∈ g.par y ∨ y ∈ g.par z) → Conn g D x z

/-- `b` is later than `a` by committer timestamp; ties (which `docs/revsets.md` leaves open) are
broken by index position, as `take_latest_revset` does -/
def Later (g : Graph) (a b : Nat) : Prop :=
  g.tsOf a < g.tsOf b ∨ (g.tsOf a = g.tsOf b ∧ a < b)

/-- fewer than `n` members of `S` are later than `p` -/
def LatestOf (g : Graph) (S : Nat → Prop) (n : Nat) (p : Nat) : Prop :=
  S p ∧ ∃ l : List Nat, l.Nodup ∧ (∀ q, q ∈ l ↔ S q ∧ Later g p q) ∧ l.length < n

/-- `coalesce(A, B)` -/
def CoalesceOf (A B : Nat → Prop) (p : Nat) : Prop :=
  ((∃ x, A x) ∧ A p) ∨ ((¬ ∃ x, A x) ∧ B p)

/-- greatest common ancestors of all members of `S` (empty for empty `S`) -/
def ForkPointOf (g : Graph) (S : Nat → Prop) (p : Nat) : Prop :=
  (∃ x, S x) ∧ HeadsOf g (fun c => ∀ s, S s → Path g.par s c) p

/-- `merge_point`: the commits of `V` (the visible universe) that descend from every member of
`S`, minus those that have another such commit among their ancestors (empty for empty `S`) -/
def MergePointOf (g : Graph) (V S : Nat → Prop) (p : Nat) : Prop :=
  (∃ x, S x) ∧ RootsOf g (fun c => V c ∧ ∀ s, S s → Path g.par c s) p

/-- `forks()`: visible commits with at least two visible children -/
def ForksOf (g : Graph) (V : Nat → Prop) (p : Nat) : Prop :=
  V p ∧ ∃ c₁ c₂, c₁ ≠ c₂ ∧ V c₁ ∧ V c₂ ∧ p ∈ g.par c₁ ∧ p ∈ g.par c₂

/-! ## semantics of the evaluation plan (`ResolvedExpression`) -/

mutual
def denoteR (g : Graph) : RExpr → Nat → Prop
  | .commits l => fun p => p ∈ l
  | .ancestors h lo hi fp => AncOf g fp lo hi (denoteR g h)
  | .range r h lo hi fp => fun p => AncOf g fp lo hi (denoteR g h) p ∧ ¬ AncAll g (denoteR g r) p
  | .dagRange r h lo hi => fun p =>
      AncAll g (denoteR g h) p ∧ ∃ y, denoteR g r y ∧ ∃ k, inGen lo hi k ∧ PathK g.par k p y
  | .reachable s d => fun p =>
      denoteR g d p ∧ ∃ x, denoteR g s x ∧ denoteR g d x ∧ Conn g (denoteR g d) x p
  | .heads x => HeadsOf g (denoteR g x)
  | .headsRange r h fp f =>
      HeadsOf g fun c =>
        AncOf g fp 0 none (denoteR g h) c ∧ ¬ AncAll g (denoteR g r) c ∧
          (match f with
           | none => True
           | some f => denoteP g f c)
  | .roots x => RootsOf g (denoteR g x)
  | .forkPoint x => ForkPointOf g (denoteR g x)
  | .mergePoint r h => MergePointOf g (AncAll g (denoteR g h)) (denoteR g r)
  | .forks h => ForksOf g (AncAll g (denoteR g h))
  | .latest x n => LatestOf g (denoteR g x) n
  | .coalesce a b => CoalesceOf (denoteR g a) (denoteR g b)
  | .union a b => fun p => denoteR g a p ∨ denoteR g b p
  | .inter a b => fun p => denoteR g a p ∧ denoteR g b p
  | .diff a b => fun p => denoteR g a p ∧ ¬ denoteR g b p
def denoteP (g : Graph) : PExpr → Nat → Prop
  | .set x => denoteR g x
  | .notIn x => fun p => ¬ denoteP g x p
  | .union a b => fun p => denoteP g a p ∨ denoteP g b p
  | .inter a b => fun p => denoteP g a p ∧ denoteP g b p
end

/-! ## semantics of revset expressions (from `docs/revsets.md`)

`vh` = the visible heads together with the commits referenced by the expression: `all()` is
`::vh` ("hidden revisions ... referenced explicitly ... are visible"), `~x` is `all() ~ x`,
`x::` are the descendants of `x` inside `all()`. -/

def denote (g : Graph) (vh : List Nat) : Expr → Nat → Prop
  | .none => fun _ => False
  | .all => AncAll g (· ∈ vh)
  | .visibleHeads => fun p => p ∈ g.heads
  | .visibleHeadsOrReferenced => fun p => p ∈ vh
  | .root => fun p => p = 0
  | .commits l => fun p => p ∈ l
  | .ancestors h lo hi fp => AncOf g fp lo hi (denote g vh h)
  | .descendants r lo hi => fun p =>
      AncAll g (· ∈ vh) p ∧ ∃ y, denote g vh r y ∧ ∃ k, inGen lo hi k ∧ PathK g.par k p y
  | .range r h lo hi fp => fun p => AncOf g fp lo hi (denote g vh h) p ∧ ¬ AncAll g (denote g vh r) p
  | .dagRange r h => fun p => AncAll g (denote g vh h) p ∧ ∃ y, denote g vh r y ∧ Path g.par p y
  | .reachable s d => fun p =>
      denote g vh d p ∧ ∃ x, denote g vh s x ∧ denote g vh d x ∧ Conn g (denote g vh d) x p
  | .heads x => HeadsOf g (denote g vh x)
  | .headsRange r h fp f =>
      HeadsOf g fun c =>
        AncOf g fp 0 none (denote g vh h) c ∧ ¬ AncAll g (denote g vh r) c ∧ denote g vh f c
  | .roots x => RootsOf g (denote g vh x)
  | .forkPoint x => ForkPointOf g (denote g vh x)
  | .mergePoint x => MergePointOf g (AncAll g (· ∈ vh)) (denote g vh x)
  | .forks => ForksOf g (AncAll g (· ∈ vh))
  | .latest x n => LatestOf g (denote g vh x) n
  | .coalesce a b => CoalesceOf (denote g vh a) (denote g vh b)
  | .notIn x => fun p => AncAll g (· ∈ vh) p ∧ ¬ denote g vh x p
  | .union a b => fun p => denote g vh a p ∨ denote g vh b p
  | .inter a b => fun p => denote g vh a p ∧ denote g vh b p
  | .diff a b => fun p => denote g vh a p ∧ ¬ denote g vh b p

/-- the set denoted by a whole expression -/
def denoteTop (g : Graph) (e : Expr) : Nat → Prop := denote g (refsOf e ++ g.heads) e

/-- every commit literal is a position of the graph -/
def Expr.WF (g : Graph) : Expr → Prop
  | .commits l => ∀ x ∈ l, x < g.size
  | .ancestors h _ _ _ => h.WF g
  | .descendants r _ _ => r.WF g
  | .range r h _ _ _ => r.WF g ∧ h.WF g
  | .dagRange r h => r.WF g ∧ h.WF g
  | .reachable s d => s.WF g ∧ d.WF g
  | .heads x => x.WF g
  | .headsRange r h _ f => r.WF g ∧ h.WF g ∧ f.WF g
  | .roots x => x.WF g
  | .forkPoint x => x.WF g
  | .mergePoint x => x.WF g
  | .latest x _ => x.WF g
  | .coalesce a b => a.WF g ∧ b.WF g
  | .notIn x => x.WF g
  | .union a b => a.WF g ∧ b.WF g
  | .inter a b => a.WF g ∧ b.WF g
  | .diff a b => a.WF g ∧ b.WF g
  | _ => True

end JjModel.Revset
