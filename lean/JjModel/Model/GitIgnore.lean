/-!
  Model of jj's ignore rules.

  * `/repo/lib/src/gitignore.rs` — `GitIgnoreFile::{empty, chain, chain_with_file, matches,
    matches_file, matches_dir}`: a linked list of ignore files (nearest first), each a
    `gix_ignore::Search` holding one pattern list and the directory (`prefix`) it lives in.
  * the crates jj delegates to (the versions pinned by jj's `Cargo.lock`):
    `gix-ignore 0.22` (`parse.rs`: line iterator; `search.rs`: last matching pattern wins) and
    `gix-glob 0.27` (`parse.rs`: pattern flags; `pattern.rs`: `matches_repo_relative_path`,
    `matches`; `wildmatch.rs`).
  * `/repo/lib/src/local_working_copy.rs` `FileSnapshotter::{visit_directory, process_dir_entry}`:
    every visited directory chains its own `.gitignore`; a directory for which `matches_dir` holds
    is not descended into; a file is tested with `matches_file`.

  Strings are `List Char` (the harness only produces ASCII bytes; one byte = one `Char`).
  Repository paths are lists of components (non-empty, no `/`), the root is `[]`.

  `wildmatch` is a *declarative* model: the pattern is tokenised once (escapes, `?`, `*`, the three
  `**` forms, bracket expressions) and the token list is matched by backtracking.  The real
  `gix_glob::wildmatch` is a port of Git's `dowild` with the `WM_ABORT_ALL` /
  `WM_ABORT_TO_STARSTAR` pruning signals and a recursion limit of 64; those are meant to be
  optimisations only, and the differential tie checks that they are (on the generated inputs).
-/
namespace JjModel.GitIgnore

abbrev Str := List Char

/-! ### small string helpers -/

def isPrefixOf : Str → Str → Bool
  | [], _ => true
  | _ :: _, [] => false
  | a :: as, b :: bs => a == b && isPrefixOf as bs

/-- `value.ends_with(suffix)` -/
def isSuffixOf (suffix value : Str) : Bool := isPrefixOf suffix.reverse value.reverse

/-- split on every `sep`, keeping empty pieces (`"a\n"` ↦ `["a", ""]`, `""` ↦ `[""]`) -/
def splitOnChar (sep : Char) : Str → List Str
  | [] => [[]]
  | c :: cs =>
    if c = sep then [] :: splitOnChar sep cs
    else match splitOnChar sep cs with
      | h :: t => (c :: h) :: t
      | [] => [[c]]

/-- components joined by `/` (`RepoPath::as_internal_file_string`) -/
def joinSlash : List Str → Str
  | [] => []
  | [a] => a
  | a :: rest => a ++ '/' :: joinSlash rest

/-- Rust `u8::is_ascii_whitespace`: space, `\t`, `\n`, form feed, `\r` -/
def isAsciiWhitespace (c : Char) : Bool :=
  c = ' ' || c = '\t' || c = '\n' || c = Char.ofNat 12 || c = '\r'

/-! ### wildmatch: tokens -/

/-- an element of a bracket expression -/
inductive CItem where
  | one (c : Char)
  | range (lo hi : Char)
  | named (name : Str)
  deriving DecidableEq, Repr

inductive Tok where
  | lit (c : Char)
  /-- `?` -/
  | any
  /-- `*`, or `**` not delimited by slashes: any run of non-`/` bytes -/
  | star
  /-- `**` at a component boundary followed by end of pattern (or by `\/`): anything -/
  | dstar
  /-- `**/` at a component boundary: nothing, or anything ending in `/` -/
  | dstarSlash
  | cls (neg : Bool) (items : List CItem)
  /-- malformed rest of pattern (lone trailing `\`, unterminated `[`, unknown `[:class:]`):
  Git answers `WM_ABORT_ALL` when it gets here and plain mismatch before; never a match -/
  | bad
  deriving DecidableEq, Repr

def isGlobChar (c : Char) : Bool := c = '*' || c = '?' || c = '[' || c = '\\'

/-- the POSIX classes as `gix_glob::wildmatch` evaluates them (ASCII only).  On printable ASCII
they agree with Git's; `blank`/`space` differ from Git's on control characters (gix: `blank` =
ASCII whitespace, `space` = only `' '`; Git: `blank` = space/tab, `space` = `isspace`). -/
def classMember (name : Str) (c : Char) : Option Bool :=
  let n := c.toNat
  let lower := decide (97 ≤ n ∧ n ≤ 122)
  let upper := decide (65 ≤ n ∧ n ≤ 90)
  let digit := decide (48 ≤ n ∧ n ≤ 57)
  let graph := decide (33 ≤ n ∧ n ≤ 126)
  if name = "alnum".toList then some (lower || upper || digit)
  else if name = "alpha".toList then some (lower || upper)
  else if name = "blank".toList then some (isAsciiWhitespace c)
  else if name = "cntrl".toList then some (decide (n < 32 ∨ n = 127))
  else if name = "digit".toList then some digit
  else if name = "graph".toList then some graph
  else if name = "lower".toList then some lower
  else if name = "print".toList then some (decide (32 ≤ n ∧ n ≤ 126))
  else if name = "punct".toList then some (graph && !(lower || upper || digit))
  else if name = "space".toList then some (c = ' ')
  else if name = "upper".toList then some upper
  else if name = "xdigit".toList then
    some (digit || decide (97 ≤ n ∧ n ≤ 102) || decide (65 ≤ n ∧ n ≤ 70))
  else none

def CItem.test (t : Char) : CItem → Bool
  | .one c => c == t
  | .range lo hi => decide (lo.toNat ≤ t.toNat ∧ t.toNat ≤ hi.toNat)
  | .named n => (classMember n t).getD false

/-- split at the first `c`: `(before, after)` -/
def splitAtChar (c : Char) : Str → Option (Str × Str)
  | [] => none
  | x :: xs =>
    if x = c then some ([], xs)
    else match splitAtChar c xs with
      | some (b, a) => some (x :: b, a)
      | none => none

/-- one iteration of the `do … while` loop over the body of a bracket expression in Git's
`dowild` (`case '['`): consumes one item at the head of `p`.  Returns the new `prev_ch`
(`none` = 0), the item, and the rest of the pattern. -/
def classStep (p : Str) (prev : Option Char) : Option (Option Char × CItem × Str) :=
  match p with
  | [] => none
  | c :: rest =>
    if c = '\\' then
      match rest with
      | [] => none
      | d :: r => some (some d, .one d, r)
    else if c = '-' ∧ prev.isSome ∧ rest ≠ [] ∧ rest.head? ≠ some ']' then
      match rest with
      | [] => none
      | h :: r =>
        if h = '\\' then
          match r with
          | [] => none
          | hi :: r' => some (none, .range (prev.getD 'x') hi, r')
        else some (none, .range (prev.getD 'x') h, r)
    else if c = '[' ∧ rest.head? = some ':' then
      match splitAtChar ']' rest.tail with
      | none => none
      | some (body, after) =>
        if body = [] ∨ body.getLast? ≠ some ':' then
          -- no ":]" – an ordinary `[`, scanning resumes at the `:`
          some (some '[', .one '[', rest)
        else if (classMember body.dropLast 'a').isSome then
          some (none, .named body.dropLast, after)
        else none
    else some (some c, .one c, rest)

/-- the items of a bracket expression whose body (after `[`, `[!` or `[^`) starts at `p`;
the first item is taken even if it is `]`.  Returns the items and the pattern after the closing
`]`; `none` when the expression is malformed. -/
def classItems : Nat → Str → Option Char → List CItem → Option (List CItem × Str)
  | 0, _, _, _ => none
  | fuel + 1, p, prev, acc =>
    match classStep p prev with
    | none => none
    | some (prev', item, rest) =>
      match rest with
      | [] => none
      | c :: r =>
        if c = ']' then some ((item :: acc).reverse, r)
        else classItems fuel rest prev' (item :: acc)

/-- `prev` is the raw pattern byte before the current position (`'/'` at the start: Git's
`prev_p < pattern || *prev_p == '/'`). -/
def tokenize : Nat → Char → Str → List Tok
  | 0, _, _ => [.bad]
  | _ + 1, _, [] => []
  | f + 1, prev, c :: rest =>
    if c = '\\' then
      match rest with
      | [] => [.bad]
      | d :: r => .lit d :: tokenize f d r
    else if c = '?' then .any :: tokenize f '?' rest
    else if c = '*' then
      if rest.head? = some '*' then
        let rest' := rest.dropWhile (· = '*')
        if prev = '/' ∧ (rest' = [] ∨ rest'.head? = some '/' ∨ isPrefixOf ['\\', '/'] rest') then
          match rest' with
          | [] => [.dstar]
          | d :: r => if d = '/' then .dstarSlash :: tokenize f '/' r else .dstar :: tokenize f '*' rest'
        else .star :: tokenize f '*' rest'
      else .star :: tokenize f '*' rest
    else if c = '[' then
      let neg := rest.head? = some '!' ∨ rest.head? = some '^'
      let body := if neg then rest.tail else rest
      match classItems (body.length + 1) body none [] with
      | none => [.bad]
      | some (items, r) => .cls neg items :: tokenize f ']' r
    else .lit c :: tokenize f c rest

/-! ### wildmatch: matching (pathname mode, case sensitive) -/

/-- `*`: `k` on the text after skipping any run of non-`/` bytes -/
def starK (k : Str → Bool) : Str → Bool
  | [] => k []
  | x :: t => k (x :: t) || (x != '/' && starK k t)

/-- `**` allowed to cross `/` -/
def dstarK (k : Str → Bool) : Str → Bool
  | [] => k []
  | x :: t => k (x :: t) || dstarK k t

/-- `k` on the text after some `/` -/
def afterSlashK (k : Str → Bool) : Str → Bool
  | [] => false
  | x :: t => (x == '/' && k t) || afterSlashK k t

def matchToks : List Tok → Str → Bool
  | [] => fun t => t.isEmpty
  | .lit c :: p => fun t =>
    match t with
    | [] => false
    | x :: t' => x == c && matchToks p t'
  | .any :: p => fun t =>
    match t with
    | [] => false
    | x :: t' => x != '/' && matchToks p t'
  | .cls neg items :: p => fun t =>
    match t with
    | [] => false
    | x :: t' => x != '/' && (items.any (CItem.test x) != neg) && matchToks p t'
  | .star :: p => starK (matchToks p)
  | .dstar :: p => dstarK (matchToks p)
  | .dstarSlash :: p => fun t => matchToks p t || afterSlashK (matchToks p) t
  | .bad :: _ => fun _ => false

/-- `gix_glob::wildmatch(pattern, value, NO_MATCH_SLASH_LITERAL)` -/
def wildmatch (pattern value : Str) : Bool :=
  matchToks (tokenize (pattern.length + 1) '/' pattern) value

/-! ### pattern lines -/

/-- `gix_glob::Pattern` (text + `pattern::Mode` flags + `first_wildcard_pos`) -/
structure Pattern where
  text : Str
  negative : Bool
  absolute : Bool
  mustBeDir : Bool
  noSubDir : Bool
  endsWith : Bool
  firstWild : Option Nat
  deriving DecidableEq, Repr

def firstWildcardPos : Str → Option Nat
  | [] => none
  | c :: cs => if isGlobChar c then some 0 else (firstWildcardPos cs).map (· + 1)

/-- `gix_glob::parse::pattern`, first step (`may_alter = true`): drop a leading `!` (negation)
or the backslash of a leading `\!` / `\#` -/
def stripBang (pat : Str) : Str :=
  if pat.head? = some '!' then pat.tail
  else if pat.head? = some '\\' ∧ (pat.tail.head? = some '!' ∨ pat.tail.head? = some '#') then pat.tail
  else pat

/-- `gix_glob::parse::pattern`, the flags computed from the text after `stripBang` -/
def globFlags (neg : Bool) (pat : Str) : Pattern :=
  let abs := pat.head? = some '/'
  let pat := if abs then pat.tail else pat
  let dir := pat.getLast? = some '/'
  let pat := if dir then pat.dropLast else pat
  { text := pat
    negative := neg
    absolute := abs
    mustBeDir := dir
    noSubDir := !pat.contains '/'
    endsWith := pat.head? = some '*' ∧ firstWildcardPos pat.tail = none
    firstWild := firstWildcardPos pat }

/-- `gix_glob::parse::pattern(pat, may_alter = true)` -/
def globParse (pat : Str) : Option Pattern :=
  if pat = [] then none
  else if (stripBang pat).all isAsciiWhitespace then none
  else some (globFlags (pat.head? = some '!') (stripBang pat))

/-- loop of `gix_ignore::parse::truncate_non_escaped_trailing_spaces`: position of the trailing
run of unescaped spaces; outer `none` = "a lone backslash ends the line: keep everything" -/
def truncScan : Str → Nat → Option Nat → Option (Option Nat)
  | [], _, ls => some ls
  | c :: r, pos, ls =>
    if c = ' ' then truncScan r (pos + 1) (some (ls.getD pos))
    else if c = '\\' then
      match r with
      | [] => none
      | _ :: r' => truncScan r' (pos + 2) none
    else truncScan r (pos + 1) none

def truncateTrailingSpaces (buf : Str) : Str :=
  match truncScan buf 0 none with
  | some (some pos) => buf.take pos
  | _ => buf

/-- one line of an ignore file (`gix_ignore::parse::Lines::next`, `support_precious = false`);
`none` = the line contributes no pattern -/
def parseLine (line : Str) : Option Pattern :=
  match line with
  | [] => none
  | first :: rest =>
    if first = '#' then none
    else if first = '!' ∧ rest.head? = some '$' then none   -- gix: "starts with !$ which is not allowed"
    else
      let line := if first = '\\' ∧ rest.head? = some '$' then rest else line
      globParse (truncateTrailingSpaces line)

def stripCr (l : Str) : Str := if l.getLast? = some '\r' then l.dropLast else l

/-- `bstr::ByteSlice::lines`: terminators `\n` and `\r\n`; a final unterminated line is kept
as is (a lone trailing `\r` stays), an empty one is not produced -/
def splitLines (buf : Str) : List Str :=
  let parts := splitOnChar '\n' buf
  let terminated := (parts.dropLast).map stripCr
  match parts.getLast? with
  | some [] => terminated
  | some l => terminated ++ [l]
  | none => terminated

/-- `unicode_bom::Bom::from(buf).len()`: `gix_ignore::parse::Lines::new` skips whatever this crate
recognises as a byte-order mark — not only UTF-8's `EF BB BF` (the only one Git skips) but also
UTF-16/32, UTF-1, UTF-EBCDIC, SCSU, BOCU-1, GB 18030 and the UTF-7 marks `+/v8 +/v9 +/v+ +/v/`. -/
def bomLen (buf : Str) : Nat :=
  let b := buf.map Char.toNat
  if b.length < 2 then 0
  else if b.take 4 = [0, 0, 0xfe, 0xff] then 4
  else if b.take 3 = [0x0e, 0xfe, 0xff] then 3
  else if b.take 3 = [0x2b, 0x2f, 0x76] ∧ (b.drop 3).head?.any (fun x => x = 0x38 || x = 0x39 || x = 0x2b || x = 0x2f) then 4
  else if b.take 4 = [0x84, 0x31, 0x95, 0x33] then 4
  else if b.take 4 = [0xdd, 0x73, 0x66, 0x73] then 4
  else if b.take 3 = [0xef, 0xbb, 0xbf] then 3
  else if b.take 3 = [0xf7, 0x64, 0x4c] then 3
  else if b.take 3 = [0xfb, 0xee, 0x28] then 3
  else if b.take 2 = [0xfe, 0xff] then 2
  else if b.take 4 = [0xff, 0xfe, 0, 0] then 4
  else if b.take 2 = [0xff, 0xfe] then 2
  else 0

/-- all patterns of an ignore file, in file order -/
def parseFile (buf : Str) : List Pattern := (splitLines (buf.drop (bomLen buf))).filterMap parseLine

/-! ### matching one pattern -/

/-- `gix_glob::Pattern::matches(value, NO_MATCH_SLASH_LITERAL)` -/
def Pattern.matchesValue (p : Pattern) (value : Str) : Bool :=
  match p.firstWild with
  | some pos =>
    if p.endsWith ∧ !value.contains '/' then isSuffixOf (p.text.drop (pos + 1)) value
    else isPrefixOf (p.text.take pos) value && wildmatch p.text value
  | none => p.text == value

/-- `gix_glob::Pattern::matches_repo_relative_path` on a non-root relative path -/
def Pattern.matchesRel (p : Pattern) (rel : List Str) (isDir : Bool) : Bool :=
  if !isDir ∧ p.mustBeDir then false
  else if p.noSubDir ∧ !p.absolute then p.matchesValue (rel.getLast?.getD [])
  else p.matchesValue (joinSlash rel)

/-! ### chain of ignore files (generic in the pattern type and matcher) -/

/-- one `GitIgnoreFile` node: its `prefix` and its patterns in file order -/
structure IgnoreFile (P : Type) where
  dir : List Str
  pats : List P
  deriving Repr

/-- `RepoPath::strip_prefix` -/
def stripPrefix : List Str → List Str → Option (List Str)
  | [], p => some p
  | _ :: _, [] => none
  | a :: as, b :: bs => if a = b then stripPrefix as bs else none

section generic
variable {P : Type} (neg : P → Bool) (pm : P → List Str → Bool → Bool)

/-- `gix_ignore::Search::pattern_matching_relative_path`: the last pattern of the file that matches -/
def lastMatching (pats : List P) (rel : List Str) (isDir : Bool) : Option P :=
  pats.reverse.find? (fun q => pm q rel isDir)

/-- `GitIgnoreFile::matches`; the chain is the `parent` linked list, nearest file first
(the pattern-less `GitIgnoreFile::empty()` root is dropped by `chain`, here it is `[]`) -/
def chainMatches : List (IgnoreFile P) → List Str → Bool → Bool
  | [], _, _ => false
  | f :: rest, path, isDir =>
    match stripPrefix f.dir path with
    | some rel =>
      if rel.isEmpty then chainMatches rest path isDir
      else match lastMatching pm f.pats rel isDir with
        | some q => !neg q
        | none => chainMatches rest path isDir
    | none => chainMatches rest path isDir

/-- `chain_with_file(dir, dir/.gitignore)`: `files` maps a directory to the patterns of its
`.gitignore` (absent = no such file) -/
def chainWithFile (files : List (List Str × List P)) (chain : List (IgnoreFile P)) (dir : List Str) :
    List (IgnoreFile P) :=
  match files.lookup dir with
  | some pats => ⟨dir, pats⟩ :: chain
  | none => chain

/-- what the snapshot decides for the entry `dir ++ rest` when `visit_directory(dir)` starts with
`chain`: each directory chains its `.gitignore`, an ignored directory is not descended into (all
its untracked files are ignored), the leaf is tested by `matches_file` (or `matches_dir` when
`leafIsDir`). -/
def walk (files : List (List Str × List P)) :
    List (IgnoreFile P) → List Str → List Str → Bool → Bool
  | _, _, [], _ => false
  | chain, dir, [name], leafIsDir =>
    chainMatches neg pm (chainWithFile files chain dir) (dir ++ [name]) leafIsDir
  | chain, dir, name :: n2 :: rest, leafIsDir =>
    let chain' := chainWithFile files chain dir
    if chainMatches neg pm chain' (dir ++ [name]) true then true
    else walk files chain' (dir ++ [name]) (n2 :: rest) leafIsDir

end generic

/-! ### the concrete instance -/

def patMatches (p : Pattern) (rel : List Str) (isDir : Bool) : Bool := p.matchesRel rel isDir

/-- `GitIgnoreFile::matches_file` / `matches_dir` on an explicit chain -/
def matchesPath (chain : List (IgnoreFile Pattern)) (path : List Str) (isDir : Bool) : Bool :=
  chainMatches Pattern.negative patMatches chain path isDir

/-- is the untracked *file* `path` ignored by a snapshot whose base chain is `base` (global
excludes, `info/exclude`) and whose working copy has the `.gitignore` files `files` -/
def snapshotIgnored (files : List (List Str × List Pattern)) (base : List (IgnoreFile Pattern))
    (path : List Str) : Bool :=
  walk Pattern.negative patMatches files base [] path false

end JjModel.GitIgnore
