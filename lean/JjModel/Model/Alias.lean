/-!
  Abstract model of alias expansion (C36): `/repo/lib/src/dsl_util.rs` `expand_aliases`,
  `AliasExpander::{expand_defn, fold_identifier, fold_pattern, fold_function_call}`,
  `fold_expression_nodes`, and the `FoldableExpression::fold` of the expression languages.

  Names are natural numbers.  An expression is an identifier, a function call, a pattern
  `name:value`, a node with two sub-expressions that is not subject to substitution (a binary
  operator), or an already substituted node (`ExpressionKind::AliasExpanded`).  An alias definition
  is the parsed body, or `none` when the definition text does not parse (reported when the alias is
  used: `parse_definition` fails inside `expand_defn`).

  The recursion-detection stack `AliasExpander::states` is the list of the ids being expanded
  (innermost first) together with the local variables of the innermost one.
-/
namespace JjModel.Alias

/-- `dsl_util::AliasId` -/
inductive AliasId where
  | symbol (name : Nat)
  | pattern (name param : Nat)
  | function (name : Nat) (params : List Nat)
  | parameter (name : Nat)
  deriving DecidableEq, Repr

inductive Ast where
  | ident (name : Nat)
  | call (name : Nat) (args : List Ast)
  | pat (name : Nat) (value : Ast)
  | bin (l r : Ast)
  | expanded (id : AliasId) (subst : Ast)
  deriving Repr

/-- `AliasesMap`: symbol aliases `name ↦ defn`, pattern aliases `name ↦ (param, defn)`, function
aliases `(name, params) ↦ defn` (overloaded by arity).  Lookups take the first match. -/
structure Aliases where
  symbols : List (Nat × Option Ast)
  patterns : List (Nat × Nat × Option Ast)
  functions : List (Nat × List Nat × Option Ast)
  deriving Repr

inductive Err where
  /-- `AliasExpandError::recursive_expansion` -/
  | recursive (id : AliasId)
  /-- `AliasExpandError::invalid_arguments` (no overload of this arity) -/
  | badArgs (name : Nat)
  /-- the definition does not parse -/
  | syntax
  deriving DecidableEq, Repr

inductive Res (α : Type) where
  | oof
  /-- the ids passed to `within_alias_expansion`, outermost first, and the original error -/
  | err (trace : List AliasId) (e : Err)
  | ok (a : α)
  deriving Repr

abbrev Locals := List (Nat × Ast)

def lookupLocal : Locals → Nat → Option Ast
  | [], _ => none
  | (k, v) :: t, n => if k = n then some v else lookupLocal t n

def getSymbol : List (Nat × Option Ast) → Nat → Option (AliasId × Option Ast)
  | [], _ => none
  | (k, d) :: t, n => if k = n then some (.symbol k, d) else getSymbol t n

def getPattern : List (Nat × Nat × Option Ast) → Nat → Option (AliasId × Nat × Option Ast)
  | [], _ => none
  | (k, p, d) :: t, n => if k = n then some (.pattern k p, p, d) else getPattern t n

/-- is there any overload with this name (`get_function_overloads`)? -/
def hasFunction : List (Nat × List Nat × Option Ast) → Nat → Bool
  | [], _ => false
  | (k, _, _) :: t, n => k = n || hasFunction t n

/-- `find_by_arity` -/
def getFunction : List (Nat × List Nat × Option Ast) → Nat → Nat → Option (AliasId × List Nat × Option Ast)
  | [], _, _ => none
  | (k, ps, d) :: t, n, arity =>
    if k = n ∧ ps.length = arity then some (.function k ps, ps, d) else getFunction t n arity

def zipLocals : List Nat → List Ast → Locals
  | p :: ps, a :: as => (p, a) :: zipLocals ps as
  | _, _ => []

mutual
/-- `fold_expression` of the `AliasExpander`; `stack` = ids of `states` (innermost first),
`locals` = `current_locals()` -/
def expand (m : Aliases) : Nat → List AliasId → Locals → Ast → Res Ast
  | 0, _, _, _ => .oof
  | n + 1, stack, locals, e =>
    match e with
    | .ident x =>
      match lookupLocal locals x with
      | some subst => .ok (.expanded (.parameter x) subst)
      | none =>
        match getSymbol m.symbols x with
        | some (id, defn) => expandDefn m n stack id defn []
        | none => .ok (.ident x)
    | .pat name value =>
      match getPattern m.patterns name with
      | some (id, param, defn) =>
        match expand m n stack locals value with
        | .ok arg => expandDefn m n stack id defn [(param, arg)]
        | .err t e => .err t e
        | .oof => .oof
      | none =>
        match expand m n stack locals value with
        | .ok v => .ok (.pat name v)
        | .err t e => .err t e
        | .oof => .oof
    | .call name args =>
      if hasFunction m.functions name then
        match getFunction m.functions name args.length with
        | none => .err [] (.badArgs name)
        | some (id, params, defn) =>
          match expandList m n stack locals args with
          | .ok args' => expandDefn m n stack id defn (zipLocals params args')
          | .err t e => .err t e
          | .oof => .oof
      else
        match expandList m n stack locals args with
        | .ok args' => .ok (.call name args')
        | .err t e => .err t e
        | .oof => .oof
    | .bin l r =>
      match expand m n stack locals l with
      | .ok l' =>
        match expand m n stack locals r with
        | .ok r' => .ok (.bin l' r')
        | .err t e => .err t e
        | .oof => .oof
      | .err t e => .err t e
      | .oof => .oof
    | .expanded id subst =>
      match expand m n stack locals subst with
      | .ok s' => .ok (.expanded id s')
      | .err t e => .err t e
      | .oof => .oof

/-- `fold_expression_nodes` -/
def expandList (m : Aliases) : Nat → List AliasId → Locals → List Ast → Res (List Ast)
  | 0, _, _, _ => .oof
  | _ + 1, _, _, [] => .ok []
  | n + 1, stack, locals, a :: as =>
    match expand m n stack locals a with
    | .ok a' =>
      match expandList m n stack locals as with
      | .ok as' => .ok (a' :: as')
      | .err t e => .err t e
      | .oof => .oof
    | .err t e => .err t e
    | .oof => .oof

/-- `expand_defn`: recursion check, push, parse the definition, fold it, pop -/
def expandDefn (m : Aliases) : Nat → List AliasId → AliasId → Option Ast → Locals → Res Ast
  | 0, _, _, _, _ => .oof
  | n + 1, stack, id, defn, locals =>
    if stack.contains id then .err [] (.recursive id)
    else
      match defn with
      | none => .err [id] .syntax
      | some d =>
        match expand m n (id :: stack) locals d with
        | .ok a => .ok (.expanded id a)
        | .err t e => .err (id :: t) e
        | .oof => .oof
end

/-! ### the fuel that is enough -/

mutual
def Ast.size : Ast → Nat
  | .ident _ => 1
  | .call _ args => 1 + Ast.sizeList args
  | .pat _ v => 1 + v.size
  | .bin l r => 1 + l.size + r.size
  | .expanded _ s => 1 + s.size
def Ast.sizeList : List Ast → Nat
  | [] => 1
  | a :: as => 1 + a.size + Ast.sizeList as
end

def defnSize : Option Ast → Nat
  | none => 0
  | some d => d.size

/-- every id that a lookup can return -/
def Aliases.ids (m : Aliases) : List AliasId :=
  m.symbols.map (fun x => .symbol x.1) ++ m.patterns.map (fun x => .pattern x.1 x.2.1)
    ++ m.functions.map (fun x => .function x.1 x.2.1)

def maxNat : List Nat → Nat
  | [] => 0
  | x :: xs => max x (maxNat xs)

/-- size of the largest definition -/
def Aliases.maxDefn (m : Aliases) : Nat :=
  maxNat (m.symbols.map (fun x => defnSize x.2) ++ m.patterns.map (fun x => defnSize x.2.2)
    ++ m.functions.map (fun x => defnSize x.2.2))

/-- ids that are not being expanded -/
def remaining (m : Aliases) (stack : List AliasId) : Nat :=
  (m.ids.filter fun i => !stack.contains i).length

/-- fuel for expanding `e` below the given stack: the expression itself, plus, for every alias
that can still be entered, its definition and the two steps `expand → expandDefn → expand` -/
def fuelFor (m : Aliases) (stack : List AliasId) (e : Ast) : Nat :=
  e.size + remaining m stack * (m.maxDefn + 2) + 1

/-- `dsl_util::expand_aliases` -/
def expandAliases (m : Aliases) (e : Ast) : Res Ast := expand m (fuelFor m [] e) [] [] e

end JjModel.Alias
