/-
  L6 — model of the commit index query algorithms of `lib/src/default_index/`
  (`composite.rs`, `mutable.rs`, `entry.rs`).

  An index is the list of its entries in *global position* order.  An entry records the
  global positions of its parents and its generation number, exactly the two fields the query
  algorithms read (`CommitIndexEntry::parent_positions`, `generation_number`).

  `BinaryHeap<GlobalCommitPosition>` is modelled as a plain `List Nat` (a multiset): `peek` is
  the maximum, `push` is `cons`, and `dedup_pop`/`remove_dup` remove *every* copy of the
  maximum (in the source the copies are popped one after the other because they are all the
  current maximum).  Nothing else of the heap is observable.

  Loops are written with fuel; `Props/C18.lean` proves the fuel handed out by the entry points
  is never exhausted on a well-formed index.

  Import-free on purpose: the driver executable links this file.
-/
namespace JjModel.Index

/-- `MutableGraphEntry` / `CommitGraphEntry` restricted to what the queries read. -/
structure Entry where
  parents : List Nat
  gen : Nat
  deriving DecidableEq, Repr

abbrev Index := List Entry

/-- `entry_by_pos(pos).parent_positions()` (no parents for a position outside the index). -/
def parentsOf (idx : Index) (p : Nat) : List Nat :=
  match idx[p]? with
  | some e => e.parents
  | none => []

/-- `entry_by_pos(pos).generation_number()` -/
def genOf (idx : Index) (p : Nat) : Nat :=
  match idx[p]? with
  | some e => e.gen
  | none => 0

/-! ### `MutableCommitIndexSegment::add_commit_data` (graph part) -/

/-- the loop `generation_number = max(generation_number, parent.generation_number() + 1)` -/
def newGen (idx : Index) : List Nat → Nat
  | [] => 0
  | q :: qs => max (genOf idx q + 1) (newGen idx qs)

/-- `add_commit_data` for a commit that is not yet indexed; `ps` = positions of its parents. -/
def addCommit (idx : Index) (ps : List Nat) : Index :=
  idx ++ [{ parents := ps, gen := newGen idx ps }]

/-- an index built by adding commits one after the other -/
def build (pss : List (List Nat)) : Index := pss.foldl addCommit []

/-! ### `CompositeCommitIndex::is_ancestor_pos` -/

/-- The `while let Some(descendant_pos) = work.pop()` loop.  `work` is the stack (head = top),
`visited` the `PositionsBitSet`, `ga` the generation number of the ancestor. -/
def isAncestorLoop (idx : Index) (a ga : Nat) : Nat → List Nat → List Nat → Bool
  | 0, _, _ => false
  | _ + 1, [], _ => false
  | fuel + 1, d :: work, visited =>
    if d < a then isAncestorLoop idx a ga fuel work visited
    else if d = a then true
    else if visited.contains d then isAncestorLoop idx a ga fuel work visited
    else if genOf idx d ≤ ga then isAncestorLoop idx a ga fuel work (d :: visited)
    else isAncestorLoop idx a ga fuel ((parentsOf idx d).reverse ++ work) (d :: visited)

/-- number of parent edges of the whole index -/
def numEdges (idx : Index) : Nat :=
  ((List.range idx.length).map fun p => (parentsOf idx p).length).sum

/-- fuel handed to `isAncestorLoop`: one step per stack pop; at most `1 + #edges` pops happen -/
def ancFuel (idx : Index) : Nat := numEdges idx + 2

def isAncestorPos (idx : Index) (a d : Nat) : Bool :=
  isAncestorLoop idx a (genOf idx a) (ancFuel idx) [d] []

/-! ### heap helpers (`shift_to_parents`, `dedup_pop`, `dedup_replace`, `remove_dup`) -/

/-- `heap.peek()` -/
def peek : List Nat → Option Nat
  | [] => none
  | x :: xs => match peek xs with
    | none => some x
    | some m => some (max x m)

/-- `dedup_pop` once the maximum `x` is known: every copy of `x` leaves the heap -/
def removeAll (x : Nat) (h : List Nat) : List Nat := h.filter (· != x)

/-- `shift_to_parents(items, pos, parent_positions)`: `pos` (the maximum, with its duplicates)
is replaced by its parents. -/
def shiftToParents (idx : Index) (h : List Nat) (pos : Nat) : List Nat :=
  parentsOf idx pos ++ removeAll pos h

/-! ### `CompositeCommitIndex::heads_pos` -/

/-- the `while let Some(&parent) = parents.peek().filter(|&&parent| parent >= candidate)` loop;
returns the heap and whether the candidate was found in it (`continue 'outer`) -/
def headsInner (idx : Index) (minGen cand : Nat) : Nat → List Nat → List Nat × Bool
  | 0, h => (h, false)
  | fuel + 1, h =>
    match peek h with
    | none => (h, false)
    | some parent =>
      if parent < cand then (h, false)
      else
        let h' := if genOf idx parent ≤ minGen then removeAll parent h
                  else shiftToParents idx h parent
        if parent = cand then (h', true) else headsInner idx minGen cand fuel h'

/-- the `'outer: for candidate in candidate_positions` loop; `heads` is accumulated reversed -/
def headsOuter (idx : Index) (minGen : Nat) : List Nat → List Nat → List Nat → List Nat
  | [], _, heads => heads.reverse
  | c :: cs, h, heads =>
    match headsInner idx minGen c (idx.length + 1) h with
    | (h', true) => headsOuter idx minGen cs h' heads
    | (h', false) => headsOuter idx minGen cs (parentsOf idx c ++ h') (c :: heads)

/-- `candidate_positions.iter().map(generation_number).min()` -/
def minGenOf (idx : Index) : List Nat → Option Nat
  | [] => none
  | c :: cs => match minGenOf idx cs with
    | none => some (genOf idx c)
    | some m => some (min (genOf idx c) m)

/-- `heads_pos`; the candidates must be strictly descending -/
def headsPos (idx : Index) (cands : List Nat) : List Nat :=
  match minGenOf idx cands with
  | none => cands
  | some minGen => headsOuter idx minGen cands [] []

/-- insertion into a strictly descending list (duplicates dropped): the model of
`sort_unstable_by_key(Reverse) ; dedup()` in `heads()` -/
def insertDesc (x : Nat) : List Nat → List Nat
  | [] => [x]
  | y :: ys => if x > y then x :: y :: ys else if x = y then y :: ys else y :: insertDesc x ys

def sortDescDedup (l : List Nat) : List Nat := l.foldr insertDesc []

/-- `CompositeCommitIndex::heads` on positions -/
def heads (idx : Index) (cands : List Nat) : List Nat := headsPos idx (sortDescDedup cands)

/-! ### `CompositeCommitIndex::common_ancestors_pos` -/

/-- the `while let (Some(&pos1), Some(&pos2)) = (items1.peek(), items2.peek())` loop;
`result` is accumulated reversed -/
def gcaLoop (idx : Index) : Nat → List Nat → List Nat → List Nat → List Nat
  | 0, _, _, result => result.reverse
  | fuel + 1, h1, h2, result =>
    match peek h1, peek h2 with
    | some p1, some p2 =>
      if p1 > p2 then gcaLoop idx fuel (shiftToParents idx h1 p1) h2 result
      else if p1 < p2 then gcaLoop idx fuel h1 (shiftToParents idx h2 p2) result
      else gcaLoop idx fuel (removeAll p1 h1) (removeAll p2 h2) (p1 :: result)
    | _, _ => result.reverse

def commonAncestorsPos (idx : Index) (s1 s2 : List Nat) : List Nat :=
  headsPos idx (gcaLoop idx (2 * idx.length + 1) s1 s2 [])

/-! ### `CompositeCommitIndex::all_heads_pos` -/

/-- the `not_head` bit set after the first loop -/
def notHead (idx : Index) : List Nat := idx.flatMap fun e => e.parents

def allHeadsPos (idx : Index) : List Nat :=
  (List.range idx.length).filter fun p => !(notHead idx).contains p

/-! ### stacked segments (`ancestor_index_segments`, `entry_by_pos`) -/

/-- one index segment: `num_parent_commits` and its local entries -/
structure Segment where
  numParent : Nat
  entries : List Entry
  deriving Repr

/-- `entry_by_pos`: segments listed child first (as `ancestor_index_segments` yields them);
the first segment with `pos ≥ num_parent_commits` owns the position. -/
def entryByPos : List Segment → Nat → Option Entry
  | [], _ => none
  | s :: rest, pos =>
    if s.numParent ≤ pos then s.entries[pos - s.numParent]? else entryByPos rest pos

/-- the entries of a stack of segments in global position order -/
def flatten : List Segment → Index
  | [] => []
  | s :: rest => flatten rest ++ s.entries

/-- cut a flat index into segments of the given local sizes (oldest first);
returns the stack child first -/
def segmentsOf (idx : Index) : List Nat → Nat → List Segment → List Segment
  | [], _, acc => acc
  | n :: ns, start, acc =>
    segmentsOf idx ns (start + n) ({ numParent := start, entries := (idx.drop start).take n } :: acc)

end JjModel.Index
