/-!
  Model of `jj undo`, `jj redo`, `jj op restore`, `jj op revert` for C41
  (`/repo/cli/src/commands/{undo.rs,redo.rs}`, `operation/{restore.rs,revert.rs,mod.rs}`).

  * A view is a record of its seven stored portions (`jj_lib::op_store::View`).  The commands only
    copy whole portions around (and, for `op revert`, merge them), so each portion is an opaque
    value: the harness interns the canonical text of a portion to a small number.
  * The operation log is the list of operations in creation order (parents have smaller indices);
    an operation is `{parents, desc, view}` where `desc` says whether the description starts with
    `"undo: restore to operation <id>"` / `"redo: restore to operation <id>"` (then it carries the
    index of that operation) or is anything else.
  * `immWc` is an input: the working-copy portions whose commit (for the workspace running the
    command) is immutable under the configuration of this command; if the restored view's portion is
    one of them, `finish_transaction` (cli_util.rs) creates a new commit on top of that commit — the
    documented exception of C41.  The model reports it as `newWc`.

  Core-only Lean (linked into the driver).
-/
namespace JjModel.Undo

/-- `jj_lib::op_store::View`, each field an opaque portion -/
structure View where
  heads : Nat
  bookmarks : Nat
  tags : Nat
  remotes : Nat
  gitRefs : Nat
  gitHeads : Nat
  wc : Nat
deriving DecidableEq, Repr

/-- `RevertWhatToRestore` -/
inductive What
  | repo
  | remoteTracking
deriving DecidableEq, Repr

/-- `DEFAULT_REVERT_WHAT` -/
def defaultWhat : List What := [.repo, .remoteTracking]

/-- `view_with_desired_portions_restored` (operation/mod.rs) -/
def viewWithDesiredPortionsRestored (restored current : View) (what : List What) : View :=
  let repoSource := if what.contains .repo then restored else current
  let remoteSource := if what.contains .remoteTracking then restored else current
  { heads := repoSource.heads
    bookmarks := repoSource.bookmarks
    tags := repoSource.tags
    remotes := remoteSource.remotes
    gitRefs := current.gitRefs
    gitHeads := current.gitHeads
    wc := repoSource.wc }

/-- what the description of an operation says to `undo` / `redo` -/
inductive Desc
  | regular
  | undo (target : Nat)     -- `UNDO_OP_DESC_PREFIX ++ id`
  | redo (target : Nat)     -- `REDO_OP_DESC_PREFIX ++ id`
deriving DecidableEq, Repr

structure Op where
  parents : List Nat
  desc : Desc
  view : View
deriving DecidableEq, Repr

abbrev OpLog := List Op

inductive Err
  | root            -- "Cannot undo root operation" / "Cannot revert root operation"
  | merge           -- "Cannot undo a merge operation" / "Cannot revert a merge operation"
  | nothingToRedo   -- "Nothing to redo"
  | internal        -- "Undo operation should have a single parent"
  | badLog          -- an index outside the log (never produced by a real repository)
deriving DecidableEq, Repr

inductive Outcome
  /-- `tx.finish`: "Nothing changed." — no operation is created -/
  | nochange
  /-- a new operation with this description and view; `newWc`: a new working-copy commit was
  created on top of the restored one (then `view.heads`/`view.wc` are those *before* that step) -/
  | ok (desc : Desc) (view : View) (newWc : Bool)
deriving DecidableEq, Repr

/-- `tx.repo_mut().set_view(new_view); tx.finish(..)`: `WorkspaceCommandTransaction::finish` returns
early with "Nothing changed." when the view is unchanged (`!tx.repo().has_changes()`); otherwise
`finish_transaction` creates a new working-copy commit when the restored one is immutable. -/
def finish (cur new : View) (desc : Desc) (immWc : List Nat) : Outcome :=
  if new = cur then .nochange else .ok desc new (immWc.contains new.wc)

def getOp (log : OpLog) (i : Nat) : Except Err Op :=
  match log[i]? with
  | some op => .ok op
  | none => .error .badLog

/-- the operation id after `UNDO_OP_DESC_PREFIX`, if the description has that prefix -/
def undoTarget (d : Desc) (dflt : Nat) : Nat :=
  match d with
  | .undo t => t
  | _ => dflt

/-- the operation id after `REDO_OP_DESC_PREFIX`, if the description has that prefix -/
def redoTarget (d : Desc) (dflt : Nat) : Nat :=
  match d with
  | .redo t => t
  | _ => dflt

/-- `target_op.parents().at_most_one()`: `Ok(Some(op))` / `Ok(None)` (root) / `Err(_)` (merge) -/
def singleParent (ps : List Nat) : Except Err Nat :=
  match ps with
  | [p] => .ok p
  | [] => .error .root
  | _ => .error .merge

def isUndo : Desc → Bool
  | .undo _ => true
  | _ => false

/-- `cmd_undo` with the repository loaded at operation `head` -/
def cmdUndo (log : OpLog) (head : Nat) (immWc : List Nat) : Except Err Outcome :=
  match getOp log head with
  | .error e => .error e
  | .ok headOp =>
    -- the operation to undo: the head, or what the previous undo restored to
    match getOp log (undoTarget headOp.desc head) with
    | .error e => .error e
    | .ok targetOp =>
      match singleParent targetOp.parents with
      | .error e => .error e
      | .ok parent =>
        match getOp log parent with
        | .error e => .error e
        | .ok parentOp =>
          -- restore directly to the original operation if the parent is an undo-operation
          match getOp log (undoTarget parentOp.desc parent) with
          | .error e => .error e
          | .ok restoreOp =>
            .ok (finish headOp.view
              (viewWithDesiredPortionsRestored restoreOp.view headOp.view defaultWhat)
              (.undo (undoTarget parentOp.desc parent)) immWc)

/-- `cmd_redo` -/
def cmdRedo (log : OpLog) (head : Nat) (immWc : List Nat) : Except Err Outcome :=
  match getOp log head with
  | .error e => .error e
  | .ok headOp =>
    match getOp log (redoTarget headOp.desc head) with
    | .error e => .error e
    | .ok targetOp =>
      if isUndo targetOp.desc then
        -- `.exactly_one()`, else "Undo operation should have a single parent"
        match targetOp.parents with
        | [parent] =>
          match getOp log parent with
          | .error e => .error e
          | .ok parentOp =>
            match getOp log (redoTarget parentOp.desc parent) with
            | .error e => .error e
            | .ok restoreOp =>
              .ok (finish headOp.view
                (viewWithDesiredPortionsRestored restoreOp.view headOp.view defaultWhat)
                (.redo (redoTarget parentOp.desc parent)) immWc)
        | _ => .error .internal
      else .error .nothingToRedo

/-- `cmd_op_restore` -/
def cmdRestore (log : OpLog) (head target : Nat) (what : List What) (immWc : List Nat) :
    Except Err Outcome :=
  match getOp log head with
  | .error e => .error e
  | .ok headOp =>
    match getOp log target with
    | .error e => .error e
    | .ok targetOp =>
      .ok (finish headOp.view (viewWithDesiredPortionsRestored targetOp.view headOp.view what)
        .regular immWc)

/-- three-way merge of one opaque portion, where it is trivial -/
def mergePortion (cur base other : Nat) : Option Nat :=
  if cur = base then some other
  else if base = other then some cur
  else none

/-- `MutableRepo::merge(base_repo, other_repo)` on the current view, for the cases the model
covers: the current view is the base (the result is the other side), or no side moved heads or
working copies (then `record_rewrites` finds nothing to rebase and no reference is rewritten) and
every other portion is changed on one side only.  `none`: not modelled — a genuine merge of heads
or reference targets, including the rewriting of restored references to the current version of a
commit (see C13). -/
def mergeView (cur base other : View) : Option View :=
  if cur = base then some other
  else if base.heads = other.heads ∧ cur.heads = base.heads ∧ base.wc = other.wc then do
    let bookmarks ← mergePortion cur.bookmarks base.bookmarks other.bookmarks
    let tags ← mergePortion cur.tags base.tags other.tags
    let remotes ← mergePortion cur.remotes base.remotes other.remotes
    let gitRefs ← mergePortion cur.gitRefs base.gitRefs other.gitRefs
    let gitHeads ← mergePortion cur.gitHeads base.gitHeads other.gitHeads
    some { cur with bookmarks, tags, remotes, gitRefs, gitHeads }
  else none

/-- `cmd_op_revert`; `ok none` = the merge is outside the modelled cases -/
def cmdRevert (log : OpLog) (head target : Nat) (what : List What) (immWc : List Nat) :
    Except Err (Option Outcome) :=
  match getOp log head with
  | .error e => .error e
  | .ok headOp =>
    match getOp log target with
    | .error e => .error e
    | .ok targetOp =>
      match singleParent targetOp.parents with
      | .error e => .error e
      | .ok parent =>
        match getOp log parent with
        | .error e => .error e
        | .ok parentOp =>
          match mergeView headOp.view targetOp.view parentOp.view with
          | none => .ok none
          | some merged =>
            .ok (some (finish headOp.view (viewWithDesiredPortionsRestored merged headOp.view what)
              .regular immWc))

end JjModel.Undo
