import JjModel.Model.Refs
/-
  L4 — model of the view-heads part of the repo state machine:
  `lib/src/view.rs` (`add_head`, `remove_head`, `replace_heads`, `normalize_heads`,
  `set_local_bookmark_target`, `set_wc_commit`, `remove_workspace`),
  `lib/src/repo.rs` (`MutableRepo::add_heads`, `remove_head`, `set_local_bookmark_target`,
  `merge_local_bookmark`, `set_wc_commit`, `edit`, `check_out`, `remove_workspace`,
  `maybe_abandon_wc_commit`, `record_abandoned_commit`, `set_rewritten_commit`, `new_parents` /
  `rewritten_ids_with`, `rebase_descendants` = `transform_commits` + `update_rewritten_references`
  (`update_local_bookmarks`, `update_wc_commits`, `update_heads`)), `commit_builder.rs::write`,
  `transaction.rs::Transaction::write` (assertions + `consume` → `normalize_heads`).

  Commits are natural numbers in creation order (0 = root).  The store/index is the pair of tables
  `parents` / `ancs` (row `i` = parents / ancestors-or-self of commit `i`); sets (`HashSet`) are
  duplicate-free lists, `BTreeMap`s are key-sorted association lists.
  Import-free apart from `Model.Refs` / `Model.Merge` (the driver executable links this file).
-/
namespace JjModel.Heads
open JjModel.Merge JjModel.Refs

/-! ### small set / map helpers -/

def setInsert (x : Nat) (s : List Nat) : List Nat := if s.contains x then s else s ++ [x]
def setRemove (x : Nat) (s : List Nat) : List Nat := s.filter (· != x)
def setUnion (s t : List Nat) : List Nat := t.foldl (fun acc x => setInsert x acc) s

def mapGet {β : Type} (k : Nat) : List (Nat × β) → Option β
  | [] => none
  | (k', v) :: rest => if k' = k then some v else mapGet k rest

/-- `BTreeMap::insert` (key order kept) -/
def mapInsert {β : Type} (k : Nat) (v : β) : List (Nat × β) → List (Nat × β)
  | [] => [(k, v)]
  | (k', v') :: rest =>
    if k' = k then (k, v) :: rest
    else if k < k' then (k, v) :: (k', v') :: rest
    else (k', v') :: mapInsert k v rest

def mapErase {β : Type} (k : Nat) (m : List (Nat × β)) : List (Nat × β) := m.filter (·.1 != k)

/-! ### heads of a candidate set, `View::normalize_heads` (parameterised by the ancestry test) -/

/-- `Index::heads(candidates)`: candidates that are not (strict) ancestors of another candidate. -/
def indexHeads (anc : Nat → Nat → Bool) (cands : List Nat) : List Nat :=
  cands.filter fun c => !cands.any fun d => d != c && anc c d

/-- body of `View::normalize_heads` (when the `head_normalized` flag is off) -/
def normalizeHeadIds (anc : Nat → Nat → Bool) (root : Nat) (heads : List Nat) : List Nat :=
  if heads.isEmpty then [root]
  else if heads.length > 1 then indexHeads anc (setRemove root heads)
  else heads

/-! ### repository state -/

inductive Rewrite where
  | rewritten (new : Nat)
  | abandoned (parents : List Nat)
  deriving Repr, DecidableEq

def Rewrite.newParentIds : Rewrite → List Nat
  | .rewritten n => [n]
  | .abandoned ps => ps

def Rewrite.isAbandoned : Rewrite → Bool
  | .abandoned _ => true
  | _ => false

structure Repo where
  parents : List (List Nat)
  ancs : List (List Nat)
  disc : List Bool                      -- `Commit::is_discardable` (empty change, empty description)
  heads : List Nat                      -- `View::head_ids`
  normalized : Bool                     -- `View::head_normalized`
  bookmarks : List (Nat × Target)       -- `local_bookmarks`
  wcs : List (Nat × Nat)                -- `wc_commit_ids`
  mapping : List (Nat × Rewrite)        -- `MutableRepo::parent_mapping`
  deriving Repr

/-- a fresh repo: only the root commit, `heads = {root}` -/
def Repo.init : Repo :=
  { parents := [[]], ancs := [[0]], disc := [false], heads := [0], normalized := true,
    bookmarks := [], wcs := [], mapping := [] }

def Repo.size (r : Repo) : Nat := r.parents.length
def Repo.parentsOf (r : Repo) (c : Nat) : List Nat := r.parents.getD c []
/-- `Index::is_ancestor(a, b)`: "`a` is an ancestor of `b`, or `a` equals `b`" -/
def Repo.isAnc (r : Repo) (a b : Nat) : Bool := a == b || (r.ancs.getD b []).contains a
def Repo.isDisc (r : Repo) (c : Nat) : Bool := r.disc.getD c false
def Repo.keys (r : Repo) : List Nat := r.mapping.map (·.1)
/-- `visible_heads().ancestors()` contains `c` -/
def Repo.isVisible (r : Repo) (c : Nat) : Bool := r.heads.any fun h => r.isAnc c h

/-- `View::normalize_heads` -/
def normalizeHeads (r : Repo) : Repo :=
  if r.normalized then r
  else { r with heads := normalizeHeadIds r.isAnc 0 r.heads, normalized := true }

/-- `View::add_head` -/
def viewAddHead (r : Repo) (c : Nat) : Repo :=
  { r with heads := setInsert c r.heads, normalized := false }

/-- `View::remove_head` / `MutableRepo::remove_head` -/
def removeHead (r : Repo) (c : Nat) : Repo :=
  { r with heads := setRemove c r.heads, normalized := false }

/-- `View::replace_heads(add, removes)`: does *not* touch the `head_normalized` flag -/
def replaceHeads (r : Repo) (c : Nat) (rm : List Nat) : Repo :=
  { r with heads := rm.foldl (fun hs p => setRemove p hs) (setInsert c r.heads) }

/-- `MutableRepo::add_head` (`add_heads(&[head])`): incremental update when the commit has a
parent and every parent is a current head (`!head.parent_ids().is_empty() && …all(…)`), otherwise
plain insertion (normalised later).  The first conjunct keeps the parentless root commit off the
incremental path ("all parents are heads" is vacuously true for it). -/
def addHead (r : Repo) (c : Nat) : Repo :=
  let ps := r.parentsOf c
  if !ps.isEmpty && ps.all (fun p => r.heads.contains p) then replaceHeads r c ps else viewAddHead r c

/-- **Not the model** (the driver never runs it): `add_head` as it was before the guard
`!head.parent_ids().is_empty()` was added — the incremental path is taken whenever all parents are
heads, vacuously so for the root.  Kept only for the sentinel theorem
`Props/C10.addHeadUnguarded_of_root_breaks_inv`, which shows why the guard is needed. -/
def addHeadUnguarded (r : Repo) (c : Nat) : Repo :=
  let ps := r.parentsOf c
  if ps.all (fun p => r.heads.contains p) then replaceHeads r c ps else viewAddHead r c

/-- `MutableRepo::add_heads(heads)` for an arbitrary slice -/
def addHeads (r : Repo) (cs : List Nat) : Repo :=
  match cs with
  | [] => r
  | [c] => addHead r c
  | _ => cs.foldl viewAddHead r

/-- append a commit to the store/index tables (`write_to_store` + `index.add_commit`) -/
def pushCommit (r : Repo) (ps : List Nat) (d : Bool) : Repo × Nat :=
  let k := r.size
  let anc := ps.foldl (fun acc p => setUnion acc (r.ancs.getD p [])) [k]
  ({ r with parents := r.parents ++ [ps], ancs := r.ancs ++ [anc], disc := r.disc ++ [d] }, k)

/-- `new_commit(parents, tree).write()`: store, index, `add_head` -/
def newCommit (r : Repo) (ps : List Nat) (d : Bool) : Repo × Nat :=
  let (r, k) := pushCommit r ps d
  (addHead r k, k)

/-- `set_rewritten_commit` / `record_abandoned_commit_with_parents`: `HashMap::insert` -/
def mapPut (k : Nat) (v : Rewrite) (m : List (Nat × Rewrite)) : List (Nat × Rewrite) :=
  if m.any (·.1 == k) then m.map (fun e => if e.1 = k then (k, v) else e) else m ++ [(k, v)]

def recordRewrite (r : Repo) (old : Nat) (rw : Rewrite) : Repo :=
  { r with mapping := mapPut old rw r.mapping }

/-- `rewrite_commit(c).set_description(..).write()` -/
def rewriteCommit (r : Repo) (c : Nat) : Repo :=
  let (r, k) := newCommit r (r.parentsOf c) false
  recordRewrite r c (.rewritten k)

/-- `record_abandoned_commit(c)` -/
def abandonCommit (r : Repo) (c : Nat) : Repo :=
  recordRewrite r c (.abandoned (r.parentsOf c))

/-! ### bookmarks -/

def addedIds (t : Target) : List Nat := (adds t).filterMap id

/-- `MutableRepo::set_local_bookmark_target`: every added id becomes a head candidate, then
`View::set_local_bookmark_target` (absent target removes the entry). -/
def setLocalBookmark (r : Repo) (name : Nat) (t : Target) : Repo :=
  let r := (addedIds t).foldl viewAddHead r
  if t = [none] then { r with bookmarks := mapErase name r.bookmarks }
  else { r with bookmarks := mapInsert name t r.bookmarks }

def getLocalBookmark (r : Repo) (name : Nat) : Target := (mapGet name r.bookmarks).getD [none]

/-- `MutableRepo::merge_local_bookmark` -/
def mergeLocalBookmark (r : Repo) (name : Nat) (base other : Target) : Repo :=
  setLocalBookmark r name (mergeRefTargets r.isAnc (getLocalBookmark r name) base other)

/-! ### working copies -/

/-- `MutableRepo::set_wc_commit`; `none` = `Err(RewriteRootCommit)` (state unchanged) -/
def setWcCommit (r : Repo) (ws c : Nat) : Repo × Bool :=
  if c = 0 then (r, false) else ({ r with wcs := mapInsert ws c r.wcs }, true)

/-- `maybe_abandon_wc_commit` -/
def maybeAbandonWc (r : Repo) (ws : Nat) : Repo :=
  match mapGet ws r.wcs with
  | none => r
  | some wc =>
    let r := normalizeHeads r
    let referenced :=
      (r.wcs.any fun e => e.1 != ws && e.2 == wc) ||
      (r.bookmarks.any fun e => (addedIds e.2).contains wc)
    if r.isDisc wc && !referenced && r.heads.contains wc then abandonCommit r wc else r

/-- `MutableRepo::edit`; the flag is `false` when `set_wc_commit` failed (after `add_head`!) -/
def edit (r : Repo) (ws c : Nat) : Repo × Bool :=
  let r := maybeAbandonWc r ws
  let r := addHead r c
  setWcCommit r ws c

/-- `MutableRepo::check_out`: new (discardable) commit on top of `c`, then `edit` -/
def checkOut (r : Repo) (ws c : Nat) : Repo × Bool :=
  let (r, k) := newCommit r [c] true
  edit r ws k

/-- `MutableRepo::remove_workspace` -/
def removeWorkspace (r : Repo) (ws : Nat) : Repo :=
  let r := maybeAbandonWc r ws
  { r with wcs := mapErase ws r.wcs }

/-! ### `rebase_descendants` -/

/-- `rewritten_ids_with(old_ids, |_| true)`: depth-first expansion through the mapping with a
visited set.  `stack` has its top at the head. -/
def rewrittenIdsLoop (m : List (Nat × Rewrite)) : Nat → List Nat → List Nat → List Nat → List Nat
  | 0, _, _, acc => acc.reverse
  | _ + 1, [], _, acc => acc.reverse
  | fuel + 1, id :: stack, visited, acc =>
    if visited.contains id then rewrittenIdsLoop m fuel stack visited acc
    else
      match mapGet id m with
      | none => rewrittenIdsLoop m fuel stack (id :: visited) (id :: acc)
      | some rw => rewrittenIdsLoop m fuel (rw.newParentIds ++ stack) (id :: visited) acc

def rewrittenIds (m : List (Nat × Rewrite)) (ids : List Nat) : List Nat :=
  rewrittenIdsLoop m (ids.length + (m.map (·.2.newParentIds.length)).sum + 1) ids [] []

/-- `find_descendants_for_rebase`: `commits(keys).descendants() ~ commits(keys)`.  The revset engine
resolves `descendants()` against the visible heads *or the commits referenced in the expression*
(`resolve_visible_heads_or_referenced`), so hidden commits between two hidden keys are included. -/
def toVisit (r : Repo) : List Nat :=
  (List.range r.size).filter fun d =>
    (r.isVisible d || r.keys.any fun k => r.isAnc d k) &&
      !r.keys.contains d && r.keys.any fun k => r.isAnc k d

/-- dependencies of `d` in `order_commits_for_rebase`: parents still to be rebased, and rewrite
targets of parents still to be rebased -/
def rebaseDeps (r : Repo) (remaining : List Nat) (d : Nat) : List Nat :=
  remaining.filter fun x =>
    (r.parentsOf d).any fun p =>
      p == x || (match mapGet p r.mapping with
                 | some rw => rw.newParentIds.contains x
                 | none => false)

/-- One rebased commit: `CommitRewriter::new(new_parents(old.parent_ids()))`, and when the parents
changed `rebase_commit_with_options` (default options: always rewritten) → `write()`:
table row `newId`, `add_head`, `set_rewritten_commit`. -/
def rebaseOne (r : Repo) (d newId : Nat) : Repo :=
  let newPs := rewrittenIds r.mapping (r.parentsOf d)
  if newPs = r.parentsOf d then r
  else
    let anc := newPs.foldl (fun acc p => setUnion acc (r.ancs.getD p [])) [newId]
    let r := { r with parents := r.parents.set newId newPs, ancs := r.ancs.set newId anc,
                      disc := r.disc.set newId (r.isDisc d) }
    let r := addHead r newId
    recordRewrite r d (.rewritten newId)

/-- the `while let Some(old_commit) = to_visit.pop()` loop in a dependency-respecting order:
always the smallest remaining commit whose dependencies are done (any such order gives the same
commits; new ids are assigned by rank of the old commit, as the harness does). -/
def rebaseLoop (base : Nat) (all : List Nat) : Nat → Repo → List Nat → Repo
  | 0, r, _ => r
  | fuel + 1, r, remaining =>
    match remaining.find? (fun d => (rebaseDeps r remaining d).isEmpty) with
    | none => r
    | some d =>
      let newId := base + (all.takeWhile (· != d)).length
      rebaseLoop base all fuel (rebaseOne r d newId) (remaining.filter (· != d))

/-- `update_local_bookmarks` (default options: bookmarks of abandoned commits move to the parents) -/
def updateLocalBookmarks (r : Repo) : Repo :=
  let changed : List (Nat × Nat × List Nat) :=
    r.bookmarks.flatMap fun (name, target) =>
      (addedIds target).filterMap fun id =>
        if r.keys.contains id then some (name, id, rewrittenIds r.mapping [id]) else none
  changed.foldl (fun r (name, old, newIds) =>
    let newTarget : Target := (newIds.map some).intersperse (some old)
    mergeLocalBookmark r name [some old] newTarget) r

/-- `update_wc_commits` -/
def updateWcCommits (r : Repo) : Repo :=
  let changed : List (Nat × Nat × List Nat) :=
    r.wcs.filterMap fun (ws, c) =>
      if r.keys.contains c then some (ws, c, rewrittenIds r.mapping [c]) else none
  (changed.foldl (fun (st : Repo × List (Nat × Nat)) (ws, old, newIds) =>
    let (r, recreated) := st
    let abandonedOld := match mapGet old r.mapping with
      | some rw => rw.isAbandoned
      | none => false
    let (r, recreated, newWc) :=
      if !abandonedOld then (r, recreated, newIds.headD 0)
      else match mapGet old recreated with
        | some c => (r, recreated, c)
        | none =>
          let (r, k) := newCommit r newIds true
          (r, recreated ++ [(old, k)], k)
    ((edit r ws newWc).1, recreated)) (r, [])).1

/-- `update_heads` -/
def updateHeads (r : Repo) : Repo :=
  let old := r.keys.filter r.isVisible
  let toAdd := (old.flatMap r.parentsOf).filter fun p => !old.contains p
  let heads := r.keys.foldl (fun hs k => setRemove k hs) r.heads
  normalizeHeads { r with heads := setUnion heads toAdd, normalized := false }

/-- `transform_commits` up to (excluding) `update_heads`: rebase the descendants, then
`update_all_references` (bookmarks, working copies) -/
def rebaseRefs (r : Repo) : Repo :=
  let tv := toVisit r
  let base := r.size
  let r := { r with parents := r.parents ++ tv.map (fun _ => []),
                    ancs := r.ancs ++ tv.map (fun _ => []),
                    disc := r.disc ++ tv.map (fun _ => false) }
  let r := rebaseLoop base tv (tv.length + 1) r tv
  let r := updateLocalBookmarks r
  updateWcCommits r

/-- `rebase_descendants()` -/
def rebaseDescendants (r : Repo) : Repo :=
  let r := updateHeads (rebaseRefs r)
  { r with mapping := [] }

/-! ### executable monitor for the premise of `Props/C10.rebase_inv_partial`

`rebase_descendants` is proved to re-establish the invariant *given* that after its rebase loop and
reference updates the index tables are still well-formed, the references are visible and none of
them names a rewritten commit.  The driver evaluates that premise on every `rebase` of every case
(`Props/C10.checkRebaseRefsOk_sound` proves the monitor sound). -/

def checkWF (r : Repo) : Bool :=
  let n := r.size
  let row := fun c => r.ancs.getD c []
  decide (0 < n) && decide (r.ancs.length = r.parents.length) &&
  (List.range n).all fun c =>
    (row c).contains c &&
    (row c).all (fun a => decide (a < n)) &&
    (row c).contains 0 &&
    (r.parentsOf c).all (fun p => decide (p < n) && p != c) &&
    (c == 0 || !(r.parentsOf c).isEmpty) &&
    (List.range n).all (fun x =>
      (row c).contains x == (x == c || (r.parentsOf c).any fun p => (row p).contains x)) &&
    (row c).all (fun b => (row b).all fun a => (row c).contains a) &&
    (row c).all (fun a => !(row a).contains c || a == c)

def checkNodup : List Nat → Bool
  | [] => true
  | x :: xs => !xs.contains x && checkNodup xs

def checkCovered (r : Repo) : Bool :=
  r.bookmarks.all (fun e => (addedIds e.2).all r.isVisible) && r.wcs.all (fun e => r.isVisible e.2)

def checkRefsAvoidKeys (r : Repo) : Bool :=
  r.bookmarks.all (fun e => (addedIds e.2).all fun x => !r.keys.contains x) &&
    r.wcs.all (fun e => !r.keys.contains e.2)

def checkRebaseRefsOk (r : Repo) : Bool :=
  let r1 := rebaseRefs r
  checkWF r1 && checkNodup r1.heads && r1.heads.all (fun h => decide (h < r1.size)) &&
    checkCovered r1 && checkRefsAvoidKeys r1

/-! ### `Transaction::commit` -/

/-- `Transaction::write`: `none` = the `has_rewrites()` assertion fires; otherwise `consume`
normalises the heads. The returned repo is the base of the next transaction. -/
def commitTx (r : Repo) : Option Repo :=
  if r.mapping.isEmpty then some (normalizeHeads r) else none

/-! ### operations of the state machine (what the harness drives) -/

inductive Op where
  | new (ps : List Nat)
  | rw (c : Nat)
  | ab (c : Nat)
  | rebase
  | bm (name : Nat) (t : Target)
  | edit (ws c : Nat)
  | co (ws c : Nat)
  | rmws (ws : Nat)
  | setwc (ws c : Nat)
  | addhead (c : Nat)
  | rmhead (c : Nat)
  | commit
  deriving Repr

/-- one step; the `Bool` is `false` when the operation returned `Err` -/
def step (r : Repo) : Op → Option (Repo × Bool)
  | .new ps => some ((newCommit r ps false).1, true)
  | .rw c => if c = 0 then none else some (rewriteCommit r c, true)
  | .ab c => if c = 0 then none else some (abandonCommit r c, true)
  | .rebase => some (rebaseDescendants r, true)
  | .bm name t => some (setLocalBookmark r name t, true)
  | .edit ws c => some (edit r ws c)
  | .co ws c => some (checkOut r ws c)
  | .rmws ws => some (removeWorkspace r ws, true)
  | .setwc ws c => some (setWcCommit r ws c)
  | .addhead c => some (addHead r c, true)
  | .rmhead c => some (removeHead r c, true)
  | .commit => (commitTx r).map (·, true)

end JjModel.Heads
