import JjModel.Generated.ConstsSecure
/-!
  C43 — per-repo configuration lookup (`/repo/lib/src/secure_config.rs`) over an abstract file system.

  What is modelled
    * `SecureConfig::maybe_load_config` (without the in-memory cache: every call is a new process),
      `load_config`, `handle_metadata_path`, `generate_config`, `generate_initial_config`,
      `maybe_migrate_legacy_config` + the unix `update_legacy_config_file` (legacy file replaced by a
      symlink to the new config file), `generate_config_id` (a counter-indexed stream `genId`);
    * the order of the side effects inside `generate_config` (config dir + metadata + content first,
      the `config-id` file last — a failure of the last step leaves the config dir behind);
    * `PathBuf::join` (`pjoin`: an absolute right-hand side replaces the base, `..` is kept) for
      computing the returned path; the *lookups* in the root config directory are keyed by the
      directory name, which is legitimate only because the id has been validated before — that is
      theorem `config_path_confined`.

  The abstract file system
    * repository directories are named by small numbers (`r0`, `r1`, …); an entry is absent, a real
      directory (content of the config-id file, the legacy config, "can I create files in it"), or a
      symbolic link to another repo name (`resolve` follows chains, as the kernel does);
    * the root config directory maps a directory *name* to (metadata, config content);
    * config contents are small numbers; metadata is the optional repo path stored in it.
-/
namespace JjModel.SecureConfig
open JjModel.Generated.Secure

abbrev Str := List Char

/-! ### ids -/

/-- `char::is_ascii_hexdigit` -/
def isHexDigit (c : Char) : Bool :=
  ('0' ≤ c && c ≤ '9') || ('a' ≤ c && c ≤ 'f') || ('A' ≤ c && c ≤ 'F')

/-- `config_id.len() == CONFIG_ID_BYTES * 2 && config_id.chars().all(|c| c.is_ascii_hexdigit())`.
    (`len()` counts bytes; when all chars are ASCII hex digits bytes = chars, and when they are not
    the test fails anyway, so counting chars decides the same predicate.) -/
def validId (s : Str) : Bool := s.length == CONFIG_ID_BYTES * 2 && s.all isHexDigit

def hexDigits : List Char :=
  ['0', '1', '2', '3', '4', '5', '6', '7', '8', '9', 'a', 'b', 'c', 'd', 'e', 'f']

def hexChar (n : Nat) : Char := hexDigits.getD (n % 16) '0'

/-- The k-th id produced by the random generator, as the check names it: `2·CONFIG_ID_BYTES − 4`
    zeros followed by `k` in 4 hex digits (the harness renames the real random ids in order of
    generation to exactly these strings). -/
def genId (k : Nat) : Str :=
  List.replicate (CONFIG_ID_BYTES * 2 - 4) '0' ++
    [hexChar (k / 4096), hexChar (k / 256), hexChar (k / 16), hexChar k]

/-! ### paths (`std::path`, unix) -/

/-- split at every `sep` (like `str::split`) -/
def splitOn (sep : Char) : Str → List Str
  | [] => [[]]
  | c :: cs =>
    if c = sep then [] :: splitOn sep cs
    else match splitOn sep cs with
      | [] => [[c]]
      | h :: t => (c :: h) :: t

/-- the normal components of a path string: empty parts and `.` dropped, `..` kept -/
def components (s : Str) : List Str :=
  (splitOn '/' s).filter (fun c => !(c == []) && !(c == ['.']))

def isAbsolute (s : Str) : Bool := s.head? == some '/'

/-- `PathBuf::join` with an absolute base given by its components -/
def pjoin (base : List Str) (s : Str) : List Str :=
  if isAbsolute s then components s else base ++ components s

/-- the root config directory (any absolute path; the check calls it `cfg`) -/
def root : List Str := [['c', 'f', 'g']]

/-- `root_config_dir.join(config_id).join(CONFIG_FILE)` -/
def configPath (id : Str) : List Str := pjoin (pjoin root id) CONFIG_FILE

/-! ### file system -/

inductive IdFile where
  | absent
  | notUtf8
  | text (s : Str)
  deriving DecidableEq, Repr

inductive Legacy where
  | none
  | file (content : Nat)
  | link (id : Str)          -- symlink to `root/<id>/config.toml`
  deriving DecidableEq, Repr

structure RepoDir where
  idFile : IdFile
  legacy : Legacy
  writable : Bool
  deriving DecidableEq, Repr

inductive Entry where
  | absent
  | dir (d : RepoDir)
  | link (target : Nat)
  deriving DecidableEq, Repr

structure ConfDir where
  /-- `metadata.binpb`: `none` = file missing, `some p` = decoded `ConfigMetadata { path: p }` -/
  metadata : Option (Option Nat)
  /-- `config.toml` -/
  config : Option Nat
  deriving DecidableEq, Repr

structure Fs where
  repos : Nat → Entry
  confs : Str → Option ConfDir
  /-- number of ids drawn from the random generator so far -/
  next : Nat

def Fs.empty : Fs := ⟨fun _ => .absent, fun _ => none, 0⟩

def setRepo (fs : Fs) (r : Nat) (e : Entry) : Fs :=
  { fs with repos := fun k => if k = r then e else fs.repos k }

def setConf (fs : Fs) (id : Str) (c : Option ConfDir) : Fs :=
  { fs with confs := fun k => if k = id then c else fs.confs k }

def resolveAux (repos : Nat → Entry) : Nat → Nat → Option (Nat × RepoDir)
  | 0, _ => none
  | fuel + 1, r =>
    match repos r with
    | .absent => none
    | .dir d => some (r, d)
    | .link t => resolveAux repos fuel t

/-- follow symlinks to the real directory (the check uses at most 4 repo names; links are only
    created towards real directories and never moved, so chains are acyclic and shorter than 8) -/
def resolve (fs : Fs) (r : Nat) : Option (Nat × RepoDir) := resolveAux fs.repos 8 r

/-- `Path::is_dir` -/
def isDir (fs : Fs) (r : Nat) : Bool := (resolve fs r).isSome

/-- `fs::read_to_string(repo_dir/config-id)`: missing directory or file ⇒ `absent` (NotFound) -/
def readId (fs : Fs) (r : Nat) : IdFile :=
  match resolve fs r with
  | some (_, d) => d.idFile
  | none => .absent

/-- `fs::read(repo_dir/<legacy config>)`; `none` = NotFound (also for a dangling symlink) -/
def readLegacy (fs : Fs) (r : Nat) : Option Nat :=
  match resolve fs r with
  | some (_, d) =>
    match d.legacy with
    | .none => none
    | .file c => some c
    | .link id => (fs.confs id).bind (·.config)
  | none => none

/-- `NamedTempFile::new_in(repo_dir)` succeeds -/
def canWrite (fs : Fs) (r : Nat) : Bool :=
  match resolve fs r with
  | some (_, d) => d.writable
  | none => false

/-- a file created in `r` shows up in `g` -/
def sameDir (fs : Fs) (r g : Nat) : Bool :=
  match resolve fs r, resolve fs g with
  | some (a, _), some (b, _) => a == b
  | _, _ => false

/-- `atomic_write(repo_dir/config-id, id)`; `none` = I/O error -/
def writeId (fs : Fs) (r : Nat) (id : Str) : Option Fs :=
  match resolve fs r with
  | some (t, d) => if d.writable then some (setRepo fs t (.dir { d with idFile := .text id })) else none
  | none => none

def setLegacy (fs : Fs) (r : Nat) (l : Legacy) : Fs :=
  match resolve fs r with
  | some (t, d) => setRepo fs t (.dir { d with legacy := l })
  | none => fs

/-! ### results -/

inductive Warn where
  | none | notFound | copied | migrated
  deriving DecidableEq, Repr

inductive Err where
  | badId | path | decode
  deriving DecidableEq, Repr

/-- `LoadedSecureConfig` -/
structure Loaded where
  file : Option (List Str)
  metadata : Option Nat
  warn : Warn
  deriving DecidableEq, Repr

abbrev Res := Except Err Loaded

/-! ### the functions of secure_config.rs -/

/-- the config file of a (possibly pre-existing) config dir after `generate_config`: overwritten
    when content is given, otherwise whatever was there -/
def keptConfig (old : Option ConfDir) (content : Option Nat) : Option Nat :=
  match content with
  | some c => some c
  | none => old.bind (·.config)

/-- `generate_config`: create `root/id`, write the metadata, write the content if given (an existing
    config file is otherwise left alone), then write the config-id file atomically. -/
def generateConfig (fs : Fs) (r : Nat) (id : Str) (content : Option Nat) (md : Option Nat) :
    Fs × Except Err (List Str) :=
  let fs1 := setConf fs id (some ⟨some md, keptConfig (fs.confs id) content⟩)
  match writeId fs1 r id with
  | some fs2 => (fs2, .ok (configPath id))
  | none => (fs1, .error .path)

/-- draw an id from the generator -/
def drawId (fs : Fs) : Str × Fs := (genId fs.next, { fs with next := fs.next + 1 })

/-- `generate_initial_config` + the result `maybe_load_config` builds from it -/
def generateInitial (fs : Fs) (r : Nat) (id : Str) (w : Warn) : Fs × Res :=
  match generateConfig fs r id none (some r) with
  | (fs', .ok p) => (fs', .ok ⟨some p, some r, w⟩)
  | (fs', .error e) => (fs', .error e)

/-- `handle_metadata_path` for the config dir `root/s` whose metadata holds `md` -/
def handleMetadataPath (fs : Fs) (r : Nat) (s : Str) (md : Option Nat) : Fs × Res :=
  if md = some r then
    (fs, .ok ⟨some (configPath s), md, .none⟩)
  else
    match md with
    | some g =>
      if isDir fs g then
        if canWrite fs r && !sameDir fs r g then
          -- copied: the config is copied too
          let content := (fs.confs s).bind (·.config)
          let (id, fs1) := drawId fs
          match generateConfig fs1 r id content (some r) with
          | (fs2, .ok p) => (fs2, .ok ⟨some p, some r, .copied⟩)
          | (fs2, .error e) => (fs2, .error e)
        else
          -- read-only access, or the very same directory under another name: share
          (fs, .ok ⟨some (configPath s), md, .none⟩)
      else
        -- the old repo does not exist: moved
        (setConf fs s (some ⟨some (some r), (fs.confs s).bind (·.config)⟩),
          .ok ⟨some (configPath s), some r, .none⟩)
    | none =>
      (setConf fs s (some ⟨some (some r), (fs.confs s).bind (·.config)⟩),
        .ok ⟨some (configPath s), some r, .none⟩)

/-- `maybe_migrate_legacy_config` (unix) -/
def migrateLegacy (fs : Fs) (r : Nat) : Fs × Res :=
  match readLegacy fs r with
  | none => (fs, .ok ⟨none, none, .none⟩)
  | some c =>
    let (id, fs1) := drawId fs
    match generateConfig fs1 r id (some c) (some r) with
    | (fs2, .ok p) => (setLegacy fs2 r (.link id), .ok ⟨some p, some r, .migrated⟩)
    | (fs2, .error e) => (fs2, .error e)

/-- `maybe_load_config` of a fresh `SecureConfig` for repo directory `r` -/
def maybeLoad (fs : Fs) (r : Nat) : Fs × Res :=
  match readId fs r with
  | .notUtf8 => (fs, .error .path)
  | .text s =>
    if validId s then
      match (fs.confs s).bind (·.metadata) with
      | some md => handleMetadataPath fs r s md
      | none => generateInitial fs r s .notFound
    else (fs, .error .badId)
  | .absent => migrateLegacy fs r

/-- `load_config` -/
def loadConfig (fs : Fs) (r : Nat) : Fs × Res :=
  match maybeLoad fs r with
  | (fs1, .error e) => (fs1, .error e)
  | (fs1, .ok l) =>
    match l.file with
    | some _ => (fs1, .ok l)
    | none =>
      let (id, fs2) := drawId fs1
      match generateConfig fs2 r id none (some r) with
      | (fs3, .ok p) => (fs3, .ok { l with file := some p, metadata := some r })
      | (fs3, .error e) => (fs3, .error e)

/-! ### what the user (the harness) does to the directories between loads -/

inductive Op where
  | mk (r : Nat)                       -- mkdir r
  | rm (r : Nat)                       -- rm -r r   (or unlink, for a symlink)
  | mv (a b : Nat)                     -- rename a real directory
  | cp (a b : Nat)                     -- cp -r of a real directory (symlinks copied as symlinks)
  | ln (a b : Nat)                     -- ln -s a b, `a` a real directory
  | setId (r : Nat) (c : IdFile)       -- write / delete the config-id file
  | legacy (r : Nat) (c : Nat)         -- (re)place a regular legacy config file
  | edit (r : Nat) (c : Nat)           -- edit the config file the repo's (valid) id names, if its dir exists
  | rmConf (r : Nat)                   -- delete the config dir the repo's (valid) id names
  | chmod (r : Nat) (w : Bool)         -- make a real directory (un)writable
  | load (r : Nat)
  | loadC (r : Nat)
  deriving Repr

def isRealDir (fs : Fs) (r : Nat) : Option RepoDir :=
  match fs.repos r with
  | .dir d => some d
  | _ => none

def isAbsent (fs : Fs) (r : Nat) : Bool :=
  match fs.repos r with
  | .absent => true
  | _ => false

/-- the valid id in `r`'s config-id file, if any -/
def currentId (fs : Fs) (r : Nat) : Option Str :=
  match readId fs r with
  | .text s => if validId s then some s else none
  | _ => none

def applyOp (fs : Fs) : Op → Fs × Option Res
  | .mk r => (if isAbsent fs r then setRepo fs r (.dir ⟨.absent, .none, true⟩) else fs, none)
  | .rm r => (setRepo fs r .absent, none)
  | .mv a b =>
    (match isRealDir fs a with
     | some d => if isAbsent fs b then setRepo (setRepo fs a .absent) b (.dir d) else fs
     | none => fs, none)
  | .cp a b =>
    (match isRealDir fs a with
     | some d => if isAbsent fs b then setRepo fs b (.dir { d with writable := true }) else fs
     | none => fs, none)
  | .ln a b =>
    (match isRealDir fs a with
     | some _ => if isAbsent fs b then setRepo fs b (.link a) else fs
     | none => fs, none)
  | .setId r c =>
    (match isRealDir fs r with
     | some d => setRepo fs r (.dir { d with idFile := c })
     | none => fs, none)
  | .legacy r c =>
    (match isRealDir fs r with
     | some d => setRepo fs r (.dir { d with legacy := .file c })
     | none => fs, none)
  | .edit r c =>
    (match currentId fs r with
     | some s =>
       match fs.confs s with
       | some cd => setConf fs s (some { cd with config := some c })
       | none => fs
     | none => fs, none)
  | .rmConf r =>
    (match currentId fs r with
     | some s => setConf fs s none
     | none => fs, none)
  | .chmod r w =>
    (match isRealDir fs r with
     | some d => setRepo fs r (.dir { d with writable := w })
     | none => fs, none)
  | .load r => let (fs', res) := maybeLoad fs r; (fs', some res)
  | .loadC r => let (fs', res) := loadConfig fs r; (fs', some res)

def run (fs : Fs) : List Op → Fs × List (Option Res)
  | [] => (fs, [])
  | op :: ops =>
    let (fs1, r) := applyOp fs op
    let (fs2, rs) := run fs1 ops
    (fs2, r :: rs)

end JjModel.SecureConfig
