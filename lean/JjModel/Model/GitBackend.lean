/-
  Model of the commit paths of `lib/src/git_backend.rs` (`write_commit`, `read_commit`,
  `commit_from_git_without_root_parent`, `signature_to_git`/`signature_from_git`,
  `serialize_extras`/`deserialize_extras`, the conflict-label / `jj:trees` / `change-id` headers,
  the committer-timestamp adjustment loop) and of `lib/src/simple_backend.rs`
  (`commit_to_proto`/`commit_from_proto`, `write_commit`/`read_commit`).

  * A Git object is a record (`GitCommit`); its id *is* the record (content addressing = A1), the
    object encoding of gix is assumed lossless except for the two things gix is observed to do:
    it rejects names/emails containing `<`, `>` or a newline on write, and `CommitRef::author()` /
    `committer()` return the signature with name and email trimmed (Unicode `White_Space`).
  * The extras table is an association list keyed by the record, newest entry first.
  * Header values: the label header is modelled at byte level (join with "\n" + terminator,
    `split_terminator`); the `jj:trees` and `change-id` headers carry their decoded payload
    (hex / reverse-hex round trip of `hex_util` assumed), with the checks the reader performs.
  Import-free on purpose.
-/
namespace JjModel.GitBackend

abbrev Bytes := List UInt8

structure Signature where
  name : Bytes
  email : Bytes
  ms : Int          -- MillisSinceEpoch
  tz : Int          -- minutes
  deriving DecidableEq, Repr

/-- `backend::Commit` without `secure_sig` (asserted `None` on write, no signing here) -/
structure Commit where
  parents : List Bytes
  predecessors : List Bytes
  rootTree : List Bytes      -- Merge<TreeId>, interleaved, odd length
  labels : List Bytes        -- Merge<String>
  changeId : Bytes
  description : Bytes
  author : Signature
  committer : Signature
  deriving DecidableEq, Repr

inductive Err where
  | noParents | rootMerge | hashLen | writeObject | badTreesHeader | panic
  deriving DecidableEq, Repr

/-! ### constants -/

def hashLen : Nat := 20
def changeIdLength : Nat := 16
/-- the root commit id: `[0; 20]` -/
def rootCommitId : Bytes := List.replicate 20 0
/-- `EMPTY_STRING_PLACEHOLDER` = "JJ_EMPTY_STRING" -/
def placeholder : Bytes := [74, 74, 95, 69, 77, 80, 84, 89, 95, 83, 84, 82, 73, 78, 71]

/-! ### Git side -/

structure GitSig where
  name : Bytes
  email : Bytes
  seconds : Int
  offset : Int      -- seconds east of UTC
  deriving DecidableEq, Repr

inductive GitTree where
  | plain (id : Bytes)
  | conflict (ids : List Bytes)    -- the tree `write_tree_conflict` builds from these ids
  deriving DecidableEq, Repr

structure GitCommit where
  tree : GitTree
  parents : List Bytes
  author : GitSig
  committer : GitSig
  message : Bytes
  labelsHeader : Option Bytes          -- `jj:conflict-labels`
  treesHeader : Option (List Bytes)    -- `jj:trees` (decoded hex ids)
  changeIdHeader : Option Bytes        -- `change-id` (decoded reverse hex); `git.write-change-id-header = true`
  deriving DecidableEq, Repr

/-- `protos::git_store::Commit` as written by `serialize_extras` -/
structure Extras where
  changeId : Bytes
  predecessors : List Bytes
  deriving DecidableEq, Repr

abbrev Table := List (GitCommit × Extras)

def Table.get? (t : Table) (id : GitCommit) : Option Extras :=
  (t.find? (fun e => e.1 = id)).map (·.2)

/-! ### signatures -/

/-- `signature_to_git` -/
def signatureToGit (s : Signature) : GitSig :=
  { name := if s.name.isEmpty then placeholder else s.name
    email := if s.email.isEmpty then placeholder else s.email
    seconds := s.ms / 1000            -- `div_euclid` (Lean's `Int./` is Euclidean for a positive divisor)
    offset := s.tz * 60 }

/-- UTF-8 encodings of the Unicode `White_Space` code points (what `bstr`'s `trim` removes) -/
def whiteSpaceSeqs : List Bytes :=
  [[0x09], [0x0a], [0x0b], [0x0c], [0x0d], [0x20], [0xc2, 0x85], [0xc2, 0xa0], [0xe1, 0x9a, 0x80],
   [0xe2, 0x80, 0x80], [0xe2, 0x80, 0x81], [0xe2, 0x80, 0x82], [0xe2, 0x80, 0x83], [0xe2, 0x80, 0x84],
   [0xe2, 0x80, 0x85], [0xe2, 0x80, 0x86], [0xe2, 0x80, 0x87], [0xe2, 0x80, 0x88], [0xe2, 0x80, 0x89],
   [0xe2, 0x80, 0x8a], [0xe2, 0x80, 0xa8], [0xe2, 0x80, 0xa9], [0xe2, 0x80, 0xaf], [0xe2, 0x81, 0x9f],
   [0xe3, 0x80, 0x80]]

def dropWsPrefix? (s : Bytes) : Option Bytes :=
  whiteSpaceSeqs.findSome? fun w => if s.take w.length = w then some (s.drop w.length) else none

def trimStartFuel : Nat → Bytes → Bytes
  | 0, s => s
  | fuel + 1, s =>
    match dropWsPrefix? s with
    | some r => trimStartFuel fuel r
    | none => s

def trimStart (s : Bytes) : Bytes := trimStartFuel s.length s

def dropWsSuffix? (s : Bytes) : Option Bytes :=
  whiteSpaceSeqs.findSome? fun w =>
    if w.length ≤ s.length ∧ s.drop (s.length - w.length) = w then some (s.take (s.length - w.length)) else none

def trimEndFuel : Nat → Bytes → Bytes
  | 0, s => s
  | fuel + 1, s =>
    match dropWsSuffix? s with
    | some r => trimEndFuel fuel r
    | none => s

def trimEnd (s : Bytes) : Bytes := trimEndFuel s.length s

/-- `bstr::ByteSlice::trim` on valid UTF-8 (gix `SignatureRef::trim`) -/
def trim (s : Bytes) : Bytes := trimEnd (trimStart s)

/-- `signature_from_git` applied to what `CommitRef::author()`/`committer()` hand out -/
def signatureFromGit (g : GitSig) : Signature :=
  let name := trim g.name
  let email := trim g.email
  { name := if name = placeholder then [] else name
    email := if email = placeholder then [] else email
    ms := g.seconds * 1000
    tz := g.offset / 60 }

/-- gix refuses to serialise such a signature (`validated_token`) -/
def tokenRejected (b : Bytes) : Bool := b.any fun c => c = 60 || c = 62 || c = 10

def sigRejected (g : GitSig) : Bool := tokenRejected g.name || tokenRejected g.email

/-! ### headers -/

/-- `labels.iter().join("\n")` -/
def joinNl : List Bytes → Bytes
  | [] => []
  | [l] => l
  | l :: ls => l ++ [10] ++ joinNl ls

/-- the `jj:conflict-labels` header value -/
def labelsHeaderValue (labels : List Bytes) : Bytes := joinNl labels ++ [10]

/-- `str::split_terminator('\n')` -/
def splitTerminatorAux : Bytes → Bytes → List Bytes
  | [], acc => if acc.isEmpty then [] else [acc.reverse]
  | c :: cs, acc => if c = 10 then acc.reverse :: splitTerminatorAux cs [] else splitTerminatorAux cs (c :: acc)

def splitTerminator (s : Bytes) : List Bytes := splitTerminatorAux s []

/-- `extract_conflict_labels_from_commit`; `MergeBuilder::build` panics on an even number of terms -/
def extractLabels (g : GitCommit) : Except Err (List Bytes) :=
  match g.labelsHeader with
  | none => .ok [[]]
  | some v =>
    let ls := splitTerminator v
    if ls.length % 2 = 1 then .ok ls else .error .panic

/-- `extract_root_tree_from_commit` -/
def extractRootTree (g : GitCommit) : Except Err (List Bytes) :=
  match g.treesHeader with
  | none =>
    match g.tree with
    | .plain id => .ok [id]
    | .conflict _ => .error .badTreesHeader   -- unreachable for records produced by `write`
  | some ids =>
    if ids.any (fun i => i.length ≠ hashLen) then .error .badTreesHeader
    else if ids.length = 1 ∨ ids.length % 2 = 0 then .error .badTreesHeader
    else .ok ids

/-- `extract_change_id_from_commit`: `none` ⇒ a synthetic change id is derived from the commit id -/
def extractChangeId (g : GitCommit) : Option Bytes :=
  match g.changeIdHeader with
  | some b => if b.length = changeIdLength then some b else none
  | none => none

/-! ### write -/

/-- `validate_git_object_id` -/
def validId (b : Bytes) : Bool := b.length = hashLen

/-- the parents loop of `write_commit` -/
def gitParents (parents : List Bytes) : Except Err (List Bytes) :=
  let rec go : List Bytes → List Bytes → Except Err (List Bytes)
    | [], acc => .ok acc.reverse
    | p :: ps, acc =>
      if p = rootCommitId then
        if parents.length > 1 then .error .rootMerge else go ps acc
      else if validId p then go ps (p :: acc) else .error .hashLen
  go parents []

/-- `serialize_extras` -/
def serializeExtras (c : Commit) : Extras := ⟨c.changeId, c.predecessors⟩

/-- the tree of the Git commit: the resolved tree id (validated) or the `write_tree_conflict` tree -/
def gitTreeOf (rootTree : List Bytes) : Except Err GitTree :=
  match rootTree with
  | [id] => if validId id then .ok (GitTree.plain id) else .error .hashLen
  | ids => if ids.all validId then .ok (GitTree.conflict ids) else .error .panic  -- `from_bytes_or_panic`

/-- the `jj:conflict-labels` header (only for unresolved label merges; `assert!` on newlines) -/
def labelsHeaderOf (labels : List Bytes) : Except Err (Option Bytes) :=
  if labels.length ≠ 1 then
    if labels.any (fun l => l.contains 10) then .error .panic
    else .ok (some (labelsHeaderValue labels))
  else .ok none

/-- the Git commit object `write_commit` builds on its first attempt -/
def toGitCommit (c : Commit) : Except Err GitCommit :=
  match gitTreeOf c.rootTree with
  | .error e => .error e
  | .ok tree =>
    if c.parents.isEmpty then .error .noParents
    else
      match gitParents c.parents with
      | .error e => .error e
      | .ok parents =>
        match labelsHeaderOf c.labels with
        | .error e => .error e
        | .ok labelsHeader =>
          .ok { tree, parents, author := signatureToGit c.author, committer := signatureToGit c.committer,
                message := c.description, labelsHeader
                treesHeader := if c.rootTree.length ≠ 1 then some c.rootTree else none
                changeIdHeader := some c.changeId }

/-- the `loop` of `write_commit`: while an entry with the same id but different extras exists,
`committer.time.seconds -= 1` (fuel = table size + 1 suffices: every failed attempt hits a distinct entry) -/
def adjustLoop (t : Table) (extras : Extras) : Nat → GitCommit → GitCommit
  | 0, g => g
  | fuel + 1, g =>
    match t.get? g with
    | some e => if e ≠ extras then adjustLoop t extras fuel { g with committer := { g.committer with seconds := g.committer.seconds - 1 } }
                else g
    | none => g

/-- `GitBackend::write_commit`: new table, id (= the record), returned commit.
`fixAuthor = true` models the repaired code (author timestamp truncated in the returned commit like
the committer's); `false` is the code as it stands (finding F1). -/
def gitWrite (fixAuthor : Bool) (t : Table) (c : Commit) : Except Err (Table × GitCommit × Commit) :=
  match toGitCommit c with
  | .error e => .error e
  | .ok g0 =>
    if sigRejected g0.author || sigRejected g0.committer then .error .writeObject
    else
      let extras := serializeExtras c
      let g := adjustLoop t extras (t.length + 1) g0
      let returned : Commit :=
        { c with committer := { c.committer with ms := g.committer.seconds * 1000 }
                 author := if fixAuthor then { c.author with ms := g.author.seconds * 1000 } else c.author }
      .ok ((g, extras) :: t, g, returned)

/-! ### read -/

/-- a commit as read back; `syntheticChangeId` ⇒ `commit.changeId` is a function of the commit id
(`synthetic_change_id_from_git_commit_id`), left empty here -/
structure ReadCommit where
  commit : Commit
  syntheticChangeId : Bool
  deriving DecidableEq, Repr

/-- `commit_from_git_without_root_parent` + root parent + `deserialize_extras` -/
def gitRead (t : Table) (g : GitCommit) : Except Err ReadCommit :=
  match extractLabels g with
  | .error e => .error e
  | .ok labels =>
    match extractRootTree g with
    | .error e => .error e
    | .ok rootTree =>
      let parents := if g.parents.isEmpty then [rootCommitId] else g.parents
      match t.get? g with
      | none => .error .panic     -- unimported commit: not reachable after `write`
      | some extras =>
        let changeId : Bytes × Bool :=
          if !extras.changeId.isEmpty then (extras.changeId, false)
          else match extractChangeId g with
            | some b => (b, false)
            | none => ([], true)
        .ok { commit := { parents, predecessors := extras.predecessors, rootTree, labels, changeId := changeId.1,
                          description := g.message, author := signatureFromGit g.author,
                          committer := signatureFromGit g.committer }
              syntheticChangeId := changeId.2 }

/-! ### simple backend -/

/-- `protos::simple_store::Commit` -/
structure SimpleProto where
  parents : List Bytes
  predecessors : List Bytes
  rootTree : List Bytes
  conflictLabels : List Bytes
  changeId : Bytes
  description : Bytes
  author : Signature
  committer : Signature
  deriving DecidableEq, Repr

/-- `commit_to_proto` -/
def commitToProto (c : Commit) : SimpleProto :=
  { parents := c.parents, predecessors := c.predecessors, rootTree := c.rootTree
    conflictLabels := if c.labels.length ≠ 1 then c.labels else []
    changeId := c.changeId, description := c.description, author := c.author, committer := c.committer }

/-- `ConflictLabels::from_vec(..).into_merge()` -/
def labelsFromVec (ls : List Bytes) : Except Err (List Bytes) :=
  if ls.isEmpty then .ok [[]]
  else if ls.length % 2 = 0 then .error .panic          -- `Merge::from_vec` assertion
  else if ls.length = 1 ∨ ls.all (·.isEmpty) then .ok [[]]
  else .ok ls

/-- `commit_from_proto` -/
def commitFromProto (p : SimpleProto) : Except Err Commit := do
  if p.rootTree.length % 2 = 0 then .error .panic       -- `MergeBuilder::build`
  let labels ← labelsFromVec p.conflictLabels
  .ok { parents := p.parents, predecessors := p.predecessors, rootTree := p.rootTree, labels,
        changeId := p.changeId, description := p.description, author := p.author, committer := p.committer }

/-- `SimpleBackend::write_commit`: the stored message and the returned commit -/
def simpleWrite (c : Commit) : Except Err (SimpleProto × Commit) :=
  if c.parents.isEmpty then .error .noParents else .ok (commitToProto c, c)

def simpleRead (p : SimpleProto) : Except Err Commit := commitFromProto p

end JjModel.GitBackend
