/-
  Decodable-codec combinators: the model of `lib/src/content_hash.rs`.

  A `C α` is an encoder `enc : α → Bytes` together with a decoder and the proof that the decoder
  inverts the encoder *in front of any suffix* (`ok`).  That makes every codec built from the
  combinators prefix-free and injective (`C.inj`) on its domain `dom` (the only domain conditions
  are the ones the Rust types impose: integers in range, lengths < 2⁶⁴).

  Each combinator mirrors one `impl ContentHash`:
    `u8`/`bool`/`u32`/`i32`/`u64`/`i64`  — `state.update(&self.to_le_bytes())`
    `list`      — `[T]`, `Vec<T>`, `String`/`str` (bytes), `Merge<T>`, `HashSet` (sorted),
                  `BTreeMap`/`HashMap` (sorted, as a list of key/value pairs): u64-LE length, elements
    `opt`       — `Option<T>`: u32-LE 0 | u32-LE 1 then the value
    `pair`      — consecutive fields of a `#[derive(ContentHash)]` struct / tuples
    `enumUnit`  — derive on an enum with unit variants: u32-LE ordinal
  Every codec also carries a `Desc`, a first-order description of its byte layout with the Rust
  field names attached; `Props/C16` compares it (by `decide`) with the description that
  `tools/translate.py` extracts from the Rust sources on every run (`Generated/HashLayout.lean`).

  Import-free on purpose: the driver executable links this file.
-/
namespace JjModel.Codec

abbrev Bytes := List UInt8

/-- First-order description of a hashed layout (what `tools/translate_parts/hash_layout.py`
regenerates from the `#[derive(ContentHash)]` types). -/
inductive Desc where
  | u8 | bool | u32 | i32 | u64 | i64
  | opt (d : Desc)
  | seq (d : Desc)
  | pair (a b : Desc)
  | unit
  | enumUnit (variants : List String)
  | field (name : String) (d : Desc)
  | struct (name : String) (d : Desc)
  deriving DecidableEq, Repr

/-- k-byte little-endian encoding of n -/
def le : Nat → Nat → Bytes
  | 0, _ => []
  | k+1, n => UInt8.ofNat (n % 256) :: le k (n / 256)

def unle : Bytes → Nat
  | [] => 0
  | b :: bs => b.toNat + 256 * unle bs

theorem le_length (k n : Nat) : (le k n).length = k := by
  induction k generalizing n with
  | zero => rfl
  | succ k ih => simp [le, ih]

theorem unle_le (k n : Nat) (h : n < 256 ^ k) : unle (le k n) = n := by
  induction k generalizing n with
  | zero =>
    have : n = 0 := by simpa using h
    subst this; rfl
  | succ k ih =>
    simp only [le, unle]
    have h2 : n / 256 < 256 ^ k := by
      rw [Nat.pow_succ] at h; exact Nat.div_lt_of_lt_mul (by omega)
    rw [ih _ h2]
    have : (UInt8.ofNat (n % 256)).toNat = n % 256 := by
      simp [UInt8.toNat_ofNat']
    rw [this]; omega

/-- a decodable (hence prefix-free and injective) encoding -/
structure C (α : Type) where
  desc : Desc
  dom : α → Prop
  enc : α → Bytes
  dec : Bytes → Option (α × Bytes)
  ok : ∀ x rest, dom x → dec (enc x ++ rest) = some (x, rest)

theorem C.inj {α} (c : C α) {x y : α} (hx : c.dom x) (hy : c.dom y) (h : c.enc x = c.enc y) : x = y := by
  have a := c.ok x [] hx; have b := c.ok y [] hy
  rw [h] at a; rw [a] at b; simpa using b

/-- No encoding is a proper prefix of another one (so concatenated fields cannot be re-split). -/
theorem C.prefix_free {α} (c : C α) {x y : α} {r s : Bytes} (hx : c.dom x) (hy : c.dom y)
    (h : c.enc x ++ r = c.enc y ++ s) : x = y ∧ r = s := by
  have a := c.ok x r hx; have b := c.ok y s hy
  rw [h] at a; rw [a] at b
  simp only [Option.some.injEq, Prod.mk.injEq] at b; exact b

def fixedNat (k : Nat) (d : Desc) : C Nat where
  desc := d
  dom n := n < 256 ^ k
  enc n := le k n
  dec bs := if bs.length < k then none else some (unle (bs.take k), bs.drop k)
  ok := by
    intro x rest hx
    have hl := le_length k x
    simp only [List.length_append, hl]
    rw [if_neg (by omega)]
    have t : (le k x ++ rest).take k = le k x := by
      rw [List.take_append_of_le_length (by omega)]; rw [List.take_of_length_le (by omega)]
    have d : (le k x ++ rest).drop k = rest := by
      have := List.drop_left (l₁ := le k x) (l₂ := rest)
      rw [hl] at this; exact this
    rw [t, d, unle_le k x hx]

/-- `impl ContentHash for u32` -/
def u32 : C Nat := fixedNat 4 .u32
/-- `impl ContentHash for u64` -/
def u64 : C Nat := fixedNat 8 .u64

/-- `impl ContentHash for u8` -/
def byte : C UInt8 where
  desc := .u8
  dom _ := True
  enc b := [b]
  dec bs := match bs with | [] => none | b :: r => some (b, r)
  ok := by intro x rest _; rfl

/-- `impl ContentHash for bool`: `u8::from(*self)` -/
def bool : C Bool where
  desc := .bool
  dom _ := True
  enc b := [if b then 1 else 0]
  dec bs := match bs with
    | [] => none
    | b :: r => if b = 0 then some (false, r) else if b = 1 then some (true, r) else none
  ok := by intro x rest _; cases x <;> rfl

/-- two's-complement signed integers of `k` bytes, `half = 2^(8k-1)` -/
def sint (k : Nat) (half : Nat) (hh : 2 * half = 256 ^ k) (d : Desc) : C Int where
  desc := d
  dom x := -(half : Int) ≤ x ∧ x < (half : Int)
  enc x := le k (if x < 0 then (x + (2 * half : Nat)).toNat else x.toNat)
  dec bs := match (fixedNat k d).dec bs with
    | none => none
    | some (n, r) => some (if n < half then (n : Int) else (n : Int) - (2 * half : Nat), r)
  ok := by
    intro x rest hx
    have hn : (if x < 0 then (x + (2 * half : Nat)).toNat else x.toNat) < 256 ^ k := by
      split <;> omega
    have := (fixedNat k d).ok _ rest hn
    simp only [fixedNat] at this ⊢
    simp only [this]
    congr 2
    split <;> split <;> omega

/-- `impl ContentHash for i32` -/
def i32 : C Int := sint 4 2147483648 (by decide) .i32
/-- `impl ContentHash for i64` -/
def i64 : C Int := sint 8 9223372036854775808 (by decide) .i64

/-- consecutive fields -/
def pair {α β} (a : C α) (b : C β) : C (α × β) where
  desc := .pair a.desc b.desc
  dom p := a.dom p.1 ∧ b.dom p.2
  enc p := a.enc p.1 ++ b.enc p.2
  dec bs := match a.dec bs with
    | none => none
    | some (x, r) => match b.dec r with
      | none => none
      | some (y, r') => some ((x, y), r')
  ok := by
    intro p rest hp
    simp only [List.append_assoc]
    rw [a.ok _ _ hp.1]; simp only; rw [b.ok _ _ hp.2]

/-- `impl ContentHash for Option<T>` -/
def opt {α} (a : C α) : C (Option α) where
  desc := .opt a.desc
  dom o := ∀ x, o = some x → a.dom x
  enc o := match o with
    | none => le 4 0
    | some x => le 4 1 ++ a.enc x
  dec bs := match u32.dec bs with
    | some (0, r) => some (none, r)
    | some (1, r) => (a.dec r).map (fun p => (some p.1, p.2))
    | _ => none
  ok := by
    intro o rest ho
    cases o with
    | none =>
      have := u32.ok 0 rest (by simp [u32, fixedNat])
      simp only [u32, fixedNat] at this ⊢; simp only [this]
    | some x =>
      have := u32.ok 1 (a.enc x ++ rest) (by simp [u32, fixedNat])
      simp only [u32, fixedNat, List.append_assoc] at this ⊢; simp only [this]
      rw [a.ok _ _ (ho x rfl)]; rfl

def decN {α} (a : C α) : Nat → Bytes → Option (List α × Bytes)
  | 0, bs => some ([], bs)
  | n+1, bs => match a.dec bs with
    | none => none
    | some (x, r) => match decN a n r with
      | none => none
      | some (xs, r') => some (x :: xs, r')

theorem decN_ok {α} (a : C α) (l : List α) (rest : Bytes) (h : ∀ x ∈ l, a.dom x) :
    decN a l.length ((l.flatMap a.enc) ++ rest) = some (l, rest) := by
  induction l with
  | nil => simp [decN]
  | cons x xs ih =>
    simp only [List.flatMap_cons, List.append_assoc, List.length_cons, decN]
    rw [a.ok _ _ (h x (by simp))]; simp only
    rw [ih (fun y hy => h y (by simp [hy]))]

/-- `impl ContentHash for [T]` (and everything that delegates to it) -/
def list {α} (a : C α) : C (List α) where
  desc := .seq a.desc
  dom l := l.length < 256 ^ 8 ∧ ∀ x ∈ l, a.dom x
  enc l := le 8 l.length ++ l.flatMap a.enc
  dec bs := match u64.dec bs with
    | none => none
    | some (n, r) => decN a n r
  ok := by
    intro l rest hl
    have := u64.ok l.length (l.flatMap a.enc ++ rest) hl.1
    simp only [u64, fixedNat, List.append_assoc] at this ⊢; simp only [this]
    exact decN_ok a l rest hl.2

/-- `String`, `Vec<u8>`, ids -/
def bytes : C Bytes := list byte

/-- derive on an enum whose variants are all unit variants: the u32 ordinal -/
def enumUnit (variants : List String) : C Nat where
  desc := .enumUnit variants
  dom n := n < variants.length ∧ n < 256 ^ 4
  enc n := le 4 n
  dec bs := match u32.dec bs with
    | none => none
    | some (n, r) => if n < variants.length then some (n, r) else none
  ok := by
    intro x rest hx
    have := u32.ok x rest hx.2
    simp only [u32, fixedNat] at this ⊢
    simp only [this, hx.1, if_true]

/-- transport a codec along an embedding (a Lean structure ↦ the tuple of its fields) -/
def C.iso {σ τ} (c : C τ) (toT : σ → τ) (ofT : τ → σ) (h : ∀ x, ofT (toT x) = x) : C σ where
  desc := c.desc
  dom x := c.dom (toT x)
  enc x := c.enc (toT x)
  dec bs := (c.dec bs).map (fun p => (ofT p.1, p.2))
  ok := by
    intro x rest hx
    rw [c.ok _ _ hx]; simp [h]

/-- attach the Rust field name (layout description only) -/
def C.named {α} (name : String) (c : C α) : C α := { c with desc := .field name c.desc }

/-- attach the Rust type name (layout description only) -/
def C.structure {α} (name : String) (c : C α) : C α := { c with desc := .struct name c.desc }

@[simp] theorem C.named_enc {α} (n : String) (c : C α) : (c.named n).enc = c.enc := rfl
@[simp] theorem C.named_dom {α} (n : String) (c : C α) : (c.named n).dom = c.dom := rfl
@[simp] theorem C.structure_enc {α} (n : String) (c : C α) : (c.structure n).enc = c.enc := rfl
@[simp] theorem C.structure_dom {α} (n : String) (c : C α) : (c.structure n).dom = c.dom := rfl

end JjModel.Codec
