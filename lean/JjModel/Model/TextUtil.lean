/-!
  C44 — eliding, truncating, padding, wrapping (`/repo/cli/src/text_util.rs`).

  Strings are `List Char`; the display width of a character is an abstract `cw : Char → Nat`
  (`c.width().unwrap_or(0)` in the source).  Byte indices of the source become character counts:
  a "position" is the number of characters kept / skipped, so every slice is on a character
  boundary by construction (see `Props/C44.lean`, `char_boundaries`).

  The source mixes two measures: the per-character sum (`truncate_*_pos*`, `skip_*_pos*`) and the
  string-level `UnicodeWidthStr::width` (`write_truncated_*`, `write_padded_*`: `data_width`,
  `ellipsis_width`).  The string-level values are *inputs* of the model (`dW`, `eW`): the driver is
  given the numbers the real `unicode-width` crate computed, the theorems assume they equal the sums.

  Mirrors:
    `scanFit`   = `truncate_end_pos_with_indices` / `truncate_start_pos_with_indices` (on the reversed text)
    `scanSkip`  = `skip_start_pos_with_indices` / `skip_end_pos_with_indices` (on the reversed text)
    `trimZero`  = `trim_start_zero_width_chars` / `count_start_zero_width_chars_bytes`
    `elideStart`, `elideEnd`, `writeTruncatedStart`, `writeTruncatedEnd`,
    `writePaddedStart`, `writePaddedEnd`, `writePaddedCentered` (labels ignored: plain-text output),
    `splitWords` = `split_byte_line_to_words`, `displayWidth` = `textwrap::core::display_width`
    (per-char sum skipping ANSI escape sequences), `wrapFirstFit` = `textwrap::wrap_algorithms::
    wrap_first_fit` with one line width, `wrapBytes` = `wrap_bytes`.
-/
namespace JjModel.TextUtil

/-- per-character-sum width -/
def W (cw : Char → Nat) : List Char → Nat
  | [] => 0
  | c :: cs => cw c + W cw cs

/-- Take characters while the accumulated width stays `≤ max`; returns (number taken, width).
    `for (i, c) in …: new = acc + w(c); if new > max return (i, acc); acc = new` -/
def scanFit (cw : Char → Nat) (max : Nat) : List Char → Nat → Nat × Nat
  | [], acc => (0, acc)
  | c :: cs, acc =>
    if acc + cw c > max then (0, acc)
    else
      let r := scanFit cw max cs (acc + cw c)
      (r.1 + 1, r.2)

/-- Skip characters until the accumulated width reaches `width`; returns (number skipped, width).
    `for (i, c) in …: if acc >= width return (i, acc); acc += w(c)` -/
def scanSkip (cw : Char → Nat) (width : Nat) : List Char → Nat → Nat × Nat
  | [], acc => (0, acc)
  | c :: cs, acc =>
    if acc ≥ width then (0, acc)
    else
      let r := scanSkip cw width cs (acc + cw c)
      (r.1 + 1, r.2)

/-- drop leading zero-width characters -/
def trimZero (cw : Char → Nat) : List Char → List Char
  | [] => []
  | c :: cs => if cw c = 0 then trimZero cw cs else c :: cs

/-- the last `n` characters -/
def takeEnd (n : Nat) (s : List Char) : List Char := (s.reverse.take n).reverse

/-- all but the last `n` characters -/
def dropEnd (n : Nat) (s : List Char) : List Char := (s.reverse.drop n).reverse

/-- `elide_start(text, ellipsis, max_width)` → (string, width) -/
def elideStart (cw : Char → Nat) (text ell : List Char) (max : Nat) : List Char × Nat :=
  let t := scanFit cw max text.reverse 0            -- truncate_start_pos(text)
  if t.1 = text.length then (text, t.2)
  else
    let e := scanFit cw max ell.reverse 0           -- truncate_start_pos(ellipsis)
    if e.1 ≠ ell.length then (trimZero cw (takeEnd e.1 ell), e.2)
    else
      let kept := takeEnd t.1 text
      let sk := scanSkip cw (t.2 - (max - e.2)) kept 0   -- skip_start_pos
      (ell ++ trimZero cw (kept.drop sk.1), e.2 + (t.2 - sk.2))

/-- `elide_end(text, ellipsis, max_width)` → (string, width) -/
def elideEnd (cw : Char → Nat) (text ell : List Char) (max : Nat) : List Char × Nat :=
  let t := scanFit cw max text 0                    -- truncate_end_pos(text)
  if t.1 = text.length then (text, t.2)
  else
    let e := scanFit cw max ell 0
    if e.1 ≠ ell.length then (ell.take e.1, e.2)
    else
      let kept := text.take t.1
      let sk := scanSkip cw (t.2 - (max - e.2)) kept.reverse 0   -- skip_end_pos
      (dropEnd sk.1 kept ++ ell, (t.2 - sk.2) + e.2)

/-- the content part `write_truncated_start` writes when the last `n` characters of `data` are kept:
    `truncated_start = if start == 0 { 0 } else { start + count_start_zero_width_chars_bytes(..) }` —
    zero-width characters are skipped only if the preceding character was removed (`start ≠ 0`,
    i.e. fewer than all characters are kept). -/
def keptStart (cw : Char → Nat) (n : Nat) (data : List Char) : List Char :=
  if n = data.length then data else trimZero cw (takeEnd n data)

/-- `write_truncated_start` (plain text): `dW`, `eW` are the string-level widths of content and
    ellipsis.  Text that fits (`dW ≤ max`: `start = 0`) is written unchanged (since /repo 645211a;
    before, its leading zero-width characters were dropped). -/
def writeTruncatedStart (cw : Char → Nat) (dW eW : Nat) (data ell : List Char) (max : Nat) : List Char × Nat :=
  if dW > max then
    let t := scanFit cw (max - eW) data.reverse 0
    let e := scanFit cw max ell.reverse 0
    (trimZero cw (takeEnd e.1 ell) ++ keptStart cw t.1 data, t.2 + e.2)
  else (data, dW)

/-- `write_truncated_end` (plain text) -/
def writeTruncatedEnd (cw : Char → Nat) (dW eW : Nat) (data ell : List Char) (max : Nat) : List Char × Nat :=
  if dW > max then
    let t := scanFit cw (max - eW) data 0
    let e := scanFit cw max ell 0
    (data.take t.1 ++ ell.take e.1, t.2 + e.2)
  else (data, dW)

/-- `write_padding`: the fill bytes repeated -/
def padding (fill : List Char) (k : Nat) : List Char := (List.replicate k fill).flatten

def writePaddedStart (dW : Nat) (data fill : List Char) (min : Nat) : List Char :=
  padding fill (min - dW) ++ data

def writePaddedEnd (dW : Nat) (data fill : List Char) (min : Nat) : List Char :=
  data ++ padding fill (min - dW)

def writePaddedCentered (dW : Nat) (data fill : List Char) (min : Nat) : List Char :=
  let k := min - dW
  padding fill (k / 2) ++ data ++ padding fill (k - k / 2)

/-! ### wrapping -/

/-- a word and the number of spaces following it (`ByteFragment`) -/
structure Word where
  word : List Char
  ws : Nat
  deriving DecidableEq, Repr

/-- state of `split_byte_line_to_words`: collecting a word / collecting the spaces after it -/
def splitWordsAux : List Char → List Char → Option Nat → List Word
  | [], cur, none => if cur.isEmpty then [] else [⟨cur.reverse, 0⟩]
  | [], cur, some k => [⟨cur.reverse, k⟩]
  | c :: cs, cur, none =>
    if c = ' ' then splitWordsAux cs cur (some 1) else splitWordsAux cs (c :: cur) none
  | c :: cs, cur, some k =>
    if c = ' ' then splitWordsAux cs cur (some (k + 1))
    else ⟨cur.reverse, k⟩ :: splitWordsAux cs [c] none

/-- `split_byte_line_to_words`: maximal runs of non-spaces, each with the run of spaces after it
    (a line starting with spaces starts with an empty word) -/
def splitWords (line : List Char) : List Word := splitWordsAux line [] none

inductive AnsiState where
  | normal | esc | csi | osc (lastEsc : Bool)
  deriving DecidableEq, Repr

def ESC : Char := Char.ofNat 27
def BEL : Char := Char.ofNat 7

/-- one character of `textwrap::core::display_width` (with `skip_ansi_escape_sequence` unrolled
    into a state machine: ESC swallows the next character; `ESC [` … final byte `@`..`~`;
    `ESC ]` … BEL or `ESC \`) -/
def dwStep (cw : Char → Nat) (st : AnsiState × Nat) (c : Char) : AnsiState × Nat :=
  match st with
  | (.normal, w) => if c = ESC then (.esc, w) else (.normal, w + cw c)
  | (.esc, w) => if c = '[' then (.csi, w) else if c = ']' then (.osc false, w) else (.normal, w)
  | (.csi, w) => if '@' ≤ c ∧ c ≤ '~' then (.normal, w) else (.csi, w)
  | (.osc last, w) =>
    if c = BEL ∨ (c = '\\' ∧ last = true) then (.normal, w) else (.osc (c = ESC), w)

def displayWidth (cw : Char → Nat) (s : List Char) : Nat := (s.foldl (dwStep cw) (.normal, 0)).2

/-- `wrap_first_fit(words, [width])`: `cur` is the current line (reversed), `w` its width including
    trailing whitespace.  A word that does not fit starts a new line unless the line is empty. -/
def wrapFirstFitAux (ww : List Char → Nat) (width : Nat) : List Word → List Word → Nat → List (List Word)
  | [], cur, _ => [cur.reverse]
  | x :: xs, cur, w =>
    if w + ww x.word > width ∧ !cur.isEmpty then
      cur.reverse :: wrapFirstFitAux ww width xs [x] (ww x.word + x.ws)
    else wrapFirstFitAux ww width xs (x :: cur) (w + ww x.word + x.ws)

def wrapFirstFit (ww : List Char → Nat) (width : Nat) (words : List Word) : List (List Word) :=
  wrapFirstFitAux ww width words [] 0

/-- the text of a wrapped line: from the start of the first word to the end of the last word -/
def lineOf : List Word → List Char
  | [] => []
  | [x] => x.word
  | x :: xs => x.word ++ List.replicate x.ws ' ' ++ lineOf xs

/-- split at every `sep` -/
def splitOn (sep : Char) : List Char → List (List Char)
  | [] => [[]]
  | c :: cs =>
    if c = sep then [] :: splitOn sep cs
    else match splitOn sep cs with
      | [] => [[c]]
      | h :: t => (c :: h) :: t

def wrapLine (cw : Char → Nat) (width : Nat) (line : List Char) : List (List Char) :=
  (wrapFirstFit (displayWidth cw) width (splitWords line)).map lineOf

/-- `wrap_bytes(text, width)` -/
def wrapBytes (cw : Char → Nat) (width : Nat) (text : List Char) : List (List Char) :=
  (splitOn '\n' text).flatMap (wrapLine cw width)

end JjModel.TextUtil
