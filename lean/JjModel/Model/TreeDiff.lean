import JjModel.Model.Rebase
/-
  Model of `MergedTree::diff_stream` (`merged_tree.rs`: `merged_tree_entry_diff`, `TreeDiffIterator`,
  `stream_without_trees`, with the `EverythingMatcher`) and of
  `default_index/changed_path.rs::collect_changed_paths`.
-/
namespace JjModel.TreeDiff
open JjModel.Merge JjModel.Trees JjModel.Rebase

/-- `MergedTreeValue::is_tree`: present, and every term a tree or absent -/
def isTreeM (v : MVal) : Bool := v != [none] && v.all isTreeOrNone

/-- `TreeDiffIterator::trees`: the trees to descend into; the empty tree for anything that is not a tree -/
def treesOf (v : MVal) : List Tree := if isTreeM v then v.map treeOrEmpty else [.nil]

/-- The raw diff walk (pre-order): every path at which the two merged trees have different values,
directories included.  `valueAt` is `all_tree_entries` for one name (`[none]` = no entry). -/
def diffF (sc : SameChange) : Nat → List Tree → List Tree → List Nat → List (List Nat × MVal × MVal)
  | 0, _, _, _ => []
  | f + 1, ts1, ts2, pre =>
    (allNames (ts1 ++ ts2)).flatMap fun n =>
      let b := valueAt sc ts1 n
      let a := valueAt sc ts2 n
      if b = a then []
      else
        (pre ++ [n], b, a) ::
          (if isTreeM b || isTreeM a then diffF sc f (treesOf b) (treesOf a) (pre ++ [n]) else [])

def diffWithTrees (sc : SameChange) (ts1 ts2 : List Tree) : List (List Nat × MVal × MVal) :=
  if ts1 = ts2 then [] else diffF sc (maxHeight (ts1 ++ ts2)) ts1 ts2 []

/-- `stream_without_trees`' `skip_tree` -/
def skipTree (v : MVal) : MVal := if isTreeM v then [none] else v

/-- `MergedTree::diff_stream` -/
def diffStream (sc : SameChange) (ts1 ts2 : List Tree) : List (List Nat × MVal × MVal) :=
  (diffWithTrees sc ts1 ts2).filterMap fun e =>
    let b := skipTree e.2.1
    let a := skipTree e.2.2
    if b = [none] ∧ a = [none] then none else some (e.1, b, a)

/-- the general path of `collect_changed_paths` -/
def changedPathsGeneral (sc : SameChange) (cm : ContentMerge) (h : History) (c : Nat) : List (List Nat) :=
  (diffStream sc (mergeCommitTreesNoResolve h (parentsOf h c)) (treeOf h c)).filterMap fun e =>
    if resolveFileValues sc cm e.2.1 = e.2.2 then none else some e.1

/-- `collect_changed_paths`: single parent with the same tree ⇒ nothing (without looking) -/
def collectChangedPaths (sc : SameChange) (cm : ContentMerge) (h : History) (c : Nat) : List (List Nat) :=
  match parentsOf h c with
  | [p] => if treeOf h c = treeOf h p then [] else changedPathsGeneral sc cm h c
  | _ => changedPathsGeneral sc cm h c

/-! ### the index itself, at the level of its contents

`CompositeChangedPathIndex`: a start position and stacked segments, each holding the path lists of
consecutive commit positions.  (File format, path interning and segment squashing are not modelled:
squashing concatenates adjacent segments, which leaves `flatten` unchanged.) -/
structure CPIndex where
  start : Nat
  segments : List (List (List (List Nat)))
  deriving Repr

/-- `changed_paths(pos)`: `none` for positions outside the indexed range -/
def CPIndex.lookup (idx : CPIndex) (pos : Nat) : Option (List (List Nat)) :=
  if pos < idx.start then none else (idx.segments.flatten)[pos - idx.start]?

/-- `add_changed_paths` for the next position (a new one-commit segment) -/
def CPIndex.add (idx : CPIndex) (paths : List (List Nat)) : CPIndex :=
  { idx with segments := idx.segments ++ [[paths]] }

/-- squash the two newest segments into one -/
def CPIndex.squash (idx : CPIndex) : CPIndex :=
  match idx.segments.reverse with
  | a :: b :: rest => { idx with segments := (rest.reverse) ++ [b ++ a] }
  | _ => idx

/-- index the commits `start, start+1, …, n-1` one after the other -/
def buildIndex (sc : SameChange) (cm : ContentMerge) (h : History) (start : Nat) : CPIndex :=
  (List.range' start (h.length - start)).foldl (fun idx c => idx.add (collectChangedPaths sc cm h c))
    { start := start, segments := [] }

/-- `files(prefix)` on one commit: answered from a path list -/
def matchesPrefix (pre : List Nat) (paths : List (List Nat)) : Bool := paths.any (fun p => pre.isPrefixOf p)

/-- … with the index when the commit is indexed, otherwise by computing the diff -/
def filesQuery (sc : SameChange) (cm : ContentMerge) (h : History) (idx : Option CPIndex) (pre : List Nat) : List Nat :=
  (List.range h.length).filter fun c =>
    match idx.bind (·.lookup c) with
    | some paths => matchesPrefix pre paths
    | none => matchesPrefix pre (collectChangedPaths sc cm h c)

end JjModel.TreeDiff
