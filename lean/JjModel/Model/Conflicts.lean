import JjModel.Generated.Consts
/-
  L2 — model of `lib/src/conflicts.rs`: conflict-marker materialization and parsing.

  * `chooseMarkerLen`      ↔ `choose_materialized_conflict_marker_len`
  * `detectEol`            ↔ `detect_eol`
  * `buildHunkSides`       ↔ `build_hunk_sides`
  * `writeDiffHunks`       ↔ `write_diff_hunks`, `diffSize` ↔ `diff_size`
  * `materializeGit`       ↔ `materialize_git_style_conflict`
  * `materializeJJ`        ↔ `materialize_jj_style_conflict`
  * `materializeHunks`     ↔ `materialize_conflict_hunks`
  * `materializeToBytes`   ↔ `materialize_merge_result_to_bytes` *given* the result of
                             `files::merge_hunks` (that function is C04's subject, not ours)
  * `parseMarkerAnyLen`, `parseMarker`, `parseConflict`, `parseConflictHunk`, `parseJJ`, `parseGit`
                           ↔ the functions of the same (snake-case) names.

  A byte string is `List UInt8`.  A `Merge<BString>` is the list of its interleaved terms
  (`adds[0], removes[0], adds[1], …`), as in `Model/Merge.lean`; a hunk is *resolved* iff it has
  exactly one term.  The line diff used by the `Diff`/`DiffExperimental` styles
  (`ContentDiff::by_line`) is a *parameter* `diffFn` of the materializer: it is somebody else's
  property (C03); `write_diff_hunks` itself is modelled exactly.

  `parse_conflict` walks the input with byte offsets (`pos`, `resolved_start`, `conflict_start`,
  `conflict_start_len`).  The model carries the corresponding *slices* instead:
  `pre = input[resolved_start .. conflict_start.unwrap_or(pos)]`, and for an open conflict the start
  line and `body = input[conflict_start + conflict_start_len .. pos]`.  Because the lines of
  `lines_with_terminator` concatenate to the input this is the same function on every input
  (the differential check exercises it on malformed inputs too).

  Imports only the generated constants (import-free themselves): the driver links this file.
-/
namespace JjModel.Conflicts
open JjModel.Generated

abbrev Bytes := List UInt8

def LF : UInt8 := 10
def CR : UInt8 := 13
def SP : UInt8 := 32

/-! ### `bstr::ByteSlice::lines_with_terminator` -/

/-- Lines including their `\n` terminator; a final unterminated line is kept; no empty lines. -/
def linesWT : Bytes → List Bytes
  | [] => []
  | b :: rest =>
    if b = LF then [b] :: linesWT rest
    else match linesWT rest with
      | [] => [[b]]
      | l :: ls => (b :: l) :: ls

/-! ### marker lines -/

inductive MarkerKind where
  | conflictStart | conflictEnd | add | remove | diff | note | gitAncestor | gitSeparator
  deriving DecidableEq, Repr

/-- `ConflictMarkerLineChar::to_byte` (enum discriminants, from the source) -/
def MarkerKind.toByte : MarkerKind → UInt8
  | .conflictStart => MARKER_CONFLICT_START
  | .conflictEnd => MARKER_CONFLICT_END
  | .add => MARKER_ADD
  | .remove => MARKER_REMOVE
  | .diff => MARKER_DIFF
  | .note => MARKER_NOTE
  | .gitAncestor => MARKER_GIT_ANCESTOR
  | .gitSeparator => MARKER_GIT_SEPARATOR

/-- `ConflictMarkerLineChar::parse_byte` (match arms, from the source) -/
def parseByte (b : UInt8) : Option MarkerKind :=
  if b = PARSE_CONFLICT_START then some .conflictStart
  else if b = PARSE_CONFLICT_END then some .conflictEnd
  else if b = PARSE_ADD then some .add
  else if b = PARSE_REMOVE then some .remove
  else if b = PARSE_DIFF then some .diff
  else if b = PARSE_NOTE then some .note
  else if b = PARSE_GIT_ANCESTOR then some .gitAncestor
  else if b = PARSE_GIT_SEPARATOR then some .gitSeparator
  else none

/-- `u8::is_ascii_whitespace`: space, tab, LF, FF, CR -/
def isAsciiWhitespace (b : UInt8) : Bool :=
  b = 32 || b = 9 || b = 10 || b = 12 || b = 13

/-- `parse_conflict_marker_any_len` -/
def parseMarkerAnyLen (line : Bytes) : Option (MarkerKind × Nat) :=
  match line with
  | [] => none
  | first :: _ =>
    match parseByte first with
    | none => none
    | some kind =>
      let len := (line.takeWhile (· = first)).length
      match line.dropWhile (· = first) with
      | [] => some (kind, len)
      | next :: _ => if isAsciiWhitespace next then some (kind, len) else none

/-- `parse_conflict_marker` -/
def parseMarker (line : Bytes) (expectedLen : Nat) : Option MarkerKind :=
  match parseMarkerAnyLen line with
  | some (kind, len) => if len ≥ expectedLen then some kind else none
  | none => none

/-- `.max().unwrap_or_default()` -/
def maxList : List Nat → Nat
  | [] => 0
  | x :: xs => max x (maxList xs)

/-- all marker-like lines of a set of files, with their run lengths -/
def markerLens (files : List Bytes) : List Nat :=
  ((files.flatMap linesWT).filterMap parseMarkerAnyLen).map (·.2)

/-- `choose_materialized_conflict_marker_len` (`usize` saturation not modelled: unbounded `Nat`) -/
def chooseMarkerLen (files : List Bytes) : Nat :=
  max (maxList (markerLens files) + CONFLICT_MARKER_LEN_INCREMENT) MIN_CONFLICT_MARKER_LEN

/-! ### `detect_eol` -/

/-- `content.find_byte(b'\n')` and whether the byte before it is `\r` -/
def firstLineCrlf (prevCr : Bool) : Bytes → Option Bool
  | [] => none
  | b :: rest => if b = LF then some prevCr else firstLineCrlf (b = CR) rest

/-- `Itertools::all_equal_value(..).ok()` -/
def allEqualValue : List Bool → Option Bool
  | [] => none
  | x :: xs => if xs.all (· = x) then some x else none

def eolLF : Bytes := [LF]
def eolCRLF : Bytes := [CR, LF]

def detectEol (files : List Bytes) : Bytes :=
  if (allEqualValue (files.filterMap (firstLineCrlf false))).getD false then eolCRLF else eolLF

/-! ### decimal formatting (`{}` of a `usize`) -/

def digitByte (d : Nat) : UInt8 :=
  match d with
  | 0 => 48 | 1 => 49 | 2 => 50 | 3 => 51 | 4 => 52
  | 5 => 53 | 6 => 54 | 7 => 55 | 8 => 56 | _ => 57

def decAux : Nat → Nat → Bytes → Bytes
  | 0, _, acc => acc
  | fuel + 1, n, acc =>
    let acc' := digitByte (n % 10) :: acc
    if n / 10 = 0 then acc' else decAux fuel (n / 10) acc'

def dec (n : Nat) : Bytes := decAux (n + 1) n []

/-- ASCII string literal to bytes (used for the fixed texts of the format strings) -/
def ascii (s : String) : Bytes := s.toList.map (fun c => UInt8.ofNat c.toNat)

/-! ### labels (`ConflictLabels`) -/

/-- `ConflictLabels::from_vec`: the stored `Merge<String>`; unlabeled is `resolved("")`. -/
def labelsFromVec (labels : List Bytes) : List Bytes :=
  if labels.length ≤ 1 ∨ labels.all (·.isEmpty) then [[]] else labels

def nonEmpty? (o : Option Bytes) : Option Bytes :=
  match o with
  | some l => if l.isEmpty then none else some l
  | none => none

/-- `ConflictLabels::get_add` -/
def getAddLabel (labels : List Bytes) (i : Nat) : Option Bytes := nonEmpty? labels[2 * i]?
/-- `ConflictLabels::get_remove` -/
def getRemoveLabel (labels : List Bytes) (i : Nat) : Option Bytes := nonEmpty? labels[2 * i + 1]?

/-! ### materialization -/

inductive Style where
  | diff | diffExperimental | snapshot | git
  deriving DecidableEq, Repr

def Style.allowsDiff : Style → Bool
  | .diff | .diffExperimental => true
  | _ => false

/-- `HunkTerm` -/
structure Term where
  contents : Bytes
  label : Bytes
  deriving Repr, DecidableEq, Inhabited

/-- one group of a two-sided line diff (`DiffHunk` with `contents = [left, right]`) -/
structure DiffGroup where
  matching : Bool
  left : Bytes
  right : Bytes
  deriving Repr, DecidableEq

abbrev DiffFn := Bytes → Bytes → List DiffGroup

/-- `write_conflict_marker` -/
def writeMarker (kind : MarkerKind) (len : Nat) (suffix : Bytes) : Bytes :=
  if suffix.isEmpty then List.replicate len kind.toByte
  else List.replicate len kind.toByte ++ SP :: suffix

def prefixLines (p : UInt8) (content : Bytes) : Bytes :=
  (linesWT content).flatMap (fun l => p :: l)

/-- `write_diff_hunks` (the prefixes are the literals `b" "`, `b"-"`, `b"+"` of the source) -/
def writeDiffHunks : List DiffGroup → Bytes
  | [] => []
  | g :: rest =>
    (if g.matching then prefixLines 32 g.left
     else prefixLines 45 g.left ++ prefixLines 43 g.right) ++ writeDiffHunks rest

/-- `diff_size` -/
def diffSize : List DiffGroup → Nat
  | [] => 0
  | g :: rest => (if g.matching then 0 else g.left.length + g.right.length) + diffSize rest

/-- label of the term at interleaved position `p` (before the no-EOL comment is added) -/
def defaultLabel (labels : List Bytes) (numBases p : Nat) : Bytes :=
  if p % 2 = 0 then
    (getAddLabel labels (p / 2)).getD (ascii "side #" ++ dec (p / 2 + 1))
  else
    (getRemoveLabel labels (p / 2)).getD
      (if numBases = 1 then ascii "base" else ascii "base #" ++ dec (p / 2 + 1))

def lacksEol (contents : Bytes) : Bool :=
  match contents.getLast? with
  | some ch => ch != LF
  | none => false

def mkTerm (labels : List Bytes) (numBases p : Nat) (contents : Bytes) : Term :=
  let label := defaultLabel labels numBases p
  { contents
    label := if lacksEol contents then label ++ SP :: NO_ENDING_EOL_COMMENT else label }

def buildSidesFrom (labels : List Bytes) (numBases : Nat) : Nat → List Bytes → List Term
  | _, [] => []
  | p, c :: rest => mkTerm labels numBases p c :: buildSidesFrom labels numBases (p + 1) rest

/-- `build_hunk_sides` (interleaved order) -/
def buildHunkSides (hunk : List Bytes) (labels : List Bytes) : List Term :=
  buildSidesFrom labels (hunk.length / 2) 0 hunk

/-- `materialize_git_style_conflict` -/
def materializeGit (left base right : Term) (len : Nat) (eol : Bytes) : Bytes :=
  writeMarker .conflictStart len left.label ++ eol ++ left.contents ++
  (writeMarker .gitAncestor len base.label ++ eol ++ base.contents ++
  (writeMarker .gitSeparator len [] ++ eol ++ right.contents ++
  writeMarker .conflictEnd len right.label))

def adds {α : Type} : List α → List α
  | [] => []
  | [a] => [a]
  | a :: _ :: rest => a :: adds rest

def removes {α : Type} : List α → List α
  | [] => []
  | [_] => []
  | _ :: r :: rest => r :: removes rest

def writeSide (len : Nat) (eol : Bytes) (side : Term) : Bytes :=
  writeMarker .add len side.label ++ eol ++ side.contents

def writeBase (len : Nat) (eol : Bytes) (side : Term) : Bytes :=
  writeMarker .remove len side.label ++ eol ++ side.contents

def writeDiff (len : Nat) (eol : Bytes) (base add : Term) (d : List DiffGroup) : Bytes :=
  writeMarker .diff len (ascii "diff from: " ++ base.label) ++ eol ++
  (writeMarker .note len (ascii "       to: " ++ add.label) ++ eol ++ writeDiffHunks d)

/-- the `for (base_index, left) in hunk.removes().enumerate()` loop of
`materialize_jj_style_conflict`; returns the bytes written and the final `snapshot_written`.
`get_add(i).unwrap()` is modelled with a default term (it cannot fail for odd arity). -/
def jjLoop (diffFn : DiffFn) (style : Style) (len : Nat) (eol : Bytes) (addTerms : List Term) :
    List Term → Nat → Bool → Bytes × Bool
  | [], _, sw => ([], sw)
  | left :: rest, baseIndex, sw =>
    let addIndex := if sw then baseIndex + 1 else baseIndex
    let right1 := addTerms.getD addIndex default
    if !style.allowsDiff then
      let r := jjLoop diffFn style len eol addTerms rest (baseIndex + 1) sw
      (writeBase len eol left ++ (writeSide len eol right1 ++ r.1), r.2)
    else
      let diff1 := diffFn left.contents right1.contents
      let right2 := addTerms.getD (addIndex + 1) default
      let diff2 := diffFn left.contents right2.contents
      if !sw && diffSize diff2 < diffSize diff1 then
        let r := jjLoop diffFn style len eol addTerms rest (baseIndex + 1) true
        (writeSide len eol right1 ++ (writeDiff len eol left right2 diff2 ++ r.1), r.2)
      else
        let r := jjLoop diffFn style len eol addTerms rest (baseIndex + 1) sw
        (writeDiff len eol left right1 diff1 ++ r.1, r.2)

/-- `materialize_jj_style_conflict` -/
def materializeJJ (diffFn : DiffFn) (sides : List Term) (info : Bytes) (style : Style)
    (len : Nat) (eol : Bytes) : Bytes :=
  let addTerms := adds sides
  let sw0 := style != .diff
  let r := jjLoop diffFn style len eol addTerms (removes sides) 0 sw0
  writeMarker .conflictStart len info ++ eol ++
  ((if sw0 then writeSide len eol (sides.headD default) else []) ++
  (r.1 ++
  ((if r.2 then [] else writeSide len eol (addTerms.getD (addTerms.length - 1) default)) ++
  writeMarker .conflictEnd len (info ++ ascii " ends"))))

def allSidesHaveEol (hunk : List Bytes) : Bool := hunk.all (fun c => !lacksEol c)

/-- one unresolved hunk of `materialize_conflict_hunks` -/
def materializeConflict (diffFn : DiffFn) (style : Style) (len : Nat) (labels : List Bytes)
    (eol : Bytes) (hunk : List Bytes) (conflictIndex numConflicts : Nat) : Bytes :=
  let info := ascii "conflict " ++ dec conflictIndex ++ ascii " of " ++ dec numConflicts
  let allEol := allSidesHaveEol hunk
  let sides0 := buildHunkSides hunk labels
  let sides := if allEol then sides0 else sides0.map (fun t => { t with contents := t.contents ++ eol })
  let body :=
    match style, sides with
    | .git, [left, base, right] => materializeGit left base right len eol
    | _, _ => materializeJJ diffFn sides info style len eol
  if allEol then body ++ eol else body

def isResolved (hunk : List Bytes) : Bool := hunk.length = 1

def hunksFrom (diffFn : DiffFn) (style : Style) (len : Nat) (labels : List Bytes) (eol : Bytes)
    (numConflicts : Nat) : List (List Bytes) → Nat → Bytes
  | [], _ => []
  | hunk :: rest, ci =>
    match hunk with
    | [content] => content ++ hunksFrom diffFn style len labels eol numConflicts rest ci
    | _ =>
      materializeConflict diffFn style len labels eol hunk (ci + 1) numConflicts ++
        hunksFrom diffFn style len labels eol numConflicts rest (ci + 1)

/-- `materialize_conflict_hunks` -/
def materializeHunks (diffFn : DiffFn) (hunks : List (List Bytes)) (style : Style) (len : Nat)
    (labels : List Bytes) (eol : Bytes) : Bytes :=
  hunksFrom diffFn style len labels eol ((hunks.filter (fun h => !isResolved h)).length) hunks 0

/-- `materialize_merge_result_to_bytes` on the conflict branch, given `hunks = merge_hunks(files)`;
`markerLen = none` is `options.marker_len = None`. -/
def materializeToBytes (diffFn : DiffFn) (files : List Bytes) (hunks : List (List Bytes))
    (style : Style) (markerLen : Option Nat) (labels : List Bytes) : Bytes :=
  materializeHunks diffFn hunks style (markerLen.getD (chooseMarkerLen files)) labels (detectEol files)

/-! ### parsing -/

inductive JJState where
  | diff | remove | add | unknown
  deriving DecidableEq, Repr

/-- `v.last_mut().unwrap().extend_from_slice(x)` on a vector kept in reverse order -/
def extendLast (l : List Bytes) (x : Bytes) : List Bytes :=
  match l with
  | [] => []
  | a :: rest => (a ++ x) :: rest

/-- loop of `parse_jj_style_conflict_hunk`; `removes`/`adds` are kept newest-first;
`none` = early `return Merge::resolved("")`. -/
def parseJJLoop (len : Nat) : JJState → List Bytes → List Bytes → List Bytes →
    Option (List Bytes × List Bytes)
  | _, rs, as, [] => some (rs, as)
  | st, rs, as, line :: rest =>
    match parseMarker line len with
    | some .diff => parseJJLoop len .diff ([] :: rs) ([] :: as) rest
    | some .remove => parseJJLoop len .remove ([] :: rs) as rest
    | some .add => parseJJLoop len .add rs ([] :: as) rest
    | some .note => parseJJLoop len st rs as rest
    | _ =>
      match st with
      | .diff =>
        match line with
        | 45 :: r => parseJJLoop len st (extendLast rs r) as rest
        | 43 :: r => parseJJLoop len st rs (extendLast as r) rest
        | 32 :: r => parseJJLoop len st (extendLast rs r) (extendLast as r) rest
        | _ =>
          if line = [LF] ∨ line = [CR, LF] then
            parseJJLoop len st (extendLast rs line) (extendLast as line) rest
          else none
      | .remove => parseJJLoop len st (extendLast rs line) as rest
      | .add => parseJJLoop len st rs (extendLast as line) rest
      | .unknown => none

/-- `Merge::from_removes_adds` (interleaving) -/
def interleave : List Bytes → List Bytes → List Bytes
  | a :: as, r :: rs => a :: r :: interleave as rs
  | as, [] => as
  | [], _ :: _ => []

/-- `parse_jj_style_conflict_hunk` -/
def parseJJ (input : Bytes) (len : Nat) : List Bytes :=
  match parseJJLoop len .unknown [] [] (linesWT input) with
  | some (rs, as) =>
    if as.length = rs.length + 1 then interleave as.reverse rs.reverse else [[]]
  | none => [[]]

inductive GitState where
  | left | base | right
  deriving DecidableEq, Repr

/-- loop of `parse_git_style_conflict_hunk` -/
def parseGitLoop (len : Nat) : GitState → Bytes → Bytes → Bytes → List Bytes →
    Option (GitState × Bytes × Bytes × Bytes)
  | st, l, b, r, [] => some (st, l, b, r)
  | st, l, b, r, line :: rest =>
    match parseMarker line len with
    | some .gitAncestor =>
      if st = .left then parseGitLoop len .base l b r rest else none
    | some .gitSeparator =>
      if st = .base then parseGitLoop len .right l b r rest else none
    | _ =>
      match st with
      | .left => parseGitLoop len st (l ++ line) b r rest
      | .base => parseGitLoop len st l (b ++ line) r rest
      | .right => parseGitLoop len st l b (r ++ line) rest

/-- `parse_git_style_conflict_hunk` -/
def parseGit (input : Bytes) (len : Nat) : List Bytes :=
  match parseGitLoop len .left [] [] [] (linesWT input) with
  | some (.right, l, b, r) => [l, b, r]
  | _ => [[]]

/-- `parse_conflict_hunk` -/
def parseConflictHunk (input : Bytes) (len : Nat) : List Bytes :=
  match (linesWT input).head?.bind (fun line => parseMarker line len) with
  | some .diff | some .remove | some .add => parseJJ input len
  | none | some .gitAncestor => parseGit input len
  | some _ => [[]]

def endsWith (l suffix : Bytes) : Bool := suffix.isSuffixOf l

/-- `term.pop_if(|x| *x == b)`: the shortened term if the last byte is `b` -/
def popIf (b : UInt8) (t : Bytes) : Option Bytes :=
  if t.getLast? = some b then some t.dropLast else none

/-- removal of the separator EOL from one term (end marker without EOL) -/
def popSeparator (crlf : Bool) (t : Bytes) : Bytes :=
  match popIf LF t with
  | some t' => if crlf then (popIf CR t').getD t' else t'
  | none => t

/-- State of the `parse_conflict` loop (see the header for the offset ↔ slice correspondence). -/
structure PState where
  hunks : List (List Bytes)
  /-- `input[resolved_start .. conflict_start.unwrap_or(pos)]` -/
  pre : Bytes
  /-- open conflict: its start line and `input[conflict_start + conflict_start_len .. pos]` -/
  cs : Option (Bytes × Bytes)
  deriving Repr

def numSides (hunk : List Bytes) : Nat := hunk.length / 2 + 1

def parseStep (nSides len : Nat) (st : PState) (line : Bytes) : PState :=
  match parseMarker line len with
  | some .conflictStart =>
    match st.cs with
    | some (sl, body) => { st with pre := st.pre ++ sl ++ body, cs := some (line, []) }
    | none => { st with cs := some (line, []) }
  | some .conflictEnd =>
    match st.cs with
    | some (sl, body) =>
      let hunk := parseConflictHunk body len
      if numSides hunk = nSides then
        let hunks1 := if st.pre.isEmpty then st.hunks else st.hunks ++ [[st.pre]]
        let hunk' := if endsWith line [LF] then hunk else hunk.map (popSeparator (endsWith sl [CR, LF]))
        { hunks := hunks1 ++ [hunk'], pre := [], cs := none }
      else
        { st with pre := st.pre ++ sl ++ body ++ line, cs := none }
    | none => { st with pre := st.pre ++ line }
  | _ =>
    match st.cs with
    | some (sl, body) => { st with cs := some (sl, body ++ line) }
    | none => { st with pre := st.pre ++ line }

def parseLoop (nSides len : Nat) : PState → List Bytes → PState
  | st, [] => st
  | st, line :: rest => parseLoop nSides len (parseStep nSides len st line) rest

/-- what is left after the last accepted conflict: `input[resolved_start ..]` -/
def PState.tail (st : PState) : Bytes :=
  match st.cs with
  | some (sl, body) => st.pre ++ sl ++ body
  | none => st.pre

/-- `parse_conflict` -/
def parseConflict (input : Bytes) (nSides len : Nat) : Option (List (List Bytes)) :=
  if input.isEmpty then none
  else
    let st := parseLoop nSides len { hunks := [], pre := [], cs := none } (linesWT input)
    if st.hunks.isEmpty then none
    else if st.tail.isEmpty then some st.hunks
    else some (st.hunks ++ [[st.tail]])

end JjModel.Conflicts
