import JjModel.Model.Merge
/-
  L3 — model of `lib/src/tree_merge.rs` (`merge_trees`, `TreeMerger::process_tree`,
  `MergedTreeInput::{mark_completed, into_backend_trees}`, `try_resolve_file_values`,
  `try_resolve_file_conflict`), `lib/src/merged_tree.rs` (`MergedTree::{merge, merge_no_resolve,
  resolve, path_value}`, `all_merged_tree_entries`) and `lib/src/tree.rs`
  (`Merge<Tree>::{value, sub_tree, sub_tree_recursive}`, `to_tree_merge`).

  A backend tree is a name-sorted list of `(name, value)` entries.  `Tree` is that list with the
  three value kinds inlined into the cons cell (a plain inductive: Lean derives `DecidableEq` for
  it and structural recursion works; the nested `List (Name × Value)` form does neither).
  `Tree.entries` / `Tree.ofEntries` convert to and from the entry-list view, which is what all
  definitions below work on.  Names, file-content ids and symlink ids are `Nat`s.  Copy ids are
  not modelled (always the placeholder in the harness); git submodules are not modelled.

  Content-level file merge (`files::try_merge`, property C04) is a *parameter* `cm` of every
  definition here.  The driver instantiates it with `slotMerge` below, which is the line merge of
  the two-slot file contents the harness generates.
  Import-free apart from `Model/Merge.lean`: the driver executable links this file.
-/
namespace JjModel.Trees
open JjModel.Merge

inductive Tree where
  | nil
  | file (name id : Nat) (exec : Bool) (rest : Tree)
  | symlink (name id : Nat) (rest : Tree)
  | dir (name : Nat) (sub : Tree) (rest : Tree)
  deriving DecidableEq, Repr, Inhabited

/-- `TreeValue` (without `GitSubmodule`; `copy_id` dropped) -/
inductive Value where
  | file (id : Nat) (exec : Bool)
  | symlink (id : Nat)
  | tree (t : Tree)
  deriving DecidableEq, Repr

/-- `MergedTreeValue = Merge<Option<TreeValue>>`, interleaved terms as in `Model/Merge.lean` -/
abbrev MVal := List (Option Value)

/-- content-level merge of (simplified) file ids: `files::try_merge` seen through content ids -/
abbrev ContentMerge := List Nat → Option Nat

namespace Tree

def cons (n : Nat) (v : Value) (rest : Tree) : Tree :=
  match v with
  | .file id x => .file n id x rest
  | .symlink id => .symlink n id rest
  | .tree s => .dir n s rest

def entries : Tree → List (Nat × Value)
  | .nil => []
  | .file n id x r => (n, .file id x) :: r.entries
  | .symlink n id r => (n, .symlink id) :: r.entries
  | .dir n s r => (n, .tree s) :: r.entries

def ofEntries : List (Nat × Value) → Tree
  | [] => .nil
  | (n, v) :: es => cons n v (ofEntries es)

/-- number of directory levels (`0` for the empty tree) -/
def height : Tree → Nat
  | .nil => 0
  | .file _ _ _ r => max 1 r.height
  | .symlink _ _ r => max 1 r.height
  | .dir _ s r => max (s.height + 1) r.height

end Tree

/-- first entry with the given name (`backend::Tree::value`; entries are sorted and unique) -/
def lookupE : List (Nat × Value) → Nat → Option Value
  | [], _ => none
  | (n, v) :: es, k => if n = k then some v else lookupE es k

/-- `Tree::value(basename)` -/
def Tree.lookup (t : Tree) (k : Nat) : Option Value := lookupE t.entries k

/-- one step down: the entry `n` of a tree value, absent for anything that is not a tree -/
def descend (v : Option Value) (n : Nat) : Option Value :=
  match v with
  | some (.tree s) => s.lookup n
  | _ => none

/-- follow a path from a value -/
def getFrom (v : Option Value) (p : List Nat) : Option Value := p.foldl descend v

/-- the value at path `p` in one (unconflicted) tree; `[]` is the tree itself -/
def Tree.get (t : Tree) (p : List Nat) : Option Value := getFrom (some (.tree t)) p

/-! ### predicates on canonical backend trees -/

/-- names strictly ascending at every level (what every backend tree satisfies) -/
def Tree.sorted : Tree → Bool
  | .nil => true
  | .file n _ _ r => r.entries.all (fun e => decide (n < e.1)) && r.sorted
  | .symlink n _ r => r.entries.all (fun e => decide (n < e.1)) && r.sorted
  | .dir n s r => s.sorted && r.entries.all (fun e => decide (n < e.1)) && r.sorted

/-- no empty subtree anywhere (jj never stores an empty directory) -/
def Tree.noEmptyDirs : Tree → Bool
  | .nil => true
  | .file _ _ _ r => r.noEmptyDirs
  | .symlink _ _ r => r.noEmptyDirs
  | .dir _ s r => s != .nil && s.noEmptyDirs && r.noEmptyDirs

def Tree.canonical (t : Tree) : Bool := t.sorted && t.noEmptyDirs

/-! ### `MergedTree::path_value` on a `Merge<Tree>` -/

/-- `Merge<Tree>::value(basename)`: the single tree's entry, or the per-term entries with trivial
resolution applied. -/
def valueAt (sc : SameChange) (ts : List Tree) (n : Nat) : MVal :=
  match ts with
  | [t] => [t.lookup n]
  | _ =>
    let vals := ts.map (·.lookup n)
    match trivialMerge vals sc with
    | some v => [v]
    | none => vals

def isTreeOrNone : Option Value → Bool
  | none => true
  | some (.tree _) => true
  | _ => false

/-- `to_tree_merge` / the `None => Tree::empty` arm of `sub_tree` -/
def treeOrEmpty : Option Value → Tree
  | some (.tree t) => t
  | _ => .nil

/-- `Merge<Tree>::sub_tree(name)`: `none` unless the value is a resolved tree or an unresolved
merge all of whose terms are trees/absent. -/
def subTree (sc : SameChange) (ts : List Tree) (n : Nat) : Option (List Tree) :=
  match valueAt sc ts n with
  | [some (.tree t)] => some [t]
  | [_] => none
  | vals => if vals.all isTreeOrNone then some (vals.map treeOrEmpty) else none

/-- `MergedTree::path_value`: `path.split()` + `sub_tree_recursive(dir)` + `value(basename)`,
written head-first.  The root path gives the tree terms themselves. -/
def pathValue (sc : SameChange) (ts : List Tree) : List Nat → MVal
  | [] => ts.map (fun t => some (.tree t))
  | [n] => valueAt sc ts n
  | n :: m :: p =>
    match subTree sc ts n with
    | none => [none]
    | some sub => pathValue sc sub (m :: p)

/-! ### `all_merged_tree_entries`: the sorted union of the entry names -/

def insertName (n : Nat) : List Nat → List Nat
  | [] => [n]
  | m :: ms => if n < m then n :: m :: ms else if n = m then m :: ms else m :: insertName n ms

/-- The k-way min-merge of the (sorted) entry iterators visits exactly the sorted union of names. -/
def allNames (ts : List Tree) : List Nat :=
  (ts.flatMap (fun t => t.entries.map Prod.fst)).foldr insertName []

/-! ### `try_resolve_file_values` / `try_resolve_file_conflict` -/

def asFile : Option Value → Option (Nat × Bool)
  | some (.file id x) => some (id, x)
  | _ => none

/-- The conflict is expected to be simplified by the caller.  Every term must be a file; the
executable bit is merged trivially under `SameChange::Accept`; the content id trivially under the
configured setting, else by content merge of the simplified ids. -/
def tryResolveFileConflict (sc : SameChange) (cm : ContentMerge) (conflict : MVal) : Option Value :=
  match conflict.mapM asFile with
  | none => none
  | some fs =>
    match trivialMerge (fs.map (·.2)) .accept with
    | none => none
    | some exec =>
      match trivialMerge (fs.map (·.1)) sc with
      | some id => some (.file id exec)
      | none =>
        match cm (simplify (fs.map (·.1))) with
        | some id => some (.file id exec)
        | none => none

def tryResolveFileValues (sc : SameChange) (cm : ContentMerge) (vals : MVal) : Option Value :=
  tryResolveFileConflict sc cm (simplify vals)

/-- `resolve_file_values` (public entry point used by diff / changed-path code) -/
def resolveFileValues (sc : SameChange) (cm : ContentMerge) (vals : MVal) : MVal :=
  match trivialMerge vals sc with
  | some v => [v]
  | none =>
    match tryResolveFileValues sc cm vals with
    | some v => [some v]
    | none => vals

/-! ### `TreeMerger` -/

/-- state of one basename in `MergedTreeInput`: in `resolved` (possibly as "no entry") or in
`conflicts` -/
inductive Merged where
  | resolved (v : Option Value)
  | conflict (terms : MVal)
  deriving DecidableEq, Repr

def Merged.isConflict : Merged → Bool
  | .resolved _ => false
  | .conflict _ => true

/-- the entry contributed to backend tree number `i` -/
def Merged.term (m : Merged) (i : Nat) : Option Value :=
  match m with
  | .resolved v => v
  | .conflict c => (c[i]?).join

/-- as a `MergedTreeValue` -/
def Merged.toMVal : Merged → MVal
  | .resolved v => [v]
  | .conflict c => c

/-- `MergedTreeInput::mark_completed` -/
def markCompleted (sc : SameChange) (value : MVal) : Merged :=
  match trivialMerge value sc with
  | some v => .resolved v
  | none => .conflict value

/-- "replacing empty trees by `None`" -/
def treeToVal (t : Tree) : Option Value := if t = .nil then none else some (.tree t)

/-- What `process_tree` + the completion callbacks do for one basename.  `recur` is the merge of
the subtrees (the `ReadTrees → process_tree → … → WrittenTrees` round trip). -/
def mergeEntry (sc : SameChange) (cm : ContentMerge) (recur : List Tree → List Tree) (vals : MVal) : Merged :=
  match trivialMerge vals sc with
  | some v => .resolved v
  | none =>
    if vals.all isTreeOrNone then
      markCompleted sc ((recur (vals.map treeOrEmpty)).map treeToVal)
    else
      match tryResolveFileValues sc cm vals with
      | some v => markCompleted sc [some v]
      | none => markCompleted sc vals

def buildTree (es : List (Nat × Merged)) (i : Nat) : Tree :=
  Tree.ofEntries (es.filterMap fun e => (e.2.term i).map (fun v => (e.1, v)))

/-- `MergedTreeInput::into_backend_trees` (and the "no non-trivial merges" fast path of
`process_tree`): one tree when nothing conflicts, otherwise one tree per term. -/
def assemble (numTerms : Nat) (es : List (Nat × Merged)) : List Tree :=
  if es.all (fun e => !e.2.isConflict) then [buildTree es 0]
  else (List.range numTerms).map (buildTree es)

/-- The merge of `ts`; fuel `f` suffices for trees of height `≤ f` (with no fuel only empty trees can
be merged, and their merge is the empty tree).  The asynchronous work queue of `TreeMerger::merge`
is replaced by this direct recursion: every basename is completed exactly once and
`into_backend_trees` reads `resolved`/`conflicts` through sorted maps, so the completion order
cannot influence the result. -/
def mergeTreesF (sc : SameChange) (cm : ContentMerge) : Nat → List Tree → List Tree
  | 0, _ => [.nil]
  | f + 1, ts =>
    assemble ts.length
      ((allNames ts).map fun n => (n, mergeEntry sc cm (mergeTreesF sc cm f) (ts.map (·.lookup n))))

def maxHeight (ts : List Tree) : Nat := (ts.map Tree.height).foldr max 0

/-- `merge_trees`: a resolved input is returned as is; otherwise the root directory is merged. -/
def mergeTrees (sc : SameChange) (cm : ContentMerge) (ts : List Tree) : List Tree :=
  match ts with
  | [t] => [t]
  | _ => mergeTreesF sc cm (maxHeight ts) ts

/-- the per-path merge: what the merger does with the terms of one path taken on their own -/
def mergeValue (sc : SameChange) (cm : ContentMerge) (vals : MVal) : MVal :=
  (mergeEntry sc cm (mergeTrees sc cm) vals).toMVal

/-! ### `MergedTree` -/

/-- `MergedTree::merge_no_resolve` on the tree ids (labels do not influence ids) -/
def mergeNoResolve (inputs : List (List Tree)) : List Tree := simplify (flatten inputs)

/-- `MergedTree::resolve` -/
def resolve (sc : SameChange) (cm : ContentMerge) (ts : List Tree) : List Tree :=
  match mergeTrees sc cm ts with
  | [t] => [t]
  | merged => simplify merged

/-- The `debug_assert_eq!(re_merged, simplified)` of `MergedTree::resolve`: merging the simplified
result once more changes nothing.  (It does **not** hold in general: `Props/C07.lean`,
`resolve_debug_assert_can_fire`.) -/
def resolveDebugAssert (sc : SameChange) (cm : ContentMerge) (ts : List Tree) : Bool :=
  mergeTrees sc cm (resolve sc cm ts) == resolve sc cm ts

/-- `MergedTree::merge` -/
def mergedTreeMerge (sc : SameChange) (cm : ContentMerge) (inputs : List (List Tree)) : List Tree :=
  resolve sc cm (mergeNoResolve inputs)

/-! ### the harness's file contents

Content id `3a + b` (`a, b < 3`) stands for the three-line file `0:a\n--\n1:b\n`.  The line diff
aligns the two slot lines and the separator, so `files::try_merge` resolves each slot by
`trivial_merge` on its own and succeeds when both do. -/
def slotMerge (sc : SameChange) : ContentMerge := fun ids =>
  match trivialMerge (ids.map (· / 3)) sc, trivialMerge (ids.map (· % 3)) sc with
  | some a, some b => some (3 * a + b)
  | _, _ => none

end JjModel.Trees
