import JjModel.Model.Revset
/-
  Model of `optimize()` of `lib/src/revset.rs`: the rewrite passes, in the order of the source,
  over the covered expression grammar (no `Filter`/`AsFilter`/`Present`/`AtOperation` nodes, so
  `internalize_filter` is the identity and is omitted).

  `transform_expression_bottom_up(e, post)` rebuilds the children first and then applies `post`
  once to the rebuilt node (the result of `post` is not revisited).
-/
namespace JjModel.Revset

/-- `transform_expression_bottom_up` -/
def bottomUp (f : Expr → Option Expr) : Expr → Expr
  | .ancestors h lo hi fp => let e := Expr.ancestors (bottomUp f h) lo hi fp; (f e).getD e
  | .descendants r lo hi => let e := Expr.descendants (bottomUp f r) lo hi; (f e).getD e
  | .range r h lo hi fp => let e := Expr.range (bottomUp f r) (bottomUp f h) lo hi fp; (f e).getD e
  | .dagRange r h => let e := Expr.dagRange (bottomUp f r) (bottomUp f h); (f e).getD e
  | .reachable s d => let e := Expr.reachable (bottomUp f s) (bottomUp f d); (f e).getD e
  | .heads x => let e := Expr.heads (bottomUp f x); (f e).getD e
  | .headsRange r h fp fl =>
    let e := Expr.headsRange (bottomUp f r) (bottomUp f h) fp (bottomUp f fl); (f e).getD e
  | .roots x => let e := Expr.roots (bottomUp f x); (f e).getD e
  | .forkPoint x => let e := Expr.forkPoint (bottomUp f x); (f e).getD e
  | .mergePoint x => let e := Expr.mergePoint (bottomUp f x); (f e).getD e
  | .latest x n => let e := Expr.latest (bottomUp f x) n; (f e).getD e
  | .coalesce a b => let e := Expr.coalesce (bottomUp f a) (bottomUp f b); (f e).getD e
  | .notIn x => let e := Expr.notIn (bottomUp f x); (f e).getD e
  | .union a b => let e := Expr.union (bottomUp f a) (bottomUp f b); (f e).getD e
  | .inter a b => let e := Expr.inter (bottomUp f a) (bottomUp f b); (f e).getD e
  | .diff a b => let e := Expr.diff (bottomUp f a) (bottomUp f b); (f e).getD e
  | .none => (f .none).getD .none
  | .all => (f .all).getD .all
  | .visibleHeads => (f .visibleHeads).getD .visibleHeads
  | .visibleHeadsOrReferenced => (f .visibleHeadsOrReferenced).getD .visibleHeadsOrReferenced
  | .root => (f .root).getD .root
  | .forks => (f .forks).getD .forks
  | .commits l => (f (.commits l)).getD (.commits l)

/-! ### `unfold_difference` -/

def unfoldDifferenceF : Expr → Option Expr
  | .range r h lo hi fp => some (.inter (.ancestors h lo hi fp) (.notIn (.ancestors r 0 none false)))
  | .diff a b => some (.inter a (.notIn b))
  | _ => none

/-! ### `fold_redundant_expression` -/

def foldRedundantF : Expr → Option Expr
  | .commits [] => some .none
  | .notIn (.notIn x) => some x
  | .notIn .none => some .all
  | .notIn .all => some .none
  | .union a .none => some a
  | .union .none b => some b
  | .union .all _ => some .all
  | .union _ .all => some .all
  | .inter .none _ => some .none
  | .inter _ .none => some .none
  | .inter a .all => some a
  | .inter .all b => some b
  | _ => none

/-! ### `fold_generation` -/

/-- `Range<u64>::is_empty` (`hi = none` is `u64::MAX`, never reached by `lo`) -/
def genIsEmpty (lo : Nat) (hi : Option Nat) : Bool :=
  match hi with
  | none => false
  | some h => h ≤ lo

/-- `add_generation` (saturation only matters at the `u64::MAX` sentinel) -/
def addGeneration (lo1 : Nat) (hi1 : Option Nat) (lo2 : Nat) (hi2 : Option Nat) : Nat × Option Nat :=
  if genIsEmpty lo1 hi1 || genIsEmpty lo2 hi2 then (0, some 0)
  else
    (lo1 + lo2,
     match hi1, hi2 with
     | some e1, some e2 => some (e1 + (e2 - 1))
     | _, _ => none)

def foldGenerationF : Expr → Option Expr
  | .ancestors (.ancestors h lo2 hi2 fp2) lo1 hi1 fp1 =>
    if fp2 = fp1 then
      let r := addGeneration lo1 hi1 lo2 hi2
      some (.ancestors h r.1 r.2 fp1)
    else none
  | .descendants (.descendants r lo2 hi2) lo1 hi1 =>
    let g := addGeneration lo1 hi1 lo2 hi2
    some (.descendants r g.1 g.2)
  | _ => none

/-! ### `flatten_intersections` -/

/-- inner `flatten(expression1, expression2)`; `recurse a b = flatten(a, b).unwrap_or(a & b)` -/
def flattenInter (e1 : Expr) : Expr → Option Expr
  | .inter i1 i2 => some (.inter ((flattenInter e1 i1).getD (.inter e1 i1)) i2)
  | _ => none

def flattenIntersectionsF : Expr → Option Expr
  | .inter e1 e2 => flattenInter e1 e2
  | _ => none

/-! ### `sort_negations_and_ancestors` -/

/-- `AncestorsOrder`: NegatedAncestors = 0, Ancestors = 1, Other = 2, NegatedOther = 3 -/
def ancestorsOrder : Expr → Nat
  | .ancestors _ _ none _ => 1
  | .notIn (.ancestors _ _ none false) => 0
  | .notIn _ => 3
  | _ => 2

/-- `sort_intersection_helper(base, expression, key)` -/
def sortInterHelper (expr : Expr) (k : Nat) : Expr → Option Expr
  | .inter i1 i2 =>
    if k < ancestorsOrder i2 then
      some (.inter ((sortInterHelper expr k i1).getD (.inter i1 expr)) i2)
    else none
  | base => if k < ancestorsOrder base then some (.inter expr base) else none

def sortNegationsF : Expr → Option Expr
  | .inter e1 e2 => sortInterHelper e2 (ancestorsOrder e2) e1
  | _ => none

/-! ### `fold_ancestors_union` -/

/-- `ancestors_to_heads_and_parents_range` -/
def ancestorsToHeadsPr : Expr → Option (Expr × Bool)
  | .ancestors h 0 none fp => some (h, fp)
  | .ancestors h lo none fp => some (.ancestors h lo (some (lo + 1)) fp, fp)
  | _ => none

/-- `ancestors_to_heads` -/
def ancestorsToHeads (e : Expr) : Option Expr :=
  match ancestorsToHeadsPr e with
  | some (h, false) => some h
  | _ => none

def unionAncestors (e1 e2 : Expr) : Option Expr :=
  match ancestorsToHeads e1, ancestorsToHeads e2 with
  | some h1, some h2 => some (.ancestors (.union h1 h2) 0 none false)
  | _, _ => none

def foldAncestorsUnionF : Expr → Option Expr
  | .union e1 e2 => unionAncestors e1 e2
  | .inter (.notIn c1) (.notIn c2) => (unionAncestors c1 c2).map .notIn
  | _ => none

/-! ### `fold_heads_range` -/

/-- `FilteredRange` = `roots..heads & filter` -/
structure FilteredRange where
  roots : Expr
  headsPr : Option (Expr × Bool)
  filter : Expr

def FilteredRange.addFilter (fr : FilteredRange) (e : Expr) : FilteredRange :=
  { fr with filter := match fr.filter with
      | .all => e
      | f => .inter f e }

def FilteredRange.add (fr : FilteredRange) (e : Expr) : FilteredRange :=
  match fr.headsPr with
  | none =>
    match ancestorsToHeadsPr e with
    | some hp => { fr with headsPr := some hp }
    | none => fr.addFilter e
  | some _ => fr.addFilter e

def toFilteredRange : Expr → Option FilteredRange
  | .inter e1 e2 =>
    -- an intersection is never `ancestors(..)`, so the first test of the source fails here
    (toFilteredRange e1).map fun fr => fr.add e2
  | e =>
    match ancestorsToHeadsPr e with
    | some hp => some ⟨.none, some hp, .all⟩
    | none =>
      match e with
      | .notIn c =>
        match ancestorsToHeads c with
        | some roots => some ⟨roots, none, .all⟩
        | none => some ((⟨.none, none, .all⟩ : FilteredRange).addFilter e)
      | .all => some ((⟨.none, none, .all⟩ : FilteredRange).addFilter e)
      | _ => none

def toHeadsRange (cands : Expr) : Option Expr :=
  (toFilteredRange cands).map fun fr =>
    let hp := fr.headsPr.getD (.visibleHeadsOrReferenced, false)
    .headsRange fr.roots hp.1 hp.2 fr.filter

def foldHeadsRangeF : Expr → Option Expr
  | .ancestors h 0 none false => (toHeadsRange h).map fun x => .ancestors x 0 none false
  | .heads c => toHeadsRange c
  | _ => none

/-! ### `fold_difference`, `fold_not_in_ancestors` -/

/-- `to_difference_range(expression, complement)` -/
def toDifferenceRange (e c : Expr) : Option Expr :=
  match e with
  | .ancestors h lo hi fp =>
    match ancestorsToHeads c with
    | some roots => some (.range roots h lo hi fp)
    | none => none
  | _ => none

def toDifference (e c : Expr) : Expr := (toDifferenceRange e c).getD (.diff e c)

def foldDifferenceF : Expr → Option Expr
  | .inter e1 (.notIn c) => some (toDifference e1 c)
  | .inter (.notIn c) e2 => some (toDifference e2 c)
  | _ => none

def foldNotInAncestorsF : Expr → Option Expr
  | .notIn (.ancestors h lo hi fp) =>
    toDifferenceRange (.ancestors .visibleHeadsOrReferenced 0 none false) (.ancestors h lo hi fp)
  | _ => none

/-! ### `optimize` -/

def optimize (e : Expr) : Expr :=
  let e := bottomUp unfoldDifferenceF e
  let e := bottomUp foldRedundantF e
  let e := bottomUp foldGenerationF e
  let e := bottomUp flattenIntersectionsF e
  let e := bottomUp sortNegationsF e
  let e := bottomUp foldAncestorsUnionF e
  -- internalize_filter: identity on the covered grammar
  let e := bottomUp foldHeadsRangeF e
  let e := bottomUp foldDifferenceF e
  bottomUp foldNotInAncestorsF e

/-- `expression.evaluate(repo)`: the referenced commits are collected *before* the rewrites
(`resolve_referenced_commits` is the first step of `optimize`). -/
def evalTopOpt (g : Graph) (e : Expr) : List Nat := eval g (resolve g (refsOf e) (optimize e))

end JjModel.Revset
