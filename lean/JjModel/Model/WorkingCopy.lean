/-
  L8 — decision-level model of `lib/src/local_working_copy.rs`
  (`TreeState::{snapshot, check_out, update, set_sparse_patterns}`) over an abstract disk.

  * paths are component lists; the disk is a finite map `Path → Entry`
    (`file content exec | symlink target | dir`), directories are explicit entries;
  * a tree is a flat finite map `Path → TreeValue`
    (`file content exec | symlink target | conflict id materialisation exec`);
  * the file states are modelled by the set of paths that have one (what the code uses them
    for at decision level: "is this path tracked"); the stat-based clean test of
    `get_updated_tree_value` is *not* modelled (property C26): the model always re-reads;
  * ignore decisions (`GitIgnoreFile::matches_dir / matches_file`) are an input `ign : Path → Bool`
    (property C28 is about how they are computed);
  * the sparse patterns are a list of prefixes (`PrefixMatcher`).

  The model decides *which path gets which value* (snapshot) and *which disk entry is removed /
  written / skipped* (update); it does not model syscalls, mtimes, rayon scheduling, EOL
  conversion or the executable-bit policies other than `Respect`.
  Import-free on purpose: the driver executable links this file.
-/
namespace JjModel.WorkingCopy

abbrev Path := List String

inductive Entry where
  | file (content : String) (exec : Bool)
  | symlink (target : String)
  | dir
  deriving DecidableEq, Repr

inductive TreeValue where
  | file (content : String) (exec : Bool)
  | symlink (target : String)
  /-- a conflicted file; `mat` is its materialisation (marker file) as an opaque byte string,
      `exec` the executable bit the checkout gives the marker file -/
  | conflict (id : String) (mat : String) (exec : Bool)
  deriving DecidableEq, Repr

/-! ### finite maps as association lists (first binding wins; `set` keeps keys unique) -/

def get {α : Type} : List (Path × α) → Path → Option α
  | [], _ => none
  | (q, v) :: r, p => if q = p then some v else get r p

def del {α : Type} (p : Path) : List (Path × α) → List (Path × α)
  | [] => []
  | (q, v) :: r => if q = p then del p r else (q, v) :: del p r

def set {α : Type} (p : Path) (v : α) (m : List (Path × α)) : List (Path × α) :=
  (p, v) :: del p m

abbrev Disk := List (Path × Entry)
abbrev Tree := List (Path × TreeValue)

/-- path set (the keys of `FileStatesMap`) -/
def sdel (p : Path) : List Path → List Path
  | [] => []
  | q :: r => if q = p then sdel p r else q :: sdel p r

def sins (p : Path) (s : List Path) : List Path := p :: sdel p s

/-! ### matchers (`PrefixMatcher`, `DifferenceMatcher`) -/

/-- `PrefixMatcher::matches`: some pattern is a (component-wise) prefix of the path. -/
def sparseMatch (pats : List Path) (p : Path) : Bool := pats.any (fun s => s.isPrefixOf p)

/-- `PrefixMatcher::visit(dir) ≠ Visit::Nothing`: the directory is below a pattern or above one. -/
def sparseVisit (pats : List Path) (d : Path) : Bool :=
  pats.any (fun s => s.isPrefixOf d || d.isPrefixOf s)

/-! ### working-copy state -/

structure WC where
  tree : Tree
  /-- paths that have a file state -/
  states : List Path
  sparse : List Path
  deriving Repr

/-! ## Snapshot (`TreeState::snapshot`, `FileSnapshotter`) -/

/-- How the directory walk reaches the parent directory of a path. -/
inductive Mode where
  /-- `visit_directory` lists the parent directory -/
  | full
  /-- an ancestor directory is ignored: only `visit_tracked_files` looks below it -/
  | ignored
  /-- an ancestor directory exists on disk but the sparse matcher says `Visit::Nothing` -/
  | hidden
  /-- an ancestor is not a directory on disk (absent, file or symlink) -/
  | blocked
  deriving DecidableEq, Repr

/-- Walk from the fully visited directory `pre` towards `pre ++ rest`
(`process_dir_entry`, the `file_type.is_dir()` branch, for every proper ancestor). -/
def descend (disk : Disk) (ign : Path → Bool) (sparse : List Path) : Path → List String → Mode
  | _, [] => .full
  | _, [_] => .full
  | pre, c :: c' :: rest =>
    match get disk (pre ++ [c]) with
    | some .dir =>
      if ign (pre ++ [c]) then .ignored
      else if sparseVisit sparse (pre ++ [c]) then descend disk ign sparse (pre ++ [c]) (c' :: rest)
      else .hidden
    | _ => .blocked

/-- `get_updated_tree_value` / `write_path_to_store` for a path that is present as a file or
symlink (always re-reading).  A conflicted path whose file still has the materialised content
keeps its conflict (`update_from_content` returns the old ids — property C06); any other
content is taken as a resolution (the generated edits contain no conflict markers). -/
def valueOf (cur : Option TreeValue) : Entry → Option TreeValue
  | .symlink t => some (.symlink t)
  | .file c x =>
    match cur with
    | some (.conflict id mat cx) => if c = mat then some (.conflict id mat cx) else some (.file c x)
    | _ => some (.file c x)
  | .dir => none

inductive Decision where
  | keep
  | delete
  | record (v : TreeValue)
  deriving DecidableEq, Repr

/-- What the snapshot does with path `p`. -/
def decideAt (wc : WC) (disk : Disk) (ign : Path → Bool) (p : Path) : Decision :=
  let tracked := p ∈ wc.states
  let sp := sparseMatch wc.sparse p
  match descend disk ign wc.sparse [] p with
  | .hidden => .keep
  | .blocked => if tracked && sp then .delete else .keep
  | .ignored =>
    -- `visit_tracked_files`: stat every tracked path
    if tracked && sp then
      match get disk p with
      | some e => (match valueOf (get wc.tree p) e with | some v => .record v | none => .delete)
      | none => .delete
    else .keep
  | .full =>
    match get disk p with
    | none | some .dir =>
      -- `emit_deleted_files`: a file state whose (kind, name) is not among the present entries
      if tracked && sp then .delete else .keep
    | some e =>
      if !sp then .keep                       -- `self.matcher.matches(&path)` is false
      else if !tracked && ign p then .keep    -- untracked and ignored
      else match valueOf (get wc.tree p) e with | some v => .record v | none => .keep

/-- `MergedTreeBuilder::set_or_remove(path, value)` + `write_tree` on the flat view: writing
`d/e` turns every ancestor that was a file entry into a directory (`TreeBuilder::write_tree`
replaces the parent's entry by the new sub-tree), so those entries disappear. -/
def treeSet (p : Path) (v : TreeValue) (t : Tree) : Tree :=
  (p, v) :: (del p t).filter (fun e => !(e.1.isPrefixOf p))

def applyDecision (acc : Tree × List Path) (p : Path) : Decision → Tree × List Path
  | .keep => acc
  | .delete => (del p acc.1, sdel p acc.2)
  | .record v => (treeSet p v acc.1, sins p acc.2)

/-- paths that can get a non-`keep` decision: leaves on disk and paths with a file state -/
def candidates (wc : WC) (disk : Disk) : List Path :=
  (disk.filter (fun e => e.2 ≠ .dir)).map (·.1) ++ wc.states

def snapshotFold (wc : WC) (disk : Disk) (ign : Path → Bool) :
    List Path → Tree × List Path → Tree × List Path
  | [], acc => acc
  | p :: ps, acc => snapshotFold wc disk ign ps (applyDecision acc p (decideAt wc disk ign p))

/-- `TreeState::snapshot`: new tree and new file-state key set. -/
def snapshot (wc : WC) (disk : Disk) (ign : Path → Bool) : WC :=
  let r := snapshotFold wc disk ign (candidates wc disk) (wc.tree, wc.states)
  { wc with tree := r.1, states := r.2 }

/-! ## Update (`TreeState::update`) -/

structure Stats where
  updated : Nat := 0
  added : Nat := 0
  removed : Nat := 0
  skipped : Nat := 0
  deriving DecidableEq, Repr

/-- what `update` writes for a tree value (`materialize_tree_value` + `write_file` /
`write_symlink` / `write_conflict`) -/
def materialize : TreeValue → Entry
  | .file c x => .file c x
  | .symlink t => .symlink t
  | .conflict _ mat x => .file mat x

/-- `create_parent_dirs`: walk the proper ancestors of `pre ++ rest`, creating missing
directories; `none` = an ancestor exists and is a file or symlink (the path is skipped). -/
def createParentDirs (disk : Disk) : Path → List String → Option Disk
  | _, [] => some disk
  | _, [_] => some disk
  | pre, c :: c' :: rest =>
    match get disk (pre ++ [c]) with
    | none => createParentDirs (set (pre ++ [c]) .dir disk) (pre ++ [c]) (c' :: rest)
    | some .dir => createParentDirs disk (pre ++ [c]) (c' :: rest)
    | some _ => none

/-- some entry lies strictly below `d` -/
def hasChild (disk : Disk) (d : Path) : Bool :=
  disk.any (fun e => d.isPrefixOf e.1 && e.1 ≠ d)

/-- the `fs::remove_dir(parent_dir)` loop after a removal: `rev` is the reversed component list
of the directory to try first; stops at the first non-empty / non-directory / the root. -/
def cleanupParents (disk : Disk) : List String → Disk
  | [] => disk
  | c :: rev =>
    let d := (c :: rev).reverse
    match get disk d with
    | some .dir => if hasChild disk d then disk else cleanupParents (del d disk) rev
    | _ => disk

/-- per-entry outcome, for the statements of C25 -/
inductive Action where
  | skipParent   -- `create_parent_dirs` refused (file or symlink in the way of a directory)
  | skipExists   -- `can_create_new_file` refused (something stands at the path)
  | removed
  | written (e : Entry)
  deriving DecidableEq, Repr

structure DiffEntry where
  path : Path
  before : Option TreeValue
  after : Option TreeValue
  deriving DecidableEq, Repr

structure UState where
  disk : Disk
  states : List Path
  stats : Stats
  /-- trace of (path, action), newest first -/
  log : List (Path × Action)
  deriving Repr

def countStats (s : Stats) (e : DiffEntry) : Stats :=
  match e.after, e.before with
  | none, _ => { s with removed := s.removed + 1 }
  | some _, none => { s with added := s.added + 1 }
  | some _, some _ => { s with updated := s.updated + 1 }

/-- `remove_old_file`: removes a file or symlink at the path; `false` when absent or a directory -/
def removeOldFile (disk : Disk) (p : Path) : Bool × Disk :=
  match get disk p with
  | some (.file _ _) | some (.symlink _) => (true, del p disk)
  | _ => (false, disk)

/-- one iteration of `process_diff_entry` -/
def step (u : UState) (e : DiffEntry) : UState :=
  let stats := countStats u.stats e
  match createParentDirs u.disk [] e.path with
  | none =>
    { disk := u.disk, states := sins e.path u.states,
      stats := { stats with skipped := stats.skipped + 1 }, log := (e.path, .skipParent) :: u.log }
  | some d1 =>
    let (deleted, d2) := if e.before.isSome then removeOldFile d1 e.path else (false, d1)
    if !deleted && (get d2 e.path).isSome then
      { disk := d2, states := sins e.path u.states,
        stats := { stats with skipped := stats.skipped + 1 }, log := (e.path, .skipExists) :: u.log }
    else
      match e.after with
      | none =>
        { disk := cleanupParents d2 e.path.reverse.tail, states := sdel e.path u.states,
          stats := stats, log := (e.path, .removed) :: u.log }
      | some v =>
        { disk := set e.path (materialize v) d2, states := sins e.path u.states,
          stats := stats, log := (e.path, .written (materialize v)) :: u.log }

def steps (u : UState) : List DiffEntry → UState
  | [] => u
  | e :: es => steps (step u e) es

/-! ### the diff in file-system order (`MergedTree::diff_stream_for_file_system`) -/

/-- `RepoPath` order: component-wise, a proper prefix first -/
def pathLt : Path → Path → Bool
  | [], [] => false
  | [], _ :: _ => true
  | _ :: _, [] => false
  | a :: as, b :: bs => if a < b then true else if a = b then pathLt as bs else false

def insertPath (p : Path) : List Path → List Path
  | [] => [p]
  | q :: r => if pathLt p q then p :: q :: r else if p = q then q :: r else q :: insertPath p r

def sortPaths : List Path → List Path
  | [] => []
  | p :: r => insertPath p (sortPaths r)

def dedupPaths : List Path → List Path
  | [] => []
  | p :: r => if p ∈ r then dedupPaths r else p :: dedupPaths r

/-- the changed paths accepted by the matcher, in path order (each path once) -/
def diffSorted (old new : Tree) (m : Path → Bool) : List DiffEntry :=
  ((sortPaths (dedupPaths (old.map (·.1) ++ new.map (·.1)))).filter
      (fun p => m p && get old p ≠ get new p)).map
    (fun p => { path := p, before := get old p, after := get new p })

/-- `DiffStreamForFileSystem`: an added file that replaces a directory of the old tree is held
back until the entries below it (all removals) have been emitted. -/
def shouldHold (old : Tree) (e : DiffEntry) : Bool :=
  e.before.isNone && old.any (fun o => e.path.isPrefixOf o.1 && o.1 != e.path)

def holdBack (old : Tree) : Option DiffEntry → List DiffEntry → List DiffEntry
  | held, [] => held.toList
  | none, e :: es =>
    if shouldHold old e then holdBack old (some e) es else e :: holdBack old none es
  | some h, e :: es =>
    if h.path.isPrefixOf e.path then e :: holdBack old (some h) es
    else if shouldHold old e then h :: holdBack old (some e) es
    else h :: e :: holdBack old none es

def diffFs (old new : Tree) (m : Path → Bool) : List DiffEntry :=
  holdBack old none (diffSorted old new m)

/-- `TreeState::update(old_tree, new_tree, matcher)` on the disk and the file states -/
def update (disk : Disk) (states : List Path) (old new : Tree) (m : Path → Bool) : UState :=
  steps { disk := disk, states := states, stats := {}, log := [] } (diffFs old new m)

/-- `TreeState::check_out` -/
def checkOut (wc : WC) (disk : Disk) (new : Tree) : WC × UState :=
  let u := update disk wc.states wc.tree new (sparseMatch wc.sparse)
  ({ wc with tree := new, states := u.states }, u)

/-- `TreeState::set_sparse_patterns`: add what enters the patterns, then remove what leaves. -/
def setSparsePatterns (wc : WC) (disk : Disk) (pats : List Path) : WC × UState × UState :=
  let added := update disk wc.states [] wc.tree
    (fun p => sparseMatch pats p && !sparseMatch wc.sparse p)
  let removed := update added.disk added.states wc.tree []
    (fun p => sparseMatch wc.sparse p && !sparseMatch pats p)
  ({ wc with states := removed.states, sparse := pats }, added, removed)

end JjModel.WorkingCopy
