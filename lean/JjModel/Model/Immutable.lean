/-!
  C42 — immutable commits are never rewritten.  Executable model (imports nothing).

  Mirrors `/repo/cli/src/cli_util.rs`:
    * `WorkspaceCommandEnvironment::immutable_expression` = `(immutable_heads() | root()).ancestors()`
      (`revset_util::parse_immutable_heads_expression` adds `root()`),
    * `WorkspaceCommandHelper::check_rewritable[_expr]` (error iff `immutable ∩ to_rewrite ≠ ∅`,
      `--ignore-immutable` replaces the immutable set by `{root}`),
    * `snapshot_working_copy` (immutable `@` ⇒ new child commit instead of amending `@`),
    * `finish_transaction` (new `@` immutable ⇒ new commit on top),
  and the per-command call sites in `/repo/cli/src/commands/*.rs` (the *command table* below: which set
  each command passes to `check_rewritable`, and which visible commits it rewrites / abandons).

  Commits are small naturals chosen by the harness; `0` is the root commit (never listed in the
  graph, always immutable).  A graph is a list of commits in topological order (parents first).
-/
namespace JjModel.Immutable

structure Commit where
  id : Nat
  parents : List Nat
  /-- `Commit::is_discardable` ∧ not referenced by a local bookmark / tag / other workspace
      (`MutableRepo::maybe_abandon_wc_commit`, lib/src/repo.rs) — a fact about the pre-state
      supplied by the harness -/
  disc : Bool := false
  /-- the commit has an empty diff against its (merged) parents -/
  empty : Bool := false
deriving Repr, DecidableEq

abbrev Graph := List Commit

def parentsOf (g : Graph) (c : Nat) : List Nat :=
  match g.find? (fun k => k.id == c) with
  | some k => k.parents
  | none => []

def flagsOf (g : Graph) (c : Nat) : Bool × Bool :=
  match g.find? (fun k => k.id == c) with
  | some k => (k.disc, k.empty)
  | none => (false, false)

/-- ids of the commits having a parent in `s` (revset `children(s)`) -/
def childrenOf (g : Graph) (s : List Nat) : List Nat :=
  (g.filter (fun k => k.parents.any (fun p => decide (p ∈ s)))).map (·.id)

/-- One pass over the commits, children first: a commit already in the set contributes its
parents.  On a reverse-topological list this is the ancestor closure (`closeUp_closed`). -/
def closeUp : List Commit → List Nat → List Nat
  | [], s => s
  | c :: rest, s => if c.id ∈ s then closeUp rest (c.parents ++ s) else closeUp rest s

/-- revset `::s` (without the implicit root) -/
def ancestors (g : Graph) (s : List Nat) : List Nat := closeUp g.reverse s

/-- One pass over the commits, parents first: a commit with a parent in the set joins the set.
Revset `s::` restricted to listed commits ∪ `s`. -/
def closeDown : List Commit → List Nat → List Nat
  | [], s => s
  | c :: rest, s =>
    if c.id ∈ s ∨ (∃ p ∈ c.parents, p ∈ s) then closeDown rest (c.id :: s) else closeDown rest s

def descendants (g : Graph) (s : List Nat) : List Nat := closeDown g s

/-- `immutable()` = `::(immutable_heads() | root())` -/
def immutableSet (g : Graph) (heads : List Nat) : List Nat := 0 :: ancestors g heads

def isImmutable (g : Graph) (heads : List Nat) (c : Nat) : Bool := decide (c ∈ immutableSet g heads)

/-- visible commits of the graph, as ids (root excluded) -/
def ids (g : Graph) : List Nat := g.map (·.id)

/-- sorted insertion without duplicates -/
def ins (x : Nat) : List Nat → List Nat
  | [] => [x]
  | y :: ys => if x < y then x :: y :: ys else if x = y then y :: ys else y :: ins x ys

/-- canonical form of a set of ids: sorted, no duplicates -/
def dedupSorted (l : List Nat) : List Nat := l.foldr ins []

/-- `roots(d..b)`: the set `plan_rebase_branch` passes to `check_rewritable` and then moves. -/
def branchRoots (g : Graph) (b d : Nat) : List Nat :=
  let r := (ancestors g [b]).filter (fun x => decide (x ∉ immutableSet g [d]))
  (r.filter (fun x => !(parentsOf g x).any (fun p => decide (p ∈ r)))).eraseDups

/-- The modelled commands.  Arguments are commit ids (targets are single commits or explicit
unions); the CLI spelling is given next to each constructor. -/
inductive Cmd where
  /-- `jj describe -m <fresh> T…` -/
  | describe (ts : List Nat)
  /-- `jj abandon T…` -/
  | abandon (ts : List Nat)
  /-- `jj rebase -s S -d D` -/
  | rebaseS (s d : Nat)
  /-- `jj rebase -b B -d D` -/
  | rebaseB (b d : Nat)
  /-- `jj rebase -r X -d D` -/
  | rebaseR (x d : Nat)
  /-- `jj rebase -r X -A Y` -/
  | rebaseRAfter (x y : Nat)
  /-- `jj rebase -r X -B Y` -/
  | rebaseRBefore (x y : Nat)
  /-- `jj squash --from X --into Y -m <fresh>` -/
  | squashInto (x y : Nat)
  /-- `jj squash -r X -m <fresh>` (into the single parent) -/
  | squashParent (x : Nat)
  /-- `jj new --no-edit -A X` -/
  | newAfter (x : Nat)
  /-- `jj new --no-edit -B Y` -/
  | newBefore (y : Nat)
  /-- `jj new X` (moves `@`; the old `@` is abandoned when discardable) -/
  | newOn (x : Nat)
  /-- `jj edit X` -/
  | edit (x : Nat)
  /-- `jj metaedit --author <fresh> X` -/
  | metaedit (x : Nat)
  /-- `jj restore --from S --into X` (`differs`: the two trees differ, pre-state fact) -/
  | restoreInto (s x : Nat) (differs : Bool)
  /-- `jj restore --changes-in X` -/
  | restoreChanges (x : Nat)
  /-- `jj split -r X -m <fresh> <all paths>` -/
  | split (x : Nat)
  /-- `jj diffedit -r X --tool <script adding a fresh file>` -/
  | diffedit (x : Nat)
  /-- `jj duplicate X -A Y` -/
  | duplicateAfter (x y : Nat)
  /-- `jj parallelize T…` -/
  | parallelize (ts : List Nat)
  /-- `jj simplify-parents -r X` -/
  | simplifyParents (x : Nat)
  /-- `jj bookmark set <name> -r X --allow-backwards` / `jj tag set` (moves refs, rewrites nothing) -/
  | refSet (x : Nat)
  /-- `jj commit -m <fresh>`: rewrites `@`; commands/commit.rs `cmd_commit` calls
      `check_rewritable([commit.id()])` on the working-copy commit (since /repo edbccd1) -/
  | commitWc
  /-- `jj new --no-edit -A X -B Y…` — both `--insert-after` and `--insert-before`: third arm of
      `compute_commit_location` (cli_util.rs): new parents = `X`, new children = the `-B` commits -/
  | newAB (x : Nat) (ys : List Nat)
  /-- `jj rebase -r Z -A X -B Y…` -/
  | rebaseRAB (z x : Nat) (ys : List Nat)
  /-- `jj duplicate Z -A X -B Y…` -/
  | duplicateAB (z x : Nat) (ys : List Nat)
  /-- `jj revert -r Z -A X -B Y…` -/
  | revertAB (z x : Nat) (ys : List Nat)
deriving Repr, DecidableEq

/-- The set each command passes to `check_rewritable` (`wc` = id of `@`). -/
def checked (g : Graph) (wc : Nat) : Cmd → List Nat
  | .describe ts => ts
  | .abandon ts => ts
  | .rebaseS s _ => [s]
  | .rebaseB b d => branchRoots g b d
  | .rebaseR x _ => [x]
  | .rebaseRAfter x y => x :: childrenOf g [y]
  | .rebaseRBefore x y => [x, y]
  | .squashInto x y => if x = y then [y] else [x, y]
  | .squashParent x => x :: parentsOf g x
  | .newAfter x => childrenOf g [x]
  | .newBefore y => [y]
  | .newOn _ => []
  | .edit x => [x]
  | .metaedit x => [x]
  | .restoreInto _ x _ => [x]
  | .restoreChanges x => [x]
  | .split x => [x]
  | .diffedit x => [x]
  | .duplicateAfter _ y => childrenOf g [y]
  | .parallelize ts => ts.filter (fun t => (parentsOf g t).any (fun p => decide (p ∈ ts)))
  | .simplifyParents x => [x]
  | .refSet _ => []
  | .commitWc => [wc]
  -- `compute_commit_location`: `check_rewritable(new_child_ids)` after the `match`, for every arm;
  -- with both flags the new children are the `-B` commits themselves
  | .newAB _ ys => ys
  | .rebaseRAB z _ ys => z :: ys
  | .duplicateAB _ _ ys => ys
  | .revertAB _ _ ys => ys

/-- Commands that abandon the working-copy commit without asking `check_rewritable`
(new / edit: `MutableRepo::maybe_abandon_wc_commit`).  `jj commit` used to be here as well; it is
guarded since /repo edbccd1. -/
def unguarded : Cmd → Bool
  | .newOn _ | .edit _ => true
  | _ => false

/-- user errors raised *before* the immutability check -/
def preError (g : Graph) : Cmd → Bool
  | .squashParent x => (parentsOf g x).length ≠ 1
  | .duplicateAB z _ _ => z = 0  -- "Cannot duplicate the root commit"
  | _ => false

/-- user errors raised *after* the immutability check -/
def postError (g : Graph) : Cmd → Bool
  | .rebaseS s d => decide (d ∈ descendants g [s])
  | .rebaseR x d => x = d
  -- `ensure_no_commit_loop` (runs after `check_rewritable(new_child_ids)`): a new parent is a
  -- descendant (inclusive) of a new child.  Cannot happen with `-A` alone or `-B` alone.
  | .newAB x ys => decide (x ∈ descendants g ys)
  | .rebaseRAB _ x ys => decide (x ∈ descendants g ys)
  | .duplicateAB _ x ys => decide (x ∈ descendants g ys)
  | .revertAB _ x ys => decide (x ∈ descendants g ys)
  | _ => false

/-- `@` is abandoned when the command leaves it and it is discardable, unreferenced and a head. -/
def discardWc (g : Graph) (wc target : Nat) : List Nat :=
  if target ≠ wc ∧ (flagsOf g wc).1 ∧ childrenOf g [wc] = [] then [wc] else []

/-- (rewritten, abandoned): visible commits that get a new commit id / disappear, exactly, for
the command forms whose effect does not depend on file contents (see `notes/C42.md`). -/
def effect (g : Graph) (wc : Nat) : Cmd → List Nat × List Nat
  | .describe ts => (descendants g ts, [])
  | .abandon ts => ((descendants g ts).filter (fun x => decide (x ∉ ts)), ts)
  | .rebaseS s d => if parentsOf g s = [d] then ([], []) else (descendants g [s], [])
  | .rebaseB b d => (descendants g ((branchRoots g b d).filter (fun r => parentsOf g r ≠ [d])), [])
  | .rebaseR x d =>
    ((descendants g [x]).filter (fun c => decide (c ≠ x ∨ parentsOf g x ≠ [d])), [])
  | .rebaseRAfter x y => (descendants g (x :: childrenOf g [y]), [])
  | .rebaseRBefore x y => (descendants g [x, y], [])
  | .squashInto x y =>
    if x = y then ([], []) else ((descendants g [x, y]).filter (fun c => decide (c ≠ x)), [x])
  | .squashParent x =>
    ((descendants g (x :: parentsOf g x)).filter (fun c => decide (c ≠ x)), [x])
  | .newAfter x => (descendants g (childrenOf g [x]), [])
  | .newBefore y => (descendants g [y], [])
  | .newOn x => ([], discardWc g wc x)
  | .edit x => ([], discardWc g wc x)
  | .metaedit x => (descendants g [x], [])
  | .restoreInto _ x differs => if differs then (descendants g [x], []) else ([], [])
  | .restoreChanges x => if (flagsOf g x).2 then ([], []) else (descendants g [x], [])
  | .split x => (descendants g [x], [])
  | .diffedit x => (descendants g [x], [])
  | .duplicateAfter _ y => (descendants g (childrenOf g [y]), [])
  | .parallelize ts =>
    (descendants g (ts.filter (fun t => (parentsOf g t).any (fun p => decide (p ∈ ts)))), [])
  | .simplifyParents x => (descendants g [x], [])
  | .refSet _ => ([], [])
  | .commitWc => (descendants g [wc], [])
  -- the `-B` commits get the inserted commit as an additional / replacing parent; their
  -- descendants are rebased
  | .newAB _ ys => (descendants g ys, [])
  | .rebaseRAB z _ ys => (descendants g (z :: ys), [])
  | .duplicateAB _ _ ys => (descendants g ys, [])
  | .revertAB _ _ ys => (descendants g ys, [])

/-- all visible commits the command changes -/
def affected (g : Graph) (wc : Nat) (c : Cmd) : List Nat := (effect g wc c).1 ++ (effect g wc c).2

inductive Outcome where
  | rejected
  | err
  | ok (rewritten abandoned : List Nat)
deriving Repr, DecidableEq

/-- `check_rewritable`: the first immutable commit of the set, if any.  With
`--ignore-immutable` only the root stays immutable. -/
def checkRewritable (g : Graph) (heads : List Nat) (ignoreImmutable : Bool) (s : List Nat) : Bool :=
  let imm := if ignoreImmutable then [0] else immutableSet g heads
  s.all (fun x => decide (x ∉ imm))

/-- One command = `[pre-errors]; check_rewritable (checked …); [post-errors]; transform`. -/
def run (g : Graph) (heads : List Nat) (wc : Nat) (ignoreImmutable : Bool) (c : Cmd) : Outcome :=
  if preError g c then .err
  else if !checkRewritable g heads ignoreImmutable (checked g wc c) then .rejected
  else if postError g c then .err
  else .ok (dedupSorted (effect g wc c).1) (dedupSorted (effect g wc c).2)

/-- Result of the implicit snapshot at command start when the files on disk changed. -/
inductive Snap where
  /-- `@` immutable: a new commit is created on top, nothing is rewritten -/
  | child (parent : Nat)
  /-- `@` mutable: `@` is amended and its descendants rebased -/
  | amend (rewritten : List Nat)
deriving Repr, DecidableEq

/-- `snapshot_working_copy` (cli_util.rs) when the snapshotted tree differs from `@`'s tree
(`resolve_immutable_expression` is used, so `--ignore-immutable` applies here too). -/
def snapshot (g : Graph) (heads : List Nat) (wc : Nat) (ignoreImmutable : Bool) : Snap :=
  let imm := if ignoreImmutable then [0] else immutableSet g heads
  if wc ∈ imm then .child wc else .amend (dedupSorted (descendants g [wc]))

/-- `finish_transaction`: if the new `@` is immutable a fresh commit `fresh` is put on top. -/
def finishWc (g : Graph) (heads : List Nat) (wc fresh : Nat) : Graph × Nat :=
  if wc ∈ immutableSet g heads then (g ++ [{ id := fresh, parents := [wc], disc := true, empty := true }], fresh)
  else (g, wc)

end JjModel.Immutable
