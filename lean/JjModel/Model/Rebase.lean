import JjModel.Model.Tree
/-
  Model of `lib/src/rewrite.rs`: `merge_commit_trees`, `find_recursive_merge_commits`,
  `CommitRewriter::rebase_with_empty_behavior` (the tree it gives the rebased commit; `EmptyBehavior::Keep`).

  A history is a list of commits indexed by creation order (= index position); commit `0` is the
  root (no parents, empty tree); every parent id is smaller than the commit's own id.  The index is
  modelled by its specification: `common_ancestors` returns the greatest common ancestors in
  descending position order (`CompositeCommitIndex::common_ancestors_pos`; the heap walk itself is
  property C18's subject).
-/
namespace JjModel.Rebase
open JjModel.Merge JjModel.Trees

structure Commit where
  parents : List Nat
  /-- `Commit::tree()`: a `Merge<Tree>` -/
  tree : List Tree
  deriving Repr

abbrev History := List Commit

def parentsOf (h : History) (c : Nat) : List Nat := (h[c]?.map (·.parents)).getD []
def treeOf (h : History) (c : Nat) : List Tree := (h[c]?.map (·.tree)).getD [.nil]

/-- `isAnc h fuel a c`: `a` is an ancestor of `c` (or `c` itself); fuel = number of commits suffices -/
def isAnc (h : History) : Nat → Nat → Nat → Bool
  | 0, a, c => a == c
  | f + 1, a, c => a == c || (parentsOf h c).any (fun p => isAnc h f a p)

def isAncestor (h : History) (a c : Nat) : Bool := isAnc h (h.length + 1) a c

/-- greatest common ancestors of two sets of commits, descending -/
def commonAncestors (h : History) (set1 set2 : List Nat) : List Nat :=
  let common := (List.range h.length).filter fun a =>
    set1.any (fun c => isAncestor h a c) && set2.any (fun c => isAncestor h a c)
  let heads := common.filter fun a => !common.any (fun b => b != a && isAncestor h a b)
  heads.reverse

/-- `find_recursive_merge_commits`, as the recursion the source describes in its comment (the source
runs it on an explicit stack).  Fuel: every recursive call is on strictly older commits. -/
def findRecursiveMergeCommits (h : History) : Nat → List Nat → List Nat
  | _, [] => [0]
  | _, [c] => [c]
  | 0, c :: _ => [c]
  | f + 1, c :: rest =>
    let step := fun (acc : List Nat × List Nat) (other : Nat) =>
      let ancestor := findRecursiveMergeCommits h f (commonAncestors h acc.2 [other])
      (flatten [acc.1, ancestor, [other]], acc.2 ++ [other])
    (rest.foldl step ([c], [c])).1

/-- `merge_commit_trees_no_resolve` -/
def mergeCommitTreesNoResolve (h : History) (commits : List Nat) : List Tree :=
  match commits with
  | [c] => treeOf h c
  | _ => mergeNoResolve ((findRecursiveMergeCommits h (h.length + 1) commits).map (treeOf h))

/-- `merge_commit_trees` -/
def mergeCommitTrees (sc : SameChange) (cm : ContentMerge) (h : History) (commits : List Nat) : List Tree :=
  match commits with
  | [c] => treeOf h c
  | _ => resolve sc cm (mergeCommitTreesNoResolve h commits)

/-- the tree of the rebased commit, given the two merged parent trees -/
def rebaseWith (sc : SameChange) (cm : ContentMerge) (oldParentTrees newParentTrees : List (List Tree))
    (oldBase newBase commitTree : List Tree) : List Tree :=
  if newParentTrees = oldParentTrees then commitTree
  else mergedTreeMerge sc cm [newBase, oldBase, commitTree]

/-- `rebase_commit`: tree of `c` rebased onto `newParents` -/
def rebaseTree (sc : SameChange) (cm : ContentMerge) (h : History) (c : Nat) (newParents : List Nat) : List Tree :=
  rebaseWith sc cm ((parentsOf h c).map (treeOf h)) (newParents.map (treeOf h))
    (mergeCommitTrees sc cm h (parentsOf h c)) (mergeCommitTrees sc cm h newParents) (treeOf h c)

/-- all `debug_assert_eq!(re_merged, simplified)` checks passed on the way (debug builds panic otherwise) -/
def rebaseDebugAsserts (sc : SameChange) (cm : ContentMerge) (h : History) (c : Nat) (newParents : List Nat) : Bool :=
  let old := parentsOf h c
  if newParents.map (treeOf h) = old.map (treeOf h) then true else
  let ok := fun (ps : List Nat) => match ps with
    | [_] => true
    | _ => resolveDebugAssert sc cm (mergeCommitTreesNoResolve h ps)
  ok old && ok newParents &&
    resolveDebugAssert sc cm
      (mergeNoResolve [mergeCommitTrees sc cm h newParents, mergeCommitTrees sc cm h old, treeOf h c])

end JjModel.Rebase
