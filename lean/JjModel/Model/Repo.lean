import JjModel.Model.Merge
/-!
  L4 — model of the repository state machine used by C11 and C13:
  `lib/src/repo.rs` (`MutableRepo`: parent mapping, `rewritten_ids_with`,
  `resolve_rewrite_mapping_with`, `update_rewritten_references`, `transform_commits`,
  `rebase_descendants_with_options`, `merge`, `merge_view`, `record_rewrites`, `merge_wc_commit`),
  `lib/src/rewrite.rs` (`rebase_commit_with_options`, `simplify_ancestor_merge`,
  `merge_commit_trees`, `find_recursive_merge_commits`), `lib/src/refs.rs` (`merge_ref_targets`,
  a local literal copy — C12 owns the theorems about it), `lib/src/view.rs` (`normalize_heads`),
  `core/src/dag_walk.rs` (`topo_order_forward`).

  Conventions
  * A commit id is its position in the append-only `Store` (= the index position: the real
    index appends commits in the order they are written).  Id `0` is the root commit.
  * A fresh change id is the id of the commit that introduced it.
  * Descriptions are `Nat`s, `0` = empty description.
  * Trees are abstracted to the sorted list of the files present; every file has one fixed
    content, so each path has two possible values (absent/present) and every merge of such
    values resolves by the signed-count rule (C02 with `same-change = accept`, the default).
  * A `RefTarget` is the interleaved term list of its `Merge<Option<CommitId>>`.
  * `none` results model a Rust `panic!`/`assert!`; `Except`-like errors are the `Err` enum.
  Import-free except `Model.Merge`: the driver executable links this file.
-/
namespace JjModel.Repo
open JjModel.Merge

/-! ### commits, store, ancestry (the abstract index) -/

structure Commit where
  parents : List Nat
  change : Nat
  desc : Nat
  tree : List Nat
  preds : List Nat
  deriving DecidableEq, Repr

abbrev Store := List Commit

def rootCommit : Commit := { parents := [], change := 0, desc := 0, tree := [], preds := [] }

def parentsOf (s : Store) (i : Nat) : List Nat :=
  match s[i]? with
  | some c => c.parents
  | none => []

def treeOf (s : Store) (i : Nat) : List Nat :=
  match s[i]? with
  | some c => c.tree
  | none => []

def changeOf (s : Store) (i : Nat) : Nat :=
  match s[i]? with
  | some c => c.change
  | none => 0

/-- set insertion keeping first-occurrence order -/
def insertNew (acc : List Nat) (x : Nat) : List Nat := if acc.contains x then acc else acc ++ [x]

def union (a b : List Nat) : List Nat := b.foldl insertNew a

/-- `itertools::unique` -/
def dedup (l : List Nat) : List Nat := union [] l

/-- Ids are scanned from high to low; a marked id marks its parents (which are smaller). -/
def ancGo (s : Store) : Nat → List Nat → List Nat
  | 0, acc => acc
  | i + 1, acc => ancGo s i (if acc.contains i then union acc (parentsOf s i) else acc)

/-- all ancestors of `hs`, including `hs` themselves -/
def ancestors (s : Store) (hs : List Nat) : List Nat := ancGo s s.length hs

/-- `Index::is_ancestor(a, b)`: `a` is `b` or an ancestor of `b` -/
def isAnc (s : Store) (a b : Nat) : Bool := (ancestors s [b]).contains a

def insertDesc (x : Nat) : List Nat → List Nat
  | [] => [x]
  | y :: ys => if x ≥ y then x :: y :: ys else y :: insertDesc x ys

/-- descending sort (index positions are reported from high to low everywhere) -/
def sortDesc (l : List Nat) : List Nat := l.foldr insertDesc []

/-- `Index::heads`: the candidates that are not a proper ancestor of another candidate,
    in descending position order, without duplicates -/
def headsOf (s : Store) (ids : List Nat) : List Nat :=
  let c := sortDesc (dedup ids)
  c.filter fun x => !(c.any fun y => y != x && isAnc s x y)

/-- `Index::common_ancestors`: greatest common ancestors, descending -/
def commonAncestors (s : Store) (set1 set2 : List Nat) : List Nat :=
  let a2 := ancestors s set2
  headsOf s ((ancestors s set1).filter a2.contains)

/-- `x::` restricted to the ids of the store: ids having a member of `roots` among their ancestors -/
def descendants (s : Store) (roots : List Nat) : List Nat :=
  (List.range s.length).filter fun c => (ancestors s [c]).any roots.contains

/-! ### trees: recursive parent-tree merge, rebase of a tree -/

/-- `find_recursive_merge_commits`: the `Merge<CommitId>` (interleaved) whose trees are merged. -/
def recMerge (s : Store) : Nat → List Nat → List Nat
  | 0, ids => ids.take 1
  | fuel + 1, ids =>
    match ids with
    | [] => [0]
    | [c] => [c]
    | c0 :: rest =>
      (rest.foldl (fun (st : List Nat × List Nat) c =>
          let anc := recMerge s fuel (commonAncestors s st.2 [c])
          (flatten [st.1, anc, [c]], st.2 ++ [c])) ([c0], [c0])).1

def signedCount (s : Store) (f : Nat) : List Nat → Int
  | [] => 0
  | [a] => if (treeOf s a).contains f then 1 else 0
  | a :: r :: rest =>
    (if (treeOf s a).contains f then 1 else 0) - (if (treeOf s r).contains f then 1 else 0)
      + signedCount s f rest

def insertAsc (x : Nat) : List Nat → List Nat
  | [] => [x]
  | y :: ys => if x ≤ y then x :: y :: ys else y :: insertAsc x ys

def sortAsc (l : List Nat) : List Nat := l.foldr insertAsc []

/-- per-path trivial merge of two-valued entries: a file is present iff its signed count is ≥ 1 -/
def evalMerge (s : Store) (m : List Nat) : List Nat :=
  let files := sortAsc (dedup (m.flatMap (treeOf s)))
  files.filter fun f => signedCount s f m ≥ 1

/-- `merge_commit_trees` -/
def mergeCommitTrees (s : Store) (ids : List Nat) : List Nat :=
  match ids with
  | [c] => treeOf s c
  | _ => evalMerge s (recMerge s s.length ids)

/-- `MergedTree::merge([new_base, old_base, old_tree])` on file sets -/
def merge3 (a b c : List Nat) : List Nat :=
  let files := sortAsc (dedup (a ++ b ++ c))
  files.filter fun f =>
    ((if a.contains f then 1 else 0) - (if b.contains f then 1 else 0)
      + (if c.contains f then 1 else 0) : Int) ≥ 1

/-- `Commit::is_discardable` -/
def isDiscardable (s : Store) (i : Nat) : Bool :=
  match s[i]? with
  | some c => c.desc == 0 && c.tree == mergeCommitTrees s c.parents
  | none => false

/-! ### parent mapping -/

inductive Rewrite where
  | rewritten (n : Nat)
  | divergent (ns : List Nat)
  | abandoned (ps : List Nat)
  deriving DecidableEq, Repr

def Rewrite.newParentIds : Rewrite → List Nat
  | .rewritten n => [n]
  | .divergent ns => ns
  | .abandoned ps => ps

def Rewrite.isDivergent : Rewrite → Bool
  | .divergent _ => true
  | _ => false

def Rewrite.isAbandoned : Rewrite → Bool
  | .abandoned _ => true
  | _ => false

/-- `HashMap<CommitId, Rewrite>` as an association list with unique keys -/
abbrev Mapping := List (Nat × Rewrite)

def Mapping.get (m : Mapping) (k : Nat) : Option Rewrite := m.lookup k

def Mapping.insert (m : Mapping) (k : Nat) (v : Rewrite) : Mapping :=
  if m.any (fun e => e.1 == k) then m.map (fun e => if e.1 == k then (k, v) else e)
  else m ++ [(k, v)]

def Mapping.keys (m : Mapping) : List Nat := m.map (·.1)

/-- `parent_mapping.get(id).filter(predicate)` -/
def Mapping.getIf (m : Mapping) (pred : Rewrite → Bool) (k : Nat) : Option Rewrite :=
  match m.get k with
  | some r => if pred r then some r else none
  | none => none

def mappingSize (m : Mapping) : Nat := (m.map fun e => e.2.newParentIds.length).sum

/-- The `while let Some(id) = to_visit.pop()` loop of `rewritten_ids_with`.
    The stack is a list whose head is the top; `none` = an `assert!` fired. -/
def rwLoop (m : Mapping) (pred : Rewrite → Bool) :
    Nat → List Nat → List Nat → List Nat → Option (List Nat)
  | 0, _, _, _ => none
  | _ + 1, [], _, out => some out
  | fuel + 1, id :: rest, visited, out =>
    if visited.contains id then rwLoop m pred fuel rest visited out
    else
      match m.getIf pred id with
      | none => rwLoop m pred fuel rest (id :: visited) (out ++ [id])
      | some rw =>
        if rw.newParentIds.isEmpty then none
        else rwLoop m pred fuel (rw.newParentIds ++ rest) (id :: visited) out

/-- `MutableRepo::rewritten_ids_with` (`none` = panic) -/
def rewrittenIdsWith (m : Mapping) (pred : Rewrite → Bool) (olds : List Nat) : Option (List Nat) :=
  if olds.isEmpty then none
  else
    match rwLoop m pred (olds.length + mappingSize m + 1) olds [] [] with
    | some [] => none
    | r => r

/-- `MutableRepo::new_parents` -/
def newParents (m : Mapping) (olds : List Nat) : Option (List Nat) :=
  rewrittenIdsWith m (fun r => !r.isDivergent) olds

/-! ### `dag_walk::topo_order_forward` with an explicit neighbour-function state -/

/-- Stack entries are `(node, neighbors_visited)`; head of the list = top of the stack.
    Returns `none` when the cycle callback would be called (or the fuel ran out). -/
def topoLoop {σ : Type} (nb : σ → Nat → List Nat × σ) :
    Nat → List (Nat × Bool) → σ → List Nat → List Nat → List Nat → Option (List Nat)
  | 0, _, _, _, _, _ => none
  | _ + 1, [], _, _, _, result => some result
  | fuel + 1, (id, done) :: st, sigma, visiting, emitted, result =>
    if emitted.contains id then topoLoop nb fuel st sigma visiting emitted result
    else if !done then
      if visiting.contains id then none
      else
        let (ns, sigma') := nb sigma id
        topoLoop nb fuel ((ns.reverse.map fun n => (n, false)) ++ (id, true) :: st) sigma'
          (id :: visiting) emitted result
    else
      topoLoop nb fuel st sigma (visiting.erase id) (id :: emitted) (result ++ [id])

def topoOrderForward {σ : Type} (fuel : Nat) (start : List Nat) (nb : σ → Nat → List Nat × σ)
    (init : σ) : Option (List Nat) :=
  topoLoop nb fuel (start.reverse.map fun n => (n, false)) init [] [] []

def walkFuel (n : Nat) : Nat := 4 * (n + 2) * (n + 2)

inductive Err where
  | cycle      -- `BackendError::Other("Cycle between rewritten commits …")`
  | panic      -- an `assert!`/`panic!` in the source fired
  deriving DecidableEq, Repr

/-- neighbour function of the topological sort in `resolve_rewrite_mapping_with` -/
def replOf (m : Mapping) (pred : Rewrite → Bool) (id : Nat) : List Nat :=
  match m.getIf pred id with
  | none => []
  | some rw => rw.newParentIds

/-- `new_mapping.get(id).map_or(slice::from_ref(id), |ids| ids)` -/
def lookupOr (nm : List (Nat × List Nat)) (id : Nat) : List Nat :=
  match nm.lookup id with
  | some ids => ids
  | none => [id]

/-- the `match rewrite.new_parent_ids()` of `resolve_rewrite_mapping_with` -/
def resolvedIds (nm : List (Nat × List Nat)) (repl : List Nat) : List Nat :=
  match repl with
  | [id] => lookupOr nm id
  | ids => dedup (ids.flatMap (lookupOr nm))

/-- the body of the `for old_id in sorted_ids` loop of `resolve_rewrite_mapping_with` -/
def resolveStep (m : Mapping) (pred : Rewrite → Bool) (nm : List (Nat × List Nat)) (old : Nat) :
    List (Nat × List Nat) :=
  match m.getIf pred old with
  | none => nm
  | some rw => nm ++ [(old, resolvedIds nm rw.newParentIds)]

/-- `resolve_rewrite_mapping_with`: keys are sorted with their replacements first, then resolved
    through the already-resolved entries. -/
def resolveRewriteMappingWith (m : Mapping) (pred : Rewrite → Bool) :
    Except Err (List (Nat × List Nat)) :=
  match topoOrderForward (walkFuel (m.length + mappingSize m)) m.keys
      (fun (_ : Unit) (id : Nat) => (replOf m pred id, ())) () with
  | none => .error .cycle
  | some sorted => .ok (sorted.foldl (resolveStep m pred) [])

/-! ### ref targets (`lib/src/refs.rs`), local literal copy -/

abbrev RefTarget := List (Option Nat)

def RefTarget.absent : RefTarget := [none]
def RefTarget.normal (i : Nat) : RefTarget := [some i]
def RefTarget.addedIds (t : RefTarget) : List Nat := (adds t).filterMap id
def RefTarget.isAbsent (t : RefTarget) : Bool := t == [none]

/-- `SmallVec::swap_remove` -/
def swapRemoveAt {α : Type} (l : List α) (i : Nat) : List α :=
  match l.getLast? with
  | none => l
  | some last => (l.set i last).dropLast

/-- `Merge::swap_remove(remove_index, add_index)` -/
def mergeSwapRemove (t : RefTarget) (removeIndex addIndex : Nat) : RefTarget :=
  swapRemoveAt (swapRemoveAt t (addIndex * 2)) (removeIndex * 2 + 1)

def findIdx {α : Type} (p : α → Bool) : List α → Nat → Option Nat
  | [], _ => none
  | x :: xs, i => if p x then some i else findIdx p xs (i + 1)

/-- the inner loop of `find_pair_to_remove` over `add2` for a fixed `add1` -/
def findPairInner (s : Store) (t : RefTarget) (i1 : Nat) (a1 : Option Nat) :
    List (Option Nat) → Nat → Option (Nat × Nat)
  | [], _ => none
  | a2 :: rest, i2 =>
    let cand : Option (Nat × Nat) :=
      match a1, a2 with
      | some id1, some id2 =>
        if id1 = id2 then some (i1, id1)
        else if isAnc s id1 id2 then some (i1, id1)
        else if isAnc s id2 id1 then some (i2, id2)
        else none
      | _, _ => none
    match cand with
    | none => findPairInner s t i1 a1 rest (i2 + 1)
    | some (addIndex, addId) =>
      match findIdx (fun r => match r with
                      | some id => isAnc s id addId
                      | none => true) (removes t) 0 with
      | some removeIndex => some (removeIndex, addIndex)
      | none => findPairInner s t i1 a1 rest (i2 + 1)

def findPairOuter (s : Store) (t : RefTarget) : List (Option Nat) → Nat → Option (Nat × Nat)
  | [], _ => none
  | a1 :: rest, i1 =>
    match findPairInner s t i1 a1 rest (i1 + 1) with
    | some p => some p
    | none => findPairOuter s t rest (i1 + 1)

/-- `find_pair_to_remove` -/
def findPairToRemove (s : Store) (t : RefTarget) : Option (Nat × Nat) :=
  findPairOuter s t (adds t) 0

/-- `merge_ref_targets_non_trivial` (every iteration removes two terms) -/
def mergeNonTrivial (s : Store) : Nat → RefTarget → RefTarget
  | 0, t => t
  | fuel + 1, t =>
    match findPairToRemove s t with
    | some (r, a) => mergeNonTrivial s fuel (mergeSwapRemove t r a)
    | none => t

/-- `merge_ref_targets(index, left, base, right)` -/
def mergeRefTargets (s : Store) (left base right : RefTarget) : RefTarget :=
  match trivialMerge [left, base, right] .accept with
  | some r => r
  | none =>
    let m := simplify (flatten [left, base, right])
    match trivialMerge m .accept with
    | some v => [v]
    | none => mergeNonTrivial s m.length m

/-! ### view -/

structure View where
  heads : List Nat
  bookmarks : List (Nat × RefTarget)   -- sorted by name, no absent targets stored
  wc : List (Nat × Nat)                -- sorted by workspace name
  deriving DecidableEq, Repr

def assocGet {β : Type} (l : List (Nat × β)) (k : Nat) : Option β := l.lookup k

/-- `BTreeMap::insert` on a list sorted by key -/
def assocSet {β : Type} (k : Nat) (v : β) : List (Nat × β) → List (Nat × β)
  | [] => [(k, v)]
  | (k', v') :: rest =>
    if k = k' then (k, v) :: rest
    else if k < k' then (k, v) :: (k', v') :: rest
    else (k', v') :: assocSet k v rest

def assocErase {β : Type} (k : Nat) (l : List (Nat × β)) : List (Nat × β) :=
  l.filter fun e => e.1 != k

def View.getBookmark (v : View) (name : Nat) : RefTarget :=
  match assocGet v.bookmarks name with
  | some t => t
  | none => RefTarget.absent

def View.addHead (v : View) (i : Nat) : View := { v with heads := insertNew v.heads i }

/-- `View::normalize_heads` -/
def normalizeHeads (s : Store) (hs : List Nat) : List Nat :=
  match hs with
  | [] => [0]
  | [h] => [h]
  | _ => headsOf s (hs.filter (· != 0))

/-- the visible commits -/
def visible (s : Store) (v : View) : List Nat := ancestors s v.heads

/-! ### the mutable repo -/

structure Repo where
  store : Store
  view : View
  mapping : Mapping
  deriving Repr

/-- `MutableRepo::set_local_bookmark_target` -/
def Repo.setLocalBookmarkTarget (r : Repo) (name : Nat) (t : RefTarget) : Repo :=
  let v := t.addedIds.foldl View.addHead r.view
  let bm := if t.isAbsent then assocErase name v.bookmarks else assocSet name t v.bookmarks
  { r with view := { v with bookmarks := bm } }

/-- `MutableRepo::merge_local_bookmark` -/
def Repo.mergeLocalBookmark (r : Repo) (name : Nat) (base other : RefTarget) : Repo :=
  r.setLocalBookmarkTarget name (mergeRefTargets r.store (r.view.getBookmark name) base other)

/-- `CommitBuilder::write` for `new_commit` (fresh change id = own id) -/
def Repo.writeNew (r : Repo) (parents : List Nat) (desc : Nat) (tree : List Nat) : Repo × Nat :=
  let i := r.store.length
  ({ r with store := r.store ++ [{ parents, change := i, desc, tree, preds := [] }],
            view := r.view.addHead i }, i)

/-- `CommitBuilder::write` for `rewrite_commit(old)`: same change id, predecessor `old`,
    `set_rewritten_commit(old, new)` -/
def Repo.writeRewrite (r : Repo) (old : Nat) (parents : List Nat) (desc : Nat) (tree : List Nat) :
    Repo × Nat :=
  let i := r.store.length
  ({ store := r.store ++ [{ parents, change := changeOf r.store old, desc, tree, preds := [old] }],
     view := r.view.addHead i,
     mapping := r.mapping.insert old (.rewritten i) }, i)

/-- `record_abandoned_commit` -/
def Repo.recordAbandoned (r : Repo) (old : Nat) : Repo :=
  { r with mapping := r.mapping.insert old (.abandoned (parentsOf r.store old)) }

def isReferenced (v : View) (ws : Nat) (c : Nat) : Bool :=
  (v.wc.any fun e => e.1 != ws && e.2 == c) ||
  (v.bookmarks.any fun e => e.2.addedIds.contains c)

/-- `maybe_abandon_wc_commit` -/
def Repo.maybeAbandonWc (r : Repo) (ws : Nat) : Repo :=
  match assocGet r.view.wc ws with
  | none => r
  | some w =>
    let hs := normalizeHeads r.store r.view.heads
    let r := { r with view := { r.view with heads := hs } }
    if isDiscardable r.store w && !isReferenced r.view ws w && hs.contains w then
      r.recordAbandoned w
    else r

/-- `MutableRepo::edit` (`none` = `RewriteRootCommit`, which `update_wc_commits` turns into a panic) -/
def Repo.edit (r : Repo) (ws : Nat) (c : Nat) : Option Repo :=
  let r := r.maybeAbandonWc ws
  let r := { r with view := r.view.addHead c }
  if c = 0 then none
  else some { r with view := { r.view with wc := assocSet ws c r.view.wc } }

structure Options where
  empty : Nat              -- 0 keep, 1 abandon newly empty, 2 abandon all empty
  simplify : Bool          -- `simplify_ancestor_merge`
  deleteAbandoned : Bool   -- `rewrite_refs.delete_abandoned_bookmarks`
  deriving Repr

/-- `itertools::intersperse(new_ids, old)` mapped to `Some` -/
def intersperseOld (old : Nat) : List Nat → RefTarget
  | [] => []
  | [n] => [some n]
  | n :: rest => some n :: some old :: intersperseOld old rest

/-- the bookmarks (resp. workspaces) whose target is a key of the resolved mapping, collected
    before anything is changed: `(name, old id, resolved new ids)` -/
def changedBookmarks (v : View) (rm : List (Nat × List Nat)) : List (Nat × Nat × List Nat) :=
  v.bookmarks.flatMap fun (name, t) =>
    t.addedIds.filterMap fun i => (rm.lookup i).map fun news => (name, i, news)

def changedWcs (v : View) (rm : List (Nat × List Nat)) : List (Nat × Nat × List Nat) :=
  v.wc.filterMap fun (ws, c) => (rm.lookup c).map fun news => (ws, c, news)

def isAbandonedKey (m : Mapping) (old : Nat) : Bool :=
  match m.get old with
  | some rw => rw.isAbandoned
  | none => false

/-- the target a bookmark at `old` is merged with -/
def bookmarkNewTarget (m : Mapping) (opts : Options) (old : Nat) (news : List Nat) : RefTarget :=
  if opts.deleteAbandoned && isAbandonedKey m old then RefTarget.absent else intersperseOld old news

/-- body of the loop of `update_local_bookmarks` -/
def Repo.bookmarkStep (opts : Options) (r : Repo) (e : Nat × Nat × List Nat) : Repo :=
  r.mergeLocalBookmark e.1 (RefTarget.normal e.2.1) (bookmarkNewTarget r.mapping opts e.2.1 e.2.2)

/-- `update_local_bookmarks` -/
def Repo.updateLocalBookmarks (r : Repo) (rm : List (Nat × List Nat)) (opts : Options) : Repo :=
  (changedBookmarks r.view rm).foldl (Repo.bookmarkStep opts) r

/-- body of the loop of `update_wc_commits`; the second component is `recreated_wc_commits` -/
def Repo.wcStep (st : Option (Repo × List (Nat × Nat))) (e : Nat × Nat × List Nat) :
    Option (Repo × List (Nat × Nat)) :=
  match st with
  | none => none
  | some (r, recreated) =>
    if !isAbandonedKey r.mapping e.2.1 then
      match e.2.2 with
      | [] => none
      | n :: _ => (r.edit e.1 n).map fun r => (r, recreated)
    else
      match recreated.lookup e.2.1 with
      | some c => (r.edit e.1 c).map fun r => (r, recreated)
      | none =>
        let rc := r.writeNew e.2.2 0 (mergeCommitTrees r.store e.2.2)
        (rc.1.edit e.1 rc.2).map fun r => (r, recreated ++ [(e.2.1, rc.2)])

/-- `update_wc_commits` -/
def Repo.updateWcCommits (r : Repo) (rm : List (Nat × List Nat)) : Option Repo :=
  ((changedWcs r.view rm).foldl Repo.wcStep (some (r, []))).map (·.1)

/-- `update_heads` -/
def Repo.updateHeads (r : Repo) : Repo :=
  let keys := r.mapping.keys
  let vis := ancestors r.store r.view.heads
  let old := keys.filter vis.contains
  let toAdd := (old.flatMap (parentsOf r.store)).filter fun p => !old.contains p
  let hs := union (r.view.heads.filter fun h => !keys.contains h) toAdd
  { r with view := { r.view with heads := normalizeHeads r.store hs } }

/-- `update_rewritten_references` -/
def Repo.updateRewrittenReferences (r : Repo) (opts : Options) : Except Err Repo :=
  match resolveRewriteMappingWith r.mapping (fun _ => true) with
  | .error e => .error e
  | .ok rm =>
    let r := r.updateLocalBookmarks rm opts
    match r.updateWcCommits rm with
    | none => .error .panic
    | some r => .ok r.updateHeads

/-- `find_descendants_for_rebase(roots = keys, immutable)`, in revset (descending) order.
    `roots::` is evaluated inside `::(visible_heads | referenced commits)`. -/
def Repo.findDescendantsForRebase (r : Repo) (immutable : List Nat) : List Nat :=
  let keys := r.mapping.keys
  let univ := ancestors r.store (keys ++ immutable ++ r.view.heads)
  sortDesc ((descendants r.store keys).filter fun c =>
    univ.contains c && !immutable.contains c && !keys.contains c)

/-- `order_commits_for_rebase` with an empty `new_parents_map`; the state of the neighbour
    function is its `visited` set. -/
def Repo.orderCommitsForRebase (r : Repo) (toVisit : List Nat) : Option (List Nat) :=
  let nb := fun (visited : List Nat) (c : Nat) =>
    let visited := c :: visited
    let deps := (parentsOf r.store c).flatMap fun p =>
      (match r.mapping.get p with
       | some rw => rw.newParentIds.filter fun t => toVisit.contains t && !visited.contains t
       | none => []) ++ (if toVisit.contains p then [p] else [])
    (deps, visited)
  (topoOrderForward (walkFuel (r.store.length + mappingSize r.mapping)) toVisit nb []).map
    List.reverse

/-- one progress-callback record: `(old, some new)` rewritten, `(old, none)` abandoned onto `parent` -/
inductive Step where
  | rewritten (old new : Nat)
  | abandoned (old parent : Nat)
  deriving DecidableEq, Repr

/-- `CommitRewriter::simplify_ancestor_merge` (when the option is set) -/
def simplifyParents (s : Store) (opts : Options) (nps : List Nat) : List Nat :=
  if opts.simplify then
    let hs := headsOf s nps
    nps.filter hs.contains
  else nps

/-- the `(was_empty, new_tree)` pair of `rebase_with_empty_behavior` -/
def rebaseTree (s : Store) (old : Nat) (nps : List Nat) : Bool × List Nat :=
  let oldParents := parentsOf s old
  let oldTree := treeOf s old
  if nps.map (treeOf s) == oldParents.map (treeOf s) then (true, oldTree)
  else
    let oldBase := mergeCommitTrees s oldParents
    let newBase := mergeCommitTrees s nps
    (oldBase == oldTree, merge3 newBase oldBase oldTree)

/-- `should_abandon`: only a single new parent can swallow an emptied commit -/
def abandonOnto (s : Store) (opts : Options) (nps : List Nat) (wasEmpty : Bool) (newTree : List Nat) :
    Option Nat :=
  match nps with
  | [p] =>
    let same := treeOf s p == newTree
    if (opts.empty == 1 && same && !wasEmpty) || (opts.empty == 2 && same) then some p else none
  | _ => none

def descOf (s : Store) (i : Nat) : Nat :=
  match s[i]? with
  | some c => c.desc
  | none => 0

/-- `rebase_commit_with_options` applied to `CommitRewriter::new(repo, old, newParents)` -/
def Repo.rebaseCommit (r : Repo) (old : Nat) (newParents : List Nat) (opts : Options) :
    Repo × Step :=
  let nps := simplifyParents r.store opts newParents
  let wt := rebaseTree r.store old nps
  match abandonOnto r.store opts nps wt.1 wt.2 with
  | some p => ({ r with mapping := r.mapping.insert old (.abandoned nps) }, .abandoned old p)
  | none =>
    let rn := r.writeRewrite old nps (descOf r.store old) wt.2
    (rn.1, .rewritten old rn.2)

/-- one iteration of the `while let Some(old_commit) = to_visit.pop()` loop of
    `transform_commits` with the callback of `rebase_descendants_with_options`:
    compute `new_parents`, rebase only if they changed.  `none` = `new_parents` panicked. -/
def Repo.transformStep (opts : Options) (r : Repo) (old : Nat) : Option (Repo × Option Step) :=
  match newParents r.mapping (parentsOf r.store old) with
  | none => none
  | some nps =>
    if nps != parentsOf r.store old then
      let rs := r.rebaseCommit old nps opts
      some (rs.1, some rs.2)
    else some (r, none)

/-- the loop itself -/
def Repo.transformLoop (opts : Options) : List Nat → Repo → List Step → Option (Repo × List Step)
  | [], r, steps => some (r, steps)
  | old :: rest, r, steps =>
    match r.transformStep opts old with
    | none => none
    | some (r, some st) => Repo.transformLoop opts rest r (steps ++ [st])
    | some (r, none) => Repo.transformLoop opts rest r steps

/-- `rebase_descendants_with_options(immutable, options, progress)` up to (not including) the
    final `parent_mapping.clear()`; the mapping of the result is the complete record of what was
    rewritten or abandoned, by the caller and by the rebase itself. -/
def Repo.rebaseDescendantsCore (r : Repo) (immutable : List Nat) (opts : Options) :
    Except Err (Repo × List Step) :=
  let toVisit := r.findDescendantsForRebase immutable
  match r.orderCommitsForRebase toVisit with
  | none => .error .panic
  | some order =>
    -- `to_visit.pop()` takes from the end of the reversed post-order
    match Repo.transformLoop opts order.reverse r [] with
    | none => .error .panic
    | some (r, steps) =>
      match r.updateRewrittenReferences opts with
      | .error e => .error e
      | .ok r => .ok (r, steps)

/-- `rebase_descendants_with_options` -/
def Repo.rebaseDescendants (r : Repo) (immutable : List Nat) (opts : Options) :
    Except Err (Repo × List Step) :=
  match r.rebaseDescendantsCore immutable opts with
  | .error e => .error e
  | .ok (r, steps) => .ok ({ r with mapping := [] }, steps)

/-! ### C13: merging concurrent operations (`MutableRepo::merge`, `merge_view`, `record_rewrites`,
    `merge_wc_commit`, `RepoLoader::merge_operations`) -/

/-- `diff_named_commit_ids` / `diff_named_ref_targets`: the names (ascending) whose values differ,
    with both values (`none` = not present) -/
def diffNamed {β : Type} [DecidableEq β] (a b : List (Nat × β)) : List (Nat × Option β × Option β) :=
  let names := sortAsc (dedup (a.map (·.1) ++ b.map (·.1)))
  names.filterMap fun n =>
    let x := a.lookup n
    let y := b.lookup n
    if x = y then none else some (n, x, y)

/-- the value `merge_wc_commit` decides on: trivial merge, else removal wins, else the self side -/
def mergeWcValue (selfId baseId otherId : Option Nat) : Option Nat :=
  match trivialMerge [selfId, baseId, otherId] .accept with
  | some r => r
  | none => if selfId.isNone || otherId.isNone then none else selfId

/-- `MutableRepo::merge_wc_commit` -/
def View.mergeWcCommit (v : View) (name : Nat) (baseId otherId : Option Nat) : View :=
  match mergeWcValue (assocGet v.wc name) baseId otherId with
  | some id => { v with wc := assocSet name id v.wc }
  | none => { v with wc := assocErase name v.wc }

/-- what `record_rewrites` records for one removed commit, given the added commits (walk order) -/
def rewriteRecordFor (s : Store) (added : List Nat) (old : Nat) : Option Rewrite :=
  match added.filter fun c => changeOf s c == changeOf s old with
  | [] => none
  | [n] => some (.rewritten n)
  | ns => some (.divergent ns)

/-- first loop of `record_rewrites`: `set_rewritten_commit` / `set_divergent_rewrite` -/
def Repo.recordRewriteStep (added : List Nat) (r : Repo) (old : Nat) : Repo :=
  match rewriteRecordFor r.store added old with
  | some rw => { r with mapping := r.mapping.insert old rw }
  | none => r

/-- second loop: removed commits whose change id does not reappear are abandoned -/
def Repo.recordAbandonStep (added : List Nat) (r : Repo) (old : Nat) : Repo :=
  if added.any fun c => changeOf r.store c == changeOf r.store old then r
  else r.recordAbandoned old

/-- `MutableRepo::record_rewrites(old_heads, new_heads)`: commits only reachable from the old heads
    are matched by change id against commits only reachable from the new heads
    (`walk_revs` yields descending index positions). -/
def Repo.recordRewrites (r : Repo) (oldHeads newHeads : List Nat) : Repo :=
  let ao := ancestors r.store oldHeads
  let an := ancestors r.store newHeads
  let removed := sortDesc (ao.filter fun c => !an.contains c)
  if removed.isEmpty then r
  else
    let added := sortDesc (an.filter fun c => !ao.contains c)
    removed.foldl (Repo.recordAbandonStep added) (removed.foldl (Repo.recordRewriteStep added) r)

def optTarget (t : Option RefTarget) : RefTarget :=
  match t with
  | some t => t
  | none => RefTarget.absent

/-- first phase of `merge_view`: working copies -/
def View.mergeWcs (v : View) (base other : View) : View :=
  (diffNamed base.wc other.wc).foldl
    (fun (v : View) (e : Nat × Option Nat × Option Nat) => v.mergeWcCommit e.1 e.2.1 e.2.2) v

/-- second phase: rewrites/abandons of both sides are recorded, the other side's new heads added -/
def Repo.mergeHeads (r : Repo) (base other : View) : Repo :=
  let ownHeads := r.view.heads
  let r := r.recordRewrites base.heads ownHeads
  let r := r.recordRewrites base.heads other.heads
  { r with view := (other.heads.filter fun h => !base.heads.contains h).foldl View.addHead r.view }

/-- body of the bookmark loop of `merge_view` -/
def Repo.mergeBookmarkStep (r : Repo) (e : Nat × Option RefTarget × Option RefTarget) : Repo :=
  r.mergeLocalBookmark e.1 (optTarget e.2.1) (optTarget e.2.2)

/-- third phase: local bookmarks -/
def Repo.mergeBookmarks (r : Repo) (base other : View) : Repo :=
  (diffNamed base.bookmarks other.bookmarks).foldl Repo.mergeBookmarkStep r

/-- `MutableRepo::merge_view(base, other)` restricted to heads, local bookmarks, working copies -/
def Repo.mergeView (r : Repo) (base other : View) : Repo :=
  let r := { r with view := r.view.mergeWcs base other }
  let r := r.mergeHeads base other
  r.mergeBookmarks base other

/-- `MutableRepo::merge(base_repo, other_repo)`; the index merge is the caller's store append -/
def Repo.merge (r : Repo) (base other : View) : Repo :=
  let r := { r with view := { r.view with heads := normalizeHeads r.store r.view.heads } }
  r.mergeView base other

def defaultOptions : Options := { empty := 0, simplify := false, deleteAbandoned := false }

/-- one side of a concurrent history: the commits it added to the index (parents, predecessors and
    the view refer to *request* ids, translated through `idmap`) and its final view -/
structure Side where
  commits : List Commit
  view : View

def mapId (idmap : List Nat) (q : Nat) : Nat :=
  match idmap[q]? with
  | some i => i
  | none => q

def mapTarget (idmap : List Nat) (t : RefTarget) : RefTarget := t.map fun x => x.map (mapId idmap)

def mapView (idmap : List Nat) (v : View) : View :=
  { heads := v.heads.map (mapId idmap),
    bookmarks := v.bookmarks.map fun e => (e.1, mapTarget idmap e.2),
    wc := v.wc.map fun e => (e.1, mapId idmap e.2) }

/-- `index.merge_in(other)`: the other side's commits are appended in their own order -/
def appendCommits (s : Store) (idmap : List Nat) : List Commit → Store × List Nat
  | [] => (s, idmap)
  | c :: cs =>
    let idmap := idmap ++ [s.length]
    let c' : Commit := { c with parents := c.parents.map (mapId idmap), preds := c.preds.map (mapId idmap),
                                change := mapId idmap c.change }
    appendCommits (s ++ [c']) idmap cs

/-- `RepoLoader::merge_operations([op₀, op₁, …])` for operations that all have the single common
    ancestor `base`: start from `op₀`'s repo, then for each further operation
    `tx.merge_operation(base, opᵢ)` followed by `rebase_descendants()`. -/
def mergeSides (base : View) : Repo → List Nat → List Side → Except Err (Repo × List Nat)
  | r, idmap, [] => .ok (r, idmap)
  | r, idmap, sd :: rest =>
    let (s, idmap) := appendCommits r.store idmap sd.commits
    let r := { r with store := s }
    let r := r.merge base (mapView idmap sd.view)
    match r.rebaseDescendants [] defaultOptions with
    | .error e => .error e
    | .ok (r, _) => mergeSides base r idmap rest

def mergeOperations (baseStore : Store) (base : View) (sides : List Side) : Except Err (Repo × List Nat) :=
  match sides with
  | [] => .ok ({ store := baseStore, view := base, mapping := [] }, List.range baseStore.length)
  | first :: rest =>
    let (s, idmap) := appendCommits baseStore (List.range baseStore.length) first.commits
    mergeSides base { store := s, view := mapView idmap first.view, mapping := [] } idmap rest

end JjModel.Repo
