import JjModel.Model.Index
/-
  Model of how the commit index grows: `MutableCommitIndexSegment::{add_commit_data,
  add_commits_from, merge_in, maybe_squash_with_ancestors}` and `save_in`
  (`lib/src/default_index/mutable.rs`).

  Here entries carry their commit id (a `Nat` chosen by the harness).  An `IdIndex` is the whole
  composite index (all segments flattened, global position order); the segment structure enters
  only where the code looks at it: the walk of `merge_in` down the two stacks of segment files and
  the squash rule.
-/
namespace JjModel.Index

structure IdEntry where
  id : Nat
  parents : List Nat
  gen : Nat
  deriving DecidableEq, Repr

abbrev IdIndex := List IdEntry

/-- forget the ids -/
def toIndex (idx : IdIndex) : Index := idx.map fun e => { parents := e.parents, gen := e.gen }

/-- `commit_id_to_pos` -/
def posOfId : IdIndex → Nat → Option Nat
  | [], _ => none
  | e :: rest, id => if e.id = id then some 0 else (posOfId rest id).map (· + 1)

/-- `entry_by_pos(pos).commit_id()` -/
def idAt (idx : IdIndex) (p : Nat) : Option Nat := idx[p]?.map (·.id)

/-- `add_commit_data`: nothing happens for an indexed id; otherwise the parents are looked up by
id (the source panics with "parent commit is not indexed" if one is missing — the model drops it,
`Props/C18` shows the case does not arise) and the generation number is computed -/
def addCommitData (idx : IdIndex) (id : Nat) (parentIds : List Nat) : IdIndex :=
  if (posOfId idx id).isSome then idx
  else
    let ps := parentIds.filterMap (posOfId idx)
    idx ++ [{ id := id, parents := ps, gen := newGen (toIndex idx) ps }]

/-- parent ids of the entry at a position of `other` (`entry.parents().map(commit_id)`) -/
def parentIdsAt (other : IdIndex) (e : IdEntry) : List Nat := e.parents.filterMap (idAt other)

/-- `add_commits_from` for every segment file from global position `start` of `other` upwards
(`merge_in` and `maybe_squash_with_ancestors` call it file by file, oldest first) -/
def addCommitsFrom (idx other : IdIndex) (start : Nat) : IdIndex :=
  (other.drop start).foldl (fun acc e => addCommitData acc e.id (parentIdsAt other e)) idx

/-- The walk of `merge_in` (`merge_join_by` on the total number of commits, descending, until a
file present in both stacks): `own`, `other` list `(total commits, file id)` of every segment
file child first.  Returns the total number of commits of the common ancestor file, i.e. the
global position from which `other`'s commits are added; `0` if there is no common file. -/
def commonBase : Nat → List (Nat × Nat) → List (Nat × Nat) → Nat
  | 0, _, _ => 0
  | fuel + 1, (n1, i1) :: o1, (n2, i2) :: o2 =>
    if n1 > n2 then commonBase fuel o1 ((n2, i2) :: o2)
    else if n1 < n2 then commonBase fuel ((n1, i1) :: o1) o2
    else if i1 = i2 then n1
    else commonBase fuel o1 o2
  | _ + 1, _, _ => 0

/-- `merge_in(other)` -/
def mergeIn (self : IdIndex) (ownFiles : List (Nat × Nat)) (other : IdIndex) (otherFiles : List (Nat × Nat)) : IdIndex :=
  addCommitsFrom self other (commonBase (ownFiles.length + otherFiles.length + 1) ownFiles otherFiles)

/-- `maybe_squash_with_ancestors` followed by `save_in`, on the local sizes of the segment files:
`levels` = local sizes of the parent files child first, `new` = commits in the mutable segment.
Returns the local sizes of the saved stack, child first. -/
def squashLoop : Nat → List Nat → Nat × List Nat
  | numNew, [] => (numNew, [])
  | numNew, p :: rest => if 2 * numNew < p then (numNew, p :: rest) else squashLoop (numNew + p) rest

def squashSizes (new : Nat) (levels : List Nat) : List Nat :=
  match squashLoop new levels with
  | (0, rest) => rest          -- `save_in`: an empty segment is not written, its parent is returned
  | (n, rest) => n :: rest

end JjModel.Index
