import JjModel.Model.Merge
import JjModel.Model.Diff
/-
  L2 — model of the content merge of `lib/src/files.rs`: `merge_inner`, `resolve_diff_hunks`,
  `merge_hunk_by_word`, `collect_hunks`, `collect_merged`, `collect_resolved`, and the three public
  entry points `merge_hunks`, `merge`, `try_merge`.

  A `Merge<T>` is the list of its interleaved terms (as in `Model/Merge.lean`); `MergeHunk`
  (`Borrowed`/`Owned`) is just such a list of byte strings.  Diffs come from `Model/Diff.lean`,
  trivial resolution from `Model/Merge.lean` (`trivialMerge`, whose specification is C02).
-/
namespace JjModel.Files
open JjModel.Merge JjModel.Diff

/-- `FileMergeHunkLevel` -/
inductive HunkLevel where
  | line | word
  deriving DecidableEq, Repr

/-- `removes.zip_longest(adds)` with `.both().expect(..)`, flattened to `[remove, add, …]` -/
def interleave {β : Type} : List β → List β → List β
  | r :: rs, a :: as => r :: a :: interleave rs as
  | _, _ => []   -- a length mismatch panics in the source

/-- `Merge::from_removes_adds` -/
def fromRemovesAdds {β : Type} (removes adds : List β) : List β :=
  match adds with
  | [] => []   -- `expect("must have at least one add")`
  | a :: as => a :: interleave removes as

/-- `resolve_diff_hunks`: one `Merge<&BStr>` per diff hunk -/
def resolveDiffHunks (hunks : List (HunkKind × List Bytes)) (numDiffs : Nat) (sc : SameChange) :
    List (List Bytes) :=
  hunks.map fun h =>
    match h.1 with
    | .matching => [h.2.getD 0 []]
    | .different =>
      let m := fromRemovesAdds (h.2.take numDiffs) (h.2.drop numDiffs)
      match trivialMerge m sc with
      | some c => [c]
      | none => m

/-- `MergeHunk::as_resolved` -/
def asResolved (h : List Bytes) : Option Bytes :=
  match h with
  | [c] => some c
  | _ => none

/-- `collect_resolved` -/
def collectResolved : List (List Bytes) → Option Bytes
  | [] => some []
  | h :: hs =>
    match asResolved h, collectResolved hs with
    | some c, some rest => some (c ++ rest)
    | _, _ => none

/-- `MergeResult` -/
inductive MergeResult where
  | resolved (content : Bytes)
  | conflict (hunks : List (List Bytes))
  deriving DecidableEq, Repr

/-- the loop of `collect_hunks`; state `(resolved_hunk, merge_hunks)` -/
def collectHunksGo : List (List Bytes) → Bytes → List (List Bytes) → Bytes × List (List Bytes)
  | [], cur, acc => (cur, acc)
  | h :: hs, cur, acc =>
    match asResolved h with
    | some c => collectHunksGo hs (cur ++ c) acc
    | none =>
      if !cur.isEmpty then collectHunksGo hs [] (acc ++ [[cur], h])
      else collectHunksGo hs [] (acc ++ [h])

/-- `collect_hunks` -/
def collectHunks (hunks : List (List Bytes)) : MergeResult :=
  let r := collectHunksGo hunks [] []
  if r.2.isEmpty then .resolved r.1
  else if !r.1.isEmpty then .conflict (r.2 ++ [[r.1]])
  else .conflict r.2

/-- `match maybe_resolved.into_resolved() { Ok(content) => vec![content; n], Err(conflict) => conflict }` -/
def expandResolved (acc : List Bytes) (n : Nat) : List Bytes :=
  match acc with
  | [content] => List.replicate n content
  | conflict => conflict

/-- the loop of `collect_merged`; state `maybe_resolved`; `none` = the `assert_eq!` on lengths fires -/
def collectMergedGo : List (List Bytes) → List Bytes → Option (List Bytes)
  | [], acc => some acc
  | h :: hs, acc =>
    match asResolved h with
    | some c => collectMergedGo hs (acc.map (· ++ c))
    | none =>
      let acc' := expandResolved acc h.length
      if acc'.length = h.length then collectMergedGo hs (List.zipWith (· ++ ·) acc' h)
      else none

/-- `collect_merged` -/
def collectMerged (hunks : List (List Bytes)) : Option (List Bytes) := collectMergedGo hunks [[]]

/-- the diff inputs of a merge: `inputs.removes().chain(inputs.adds())` -/
def diffInputs (terms : List Bytes) : List Bytes := removes terms ++ adds terms

/-- `ContentDiff::by_line` / `by_word` followed by `resolve_diff_hunks` -/
def resolvedHunks (steps : List (Tokenizer × Compare)) (terms : List Bytes) (sc : SameChange) :
    List (List Bytes) :=
  match build (diffInputs terms) steps with
  | none => []   -- only for an empty term list (`Merge` is never empty)
  | some d => resolveDiffHunks d.hunks (removes terms).length sc

def byLine : List (Tokenizer × Compare) := [(.line, .exact)]
def byWord : List (Tokenizer × Compare) := [(.word, .exact), (.nonword, .exact)]

/-- `merge_hunk_by_word` -/
def mergeHunkByWord (hunk : List Bytes) (sc : SameChange) : List Bytes :=
  match hunk with
  | [_] => hunk
  | _ =>
    match collectResolved (resolvedHunks byWord hunk sc) with
    | some content => [content]
    | none => hunk

/-- the hunk stream handed to `B::from_hunks` by `merge_inner` -/
def mergeInnerHunks (terms : List Bytes) (level : HunkLevel) (sc : SameChange) : List (List Bytes) :=
  let hunks := resolvedHunks byLine terms sc
  match level with
  | .line => hunks
  | .word => hunks.map fun h => mergeHunkByWord h sc

/-- `files::merge_hunks` -/
def mergeHunks (terms : List Bytes) (level : HunkLevel) (sc : SameChange) : MergeResult :=
  collectHunks (mergeInnerHunks terms level sc)

/-- `files::merge`; `none` = panic -/
def merge (terms : List Bytes) (level : HunkLevel) (sc : SameChange) : Option (List Bytes) :=
  collectMerged (mergeInnerHunks terms level sc)

/-- `files::try_merge` -/
def tryMerge (terms : List Bytes) (level : HunkLevel) (sc : SameChange) : Option Bytes :=
  collectResolved (mergeInnerHunks terms level sc)

/-! ### run-time checkable hypothesis of the identity theorem (`Props/C04.lean`) -/

/-- In every hunk, equal inputs have equal slices (`SlicesRespectEquality`). -/
def sreb (d : ContentDiff) : Bool :=
  d.hunks.all fun hk =>
    (List.range d.inputs.length).all fun i =>
      (List.range d.inputs.length).all fun j =>
        if d.inputs.getD i [] = d.inputs.getD j [] then decide (hk.2.getD i [] = hk.2.getD j []) else true

/-- the hypothesis evaluated on the line diff that `merge_inner` computes for `terms` -/
def lineDiffSre (terms : List Bytes) : Bool :=
  match build (diffInputs terms) byLine with
  | none => false
  | some d => sreb d

end JjModel.Files
