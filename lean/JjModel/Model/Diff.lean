/-
  L2 — model of `core/src/diff.rs` (re-exported as `jj_lib::diff`): tokenizers, `CompareBytes`
  variants, histogram, `find_lcs`, `collect_unchanged_words`, `intersect_unchanged_words`,
  `ContentDiff::{for_tokenizer, refine_changed_regions, compact_unchanged_regions}`, and the
  hunk (range) iterator.

  Conventions of the model
  * bytes are `List UInt8`; a Rust `Range<usize>` is `Rng` (`lo..hi`);
  * an `UnchangedRange { base, others }` is the list `base :: others` (a `Region`), and the
    inputs of a diff are the list `base_input :: other_inputs`.  The Rust code treats the base and
    the others in lock-step (`iter::zip`), so nothing is lost;
  * hash values are omitted.  The code uses them only as a pre-filter in front of `compare.eq`
    (`eq_hashed`, `HashTable::entry/find`), and the `CompareBytes` contract
    `eq(l, r) ⇒ hash(l) = hash(r)` holds for the three comparators (both are functions of the
    normalised byte stream).  Words are therefore represented by their *normalised* byte string
    (`Compare.norm`), on which `eq` is plain equality;
  * the `HashTable` of a histogram is an association list in first-occurrence order; the random
    `RandomState` seed of the source can only change that order (see `Props/C03.lean`,
    `serial_order_irrelevant`);
  * `Vec` out-parameters (`found_positions`) become returned lists that are appended;
  * recursion of `collect_unchanged_words` is by fuel.
  Import-free on purpose: the driver executable links this file.
-/
namespace JjModel.Diff

abbrev Bytes := List UInt8

/-- `Range<usize>` -/
structure Rng where
  lo : Nat
  hi : Nat
  deriving DecidableEq, Repr, Inhabited

/-- `Range::is_empty` -/
def Rng.isEmpty (r : Rng) : Bool := decide (r.hi ≤ r.lo)

/-- `&text[range]` -/
def slice {β : Type} (t : List β) (r : Rng) : List β := (t.drop r.lo).take (r.hi - r.lo)

/-! ### tokenizers -/

/-- `find_line_ranges`: `split_inclusive(b'\n')` with running offsets.
`start` = offset of the current line, `pos` = offset of the next byte. -/
def lineRangesFrom : Bytes → Nat → Nat → List Rng
  | [], start, pos => if start < pos then [⟨start, pos⟩] else []
  | b :: rest, start, pos =>
    if b = 10 then ⟨start, pos + 1⟩ :: lineRangesFrom rest (pos + 1) (pos + 1)
    else lineRangesFrom rest start (pos + 1)

def findLineRanges (t : Bytes) : List Rng := lineRangesFrom t 0 0

/-- `is_word_byte`: `A-Z a-z 0-9 _` and `0x80..=0xff` -/
def isWordByte (b : UInt8) : Bool :=
  (65 ≤ b && b ≤ 90) || (97 ≤ b && b ≤ 122) || (48 ≤ b && b ≤ 57) || b == 95 || 128 ≤ b

/-- the loop of `find_word_ranges`; state `(i, word_start_pos, in_word)` -/
def wordRangesFrom : Bytes → Nat → Nat → Bool → List Rng
  | [], i, start, inWord => if inWord && decide (start < i) then [⟨start, i⟩] else []
  | b :: rest, i, start, inWord =>
    if inWord && !isWordByte b then ⟨start, i⟩ :: wordRangesFrom rest (i + 1) i false
    else if !inWord && isWordByte b then wordRangesFrom rest (i + 1) i true
    else wordRangesFrom rest (i + 1) start inWord

def findWordRanges (t : Bytes) : List Rng := wordRangesFrom t 0 0 false

/-- `find_nonword_ranges` -/
def nonwordRangesFrom : Bytes → Nat → List Rng
  | [], _ => []
  | b :: rest, i =>
    if !isWordByte b then ⟨i, i + 1⟩ :: nonwordRangesFrom rest (i + 1)
    else nonwordRangesFrom rest (i + 1)

def findNonwordRanges (t : Bytes) : List Rng := nonwordRangesFrom t 0

/-- The tokenizers reachable through the public constructors; `none` is the `|_| vec![]` of
`ContentDiff::unrefined`. -/
inductive Tokenizer where
  | line | word | nonword | none
  deriving DecidableEq, Repr

def Tokenizer.run : Tokenizer → Bytes → List Rng
  | .line, t => findLineRanges t
  | .word, t => findWordRanges t
  | .nonword, t => findNonwordRanges t
  | .none, _ => []

/-! ### `CompareBytes` -/

/-- `u8::is_ascii_whitespace`: space, `\t`, `\n`, form feed, `\r` -/
def isAsciiWhitespace (b : UInt8) : Bool := b == 32 || b == 9 || b == 10 || b == 12 || b == 13

/-- `bytes_ignore_all_whitespace` -/
def normAllWs (t : Bytes) : Bytes := t.filter (fun b => !isAsciiWhitespace b)

/-- `bytes_ignore_whitespace_amount`, state `prev_was_space` -/
def normWsAmountFrom : Bool → Bytes → Bytes
  | _, [] => []
  | prev, b :: rest =>
    if isAsciiWhitespace b then
      (if prev then normWsAmountFrom true rest else 32 :: normWsAmountFrom true rest)
    else b :: normWsAmountFrom false rest

def normWsAmount (t : Bytes) : Bytes := normWsAmountFrom false t

inductive Compare where
  | exact | ignoreAllWs | ignoreWsAmount
  deriving DecidableEq, Repr

/-- the byte stream on which the comparator's `eq` (iterator equality) and `hash` work -/
def Compare.norm : Compare → Bytes → Bytes
  | .exact, t => t
  | .ignoreAllWs, t => normAllWs t
  | .ignoreWsAmount, t => normWsAmount t

/-- `CompareBytes::eq` -/
def Compare.eq (c : Compare) (l r : Bytes) : Bool := decide (c.norm l = c.norm r)

/-! ### histogram -/
section Core
variable {α : Type} [DecidableEq α]

/-- `HashTable<(word, positions)>` in first-occurrence order -/
abbrev Hist (α : Type) := List (α × List Nat)

/-- `max_occurrences` of `collect_unchanged_words_lcs` -/
def maxOccurrences : Nat := 100

/-- `.entry(word).and_modify(push if len ≤ max).or_insert([pos])` -/
def histAdd (maxOcc : Nat) (w : α) (pos : Nat) : Hist α → Hist α
  | [] => [(w, [pos])]
  | (v, ps) :: rest =>
    if v = w then (v, if ps.length ≤ maxOcc then ps ++ [pos] else ps) :: rest
    else (v, ps) :: histAdd maxOcc w pos rest

def histFrom (maxOcc : Nat) : List α → Nat → Hist α → Hist α
  | [], _, h => h
  | w :: ws, i, h => histFrom maxOcc ws (i + 1) (histAdd maxOcc w i h)

/-- `Histogram::calculate` -/
def histogram (maxOcc : Nat) (words : List α) : Hist α := histFrom maxOcc words 0 []

/-- one insertion into the `BTreeMap<usize, Vec<&Entry>>` of `build_count_to_entries` -/
def groupInsert (e : α × List Nat) : List (Nat × List (α × List Nat)) → List (Nat × List (α × List Nat))
  | [] => [(e.2.length, [e])]
  | (c, es) :: rest =>
    if e.2.length < c then (e.2.length, [e]) :: (c, es) :: rest
    else if e.2.length = c then (c, es ++ [e]) :: rest
    else (c, es) :: groupInsert e rest

/-- `Histogram::build_count_to_entries`: ascending by count, entries in table order -/
def countToEntries (h : Hist α) : List (Nat × List (α × List Nat)) :=
  h.foldl (fun acc e => groupInsert e acc) []

/-- `Histogram::positions_by_word` -/
def positionsByWord (h : Hist α) (w : α) : Option (List Nat) :=
  match h with
  | [] => none
  | (v, ps) :: rest => if v = w then some ps else positionsByWord rest w

/-- the `filter_map` over the left entries of one count -/
def sharedPositions (rightHist : Hist α) (entries : List (α × List Nat)) : List (List Nat × List Nat) :=
  entries.filterMap fun e =>
    match positionsByWord rightHist e.1 with
    | some rps => if e.2.length = rps.length then some (e.2, rps) else none
    | none => none

/-- `left_count_to_entries.values().find_map(…peek().is_some()…)` -/
def uncommonShared (rightHist : Hist α) : List (Nat × List (α × List Nat)) → Option (List (List Nat × List Nat))
  | [] => none
  | (_, entries) :: rest =>
    let bp := sharedPositions rightHist entries
    if bp.isEmpty then uncommonShared rightHist rest else some bp

end Core

/-- `.enumerate()` producing `(pos, serial)` pairs -/
def withSerialFrom : Nat → List Nat → List (Nat × Nat)
  | _, [] => []
  | s, p :: ps => (p, s) :: withSerialFrom (s + 1) ps

def insertByFst (x : Nat × Nat) : List (Nat × Nat) → List (Nat × Nat)
  | [] => [x]
  | y :: ys => if x.1 ≤ y.1 then x :: y :: ys else y :: insertByFst x ys

/-- `sort_unstable_by_key(|(pos, _)| pos)`; the keys are distinct word positions, so every
sorting algorithm gives the same result. -/
def sortByFst (l : List (Nat × Nat)) : List (Nat × Nat) := l.foldr insertByFst []

/-- `left_index_map[serial]` -/
def idxOfSerial (s : Nat) : List (Nat × Nat) → Nat
  | [] => 0
  | (_, t) :: rest => if t = s then 0 else idxOfSerial s rest + 1

/-- `left_index_by_right_index` -/
def leftIndexByRightIndex (leftPositions rightPositions : List (Nat × Nat)) : List Nat :=
  rightPositions.map fun p => idxOfSerial p.2 leftPositions

/-! ### `find_lcs` -/

/-- one element of `chain`: `(len, left_pos, previous_right_pos)`; `usize::MAX` is `none` -/
structure ChainEnt where
  len : Nat
  leftPos : Nat
  prev : Option Nat
  deriving Repr

/-- The inner `for i in (0..right_pos).rev()` loop.  The first argument is `chain[0..=i]`
reversed (head = `chain[i]`); the state is
`(longest_from_here, previous_right_pos, global_longest, global_longest_right_pos)`. -/
def lcsInner (leftPos rightPos : Nat) : List ChainEnt → Nat → Nat → Option Nat → Nat → Nat →
    Nat × Option Nat × Nat × Nat
  | [], _, lfh, pr, gl, glr => (lfh, pr, gl, glr)
  | e :: older, i, lfh, pr, gl, glr =>
    if e.leftPos < leftPos then
      let len := e.len + 1
      if len > lfh then
        if len > gl then (len, some i, len, rightPos)  -- `break`
        else lcsInner leftPos rightPos older (i - 1) len (some i) gl glr
      else lcsInner leftPos rightPos older (i - 1) lfh pr gl glr
    else lcsInner leftPos rightPos older (i - 1) lfh pr gl glr

/-- The outer `for (right_pos, &left_pos) in input.iter().enumerate()` loop.  `rc` is the part of
`chain` filled so far, reversed.  Returns the reversed chain and `global_longest_right_pos`. -/
def lcsOuter : List Nat → Nat → List ChainEnt → Nat → Nat → List ChainEnt × Nat
  | [], _, rc, _, glr => (rc, glr)
  | lp :: rest, rp, rc, gl, glr =>
    let r := lcsInner lp rp rc (rp - 1) 1 none gl glr
    lcsOuter rest (rp + 1) (⟨r.1, lp, r.2.1⟩ :: rc) r.2.2.1 r.2.2.2

/-- The back-tracking `loop` (the result is built by prepending instead of push + reverse).
Fuel: `previous_right_pos < right_pos`, so `chain.length` steps suffice. -/
def lcsBacktrack (chain : List ChainEnt) : Nat → Nat → List (Nat × Nat) → List (Nat × Nat)
  | 0, _, acc => acc
  | f + 1, rp, acc =>
    match chain[rp]? with
    | none => acc
    | some e =>
      match e.prev with
      | none => (e.leftPos, rp) :: acc
      | some p => lcsBacktrack chain f p ((e.leftPos, rp) :: acc)

/-- `find_lcs` -/
def findLcs (input : List Nat) : List (Nat × Nat) :=
  if input.isEmpty then []
  else
    let r := lcsOuter input 0 [] 0 0
    let chain := r.1.reverse
    lcsBacktrack chain chain.length r.2 []

/-! ### `collect_unchanged_words` -/
section Core
variable {α : Type} [DecidableEq α]

/-- `LocalDiffSource::narrowed(a..b)` on the word list -/
def narrow (l : List α) (a b : Nat) : List α := (l.drop a).take (b - a)

/-- `zip(..).take_while(eq).count()` -/
def commonPrefixLen : List α → List α → Nat
  | a :: as, b :: bs => if a = b then commonPrefixLen as bs + 1 else 0
  | _, _ => 0

/-- The leading/trailing fallback of `collect_unchanged_words`.
`lo`/`ro` are the `global_offset`s of the two local sources. -/
def leadingTrailing (left right : List α) (lo ro : Nat) : List (Nat × Nat) :=
  let lead := commonPrefixLen left right
  let trail := commonPrefixLen (left.drop lead).reverse (right.drop lead).reverse
  (List.range lead).map (fun i => (lo + i, ro + i)) ++
  (List.range trail).map (fun k => (lo + (left.length - (trail - k)), ro + (right.length - (trail - k))))

/-- The `for (left_index, right_index) in lcs` loop of `collect_unchanged_words_lcs` plus the final
recursion into the tail.  `rec` is `collect_unchanged_words` (one fuel unit less). -/
def lcsWalk (rec : List α → List α → Nat → Nat → List (Nat × Nat)) (left right : List α) (lo ro : Nat)
    (leftPositions rightPositions : List (Nat × Nat)) : List (Nat × Nat) → Nat → Nat → List (Nat × Nat)
  | [], pl, pr =>
    rec (narrow left pl left.length) (narrow right pr right.length) (lo + pl) (ro + pr)
  | (li, ri) :: rest, pl, pr =>
    let lp := (leftPositions.getD li (0, 0)).1
    let rp := (rightPositions.getD ri (0, 0)).1
    rec (narrow left pl lp) (narrow right pr rp) (lo + pl) (ro + pr)
      ++ (lo + lp, ro + rp) :: lcsWalk rec left right lo ro leftPositions rightPositions rest (lp + 1) (rp + 1)

/-- `collect_unchanged_words_lcs`; `[]` where the source returns without pushing. -/
def collectLcs (rec : List α → List α → Nat → Nat → List (Nat × Nat)) (left right : List α)
    (lo ro : Nat) : List (Nat × Nat) :=
  let leftHist := histogram maxOccurrences left
  let groups := countToEntries leftHist
  match groups with
  | [] => []   -- `unwrap()` on an empty map: unreachable, `left` is non-empty
  | (minCount, _) :: _ =>
    if minCount > maxOccurrences then []
    else
      let rightHist := histogram maxOccurrences right
      match uncommonShared rightHist groups with
      | none => []
      | some both =>
        let pairs := both.flatMap fun p => p.1.zip p.2
        let leftPositions := sortByFst (withSerialFrom 0 (pairs.map Prod.fst))
        let rightPositions := sortByFst (withSerialFrom 0 (pairs.map Prod.snd))
        let lcs := findLcs (leftIndexByRightIndex leftPositions rightPositions)
        lcsWalk rec left right lo ro leftPositions rightPositions lcs 0 0

/-- `collect_unchanged_words` on two local sources given as word lists with their global offsets. -/
def collectUnchangedWords : Nat → List α → List α → Nat → Nat → List (Nat × Nat)
  | 0, _, _, _, _ => []
  | fuel + 1, left, right, lo, ro =>
    if left.isEmpty || right.isEmpty then []
    else
      let viaLcs := collectLcs (collectUnchangedWords fuel) left right lo ro
      if !viaLcs.isEmpty then viaLcs
      else leadingTrailing left right lo ro

/-- Every level of the recursion removes at least one word from both sides. -/
def collectFuel (left right : List α) : Nat := min left.length right.length + 1

/-- unchanged word positions between a base and another source -/
def unchangedWords (left right : List α) : List (Nat × Nat) :=
  collectUnchangedWords (collectFuel left right) left right 0 0

end Core

/-- `intersect_unchanged_words`: `merge_join_by` on the base position, keeping `both`.
For every current entry `(b, os)` the new entries with a smaller base position are skipped
(`Left`/`Right` items of the merge join are dropped); on a tie the other position is appended. -/
def intersectUnchangedWords : List (Nat × List Nat) → List (Nat × Nat) → List (Nat × List Nat)
  | [], _ => []
  | (b, os) :: cs, new =>
    match new.dropWhile (fun p => p.1 < b) with
    | [] => []
    | (nb, no) :: ns =>
      if nb = b then (b, os ++ [no]) :: intersectUnchangedWords cs ns
      else intersectUnchangedWords cs ((nb, no) :: ns)

/-! ### `ContentDiff` -/

/-- `UnchangedRange`: `base :: others` -/
abbrev Region := List Rng

/-- `UnchangedRange::is_all_empty` -/
def isAllEmpty (r : Region) : Bool := r.all Rng.isEmpty

/-- `DiffSource`: text and token ranges (hashes omitted) -/
structure Source where
  text : Bytes
  ranges : List Rng

/-- the words of a source under a comparator (normalised token texts) -/
def Source.words (c : Compare) (s : Source) : List Bytes := s.ranges.map fun r => c.norm (slice s.text r)

/-- `DiffSource::range_at` -/
def Source.rangeAt (s : Source) (p : Nat) : Rng := s.ranges.getD p ⟨0, 0⟩

/-- `UnchangedRange::from_word_positions` -/
def fromWordPositions (base : Source) (others : List Source) (bpos : Nat) (opos : List Nat) : Region :=
  base.rangeAt bpos :: List.zipWith Source.rangeAt others opos

/-- `previous.end == current.start` on every side -/
def adjacent (prev cur : Region) : Bool := (List.zipWith (fun p c => decide (p.hi = c.lo)) prev cur).all id

def mergeRegion (prev cur : Region) : Region := List.zipWith (fun p c => (⟨p.lo, c.hi⟩ : Rng)) prev cur

/-- the loop of `compact_unchanged_regions` with its `maybe_previous` state -/
def compactGo : Option Region → List Region → List Region
  | none, [] => []
  | some prev, [] => [prev]
  | none, cur :: rest => compactGo (some cur) rest
  | some prev, cur :: rest =>
    if adjacent prev cur then compactGo (some (mergeRegion prev cur)) rest
    else prev :: compactGo (some cur) rest

/-- `compact_unchanged_regions` -/
def compact (regions : List Region) : List Region := compactGo none regions

structure ContentDiff where
  /-- `base_input :: other_inputs` -/
  inputs : List Bytes
  /-- `unchanged_regions` -/
  regions : List Region

/-- the uncompacted `unchanged_regions` of `with_inputs_and_token_ranges` -/
def rawRegions (c : Compare) (base : Source) (others : List Source) : List Region :=
  match others with
  | [] => [[⟨0, base.text.length⟩]]
  | first :: tail =>
    let start : Region := ⟨0, 0⟩ :: others.map fun _ => ⟨0, 0⟩
    let baseWords := base.words c
    let firstPositions := unchangedWords baseWords (first.words c)
    let middle : List Region :=
      if tail.isEmpty then
        firstPositions.map fun p => fromWordPositions base others p.1 [p.2]
      else
        let init : List (Nat × List Nat) := firstPositions.map fun p => (p.1, [p.2])
        let intersected := tail.foldl
          (fun cur other => intersectUnchangedWords cur (unchangedWords baseWords (other.words c))) init
        intersected.map fun p => fromWordPositions base others p.1 p.2
    let stop : Region := ⟨base.text.length, base.text.length⟩ ::
      others.map fun o => ⟨o.text.length, o.text.length⟩
    start :: middle ++ [stop]

/-- token ranges chosen by `for_tokenizer` (none at all when some input is empty) -/
def tokenize (tok : Tokenizer) (inputs : List Bytes) : List Source :=
  if inputs.any List.isEmpty then inputs.map fun t => ⟨t, []⟩
  else inputs.map fun t => ⟨t, tok.run t⟩

/-- `ContentDiff::for_tokenizer`; `none` = `expect("inputs must not be empty")` -/
def forTokenizer (inputs : List Bytes) (tok : Tokenizer) (c : Compare) : Option ContentDiff :=
  match tokenize tok inputs with
  | [] => none
  | base :: others => some ⟨inputs, compact (rawRegions c base others)⟩

/-- the ranges of `hunk_between` -/
def between (prev cur : Region) : Region := List.zipWith (fun p c => (⟨p.hi, c.lo⟩ : Rng)) prev cur

def shiftRegion (prev refined : Region) : Region :=
  List.zipWith (fun r p => (⟨r.lo + p.hi, r.hi + p.hi⟩ : Rng)) refined prev

/-- the `for window in unchanged_regions.windows(2)` loop of `refine_changed_regions` -/
def refineGo (inputs : List Bytes) (tok : Tokenizer) (c : Compare) (prev : Region) : List Region → List Region
  | [] => []
  | cur :: rest =>
    let contents := List.zipWith slice inputs (between prev cur)
    let refined := match forTokenizer contents tok c with
      | some d => d.regions
      | none => []
    refined.map (shiftRegion prev) ++ cur :: refineGo inputs tok c cur rest

/-- `ContentDiff::refine_changed_regions` -/
def ContentDiff.refine (d : ContentDiff) (tok : Tokenizer) (c : Compare) : ContentDiff :=
  match d.regions with
  | [] => d   -- `self.unchanged_regions[0]` would panic; never empty
  | first :: rest => ⟨d.inputs, compact (first :: refineGo d.inputs tok c first rest)⟩

/-! ### hunks -/

inductive HunkKind where
  | matching | different
  deriving DecidableEq, Repr

/-- `DiffHunkRange` -/
structure HunkRange where
  kind : HunkKind
  ranges : Region
  deriving DecidableEq, Repr

/-- `DiffHunkRangeIterator` after the first region: for every further region emit the
`hunk_between`, then the region itself unless it `is_all_empty`. -/
def hunksFrom (prev : Region) : List Region → List HunkRange
  | [] => []
  | cur :: rest =>
    ⟨.different, between prev cur⟩ ::
      (if isAllEmpty cur then hunksFrom cur rest else ⟨.matching, cur⟩ :: hunksFrom cur rest)

/-- `ContentDiff::hunk_ranges().collect()` -/
def hunkRangesOf : List Region → List HunkRange
  | [] => []   -- `unchanged_iter.next().unwrap()`; never empty
  | first :: rest =>
    if isAllEmpty first then hunksFrom first rest else ⟨.matching, first⟩ :: hunksFrom first rest

def ContentDiff.hunkRanges (d : ContentDiff) : List HunkRange := hunkRangesOf d.regions

/-- `ContentDiff::hunks()`: the contents of every hunk, one slice per input -/
def ContentDiff.hunks (d : ContentDiff) : List (HunkKind × List Bytes) :=
  d.hunkRanges.map fun h => (h.kind, List.zipWith slice d.inputs h.ranges)

/-- One step of the public construction API: the first pair is `for_tokenizer`, the others are
`refine_changed_regions` calls.  `by_line = [(line, exact)]`,
`by_word = [(word, exact), (nonword, exact)]`, `unrefined = [(none, exact)]`,
`diff() = [(line, exact), (word, exact), (nonword, exact)]`. -/
def build (inputs : List Bytes) : List (Tokenizer × Compare) → Option ContentDiff
  | [] => none
  | (t, c) :: steps =>
    (forTokenizer inputs t c).map fun d => steps.foldl (fun d s => d.refine s.1 s.2) d

/-! ### run-time checkable well-formedness (used by the driver on every request) -/

/-- side `i` of every region -/
def side (i : Nat) (regions : List Region) : List Rng := regions.map fun r => r.getD i ⟨0, 0⟩

/-- `lo ≤ hi` everywhere, consecutive ranges do not overlap, the last one ends at `len` -/
def chainOK (len : Nat) : Nat → List Rng → Bool
  | pos, [] => decide (pos = len)
  | pos, r :: rest => decide (pos ≤ r.lo) && decide (r.lo ≤ r.hi) && chainOK len r.hi rest

/-- one side: starts at `0`, sorted, non-overlapping, ends at `len` -/
def sideOK (len : Nat) : List Rng → Bool
  | [] => false
  | r :: rest => decide (r.lo = 0) && decide (r.lo ≤ r.hi) && chainOK len r.hi rest

/-- `RegionsWF` as a Boolean: every region has one range per input and every side is a sorted,
non-overlapping, in-bounds chain from `0` to the input's length. -/
def regionsWFb (inputs : List Bytes) (regions : List Region) : Bool :=
  regions.all (fun r => r.length == inputs.length) &&
  (List.range inputs.length).all fun i => sideOK (inputs.getD i []).length (side i regions)

/-- no region other than the first and the last is empty on every side -/
def interiorNonEmptyb : List Region → Bool
  | [] => true
  | _ :: rest => (rest.dropLast).all fun r => !isAllEmpty r

/-- no two consecutive regions touch on every side -/
def compactedb : List Region → Bool
  | [] => true
  | [_] => true
  | p :: c :: rest => !adjacent p c && compactedb (c :: rest)

/-- all sides of a region are equal under the comparison -/
def regionMatches (c : Compare) (inputs : List Bytes) (r : Region) : Bool :=
  match List.zipWith slice inputs r with
  | [] => true
  | b :: os => os.all fun o => c.eq b o

end JjModel.Diff
