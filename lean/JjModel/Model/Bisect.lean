import JjModel.Model.Dag
/-!
  Model of `lib/src/bisect.rs` (`Bisector`) and of the revset engine's `bisect()` function
  (`lib/src/default_index/revset_engine.rs`, `ResolvedExpression::Bisect`).

  Commits are index positions of a `Dag.Graph`; revsets stream positions in descending order.
  `R` is the evaluated input range (any set of positions).
-/
namespace JjModel.Bisect
open JjModel.Dag

/-- `Bisector { good_commits, bad_commits, skipped_commits }` (hash sets; order irrelevant) -/
structure State where
  good : List Nat
  bad : List Nat
  skipped : List Nat
deriving Repr, DecidableEq

/-- `bisect::Evaluation` (without `Abort`, which only stops the run) -/
inductive Eval | good | bad | skip
deriving Repr, DecidableEq

/-- `bisect::BisectionResult` (without `Abort`) -/
inductive Result
  | found (bad : List Nat)
  | foundDespiteSkips (bad possiblyBad : List Nat)
  | indeterminate
deriving Repr, DecidableEq

/-- `bisect::NextStep` -/
inductive Step
  | evaluate (c : Nat)
  | done (r : Result)
deriving Repr, DecidableEq

/-- `Bisector::new`: the heads of the range are assumed bad. -/
def init (A : List (List Nat)) (n : Nat) (R : List Nat) : State :=
  { good := [], bad := headsOf A n R, skipped := [] }

/-- `Bisector::mark` -/
def mark (st : State) (c : Nat) : Eval → State
  | .good => { st with good := c :: st.good }
  | .bad => { st with bad := c :: st.bad }
  | .skip => { st with skipped := c :: st.skipped }

/-- `Bisector::candidates`:
`input_range & (heads(good)..roots(bad)) ~ bad ~ skipped`, where
`x..y = ::y ~ ::x` — streamed in descending position order. -/
def candidates (A : List (List Nat)) (n : Nat) (R : List Nat) (st : State) : List Nat :=
  let rb := rootsOf A n st.bad
  let hg := headsOf A n st.good
  descFilter n fun c =>
    R.contains c && isAncOfAny A rb c && !isAncOfAny A hg c && !st.bad.contains c
      && !st.skipped.contains c

/-- the engine's `bisect(x)`: the element at index `len/2` of `x` in descending position order
(`vec![candidate_positions[candidate_positions.len() / 2]]`); `latest(1)` of a singleton is itself. -/
def bisectPick (cs : List Nat) : Option Nat := cs[cs.length / 2]?

/-- skipped parents of the commits in `xs`, in queue order -/
def skippedParents (G : Graph) (sk : List Nat) (xs : List Nat) : List Nat :=
  xs.flatMap fun c => (parents G c).filter fun p => sk.contains p

/-- the `todo` queue loop of `next_step`, level by level (the queue is FIFO, so the pushes of one
level are exactly `skippedParents` of the previous level, in order; no visited set, as in the code) -/
def possiblyBad (G : Graph) (sk : List Nat) : Nat → List Nat → List Nat → List Nat
  | 0, _, acc => acc
  | f + 1, level, acc =>
    let nx := skippedParents G sk level
    if nx.isEmpty then acc else possiblyBad G sk f nx (acc ++ nx)

/-- the `else` branch of `next_step`: no candidate left -/
def result (G : Graph) (A : List (List Nat)) (n : Nat) (st : State) : Result :=
  let rb := rootsOf A n st.bad
  if rb.isEmpty then .indeterminate
  else
    let pb := possiblyBad G st.skipped n rb []
    if pb.isEmpty then .found rb else .foundDespiteSkips rb pb

/-- `Bisector::next_step` -/
def nextStep (G : Graph) (A : List (List Nat)) (n : Nat) (R : List Nat) (st : State) : Step :=
  match bisectPick (candidates A n R st) with
  | some c => .evaluate c
  | none => .done (result G A n st)

/-- outcome of testing commit `c`: `Sk` = commits that cannot be tested, `B` = bad commits -/
def verdict (B Sk : List Nat) (c : Nat) : Eval :=
  if Sk.contains c then .skip else if B.contains c then .bad else .good

/-- evaluation sequence and final result (`none`: fuel exhausted) -/
structure Trace where
  evals : List Nat
  result : Option Result
deriving Repr, DecidableEq

/-- drive the bisector to completion -/
def runFrom (G : Graph) (A : List (List Nat)) (n : Nat) (R B Sk : List Nat) :
    Nat → State → List Nat → Trace
  | 0, _, acc => { evals := acc.reverse, result := none }
  | f + 1, st, acc =>
    match nextStep G A n R st with
    | .done r => { evals := acc.reverse, result := some r }
    | .evaluate c => runFrom G A n R B Sk f (mark st c (verdict B Sk c)) (c :: acc)

/-- whole bisection of range `R` in graph `G` with bad set `B` and untestable set `Sk` -/
def run (G : Graph) (R B Sk : List Nat) : Trace :=
  let A := ancTable G
  let n := G.length
  runFrom G A n R B Sk (n + 1) (init A n R) []

/-- the earliest bad commits of the range (specification side): in `R`, bad, and no other commit
of `R` that is an ancestor is bad — descending order -/
def minimalBad (G : Graph) (R B : List Nat) : List Nat :=
  let A := ancTable G
  descFilter G.length fun c =>
    R.contains c && B.contains c && !(R.any fun a => a != c && B.contains a && isAnc A a c)

end JjModel.Bisect
