import JjModel.Generated.ConstsEol
/-!
  Model of `/repo/lib/src/eol.rs` (line-ending conversion of working-copy files).

  Bytes are `List UInt8`; `\n` = 10, `\r` = 13, NUL = 0.  Every definition cites the Rust item it
  mirrors.  The async readers of the Rust code are modelled by the byte list they yield
  (`probe_for_binary` reads the first `PROBE_LIMIT` bytes into `peek`, and the callers chain `peek`
  back in front of the rest, so the converter sees the whole content).
-/
namespace JjModel.Eol

abbrev Bytes := List UInt8

/-- `fn is_binary(bytes: &[u8]) -> bool`: a NUL byte, or a `\r` whose next byte is not `\n`
(`bytes.peek() != Some(&&b'\n')` — a `\r` at the very end counts). -/
def isBinary : Bytes → Bool
  | [] => false
  | b :: rest =>
    if b = 0 then true
    else if b = 13 ∧ rest.head? ≠ some 10 then true
    else isBinary rest

/-- `TargetEolStrategy::probe_for_binary`: `peek` = first `limit` bytes; if the byte at index
`limit - 1` is `\r` the slice checked is `peek[0..limit-1]`, else all of `peek`. -/
def probeSlice (limit : Nat) (contents : Bytes) : Bytes :=
  let peek := contents.take limit
  if peek[limit - 1]? = some 13 then peek.take (limit - 1) else peek

def probeForBinary (limit : Nat) (contents : Bytes) : Bool :=
  isBinary (probeSlice limit contents)

/-- `enum TargetEol` -/
inductive TargetEol where
  | lf | crlf | passThrough
  deriving DecidableEq, Repr

/-- `bstr::ByteSlice::lines_with_terminator`: split after every `\n`; a trailing piece without
`\n` is a line iff it is non-empty.  `cur` is the current line, reversed. -/
def linesAux : Bytes → Bytes → List Bytes
  | [], cur => if cur.isEmpty then [] else [cur.reverse]
  | b :: rest, cur =>
    if b = 10 then (b :: cur).reverse :: linesAux rest [] else linesAux rest (b :: cur)

def linesWithTerminator (input : Bytes) : List Bytes := linesAux input []

/-- `<[u8]>::strip_suffix` -/
def stripSuffix (suffix l : Bytes) : Option Bytes :=
  if suffix.isSuffixOf l then some (l.take (l.length - suffix.length)) else none

/-- `fn trim_last_eol(input: &[u8]) -> Option<&[u8]>` (inside `convert_eol`) -/
def trimLastEol (input : Bytes) : Option Bytes :=
  (stripSuffix [13, 10] input).orElse fun _ => stripSuffix [10] input

/-- body of the `for line in lines` loop of `convert_eol` for one line -/
def convertLine (eol line : Bytes) : Bytes :=
  match trimLastEol line with
  | some l => l ++ eol
  | none => line

/-- `async fn convert_eol(input, target_eol)` -/
def convertEol (input : Bytes) : TargetEol → Bytes
  | .passThrough => input
  | .lf => (linesWithTerminator input).flatMap (convertLine [10])
  | .crlf => (linesWithTerminator input).flatMap (convertLine [13, 10])

/-- `pub enum EolConversionMode` (`working-copy.eol-conversion` = `none` / `input` / `input-output`) -/
inductive EolConversionMode where
  | none | input | inputOutput
  deriving DecidableEq, Repr

/-- `TargetEolStrategy::convert_eol_for_snapshot` (disk → store) -/
def convertEolForSnapshot (limit : Nat) (mode : EolConversionMode) (contents : Bytes) : Bytes :=
  match mode with
  | .none => contents
  | .input | .inputOutput =>
    convertEol contents (if probeForBinary limit contents then .passThrough else .lf)

/-- `TargetEolStrategy::convert_eol_for_update` (store → disk) -/
def convertEolForUpdate (limit : Nat) (mode : EolConversionMode) (contents : Bytes) : Bytes :=
  match mode with
  | .none | .input => contents
  | .inputOutput =>
    convertEol contents (if probeForBinary limit contents then .passThrough else .crlf)

/-- the strategy with the probe limit of the source (`PROBE_LIMIT`, translated by `tools/translate.py`) -/
def snapshot (mode : EolConversionMode) (disk : Bytes) : Bytes :=
  convertEolForSnapshot JjModel.Generated.eolProbeLimit mode disk

def update (mode : EolConversionMode) (stored : Bytes) : Bytes :=
  convertEolForUpdate JjModel.Generated.eolProbeLimit mode stored

end JjModel.Eol
