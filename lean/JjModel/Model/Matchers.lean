/-
  Model of `lib/src/matchers.rs` (`Matcher::matches` / `Matcher::visit` for `NothingMatcher`,
  `EverythingMatcher`, `FilesMatcher`, `PrefixMatcher`, `GlobsMatcher`, `UnionMatcher`,
  `IntersectionMatcher`, `DifferenceMatcher`) and of `RepoPathTree` (`lib/src/repo_path.rs`).

  * A repo path is the `List Nat` of its component ids (the harness numbers the names of the
    case's finite universe; distinct names ↦ distinct ids, no name contains `/`).
  * `HashMap<RepoPathComponentBuf, RepoPathTree<V>>` is an association forest (`Forest`); the
    `HashSet`s of `Visit::Specific` are lists (membership is all that is ever observed; the driver
    prints them sorted and de-duplicated).
  * A compiled glob (`regex::bytes::RegexSet` applied to the tail string
    `tail_path.as_internal_file_string()`) is an abstract predicate `Glob := Path → Bool` on the
    tail path (joining components with `/` is injective) — assumption A5: the meaning of the
    regex is not modelled, the harness supplies its truth table over the case's universe.
  Import-free on purpose: the driver executable links this file.
-/
namespace JjModel.Matchers

abbrev Comp := Nat
abbrev Path := List Comp

/-! ### `Visit`, `VisitDirs`, `VisitFiles` -/

/-- `VisitDirs` / `VisitFiles`: `All | Set(HashSet<…>)`. -/
inductive VSet where
  | all
  | set (l : List Comp)

def VSet.has : VSet → Comp → Bool
  | .all, _ => true
  | .set l, c => l.contains c

def VSet.isEmptySet : VSet → Bool
  | .all => false
  | .set l => l.isEmpty

inductive Visit where
  | allRec
  | specific (dirs files : VSet)
  | nothing

/-- `Visit::SOME` -/
def Visit.some_ : Visit := .specific .all .all

/-- `Visit::sets(dirs, files)` -/
def Visit.sets (dirs files : List Comp) : Visit :=
  if dirs.isEmpty && files.isEmpty then .nothing else .specific (.set dirs) (.set files)

/-- set intersection as in `IntersectionMatcher::visit` (`All` is the neutral element) -/
def VSet.inter : VSet → VSet → VSet
  | .all, x => x
  | x, .all => x
  | .set l1, .set l2 => .set (l1.filter l2.contains)

/-- set union as in `UnionMatcher::visit` (`All` absorbs) -/
def VSet.union : VSet → VSet → VSet
  | .all, _ => .all
  | _, .all => .all
  | .set l1, .set l2 => .set (l1 ++ l2)

/-- `UnionMatcher::visit`, the case analysis on the two inputs' visits -/
def unionV : Visit → Visit → Visit
  | .allRec, _ => .allRec
  | .nothing, v => v
  | .specific _ _, .allRec => .allRec
  | .specific d1 f1, .nothing => .specific d1 f1
  | .specific d1 f1, .specific d2 f2 => .specific (d1.union d2) (f1.union f2)

/-- `IntersectionMatcher::visit` -/
def interV : Visit → Visit → Visit
  | .allRec, v => v
  | .nothing, _ => .nothing
  | .specific d1 f1, .allRec => .specific d1 f1
  | .specific _ _, .nothing => .nothing
  | .specific d1 f1, .specific d2 f2 =>
    if (d1.inter d2).isEmptySet && (f1.inter f2).isEmptySet then .nothing
    else .specific (d1.inter d2) (f1.inter f2)

/-- `DifferenceMatcher::visit`: `diffV wanted unwanted` (the source matches on `unwanted` first) -/
def diffV : Visit → Visit → Visit
  | _, .allRec => .nothing
  | w, .nothing => w
  | .allRec, .specific _ _ => Visit.some_
  | w, .specific _ _ => w

/-! ### `RepoPathTree<V>` -/

/-- the `entries: HashMap<RepoPathComponentBuf, Self>` of a node: an association forest
(`name ↦ (value, kids)`, then the remaining entries) -/
inductive Forest (V : Type) where
  | nil : Forest V
  | cons (name : Comp) (value : V) (kids : Forest V) (rest : Forest V) : Forest V

structure Tree (V : Type) where
  value : V
  entries : Forest V

variable {V : Type}

/-- `entries.get(name)` -/
def Forest.find : Forest V → Comp → Option (Tree V)
  | .nil, _ => none
  | .cons n v k r, c => if n = c then some ⟨v, k⟩ else r.find c

def Forest.isEmpty : Forest V → Bool
  | .nil => true
  | .cons .. => false

/-- names of the children satisfying `p` (iteration over `children()` with a filter) -/
def Forest.namesWhere (p : Tree V → Bool) : Forest V → List Comp
  | .nil => []
  | .cons n v k r => if p ⟨v, k⟩ then n :: namesWhere p r else namesWhere p r

def Tree.child (t : Tree V) (c : Comp) : Option (Tree V) := t.entries.find c

/-- `has_children()` -/
def Tree.hasChildren (t : Tree V) : Bool := !t.entries.isEmpty

/-- `RepoPathTree::get` -/
def Tree.get : Tree V → Path → Option (Tree V)
  | t, [] => some t
  | t, c :: rest => match t.child c with
    | none => none
    | some s => s.get rest

/-- Entry `c` of a forest replaced by `h` applied to it, created from the default value if
absent: one step of the `fold` in `RepoPathTree::add`. -/
def Forest.modify (c : Comp) (h : V → Forest V → V × Forest V) (dflt : V) : Forest V → Forest V
  | .nil => let r := h dflt .nil; .cons c r.1 r.2 .nil
  | .cons n v k r =>
    if n = c then let x := h v k; .cons n x.1 x.2 r else .cons n v k (modify c h dflt r)

/-- `tree.add(path)` followed by a modification `g` of the value of the node reached
(`set_value(x)` is `g = fun _ => x`), on a node given as `(value, entries)`. -/
def nodeUpd (dflt : V) (g : V → V) : Path → V → Forest V → V × Forest V
  | [], v, k => (g v, k)
  | c :: rest, v, k => (v, Forest.modify c (nodeUpd dflt g rest) dflt k)

/-- `tree.add(path).set_value(g(old value))` -/
def Tree.updAt (dflt : V) (t : Tree V) (path : Path) (g : V → V) : Tree V :=
  let r := nodeUpd dflt g path t.value t.entries
  ⟨r.1, r.2⟩

/-- `RepoPathTree::default()` -/
def Tree.empty (dflt : V) : Tree V := ⟨dflt, .nil⟩

/-! ### `FilesMatcher` -/

inductive FilesKind where
  | dir
  | file
  deriving DecidableEq

/-- `FilesMatcher::new` -/
def filesNew (files : List Path) : Tree FilesKind :=
  files.foldl (fun t f => t.updAt .dir f (fun _ => .file)) (Tree.empty .dir)

/-- `FilesMatcher::matches` -/
def filesMatches (t : Tree FilesKind) (file : Path) : Bool :=
  match t.get file with
  | some s => s.value == .file
  | none => false

/-- `files_tree_to_visit_sets` -/
def filesTreeToVisit (t : Tree FilesKind) : Visit :=
  Visit.sets (t.entries.namesWhere (fun s => s.hasChildren))
             (t.entries.namesWhere (fun s => s.value == .file))

/-- `FilesMatcher::visit` -/
def filesVisit (t : Tree FilesKind) (dir : Path) : Visit :=
  match t.get dir with
  | none => .nothing
  | some s => filesTreeToVisit s

/-! ### `PrefixMatcher` -/

inductive PrefixKind where
  | dir
  | pfx
  deriving DecidableEq

/-- `PrefixMatcher::new` -/
def prefixNew (prefixes : List Path) : Tree PrefixKind :=
  prefixes.foldl (fun t f => t.updAt .dir f (fun _ => .pfx)) (Tree.empty .dir)

/-- `PrefixMatcher::matches`: some node on `walk_to(file)` (the file's node included) is a prefix -/
def prefixMatches : Tree PrefixKind → Path → Bool
  | t, [] => t.value == .pfx
  | t, c :: rest => t.value == .pfx ||
    match t.child c with
    | none => false
    | some s => prefixMatches s rest

/-- `prefix_tree_to_visit_sets` -/
def prefixTreeToVisit (t : Tree PrefixKind) : Visit :=
  Visit.sets (t.entries.namesWhere (fun _ => true))
             (t.entries.namesWhere (fun s => s.value == .pfx))

/-- `PrefixMatcher::visit`: the loop over `walk_to(dir)` -/
def prefixVisit : Tree PrefixKind → Path → Visit
  | t, [] => if t.value == .pfx then .allRec else prefixTreeToVisit t
  | t, c :: rest =>
    if t.value == .pfx then .allRec
    else match t.child c with
      | none => .nothing
      | some s => prefixVisit s rest

/-! ### `GlobsMatcher` -/

/-- a compiled `RegexSet` as a predicate on the tail path -/
abbrev Glob := Path → Bool

/-- `GlobsMatcher::matches`: some *strict* ancestor `(dir, patterns)` on `walk_to(file)` has a
pattern set matching the (non-empty) tail -/
def globsMatches : Tree (Option Glob) → Path → Bool
  | _, [] => false
  | t, c :: rest =>
    (match t.value with
     | some g => g (c :: rest)
     | none => false) ||
    match t.child c with
    | none => false
    | some s => globsMatches s rest

/-- `GlobsMatcher::visit`: the loop over `walk_to(dir)`; `ms` is `max_visit == Visit::SOME`
(`max_visit` only takes the values `Nothing` and `SOME`). -/
def globsVisit (pfx : Bool) : Tree (Option Glob) → Path → Bool → Visit
  | t, [], ms =>
    match t.value with
    | some g =>
      if pfx && g [] then .allRec
      else Visit.some_           -- max_visit = SOME; loop ends (break, or no further component)
    | none =>
      if ms then Visit.some_
      else Visit.sets (t.entries.namesWhere (fun _ => true)) []
  | t, c :: rest, ms =>
    match t.value with
    | some g =>
      if pfx && g (c :: rest) then .allRec
      else if !pfx then Visit.some_        -- break
      else match t.child c with
        | none => Visit.some_
        | some s => globsVisit pfx s rest true
    | none =>
      match t.child c with
      | none => if ms then Visit.some_ else .nothing
      | some s => globsVisit pfx s rest ms

/-- The `RegexSet` built for the chunk of patterns registered at `dir`
(`GlobsMatcherBuilder::build`: sort by dir, `chunk_by` dir, one `RegexSet` per chunk;
a `RegexSet` matches iff one of its patterns does). -/
def groupGlob (pats : List (Path × Glob)) (dir : Path) : Glob :=
  fun tail => (pats.filter (fun p => p.1 == dir)).any (fun p => p.2 tail)

/-- `GlobsMatcherBuilder::build`, tree part: every directory that has patterns gets the `RegexSet`
of its chunk (setting the same chunk twice is idempotent, so we iterate over the patterns). -/
def globsNew (pats : List (Path × Glob)) : Tree (Option Glob) :=
  pats.foldl (fun t p => t.updAt none p.1 (fun _ => some (groupGlob pats p.1))) (Tree.empty none)

/-- `glob_to_prefix_regex`: the anchored glob regex `^P$` becomes `^P(?:/|$)`, searched unanchored
at the end.  If `f` is the language of `^P$` on tails, the new regex accepts a tail iff some
component-aligned, non-empty prefix of it is in `f` (the prefix is followed by `/` or the end),
or the tail is empty and `f` accepts the empty string. -/
def prefixOf (f : Glob) : Glob := fun t =>
  match t with
  | [] => f []
  | _ :: _ => (List.range t.length).any (fun k => f (t.take (k + 1)))

/-- `GlobsMatcherBuilder::build`: in prefix mode every pattern goes through
`glob_to_prefix_regex` first. -/
def globsBuild (pfx : Bool) (pats : List (Path × Glob)) : Tree (Option Glob) :=
  globsNew (if pfx then pats.map (fun p => (p.1, prefixOf p.2)) else pats)

/-! ### matcher expressions -/

/-- A compiled matcher: leaves hold their `RepoPathTree`, combinators their inputs
(`Box<dyn Matcher>` nesting of any depth). -/
inductive Matcher where
  | nothingM
  | everythingM
  | filesM (t : Tree FilesKind)
  | prefixM (t : Tree PrefixKind)
  | globsM (pfx : Bool) (t : Tree (Option Glob))
  | unionM (a b : Matcher)
  | interM (a b : Matcher)
  | diffM (wanted unwanted : Matcher)

/-- `Matcher::matches` -/
def Matcher.mat : Matcher → Path → Bool
  | .nothingM, _ => false
  | .everythingM, _ => true
  | .filesM t, p => filesMatches t p
  | .prefixM t, p => prefixMatches t p
  | .globsM _ t, p => globsMatches t p
  | .unionM a b, p => a.mat p || b.mat p
  | .interM a b, p => a.mat p && b.mat p
  | .diffM w u, p => w.mat p && !u.mat p

/-- `Matcher::visit` -/
def Matcher.visit : Matcher → Path → Visit
  | .nothingM, _ => .nothing
  | .everythingM, _ => .allRec
  | .filesM t, d => filesVisit t d
  | .prefixM t, d => prefixVisit t d
  | .globsM pfx t, d => globsVisit pfx t d false
  | .unionM a b, d => unionV (a.visit d) (b.visit d)
  | .interM a b, d => interV (a.visit d) (b.visit d)
  | .diffM w u, d => diffV (w.visit d) (u.visit d)

/-- `FilesMatcher::new`, `PrefixMatcher::new`, `GlobsMatcher::builder()…build()` -/
def Matcher.files (ps : List Path) : Matcher := .filesM (filesNew ps)
def Matcher.prefixes (ps : List Path) : Matcher := .prefixM (prefixNew ps)
def Matcher.globs (pfx : Bool) (pats : List (Path × Glob)) : Matcher := .globsM pfx (globsBuild pfx pats)

/-! ### the soundness statement (C30) -/

/-- the visit permits descending to child `c` (as a file if `leaf`, as a directory otherwise) -/
def Visit.ok : Visit → Comp → Bool → Prop
  | .nothing, _, _ => False
  | .allRec, _, _ => True
  | .specific ds fs, c, leaf => (if leaf then fs.has c else ds.has c) = true

/-- Directory pruning by `visit` is sound w.r.t. `mat`: for every directory `dir` and every path
`dir/c/rest` strictly below it,
* if the path matches, `visit dir` is not `Nothing` and, when `Specific`, lists `c` among the files
  (when the path is `dir/c`) resp. among the directories (when it is deeper);
* if `visit dir` is `AllRecursively`, the path matches. -/
def SoundMV (mat : Path → Bool) (visit : Path → Visit) : Prop :=
  ∀ (dir : Path) (c : Comp) (rest : Path),
    (mat (dir ++ c :: rest) = true → (visit dir).ok c rest.isEmpty) ∧
    (visit dir = .allRec → mat (dir ++ c :: rest) = true)

def Sound (m : Matcher) : Prop := SoundMV m.mat m.visit

/-- a prefix-mode pattern set is closed under path extension (the shape `…(?:/|$)` produced by
`glob_to_prefix_regex`; part of assumption A5, checked on the truth tables by the harness) -/
def ExtClosed (g : Glob) : Prop := ∀ t ext, g t = true → g (t ++ ext) = true

/-- a glob that accepts the empty string accepts every single component (only `*`-like tokens can
match the empty string, and they match any name; part of assumption A5) -/
def EmptyOk (f : Glob) : Prop := f [] = true → ∀ c, f [c] = true

def Forest.All (P : V → Prop) : Forest V → Prop
  | .nil => True
  | .cons _ v k r => P v ∧ k.All P ∧ r.All P

def Tree.All (P : V → Prop) (t : Tree V) : Prop := P t.value ∧ t.entries.All P

def GlobOptExt (v : Option Glob) : Prop := ∀ g, v = some g → ExtClosed g

/-- well-formedness: the pattern sets of prefix-mode glob matchers are extension-closed -/
def Matcher.WF : Matcher → Prop
  | .globsM true t => t.All GlobOptExt
  | .unionM a b => a.WF ∧ b.WF
  | .interM a b => a.WF ∧ b.WF
  | .diffM a b => a.WF ∧ b.WF
  | _ => True

end JjModel.Matchers
