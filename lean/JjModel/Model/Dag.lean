/-!
  Commit DAG by index position (shared by the bisection, log-graph and annotate models).

  jj's commit index assigns every commit a *position*; parents always have smaller positions than
  their children (`lib/src/default_index/`: entries are appended parents-first).  A graph is the
  list of parent-position lists: `G[i]` = parents of the commit at position `i`.  Revsets stream
  commits in *descending* position order.

  Ancestry is computed with a bottom-up memo table (`ancTable`): row `i` lists the ancestors of
  `i` (including `i`).  Polynomial, structurally recursive (so `decide` can evaluate it).
-/
namespace JjModel.Dag

abbrev Graph := List (List Nat)

/-- parent positions of commit `i` (none for positions outside the graph) -/
def parents (G : Graph) (i : Nat) : List Nat := G.getD i []

/-- every parent has a smaller position than its child (checked by the driver on every request) -/
def wfB (G : Graph) : Bool :=
  (List.range G.length).all fun i => (parents G i).all fun p => decide (p < i)

/-- Generic bottom-up table: entry `k` is computed from the table of the entries `< k`. -/
def memo {β : Type} (f : List β → Nat → β) : Nat → List β
  | 0 => []
  | k + 1 => let t := memo f k; t ++ [f t k]

/-- insert without duplicates -/
def insertNew (x : Nat) (l : List Nat) : List Nat := if l.contains x then l else l ++ [x]

/-- union without duplicates (keeps the order of first occurrence) -/
def unionNew (l : List Nat) : List Nat → List Nat
  | [] => l
  | x :: xs => unionNew (insertNew x l) xs

/-- row `i` of the ancestor table, given the rows of all smaller positions -/
def ancRow (G : Graph) (t : List (List Nat)) (i : Nat) : List Nat :=
  (parents G i).foldl (fun acc p => unionNew acc (t.getD p [])) [i]

/-- `ancTable G`: row `i` = all ancestors of `i`, `i` included -/
def ancTable (G : Graph) : List (List Nat) := memo (ancRow G) G.length

/-- `isAnc A a d`: `a` is an ancestor of `d` or `d` itself (`A = ancTable G`) -/
def isAnc (A : List (List Nat)) (a d : Nat) : Bool := a == d || (A.getD d []).contains a

/-- `a` is an ancestor-or-self of some element of `X` -/
def isAncOfAny (A : List (List Nat)) (X : List Nat) (a : Nat) : Bool := X.any fun x => isAnc A a x

/-- positions `n-1, …, 0` satisfying `p`: the order in which revsets stream commits -/
def descFilter (n : Nat) (p : Nat → Bool) : List Nat := (List.range n).reverse.filter p

/-- `heads(X)`: elements of `X` without a proper descendant in `X` (descending order) -/
def headsOf (A : List (List Nat)) (n : Nat) (X : List Nat) : List Nat :=
  descFilter n fun x => X.contains x && !(X.any fun y => y != x && isAnc A x y)

/-- `roots(X)`: elements of `X` without a proper ancestor in `X` (descending order) -/
def rootsOf (A : List (List Nat)) (n : Nat) (X : List Nat) : List Nat :=
  descFilter n fun x => X.contains x && !(X.any fun y => y != x && isAnc A y x)

end JjModel.Dag
