/-
  C15 — crash model of jj's durable-write protocol (import-free; linked into the driver).

  Part A (`LFs`, `persistSteps`): the byte-level "temp file + rename" idiom of
    lib/src/file_util.rs `persist_temp_file` / `persist_content_addressed_temp_file`
    (used by simple_op_store.rs `write_view`/`write_operation`, default_index/store.rs,
    stacked_table.rs, local_working_copy.rs `TreeState::save` / `CheckoutState::save`).
  Part B (`Fs`, `Step`, `load`, `wcStatus`, `okStep`, `txSteps`): the repository-level protocol —
    every step of part B is one *rename* of part A (or an op-head file create/unlink), i.e. atomic:
      lib/src/transaction.rs `Transaction::write` (view, operation, index segment, op link)
      and `UnpublishedOperation::publish` (lock, `update_op_heads` = add new head, remove parents),
      lib/src/simple_op_heads_store.rs, lib/src/op_heads_store.rs `resolve_op_heads`,
      cli/src/cli_util.rs `finish_transaction`/`snapshot_working_copy` (publish, then check out,
      then `LockedLocalWorkingCopy::finish`: `tree_state` if dirty, then `checkout`),
      lib/src/working_copy.rs `WorkingCopyFreshness::check_stale`.
-/
namespace JjModel.Crash

/-! ## Part A — a file system with atomic rename -/

abbrev Bytes := List Nat

/-- file system: path ↦ content (paths are numbers) -/
abbrev LFs := Nat → Option Bytes

def LFs.set (fs : LFs) (p : Nat) (c : Option Bytes) : LFs := fun q => if q = p then c else fs q

/-- the system calls of the persist idiom -/
inductive LStep
  | create (t : Nat)                 -- `NamedTempFile::new_in(dir)`: fresh empty file under a temp name
  | append (t : Nat) (chunk : Bytes) -- one `write()` (a crash may fall between any two of them)
  | rename (t p : Nat)               -- `temp_file.persist(p)`: atomic replace
deriving Repr

def LStep.apply (fs : LFs) : LStep → LFs
  | .create t => fs.set t (some [])
  | .append t c => match fs t with
      | some old => fs.set t (some (old ++ c))
      | none => fs
  | .rename t p => match fs t with
      | some c => (fs.set p (some c)).set t none
      | none => fs

def lrun (fs : LFs) (steps : List LStep) : LFs := steps.foldl LStep.apply fs

/-- `persist_temp_file(temp, p)` after the content was written in `chunks` -/
def persistSteps (t p : Nat) (chunks : List Bytes) : List LStep :=
  .create t :: (chunks.map (LStep.append t) ++ [.rename t p])

/-- what a crash after the first `n` system calls leaves behind -/
def persistCrash (fs : LFs) (t p : Nat) (chunks : List Bytes) (n : Nat) : LFs :=
  lrun fs ((persistSteps t p chunks).take n)

/-! ## Part B — the repository files and the commit protocol -/

/-- association-list lookup (a directory listing + read) -/
def look {β : Type} (k : Nat) : List (Nat × β) → Option β
  | [] => none
  | (k', v) :: rest => if k = k' then some v else look k rest

/-- content of `op_store/operations/<id>` as far as loading needs it -/
structure OpRec where
  parents : List Nat
  view : Nat
deriving DecidableEq, Repr, Inhabited

/-- The durable files of a workspace (final names only; temp files are invisible to readers). -/
structure Fs where
  ops : List (Nat × OpRec)      -- op_store/operations/<id>
  views : List (Nat × Nat)      -- op_store/views/<id> ↦ tree of the working-copy commit in that view
  links : List Nat              -- index/op_links/<op id>   (index is rebuilt when missing: store.rs `get_index_at_op`)
  segs : Nat                    -- index/segments/* written so far
  heads : List Nat              -- op_heads/heads/<id>
  wcTree : Nat                  -- working_copy/tree_state: tree id
  wcOp : Nat                    -- working_copy/checkout: operation id
  wcFiles : Nat                 -- number of checkout file updates performed on disk
deriving Repr

inductive Step
  | wv (v t : Nat)              -- persist-ca op_store/views/v
  | wo (o : Nat) (r : OpRec)    -- persist-ca op_store/operations/o
  | ws                          -- persist-ca index/segments/*
  | wl (o : Nat)                -- persist index/op_links/o
  | ha (o : Nat)                -- opheads.add o
  | hr (o : Nat)                -- opheads.remove o
  | wf                          -- wc.create / wc.remove (checkout file update)
  | st (t : Nat)                -- persist working_copy/tree_state
  | sc (o : Nat)                -- persist working_copy/checkout
  | x                           -- lock / read / backend object or table write: not one of the modelled files
deriving DecidableEq, Repr

def Step.apply (fs : Fs) : Step → Fs
  | .wv v t => { fs with views := (v, t) :: fs.views }   -- rename over the final name (replaces)
  | .wo o r => { fs with ops := (o, r) :: fs.ops }
  | .ws => { fs with segs := fs.segs + 1 }
  | .wl o => { fs with links := o :: fs.links }
  | .ha o => { fs with heads := if fs.heads.contains o then fs.heads else fs.heads ++ [o] }
  | .hr o => { fs with heads := fs.heads.filter (· != o) }
  | .wf => { fs with wcFiles := fs.wcFiles + 1 }
  | .st t => { fs with wcTree := t }
  | .sc o => { fs with wcOp := o }
  | .x => fs

def run (fs : Fs) (steps : List Step) : Fs := steps.foldl Step.apply fs

/-- `crash k`: the process is killed when the k-th step (1-based) is about to be performed -/
def crash (fs : Fs) (steps : List Step) (k : Nat) : Fs := run fs (steps.take (k - 1))

/-- one level of parents (`op.parents()`); an unreadable operation contributes nothing -/
def ancStep (ops : List (Nat × OpRec)) (frontier : List Nat) : List Nat :=
  frontier.flatMap fun x => match look x ops with
    | some r => r.parents
    | none => []

/-- `a` is reachable from the frontier within `fuel` levels (dag_walk over operation parents) -/
def isAnc (ops : List (Nat × OpRec)) : Nat → List Nat → Nat → Bool
  | 0, _, _ => false
  | n + 1, fr, a => fr.contains a || isAnc ops n (ancStep ops fr) a

def fuel (fs : Fs) : Nat := fs.ops.length + 1

/-- op_heads_store.rs `resolve_op_heads`: heads that are ancestors of another head are dropped -/
def resolveHeads (fs : Fs) : List Nat :=
  fs.heads.filter fun h => !(fs.heads.any fun h' => h' != h && isAnc fs.ops (fuel fs) [h'] h)

structure Loaded where
  head : Nat
  view : Nat
  tree : Nat
deriving DecidableEq, Repr

/-- Loading the repo at head: op heads → operation → view (→ index, rebuilt when unlinked).
    `none` = the repo does not load (no head, unreadable operation/view) or the heads have
    diverged (real jj then writes a merge operation; a single crashed process never gets there). -/
def load (fs : Fs) : Option Loaded :=
  match resolveHeads fs with
  | [h] =>
    match look h fs.ops with
    | some r =>
      match look r.view fs.views with
      | some t => some ⟨h, r.view, t⟩
      | none => none
    | none => none
  | _ => none

inductive Wc
  | fresh | stale | updated | sibling | unreadable
deriving DecidableEq, Repr

/-- working_copy.rs `WorkingCopyFreshness::check_stale` on the loaded repo -/
def wcStatus (fs : Fs) : Wc :=
  match load fs with
  | none => .unreadable
  | some l =>
    if fs.wcOp = l.head then .fresh
    else if (look fs.wcOp fs.ops).isNone then .unreadable
    else if isAnc fs.ops (fuel fs) [fs.wcOp] l.head then .updated
    else if isAnc fs.ops (fuel fs) [l.head] fs.wcOp then
      (if fs.wcTree = l.tree then .fresh else .stale)
    else .sibling

/-- an operation id nobody names as a parent -/
def notMentioned (o : Nat) (ops : List (Nat × OpRec)) : Bool :=
  ops.all fun e => !e.2.parents.contains o

/-- The write discipline ("objects before the head, head before the working copy"):
    the guard under which a step may be performed in state `fs`.  The driver evaluates it on
    the real trace (`shape`), the theorems assume it. -/
def okStep (fs : Fs) : Step → Bool
  | .wv v t => (match look v fs.views with | some t' => t' == t | none => true)   -- content-addressed
  | .wo o r =>
      (match look o fs.ops with | some r' => r' == r | none => true)              -- content-addressed
      && !fs.heads.contains o && notMentioned o fs.ops && fs.heads.length == 1
  | .ha o =>
      match fs.heads, look o fs.ops with
      | [p], some r =>
          r.parents == [p] && o != p && notMentioned o fs.ops && (look r.view fs.views).isSome
      | _, _ => false
  | .hr p =>
      match fs.heads with
      | [p', o] => p' == p && o != p
      | _ => false
  | .sc o => fs.heads == [o]
  | _ => true

/-- tree of the working-copy commit in the view of operation `h` (if both files are readable) -/
def headTree (fs : Fs) (h : Nat) : Option Nat :=
  match look h fs.ops with
  | some r => look r.view fs.views
  | none => none

/-- The working-copy side of the discipline: new operations are only written and published by a
    process whose working copy is at the head (cli_util.rs refuses to run on a stale working copy);
    `tree_state` is saved before `checkout` (`LockedLocalWorkingCopy::finish`): when `checkout` is
    pointed at an operation, `tree_state` already records that operation's working-copy tree, and a
    working copy that is at the head only re-saves the head's tree. -/
def okWc (fs : Fs) : Step → Bool
  | .wo _ _ => fs.heads == [fs.wcOp]
  | .ha _ => fs.heads == [fs.wcOp]
  | .st t => !(fs.heads == [fs.wcOp]) || headTree fs fs.wcOp == some t
  | .sc o => headTree fs o == some fs.wcTree
  | _ => true

/-- every step of the list satisfies its guard in the state it is performed in -/
def wellOrdered : Fs → List Step → Bool
  | _, [] => true
  | fs, s :: rest => okStep fs s && wellOrdered (s.apply fs) rest

def wellOrderedWc : Fs → List Step → Bool
  | _, [] => true
  | fs, s :: rest => okStep fs s && okWc fs s && wellOrderedWc (s.apply fs) rest

/-- index (1-based) of the first step violating the discipline, 0 if none -/
def firstBad : Fs → List Step → Nat → Nat
  | _, [], _ => 0
  | fs, s :: rest, i => if okStep fs s then firstBad (s.apply fs) rest (i + 1) else i

/-- the head a loader sees after these steps: the last published operation -/
def headAfter (h : Nat) (steps : List Step) : Nat :=
  steps.foldl (fun h s => match s with | .ha o => o | _ => h) h

/-- one transaction of a command, as far as the protocol is concerned -/
structure Tx where
  op : Nat
  view : Nat
  tree : Nat          -- tree of the working-copy commit in the new view
  seg : Bool          -- a new index segment is written (the transaction created commits)
  files : Nat         -- checkout file updates
  saveTree : Bool     -- `tree_state` is re-written (snapshot or checkout made it dirty)
deriving Repr

/-- `Transaction::write`, `publish`, then the working-copy update of `finish_transaction` -/
def txSteps (parent : Nat) (tx : Tx) : List Step :=
  [.wv tx.view tx.tree, .wo tx.op ⟨[parent], tx.view⟩] ++ (if tx.seg then [.ws] else [])
    ++ [.wl tx.op, .ha tx.op, .hr parent]
    ++ List.replicate tx.files .wf ++ (if tx.saveTree then [.st tx.tree] else []) ++ [.sc tx.op]

def cmdSteps : Nat → List Tx → List Step
  | _, [] => []
  | h, tx :: rest => txSteps h tx ++ cmdSteps tx.op rest

/-- `workspace update-stale` on a working copy that is merely behind: check out, save both files -/
def updateStaleSteps (head tree files : Nat) : List Step :=
  List.replicate files .wf ++ [.st tree, .sc head]

/-- schematic initial repository: a chain of `n ≥ 1` operations `0 ← 1 ← … ← n-1`, head `n-1` with
    view `v0` whose working-copy tree is `t0`; older operations have their own views -/
def chainOps : Nat → List (Nat × OpRec)
  | 0 => []
  | n + 1 => (n, ⟨if n = 0 then [] else [n - 1], 1000 + n⟩) :: chainOps n

def chainViews : Nat → List (Nat × Nat)
  | 0 => []
  | n + 1 => (1000 + n, 1000 + n) :: chainViews n

def initFs (n v0 t0 wcOp wcTree : Nat) : Fs :=
  { ops := (n - 1, ⟨if n - 1 = 0 then [] else [n - 2], v0⟩) :: chainOps (n - 1),
    views := (v0, t0) :: chainViews (n - 1),
    links := [], segs := 0, heads := [n - 1], wcTree := wcTree, wcOp := wcOp, wcFiles := 0 }

/-- are all of `ps` still reachable from the loaded head? -/
def allPublished (fs : Fs) (ps : List Nat) : Bool :=
  match load fs with
  | none => false
  | some l => ps.all fun a => isAnc fs.ops (fuel fs) [l.head] a

end JjModel.Crash
