import JjModel.Model.Conflicts
/-
  Executable (decidable) specification predicates for the conflict model: the well-formedness of a
  hunk list as `files::merge_hunks` produces it, and the assumption about the line diff.  They are
  the hypotheses of the theorems in `Props/C05.lean` / `Props/C06.lean`; the driver evaluates them on
  real `merge_hunks` / `ContentDiff::by_line` outputs (`C05 wf`, `C05 diffok`).  Kept free of proofs
  so that the driver executable does not depend on the proof files.
-/
namespace JjModel.Conflicts

/-- content that is empty or ends with `\n` -/
def EndsLF (c : Bytes) : Prop := lacksEol c = false

instance (c : Bytes) : Decidable (EndsLF c) := by unfold EndsLF; infer_instance

/-- no line of `c` is a conflict marker of length ≥ `len` -/
def ContentOK (len : Nat) (c : Bytes) : Prop := ∀ l ∈ linesWT c, parseMarker l len = none

instance (len : Nat) (c : Bytes) : Decidable (ContentOK len c) := by unfold ContentOK; infer_instance

/-- what the diff styles additionally need of a content: a line stays a non-marker when one of the
diff prefixes `' '`, `'-'`, `'+'` is put in front -/
def DiffSafe (len : Nat) (c : Bytes) : Prop :=
  ∀ l ∈ linesWT c, parseMarker (32 :: l) len = none ∧ parseMarker (45 :: l) len = none ∧
    parseMarker (43 :: l) len = none

instance (len : Nat) (c : Bytes) : Decidable (DiffSafe len c) := by unfold DiffSafe; infer_instance

def startsResolved : List (List Bytes) → Bool
  | [_] :: _ => true
  | _ => false

/-- per-hunk part of the well-formedness of a hunk list as `files::merge_hunks` produces it -/
def HunksWFAux (n len : Nat) : List (List Bytes) → Prop
  | [] => True
  | h :: rest =>
    (match h with
     | [c] => c ≠ [] ∧ ContentOK len c ∧ (rest ≠ [] → EndsLF c ∧ startsResolved rest = false)
     | _ => h.length % 2 = 1 ∧ numSides h = n ∧ (∀ c ∈ h, ContentOK len c) ∧
        (rest ≠ [] → allSidesHaveEol h = true))
    ∧ HunksWFAux n len rest

instance decHunksWFAux (n len : Nat) : (hs : List (List Bytes)) → Decidable (HunksWFAux n len hs)
  | [] => isTrue trivial
  | h :: rest => by
    have := decHunksWFAux n len rest
    unfold HunksWFAux
    split
    · unfold EndsLF; infer_instance
    · infer_instance

/-- The assumption about a two-sided line diff (the subject of C03, an input here): the groups
reconstruct both sides, matching groups have equal contents, and every group consists of whole
lines. -/
structure DiffOK (d : List DiffGroup) (l r : Bytes) : Prop where
  left : (d.map (·.left)).flatten = l
  right : (d.map (·.right)).flatten = r
  matching : ∀ g ∈ d, g.matching = true → g.left = g.right
  aligned : ∀ g ∈ d, EndsLF g.left ∧ EndsLF g.right

/-- Well-formedness of a hunk list, as `files::merge_hunks` produces it for an `n`-sided conflict
and as seen by a parser looking for markers of length ≥ `len` (decidable):
* `len ≥ 1`, and there is at least one unresolved hunk;
* resolved hunks are non-empty, never adjacent, and end with `\n` unless last;
* unresolved hunks have `2n-1` terms; only the last hunk may have a term without final `\n`;
* no line of any term is a conflict marker of length ≥ `len` (`ContentOK`). -/
structure HunksWF (n len : Nat) (hs : List (List Bytes)) : Prop where
  len_pos : 1 ≤ len
  has_conflict : hs.any (·.length ≠ 1) = true
  hunks : HunksWFAux n len hs

instance (n len : Nat) (hs : List (List Bytes)) : Decidable (HunksWF n len hs) :=
  decidable_of_iff (1 ≤ len ∧ hs.any (·.length ≠ 1) = true ∧ HunksWFAux n len hs)
    ⟨fun ⟨a, b, c⟩ => ⟨a, b, c⟩, fun ⟨a, b, c⟩ => ⟨a, b, c⟩⟩

/-- Extra requirement of the two diff styles: `len ≥ 2` and no line of an unresolved hunk becomes a
marker when one of the diff prefixes `' '`, `'-'`, `'+'` is put in front of it (decidable). -/
structure DiffWF (len : Nat) (hs : List (List Bytes)) : Prop where
  len_two : 2 ≤ len
  safe : ∀ h ∈ hs, h.length ≠ 1 → ∀ c ∈ h, DiffSafe len c

instance (len : Nat) (hs : List (List Bytes)) : Decidable (DiffWF len hs) :=
  decidable_of_iff (2 ≤ len ∧ ∀ h ∈ hs, h.length ≠ 1 → ∀ c ∈ h, DiffSafe len c)
    ⟨fun ⟨a, b⟩ => ⟨a, b⟩, fun ⟨a, b⟩ => ⟨a, b⟩⟩

/-- every line of every term of `hs` is a line of one of the `files` (what line-level merging
guarantees; C04's subject, checked by the harness on every case through `C05 wf`) -/
def LinesFrom (files : List Bytes) (hs : List (List Bytes)) : Prop :=
  ∀ h ∈ hs, ∀ c ∈ h, ∀ l ∈ linesWT c, ∃ f ∈ files, l ∈ linesWT f

instance (files : List Bytes) (hs : List (List Bytes)) : Decidable (LinesFrom files hs) := by
  unfold LinesFrom; infer_instance

instance (d : List DiffGroup) (l r : Bytes) : Decidable (DiffOK d l r) :=
  decidable_of_iff ((d.map (·.left)).flatten = l ∧ (d.map (·.right)).flatten = r ∧
      (∀ g ∈ d, g.matching = true → g.left = g.right) ∧ (∀ g ∈ d, EndsLF g.left ∧ EndsLF g.right))
    ⟨fun ⟨a, b, c, e⟩ => ⟨a, b, c, e⟩, fun ⟨a, b, c, e⟩ => ⟨a, b, c, e⟩⟩

/-- All hypotheses of `roundtrip_end_to_end_partial` about one real `merge_hunks` output, as one
decidable check (the driver op `C05 wf` evaluates exactly this). -/
def RoundTripHyps (files : List Bytes) (n : Nat) (hs : List (List Bytes)) : Prop :=
  HunksWF n (chooseMarkerLen files) hs ∧ LinesFrom files hs

instance (files : List Bytes) (n : Nat) (hs : List (List Bytes)) : Decidable (RoundTripHyps files n hs) := by
  unfold RoundTripHyps; infer_instance

end JjModel.Conflicts
