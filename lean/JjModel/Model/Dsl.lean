import JjModel.Generated.ConstsDsl
/-!
  Model of string / symbol quoting in jj's expression languages.

  * `escapeString`: `/repo/lib/src/dsl_util.rs` `pub fn escape_string`.
  * `parseStringLiteral`: the pest rules `string_literal`, `string_content`, `string_content_char`,
    `string_escape` — their text is identical in `/repo/lib/src/revset.pest`,
    `/repo/lib/src/fileset.pest` and `/repo/cli/src/template.pest` (checked on every run by
    `tools/translate.py`) — followed by `StringLiteralParser::parse` (`dsl_util.rs`).
  * `identRest` / `isIdentifier`: revset.pest `identifier_part`, `identifier` and
    `revset_parser::is_identifier`; `XID_CONTINUE` is a parameter `xid : Char → Bool`.
  * `parseSymbol`: revset.pest `symbol_name = SOI ~ symbol ~ EOI` + `revset_parser::parse_symbol`.
  * `parseRemoteSymbol`: the fragment `program` → `primary` → `symbol ~ at_op ~ symbol` of
    revset.pest (a whole program that is one `name@remote`, optionally surrounded by whitespace).
  * `formatSymbol`, `formatString`, `formatRemoteSymbol`: `/repo/lib/src/revset.rs`.

  Strings are `List Char` (pest works on `char`s; `ANY` is any char).
-/
namespace JjModel.Dsl

abbrev Str := List Char

/-! ### escape_string -/

def hexDigitLower (n : Nat) : Char :=
  if n < 10 then Char.ofNat (48 + n) else Char.ofNat (87 + n)

/-- `char::is_ascii_control`: U+0000–U+001F or U+007F -/
def isAsciiControl (c : Char) : Bool := c.toNat < 32 || c.toNat = 127

/-- one step of the loop of `escape_string`.  The `ascii::escape_default` branch is only reached
for control characters other than `\t`, `\r`, `\n`, `\0`, for which it yields `\xHH` with
lower-case hex digits. -/
def escapeChar (c : Char) : Str :=
  if c = '"' then ['\\', '"']
  else if c = '\\' then ['\\', '\\']
  else if c = '\t' then ['\\', 't']
  else if c = '\r' then ['\\', 'r']
  else if c = '\n' then ['\\', 'n']
  else if c = Char.ofNat 0 then ['\\', '0']
  else if isAsciiControl c then ['\\', 'x', hexDigitLower (c.toNat / 16), hexDigitLower (c.toNat % 16)]
  else [c]

/-- `pub fn escape_string(unescaped: &str) -> String` -/
def escapeString (s : Str) : Str := s.flatMap escapeChar

/-! ### string literals -/

/-- `ASCII_HEX_DIGIT` with its value -/
def hexVal (c : Char) : Option Nat :=
  if '0' ≤ c ∧ c ≤ '9' then some (c.toNat - 48)
  else if 'a' ≤ c ∧ c ≤ 'f' then some (c.toNat - 87)
  else if 'A' ≤ c ∧ c ≤ 'F' then some (c.toNat - 55)
  else none

/-- `(string_content | string_escape)* ~ "\""` together with `StringLiteralParser::parse`:
consumes the body of a literal up to and including the closing quote; returns the decoded
string (accumulated in `acc`, reversed) and the remaining input.  `none` = the rule fails. -/
def parseLiteralBody : Str → Str → Option (Str × Str)
  | [], _ => none
  | c :: rest, acc =>
    if c = '"' then some (acc.reverse, rest)
    else if c = '\\' then
      match rest with
      | [] => none
      | e :: rest' =>
        if e = 't' then parseLiteralBody rest' ('\t' :: acc)
        else if e = 'r' then parseLiteralBody rest' ('\r' :: acc)
        else if e = 'n' then parseLiteralBody rest' ('\n' :: acc)
        else if e = '0' then parseLiteralBody rest' (Char.ofNat 0 :: acc)
        else if e = 'e' then parseLiteralBody rest' (Char.ofNat 27 :: acc)
        else if e = '"' then parseLiteralBody rest' ('"' :: acc)
        else if e = '\\' then parseLiteralBody rest' ('\\' :: acc)
        else if e = 'x' then
          match rest' with
          | h1 :: h2 :: rest'' =>
            match hexVal h1, hexVal h2 with
            | some a, some b => parseLiteralBody rest'' (Char.ofNat (a * 16 + b) :: acc)
            | _, _ => none
          | _ => none
        else none
    else parseLiteralBody rest (c :: acc)

/-- `string_literal = ${ "\"" ~ (string_content | string_escape)* ~ "\"" }` at the start of the
input: decoded string and remaining input -/
def parseStringLiteralPrefix : Str → Option (Str × Str)
  | '"' :: rest => parseLiteralBody rest []
  | _ => none

/-- a whole text that is exactly one string literal -/
def parseStringLiteral (text : Str) : Option Str :=
  match parseStringLiteralPrefix text with
  | some (s, []) => some s
  | _ => none

/-- `raw_string_literal = ${ "'" ~ raw_string_content ~ "'" }`, `raw_string_content = (!"'" ~ ANY)*` -/
def parseRawBody : Str → Str → Option (Str × Str)
  | [], _ => none
  | c :: rest, acc => if c = '\'' then some (acc.reverse, rest) else parseRawBody rest (c :: acc)

def parseRawLiteralPrefix : Str → Option (Str × Str)
  | '\'' :: rest => parseRawBody rest []
  | _ => none

/-! ### identifiers -/

/-- a character of `identifier_part = @{ (XID_CONTINUE | "_" | "*" | "/")+ }` -/
def isPartChar (xid : Char → Bool) (c : Char) : Bool := xid c || c = '_' || c = '*' || c = '/'

/-- state of the matcher of `identifier = identifier_part ~ (("." | "-"+ | "+") ~ identifier_part)*` -/
inductive IdState where
  /-- the previous character was a part character: the input read so far is an identifier -/
  | part
  /-- just read `.` or `+` after an identifier: a part character must follow -/
  | sep
  /-- just read one or more `-` after an identifier: more `-` or a part character must follow -/
  | dashes
  deriving DecidableEq, Repr

/-- PEG matching of `identifier` after its first part character: returns the input remaining
after the longest match.  `good` is the remaining input at the last position where an
identifier was complete (the repetition `(sep ~ identifier_part)*` gives back a separator
that is not followed by a part). -/
def identGo (xid : Char → Bool) : IdState → Str → Str → Str
  | .part, _, [] => []
  | _, good, [] => good
  | .part, _, c :: t =>
    if isPartChar xid c then identGo xid .part t t
    else if c = '.' ∨ c = '+' then identGo xid .sep (c :: t) t
    else if c = '-' then identGo xid .dashes (c :: t) t
    else c :: t
  | .sep, good, c :: t =>
    if isPartChar xid c then identGo xid .part t t else good
  | .dashes, good, c :: t =>
    if isPartChar xid c then identGo xid .part t t
    else if c = '-' then identGo xid .dashes good t
    else good

/-- `identifier` at the start of the input: the remaining input, or `none` if the rule fails -/
def identRest (xid : Char → Bool) : Str → Option Str
  | [] => none
  | c :: t => if isPartChar xid c then some (identGo xid .part t t) else none

/-- `pub fn is_identifier(text)`: the rule matches and its span ends at the end of the text -/
def isIdentifier (xid : Char → Bool) (text : Str) : Bool :=
  match identRest xid text with
  | some [] => true
  | _ => false

/-! ### symbols -/

/-- `symbol = _{ identifier | string_literal | raw_string_literal }` at the start of the input
(with `parse_as_string_literal`): the symbol's string and the remaining input -/
def parseSymbolPrefix (xid : Char → Bool) (text : Str) : Option (Str × Str) :=
  match identRest xid text with
  | some rest => some (text.take (text.length - rest.length), rest)
  | none =>
    match parseStringLiteralPrefix text with
    | some r => some r
    | none => parseRawLiteralPrefix text

/-- `pub fn parse_symbol(text)`: `SOI ~ symbol ~ EOI`, empty result rejected -/
def parseSymbol (xid : Char → Bool) (text : Str) : Option Str :=
  match parseSymbolPrefix xid text with
  | some (name, []) => if name = [] then none else some name
  | _ => none

/-- `whitespace = _{ " " | "\t" | "\r" | "\n" | "\x0c" }` -/
def isWhitespace (c : Char) : Bool :=
  c = ' ' || c = '\t' || c = '\r' || c = '\n' || c = Char.ofNat 12

/-- A program that is exactly `symbol ~ at_op ~ symbol` (4th alternative of `primary`), with
optional whitespace around it: `ExpressionKind::RemoteSymbol { name, remote }`.
`none` stands for every other outcome (parse error or any other expression kind).
Only meant for texts without `(`: the parenthesised / function-call alternatives of
`primary` are outside this fragment. -/
def parseRemoteSymbol (xid : Char → Bool) (text : Str) : Option (Str × Str) :=
  let text := text.dropWhile isWhitespace
  match parseSymbolPrefix xid text with
  | some (name, '@' :: rest) =>
    match parseSymbolPrefix xid rest with
    | some (remote, rest') => if rest'.all isWhitespace then some (name, remote) else none
    | none => none
  | _ => none

/-! ### formatting -/

/-- `pub fn format_string(literal)` -/
def formatString (s : Str) : Str := '"' :: escapeString s ++ ['"']

/-- `pub fn format_symbol(literal)` -/
def formatSymbol (xid : Char → Bool) (s : Str) : Str :=
  if isIdentifier xid s then s else formatString s

/-- `pub fn format_remote_symbol(name, remote)` -/
def formatRemoteSymbol (xid : Char → Bool) (name remote : Str) : Str :=
  formatSymbol xid name ++ '@' :: formatSymbol xid remote

/-- Approximation of `XID_CONTINUE` used by the **driver only**: exact on ASCII
(`[A-Za-z0-9_]`), and on the few non-ASCII characters the harness generates
(true: `é`, `日`, `本`, `·` U+00B7, U+0301 combining acute, `٣` U+0663;
false: `→`, `€`, U+00A0, `“`); every other non-ASCII character is answered `false`, and the
harness does not generate such characters. -/
def xidApprox (c : Char) : Bool :=
  if c.toNat < 128 then c.isAlphanum || c = '_'
  else c = 'é' || c = '日' || c = '本' || c = Char.ofNat 0xB7 || c = Char.ofNat 0x301 || c = Char.ofNat 0x663

end JjModel.Dsl
