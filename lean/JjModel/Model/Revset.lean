/-
  L6 — model of revset evaluation (property C19).

  Mirrors
    * `lib/src/revset.rs`: `RevsetExpression` (the covered operators), `resolve_referenced_commits`,
      `resolve_visibility` (`VisibilityResolutionContext::resolve`), `ResolvedExpression`;
    * `lib/src/default_index/revset_engine.rs`: `EvaluationContext::evaluate`, `UnionRevWalk`,
      `IntersectionRevWalk`, `DifferenceRevWalk`, `revset_for_commit_ids`, `take_latest_revset`;
    * `lib/src/default_index/rev_walk.rs`: `RevWalkImpl`, `RevWalkGenerationRangeImpl`
      (with the interval merging of `RevWalkItemGenerationRange`), `RevWalkDescendantsImpl`,
      `descendants_filtered_by_generation`, `ancestors_until_roots`;
    * `lib/src/default_index/composite.rs`: `heads_pos`, `common_ancestors_pos`,
      `heads_from_range_and_filter`.

  A commit graph is the list of commits in index order: the position of a commit is its list
  index, its parents are smaller positions.  A revset is a *strictly descending* list of positions
  (what `InternalRevset::positions()` streams).

  Modelling decision (stated in notes/C19.md): the binary heaps / `RevWalkQueue`s of the walks
  pop positions in descending order, so every walk is written as a *scan* `p = N-1, …, 0` that
  holds the queue as the list of still-pending items and asks "is there an item at `p`?".
  Everything else (dedup by `skip_while_eq`, lazy flushing of the unwanted queue, parents-range
  filtering, `min_pos` cut-off, the merging of overlapping generation intervals, saturating
  `u32` arithmetic) is kept literally.

  Import-free on purpose: the driver executable links this file.
-/
namespace JjModel.Revset

/-! ## graphs -/

structure Graph where
  /-- `parents[i]` = parent positions of the commit at position `i`, in commit order -/
  parents : List (List Nat)
  /-- positions of the visible heads (`repo.view().heads()`) -/
  heads : List Nat
  /-- committer timestamps (for `latest`) -/
  ts : List Nat
  deriving Repr

namespace Graph
def size (g : Graph) : Nat := g.parents.length
def par (g : Graph) (p : Nat) : List Nat := g.parents.getD p []
def tsOf (g : Graph) (p : Nat) : Nat := g.ts.getD p 0
end Graph

/-- `filter_slice_by_range(parents, parents_range)` for the two ranges that can be constructed:
`PARENTS_RANGE_FULL` (`fp = false`) and `0..1` (`fp = true`, first-parent ancestry). -/
def filterPar (fp : Bool) (ps : List Nat) : List Nat := if fp then ps.take 1 else ps

/-- `u32::MAX` -/
def U32MAX : Nat := 4294967295

/-- `x.saturating_add(1)` on `u32` -/
def satSucc (x : Nat) : Nat := if x ≥ U32MAX then U32MAX else x + 1

/-! ## sorted-stream set operators (`union_by`, `intersection_by`, `difference_by` with
`cmp = |a, b| a.cmp(b).reverse()`, i.e. streams sorted by descending position) -/

def unionDesc : List Nat → List Nat → List Nat
  | [], ys => ys
  | x :: xs, [] => x :: xs
  | x :: xs, y :: ys =>
    if y < x then x :: unionDesc xs (y :: ys)          -- Ordering::Less: take walk1
    else if x = y then x :: unionDesc xs ys            -- Equal: drop walk2's, take walk1's
    else y :: unionDesc (x :: xs) ys                   -- Greater: take walk2

def interDesc : List Nat → List Nat → List Nat
  | [], _ => []
  | _ :: _, [] => []
  | x :: xs, y :: ys =>
    if y < x then interDesc xs (y :: ys)
    else if x = y then x :: interDesc xs ys
    else interDesc (x :: xs) ys

def diffDesc : List Nat → List Nat → List Nat
  | [], _ => []
  | x :: xs, [] => x :: xs
  | x :: xs, y :: ys =>
    if y < x then x :: diffDesc xs (y :: ys)
    else if x = y then diffDesc xs ys
    else diffDesc (x :: xs) ys

/-! ## `revset_for_commit_ids`: sort descending, dedup -/

def insertDesc (a : Nat) : List Nat → List Nat
  | [] => [a]
  | b :: l => if b < a then a :: b :: l else if a = b then b :: l else b :: insertDesc a l

/-- `positions.sort_unstable_by_key(Reverse); positions.dedup()` -/
def sortDedupDesc : List Nat → List Nat
  | [] => []
  | a :: l => insertDesc a (sortDedupDesc l)

/-! ## `RevWalkImpl` — ancestors walk with an unwanted queue -/

/-- Scan form of `RevWalkImpl::next` (+ `flush_queue_until`).
`n` is the scan bound: positions `≥ n` have been handled.  `wanted`/`unwanted` are the queue
contents (as bags).  `minPos` is `RevWalkQueue::min_pos` (items below it are never pushed). -/
def walkAnc (adj : Nat → List Nat) (fp : Bool) (minPos : Nat) :
    Nat → List Nat → List Nat → List Nat
  | 0, _, _ => []
  | p + 1, wanted, unwanted =>
    if p < minPos then [] else
    -- flush_queue_until: an unwanted item at `p` is replaced by all its parents
    let unwanted' := if unwanted.contains p then adj p ++ unwanted else unwanted
    if wanted.contains p then
      if unwanted.contains p then walkAnc adj fp minPos p wanted unwanted'
      else p :: walkAnc adj fp minPos p (filterPar fp (adj p) ++ wanted) unwanted'
    else walkAnc adj fp minPos p wanted unwanted'

/-! ## `RevWalkGenerationRangeImpl` — ancestors walk filtered by generation -/

/-- `RevWalkItemGenerationRange { start, end }` -/
structure GRange where
  s : Nat
  e : Nat
  deriving Repr, DecidableEq

/-- `contains_end` -/
def GRange.containsEnd (r : GRange) (E : Nat) : Bool := r.s < E && E ≤ r.e

/-- derived `Ord` on `(start, end)`; the heap pops `Reverse(range)` greatest first = ascending -/
def GRange.le (a b : GRange) : Bool := a.s < b.s || (a.s = b.s && a.e ≤ b.e)

def insertRange (a : GRange) : List GRange → List GRange
  | [] => [a]
  | b :: l => if a.le b then a :: b :: l else b :: insertRange a l

def sortRanges : List GRange → List GRange
  | [] => []
  | a :: l => insertRange a (sortRanges l)

/-- The `while let Some(x) = pop_eq(pos)` loop: merges overlapping ranges (`try_merge_end`);
returns every range for which `enqueue_wanted_adjacents` is called, in call order. -/
def mergeRanges : GRange → List GRange → List GRange
  | pending, [] => [pending]
  | pending, x :: xs =>
    if x.s ≤ pending.e then mergeRanges ⟨pending.s, max pending.e x.e⟩ xs
    else pending :: mergeRanges x xs

/-- `enqueue_wanted_adjacents` -/
def enqueueAdj (adj : Nat → List Nat) (fp : Bool) (E : Nat) (p : Nat) (r : GRange) :
    List (Nat × GRange) :=
  if r.s + 1 ≥ E then []
  else (filterPar fp (adj p)).map fun q => (q, ⟨r.s + 1, satSucc r.e⟩)

/-- Scan form of `RevWalkGenerationRangeImpl::next`.  `E` = `generation_end`. -/
def walkGen (adj : Nat → List Nat) (fp : Bool) (E : Nat) :
    Nat → List (Nat × GRange) → List Nat → List Nat
  | 0, _, _ => []
  | p + 1, wanted, unwanted =>
    let unwanted' := if unwanted.contains p then adj p ++ unwanted else unwanted
    match sortRanges ((wanted.filter fun it => it.1 = p).map (·.2)) with
    | [] => walkGen adj fp E p wanted unwanted'
    | r0 :: rest =>
      if unwanted.contains p then walkGen adj fp E p wanted unwanted'
      else
        let someInRange := (r0 :: rest).any (·.containsEnd E)
        let pushed := (mergeRanges r0 rest).flatMap (enqueueAdj adj fp E p)
        if someInRange then p :: walkGen adj fp E p (pushed ++ wanted) unwanted'
        else walkGen adj fp E p (pushed ++ wanted) unwanted'

/-- `RevWalkItemGenerationRange::from_filter_range(lo..hi)` -/
def fromFilterRange (lo hi : Nat) : GRange := ⟨0, hi - lo⟩

/-- `to_u32_generation_range`: `end.try_into().unwrap_or(u32::MAX)`; `none` = `u64::MAX`.
(A start above `u32::MAX` is an evaluation error in jj; not modelled.) -/
def genEnd (hi : Option Nat) : Nat :=
  match hi with
  | none => U32MAX
  | some h => if h > U32MAX then U32MAX else h

/-- `RevWalkBuilder::ancestors_filtered_by_generation` -/
def ancestorsGen (g : Graph) (fp : Bool) (lo : Nat) (hi : Option Nat) (heads unwanted : List Nat) :
    List Nat :=
  let E := genEnd hi
  walkGen g.par fp E g.size (heads.map fun h => (h, fromFilterRange lo E)) unwanted

/-- `ancestors()` or `ancestors_filtered_by_generation()` depending on
`generation == GENERATION_RANGE_FULL`, as in the `Ancestors`/`Range` arms of `evaluate`. -/
def ancestorsWalk (g : Graph) (fp : Bool) (lo : Nat) (hi : Option Nat) (heads unwanted : List Nat) :
    List Nat :=
  if lo = 0 ∧ hi = none then walkAnc g.par fp 0 g.size heads unwanted
  else ancestorsGen g fp lo hi heads unwanted

/-! ## descendants -/

def minList : List Nat → Option Nat
  | [] => none
  | a :: l => match minList l with
    | none => some a
    | some m => some (if a < m then a else m)

/-- `ancestors_until_roots`: ancestors walk cut below the smallest root
(`GlobalCommitPosition::MAX` when there is no root: nothing is walked). -/
def ancestorsUntilRoots (g : Graph) (heads roots : List Nat) : List Nat :=
  match minList roots with
  | none => []
  | some m => walkAnc g.par false m g.size heads []

/-- `RevWalkDescendantsImpl::next`: candidates are popped in ascending order; a candidate is
reachable if it is a root or one of its parents is reachable.  Returns ascending positions. -/
def descScan (g : Graph) (roots : List Nat) : List Nat → List Nat → List Nat
  | [], _ => []
  | c :: cands, reach =>
    if roots.contains c || (g.par c).any reach.contains then c :: descScan g roots cands (c :: reach)
    else descScan g roots cands reach

/-- `builder.wanted_heads(heads).descendants(roots)` collected and reversed: descending. -/
def descendantsOf (g : Graph) (heads roots : List Nat) : List Nat :=
  (descScan g roots (ancestorsUntilRoots g heads roots).reverse []).reverse

/-- `RevWalkDescendantsIndex::build(..).children_map[pos]` restricted to the walked positions -/
def childrenIn (g : Graph) (cands : List Nat) (p : Nat) : List Nat :=
  cands.filter fun c => (g.par c).contains p

/-- `descendants_filtered_by_generation` (collected, mapped, reversed: descending).
The walk runs on `Reverse(pos)` over the children index; we mirror positions `p ↦ N-1-p` so
that the same scan `walkGen` is used. -/
def descendantsGen (g : Graph) (lo : Nat) (hi : Option Nat) (heads roots : List Nat) : List Nat :=
  let N := g.size
  let cands := ancestorsUntilRoots g heads roots
  let E := genEnd hi
  let mir := fun p => N - 1 - p
  let adj := fun p' => (childrenIn g cands (mir p')).map mir
  -- "Do not add unreachable roots which shouldn't be visited"
  let items := (roots.filter cands.contains).map fun r => (mir r, fromFilterRange lo E)
  ((walkGen adj false E N items []).map mir).reverse

/-! ## heads / roots / fork point -/

/-- `generation_number`: 0 for a commit without parents, else 1 + max over parents.
`gens g` lists them by position. -/
def genOf (acc : List Nat) : List Nat → Nat
  | [] => 0
  | ps => 1 + (ps.map fun q => acc.getD q 0).foldl max 0

def gensAux : List (List Nat) → List Nat → List Nat
  | [], acc => acc
  | ps :: rest, acc => gensAux rest (acc ++ [genOf acc ps])

def gens (g : Graph) : List Nat := gensAux g.parents []

/-- Scan form of `heads_pos` (candidates strictly descending).  `pq` is the `parents` heap. -/
def headsScan (g : Graph) (gn : List Nat) (minGen : Nat) :
    Nat → List Nat → List Nat → List Nat
  | 0, _, _ => []
  | p + 1, cands, pq =>
    if pq.contains p then
      -- an ancestor of a found head: pop (below the generation bound) or shift to its parents
      let pq' := if gn.getD p 0 ≤ minGen then pq else g.par p ++ pq
      headsScan g gn minGen p cands pq'
    else if cands.contains p then
      p :: headsScan g gn minGen p cands (g.par p ++ pq)
    else headsScan g gn minGen p cands pq

def headsPos (g : Graph) (cands : List Nat) : List Nat :=
  let gn := gens g
  match minList (cands.map fun c => gn.getD c 0) with
  | none => cands
  | some m => headsScan g gn m g.size cands []

/-- `Roots` arm of `evaluate`. -/
def rootsOf (g : Graph) (xs : List Nat) : List Nat :=
  let filled := descendantsOf g xs xs
  xs.filter fun p => !(g.par p).any filled.contains

/-- Scan form of the `while` loop of `common_ancestors_pos` (before the final `heads_pos`). -/
def commonScan (g : Graph) : Nat → List Nat → List Nat → List Nat
  | 0, _, _ => []
  | p + 1, s1, s2 =>
    if s1.contains p then
      if s2.contains p then p :: commonScan g p s1 s2          -- Equal: both dedup-popped
      else commonScan g p (g.par p ++ s1) s2                   -- Greater: shift items1
    else if s2.contains p then commonScan g p s1 (g.par p ++ s2)
    else commonScan g p s1 s2

def commonAncestorsPos (g : Graph) (s1 s2 : List Nat) : List Nat :=
  headsPos g (commonScan g g.size s1 s2)

/-- `ForkPoint` arm of `evaluate`. -/
def forkPoint (g : Graph) : List Nat → List Nat
  | [] => []
  | p :: rest => rest.foldl (fun acc q => commonAncestorsPos g acc [q]) [p]

/-! ## merge point, forks -/

/-- `MergePoint` arm: common descendants (inside `::visible_heads`) of all roots, then the
members without a parent in the set.  `roots` is the evaluated operand (descending). -/
def mergePointArm (g : Graph) (vh : List Nat) : List Nat → List Nat
  | [] => []
  | p :: rest =>
    let cands := rest.foldl
      (fun cands q => cands.filter (descendantsOf g cands [q]).contains)
      (descendantsOf g vh [p])
    cands.filter fun x => !(g.par x).any cands.contains

/-- the `filter_map` of the `Forks` arm over the ancestors walk: `seen` is the bag of parent
links of the positions visited so far (`child_counts`) -/
def forksScan (g : Graph) : List Nat → List Nat → List Nat
  | [], _ => []
  | p :: rest, seen =>
    if 2 ≤ seen.count p then p :: forksScan g rest (g.par p ++ seen)
    else forksScan g rest (g.par p ++ seen)

/-- `Forks` arm -/
def forksArm (g : Graph) (heads : List Nat) : List Nat :=
  forksScan g (walkAnc g.par false 0 g.size heads []) []

/-! ## reachable -/

/-- One round of growing `cur ⊆ dom` along parent/child edges inside `dom`. -/
def reachStep (g : Graph) (dom cur : List Nat) : List Nat :=
  dom.filter fun p =>
    cur.contains p ||
    (g.par p).any (fun q => dom.contains q && cur.contains q) ||
    cur.any (fun c => (g.par c).contains p)

def reachIter (g : Graph) (dom : List Nat) : Nat → List Nat → List Nat
  | 0, cur => cur
  | k + 1, cur => reachIter g dom k (reachStep g dom cur)

/-- `Reachable` arm: the union-find components of `domain` (edges = parent links inside the
domain) that contain a source; modelled as the `|domain|`-fold closure.  Result keeps the
(descending) order of `domain`. -/
def reachableIn (g : Graph) (sources dom : List Nat) : List Nat :=
  reachIter g dom dom.length (dom.filter sources.contains)

/-! ## latest -/

/-- `Item { timestamp, pos }` ordering -/
def itemLt (g : Graph) (a b : Nat) : Bool :=
  g.tsOf a < g.tsOf b || (g.tsOf a = g.tsOf b && a < b)

/-- the least element of the min-heap (`latest_items.peek_mut()`) -/
def earliest (g : Graph) : List Nat → Option Nat
  | [] => none
  | a :: l => match earliest g l with
    | none => some a
    | some m => some (if itemLt g a m then a else m)

def replaceFirst (a b : Nat) : List Nat → List Nat
  | [] => []
  | x :: l => if x = a then b :: l else x :: replaceFirst a b l

/-- one iteration of `for item in candidate_iter`: replace the earliest kept item if the new
one is later -/
def latestStep (g : Graph) (kept : List Nat) (item : Nat) : List Nat :=
  match earliest g kept with
  | some m => if itemLt g m item then replaceFirst m item kept else kept
  | none => kept

/-- `take_latest_revset` -/
def takeLatest (g : Graph) (cands : List Nat) (count : Nat) : List Nat :=
  if count = 0 then [] else
  sortDedupDesc ((cands.drop count).foldl (latestStep g) (cands.take count))

/-! ## `heads_from_range_and_filter` -/

/-- Scan form.  `wanted`/`unwanted` are the two heaps. -/
def headsRangeScan (g : Graph) (fp : Bool) (filter : Nat → Bool) :
    Nat → List Nat → List Nat → List Nat
  | 0, _, _ => []
  | p + 1, wanted, unwanted =>
    let unwanted' := if unwanted.contains p then g.par p ++ unwanted else unwanted
    if wanted.contains p then
      if unwanted.contains p then headsRangeScan g fp filter p wanted unwanted'
      else if filter p then p :: headsRangeScan g fp filter p wanted (g.par p ++ unwanted')
      else headsRangeScan g fp filter p (filterPar fp (g.par p) ++ wanted) unwanted'
    else headsRangeScan g fp filter p wanted unwanted'

/-- `HeadsRange` arm after the two operands are evaluated (`heads` already has the roots
removed): `if heads.is_empty() { return Ok(heads) }`, else the scan. -/
def headsRangeArm (g : Graph) (fp : Bool) (filter : Nat → Bool) (roots heads : List Nat) : List Nat :=
  if heads.isEmpty then [] else headsRangeScan g fp filter g.size heads roots

/-- `Coalesce` arm: the first operand if it streams anything, else the second -/
def coalesceArm (a b : List Nat) : List Nat := if a.isEmpty then b else a

/-! ## expressions -/

/-- `RevsetExpression` restricted to the covered operators (resolved state: no symbols).
Generation ranges are `lo .. hi` with `hi = none` for `u64::MAX`; `fp` is
`parents_range == 0..1`. -/
inductive Expr where
  | none
  | all
  | visibleHeads
  | visibleHeadsOrReferenced
  | root
  | commits (l : List Nat)
  | ancestors (heads : Expr) (lo : Nat) (hi : Option Nat) (fp : Bool)
  | descendants (roots : Expr) (lo : Nat) (hi : Option Nat)
  | range (roots heads : Expr) (lo : Nat) (hi : Option Nat) (fp : Bool)
  | dagRange (roots heads : Expr)
  | reachable (sources domain : Expr)
  | heads (x : Expr)
  | headsRange (roots heads : Expr) (fp : Bool) (filter : Expr)
  | roots (x : Expr)
  | forkPoint (x : Expr)
  | mergePoint (x : Expr)
  | forks
  | latest (x : Expr) (count : Nat)
  | coalesce (a b : Expr)
  | notIn (x : Expr)
  | union (a b : Expr)
  | inter (a b : Expr)
  | diff (a b : Expr)
  deriving Repr, DecidableEq

mutual
/-- `ResolvedExpression` (the evaluation plan handed to the index backend) -/
inductive RExpr where
  | commits (l : List Nat)
  | ancestors (heads : RExpr) (lo : Nat) (hi : Option Nat) (fp : Bool)
  | range (roots heads : RExpr) (lo : Nat) (hi : Option Nat) (fp : Bool)
  | dagRange (roots heads : RExpr) (lo : Nat) (hi : Option Nat)
  | reachable (sources domain : RExpr)
  | heads (x : RExpr)
  | headsRange (roots heads : RExpr) (fp : Bool) (filter : Option PExpr)
  | roots (x : RExpr)
  | forkPoint (x : RExpr)
  | mergePoint (roots heads : RExpr)
  | forks (heads : RExpr)
  | latest (x : RExpr) (count : Nat)
  | coalesce (a b : RExpr)
  | union (a b : RExpr)
  | inter (a b : RExpr)
  | diff (a b : RExpr)
/-- `ResolvedPredicateExpression` (no pure filters: only `Set`, `NotIn`, `Union`, `Intersection`) -/
inductive PExpr where
  | set (x : RExpr)
  | notIn (x : PExpr)
  | union (a b : PExpr)
  | inter (a b : PExpr)
end

/-! ## `resolve_referenced_commits` + `resolve_visibility` -/

/-- The commits collected into the top-level `WithinReference` node: every `Commits` literal. -/
def refsOf : Expr → List Nat
  | .commits l => l
  | .ancestors h _ _ _ => refsOf h
  | .descendants r _ _ => refsOf r
  | .range r h _ _ _ => refsOf r ++ refsOf h
  | .dagRange r h => refsOf r ++ refsOf h
  | .reachable s d => refsOf s ++ refsOf d
  | .heads x => refsOf x
  | .headsRange r h _ f => refsOf r ++ refsOf h ++ refsOf f
  | .roots x => refsOf x
  | .forkPoint x => refsOf x
  | .mergePoint x => refsOf x
  | .latest x _ => refsOf x
  | .coalesce a b => refsOf a ++ refsOf b
  | .notIn x => refsOf x
  | .union a b => refsOf a ++ refsOf b
  | .inter a b => refsOf a ++ refsOf b
  | .diff a b => refsOf a ++ refsOf b
  | _ => []

/-- `resolve_visible_heads_or_referenced` -/
def rVhor (g : Graph) (refs : List Nat) : RExpr := .commits (refs ++ g.heads)

/-- `resolve_all` -/
def rAll (g : Graph) (refs : List Nat) : RExpr := .ancestors (rVhor g refs) 0 none false

/-- `(!matches!(filter, All)).then(|| resolve_predicate(filter))` -/
def filterOpt (f : Expr) (p : PExpr) : Option PExpr :=
  match f with
  | .all => none
  | _ => some p

mutual
/-- `VisibilityResolutionContext::resolve` (`is_heads_normalized = true`) -/
def resolve (g : Graph) (refs : List Nat) : Expr → RExpr
  | .none => .commits []
  | .all => rAll g refs
  | .visibleHeads => .commits g.heads
  | .visibleHeadsOrReferenced => rVhor g refs
  | .root => .commits [0]
  | .commits l => .commits l
  | .ancestors h lo hi fp => .ancestors (resolve g refs h) lo hi fp
  | .descendants r lo hi => .dagRange (resolve g refs r) (rVhor g refs) lo hi
  | .range r h lo hi fp => .range (resolve g refs r) (resolve g refs h) lo hi fp
  | .dagRange r h => .dagRange (resolve g refs r) (resolve g refs h) 0 none
  | .reachable s d => .reachable (resolve g refs s) (resolve g refs d)
  | .heads x => .heads (resolve g refs x)
  | .headsRange r h fp f =>
    .headsRange (resolve g refs r) (resolve g refs h) fp (filterOpt f (resolvePred g refs f))
  | .roots x => .roots (resolve g refs x)
  | .forkPoint x => .forkPoint (resolve g refs x)
  | .mergePoint x => .mergePoint (resolve g refs x) (rVhor g refs)
  | .forks => .forks (rVhor g refs)
  | .latest x n => .latest (resolve g refs x) n
  | .coalesce a b => .coalesce (resolve g refs a) (resolve g refs b)
  | .notIn x => .diff (rAll g refs) (resolve g refs x)
  | .union a b => .union (resolve g refs a) (resolve g refs b)
  | .inter a b => .inter (resolve g refs a) (resolve g refs b)
  | .diff a b => .diff (resolve g refs a) (resolve g refs b)
/-- `VisibilityResolutionContext::resolve_predicate` -/
def resolvePred (g : Graph) (refs : List Nat) : Expr → PExpr
  | .notIn x => .notIn (resolvePred g refs x)
  | .union a b => .union (resolvePred g refs a) (resolvePred g refs b)
  | .inter a b => .inter (resolvePred g refs a) (resolvePred g refs b)
  | .diff a b => .inter (resolvePred g refs a) (.notIn (resolvePred g refs b))
  | .none => .set (.commits [])
  | .all => .set (rAll g refs)
  | .visibleHeads => .set (.commits g.heads)
  | .visibleHeadsOrReferenced => .set (rVhor g refs)
  | .root => .set (.commits [0])
  | .commits l => .set (.commits l)
  | .ancestors h lo hi fp => .set (.ancestors (resolve g refs h) lo hi fp)
  | .descendants r lo hi => .set (.dagRange (resolve g refs r) (rVhor g refs) lo hi)
  | .range r h lo hi fp => .set (.range (resolve g refs r) (resolve g refs h) lo hi fp)
  | .dagRange r h => .set (.dagRange (resolve g refs r) (resolve g refs h) 0 none)
  | .reachable s d => .set (.reachable (resolve g refs s) (resolve g refs d))
  | .heads x => .set (.heads (resolve g refs x))
  | .headsRange r h fp f =>
    .set (.headsRange (resolve g refs r) (resolve g refs h) fp (filterOpt f (resolvePred g refs f)))
  | .roots x => .set (.roots (resolve g refs x))
  | .forkPoint x => .set (.forkPoint (resolve g refs x))
  | .mergePoint x => .set (.mergePoint (resolve g refs x) (rVhor g refs))
  | .forks => .set (.forks (rVhor g refs))
  | .latest x n => .set (.latest (resolve g refs x) n)
  | .coalesce a b => .set (.coalesce (resolve g refs a) (resolve g refs b))
end

/-! ## `EvaluationContext::evaluate` -/

mutual
def eval (g : Graph) : RExpr → List Nat
  | .commits l => sortDedupDesc l
  | .ancestors h lo hi fp => ancestorsWalk g fp lo hi (eval g h) []
  | .range r h lo hi fp =>
    let roots := eval g r
    -- "Pre-filter heads": difference_by(heads, roots)
    let heads := diffDesc (eval g h) roots
    ancestorsWalk g fp lo hi heads roots
  | .dagRange r h lo hi =>
    let roots := eval g r
    let heads := eval g h
    if lo = 1 ∧ hi = some 2 then
      -- children: ancestors_until_roots filtered by "has a parent among the roots"
      (ancestorsUntilRoots g heads roots).filter fun p => (g.par p).any roots.contains
    else if lo = 0 ∧ hi = none then descendantsOf g heads roots
    else descendantsGen g lo hi heads roots
  | .reachable s d => reachableIn g (eval g s) (eval g d)
  | .heads x => headsPos g (eval g x)
  | .headsRange r h fp f =>
    let roots := eval g r
    headsRangeArm g fp
      (match f with
       | none => fun _ => true
       | some f => evalPred g f)
      roots (diffDesc (eval g h) roots)
  | .roots x => rootsOf g (eval g x)
  | .forkPoint x => forkPoint g (eval g x)
  | .mergePoint r h => mergePointArm g (eval g h) (eval g r)
  | .forks h => forksArm g (eval g h)
  | .latest x n => takeLatest g (eval g x) n
  | .coalesce a b => coalesceArm (eval g a) (eval g b)
  | .union a b => unionDesc (eval g a) (eval g b)
  | .inter a b => interDesc (eval g a) (eval g b)
  | .diff a b => diffDesc (eval g a) (eval g b)
/-- `evaluate_predicate(..).to_predicate_fn()`; the stateful "called with descending positions"
protocol of `predicate_fn_from_rev_walk` is abstracted to plain membership. -/
def evalPred (g : Graph) : PExpr → Nat → Bool
  | .set x => fun p => (eval g x).contains p
  | .notIn x => fun p => !evalPred g x p
  | .union a b => fun p => evalPred g a p || evalPred g b p
  | .inter a b => fun p => evalPred g a p && evalPred g b p
end

/-- `expression.evaluate_unoptimized(repo)`: `resolve_referenced_commits`, then
`resolve_visibility`, then the engine. -/
def evalTop (g : Graph) (e : Expr) : List Nat := eval g (resolve g (refsOf e) e)

end JjModel.Revset
