import JjModel.Model.Codec
import JjModel.Model.GitBackend
/-
  `#[derive(ContentHash)]` encoding of `backend::Commit` (the simple backend's commit id is the
  BLAKE2b-512 of this byte stream: `SimpleBackend::write_commit` → `blake2b_hash(&commit)`).
  Field order as in `lib/src/backend.rs`; tied to `Generated/HashLayout.Commit` in `Props/C17`.
-/
namespace JjModel.GitBackend
open JjModel.Codec

def idBytesC (tyName : String) : C Bytes := (Codec.bytes.named "0").structure tyName

def timestampHashC : C (Int × Int) :=
  (pair (((i64.named "0").structure "MillisSinceEpoch").named "timestamp") (i32.named "tz_offset")).structure "Timestamp"

def signatureC : C Signature :=
  ((pair (Codec.bytes.named "name") (pair (Codec.bytes.named "email") (timestampHashC.named "timestamp"))).iso
    (fun s => (s.name, s.email, (s.ms, s.tz))) (fun p => ⟨p.1, p.2.1, p.2.2.1, p.2.2.2⟩)
    (by intro x; rfl)).structure "Signature"

def secureSigC : C (Bytes × Bytes) :=
  (pair (Codec.bytes.named "data") (Codec.bytes.named "sig")).structure "SecureSig"

/-- the model's `Commit` has no `secure_sig` (always `None` on the paths modelled) -/
def commitC : C Commit :=
  ((pair ((list (idBytesC "CommitId")).named "parents")
    (pair ((list (idBytesC "CommitId")).named "predecessors")
    (pair ((list (idBytesC "TreeId")).named "root_tree")
    (pair ((list Codec.bytes).named "conflict_labels")
    (pair ((idBytesC "ChangeId").named "change_id")
    (pair (Codec.bytes.named "description")
    (pair (signatureC.named "author")
    (pair (signatureC.named "committer")
          ((opt secureSigC).named "secure_sig"))))))))).iso
    (fun c => (c.parents, c.predecessors, c.rootTree, c.labels, c.changeId, c.description, c.author, c.committer,
               (none : Option (Bytes × Bytes))))
    (fun p => ⟨p.1, p.2.1, p.2.2.1, p.2.2.2.1, p.2.2.2.2.1, p.2.2.2.2.2.1, p.2.2.2.2.2.2.1, p.2.2.2.2.2.2.2.1⟩)
    (by intro x; rfl)).structure "Commit"

/-- the byte stream hashed for a simple-backend commit id -/
def encCommit (c : Commit) : Bytes := commitC.enc c

end JjModel.GitBackend
