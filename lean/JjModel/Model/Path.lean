/-!
  Model of workspace path conversion: `/repo/lib/src/repo_path.rs`
  (`RepoPathBuf::from_relative_path`, `parse_fs_path`, `RepoPath::to_fs_path`,
  `RepoPathComponent::to_fs_name`) and `/repo/lib/src/file_util.rs` (`normalize_path`,
  `relative_path`), together with the part of Rust's `std::path` they use — **Unix rules only**
  (separator `/`, no prefixes; the Windows branches are `cfg`'d out of the build under test).

  File-system paths are strings (`List Char`; non-UTF-8 paths are out of the model — the real
  code answers `InvalidUtf8` for them).  A repository path is its internal string
  (`RepoPath::as_internal_file_string`), components separated by `/`, root = `""`.
-/
namespace JjModel.Path

abbrev Str := List Char

def dot : Str := ['.']
def dotdot : Str := ['.', '.']

/-- `std::path::Component` (Unix: no `Prefix`) -/
inductive Comp where
  | root | cur | parent
  | normal (name : Str)
  deriving DecidableEq, Repr

/-- `Component::as_os_str` -/
def Comp.str : Comp → Str
  | .root => ['/']
  | .cur => dot
  | .parent => dotdot
  | .normal s => s

/-- split on every `/`, keeping empty pieces (`"a//b"` ↦ `["a", "", "b"]`, `""` ↦ `[""]`) -/
def splitSlash : Str → List Str
  | [] => [[]]
  | c :: cs =>
    if c = '/' then [] :: splitSlash cs
    else match splitSlash cs with
      | h :: t => (c :: h) :: t
      | [] => [[c]]

def partToComp (s : Str) : Option Comp :=
  if s = [] ∨ s = dot then none
  else if s = dotdot then some .parent
  else some (.normal s)

/-- `Path::components()` on Unix: `RootDir` iff the path starts with `/`; repeated separators,
a trailing separator and `.` pieces are dropped, except that a relative path whose first piece
is `.` starts with `CurDir`. -/
def components (p : Str) : List Comp :=
  let parts := splitSlash p
  let lead : List Comp :=
    if p.head? = some '/' then [.root]
    else if parts.head? = some dot then [.cur]
    else []
  lead ++ parts.filterMap partToComp

/-- `PathBuf::push(path)` on Unix: an absolute `path` replaces the buffer; otherwise a separator
is added unless the buffer is empty or already ends with one. -/
def push (buf path : Str) : Str :=
  if path.head? = some '/' then path
  else if buf = [] ∨ buf.getLast? = some '/' then buf ++ path
  else buf ++ '/' :: path

/-- `Path::join` -/
def join (base path : Str) : Str := push base path

/-- a `PathBuf` built by pushing components one by one -/
def render (cs : List Comp) : Str := cs.foldl (fun buf c => push buf c.str) []

/-- one iteration of the loop of `file_util::normalize_path`.  The accumulator is the list of
components pushed so far, **last first** (the real accumulator is the `PathBuf`; `pop()` after
`components().next_back() == Normal` removes exactly the component pushed last). -/
def normStep (acc : List Comp) (c : Comp) : List Comp :=
  match c with
  | .cur => acc
  | .parent =>
    match acc with
    | .normal _ :: rest => rest
    | _ => c :: acc
  | .root => [.root]
  | .normal _ => c :: acc

def normalizeComps (cs : List Comp) : List Comp := (cs.foldl normStep []).reverse

/-- `pub fn normalize_path(path: &Path) -> PathBuf` -/
def normalizePath (path : Str) : Str :=
  let result := render (normalizeComps (components path))
  if result = [] then dot else result

/-- the loop of `strip_common_path_prefix` after the first pair matched -/
def stripMax : List Comp → List Comp → List Comp × List Comp
  | c1 :: r1, c2 :: r2 => if c1 = c2 then stripMax r1 r2 else (c1 :: r1, c2 :: r2)
  | a, b => (a, b)

/-- `fn strip_common_path_prefix`: `None` if the first components differ or a path is empty -/
def stripCommon : List Comp → List Comp → Option (List Comp × List Comp)
  | c1 :: r1, c2 :: r2 => if c1 = c2 then some (stripMax r1 r2) else none
  | _, _ => none

/-- `pub fn relative_path(from: &Path, to: &Path) -> PathBuf`.  The suffix `Path`s of the real
code (`Components::as_path`) are represented by their components. -/
def relativePath (src dst : Str) : Str :=
  match stripCommon (components src) (components dst) with
  | none => dst
  | some (srcSuffix, dstSuffix) =>
    let depth := srcSuffix.length
    let relative := render (List.replicate depth .parent)
    let suffix := render dstSuffix
    if suffix ≠ [] then push relative suffix
    else if depth = 0 then push relative dot
    else relative

/-- `RelativePathParseError::InvalidComponent { component }` (`InvalidUtf8` is out of the model) -/
inductive ParseResult where
  | ok (repoPath : Str)
  | invalidComponent (component : Str)
  deriving DecidableEq, Repr

/-- the `components.map(..)` of `from_relative_path`: names of `Normal` components, or the first
other component -/
def collectNormal : List Comp → Except Str (List Str)
  | [] => .ok []
  | .normal s :: rest =>
    match collectNormal rest with
    | .ok names => .ok (s :: names)
    | .error e => .error e
  | c :: _ => .error c.str

/-- names joined with `/` -/
def joinSlash : List Str → Str
  | [] => []
  | [s] => s
  | s :: rest => s ++ '/' :: joinSlash rest

/-- `RepoPathBuf::from_relative_path` -/
def fromRelativePath (relativePath : Str) : ParseResult :=
  let cs := components relativePath
  if cs = [.cur] then .ok []
  else match collectNormal cs with
    | .ok names => .ok (joinSlash names)
    | .error c => .invalidComponent c

/-- `RepoPathBuf::parse_fs_path(cwd, base, input)` -/
def parseFsPath (cwd base input : Str) : ParseResult :=
  let absInputPath := normalizePath (join cwd input)
  let repoRelativePath := relativePath base absInputPath
  fromRelativePath repoRelativePath

/-- `value.contains("//")` -/
def hasDoubleSlash : Str → Bool
  | a :: b :: rest => (a = '/' ∧ b = '/') || hasDoubleSlash (b :: rest)
  | _ => false

/-- `fn is_valid_repo_path_str` -/
def isValidRepoPathStr (value : Str) : Bool :=
  value.head? ≠ some '/' ∧ value.getLast? ≠ some '/' ∧ ¬ hasDoubleSlash value

/-- `RepoPath::components()` for a valid internal string -/
def repoComponents (value : Str) : List Str :=
  if value = [] then [] else splitSlash value

/-- `RepoPathComponent::to_fs_name`: exactly one `Normal` component, equal to the value -/
def toFsName (value : Str) : Option Str :=
  match components value with
  | [.normal name] => if name = value then some value else none
  | _ => none

/-- result of `to_fs_path`: the path, or the offending component (`InvalidRepoPathError.source`) -/
inductive FsResult where
  | ok (path : Str)
  | invalid (component : Str)
  deriving DecidableEq, Repr

/-- the `for c in self.components()` loop of `to_fs_path` -/
def pushNames (buf : Str) : List Str → FsResult
  | [] => .ok buf
  | c :: rest =>
    match toFsName c with
    | some name => pushNames (push buf name) rest
    | none => .invalid c

/-- `RepoPath::to_fs_path(&self, base)` -/
def toFsPath (repoPath base : Str) : FsResult :=
  match pushNames base (repoComponents repoPath) with
  | .ok result => if result = [] then .ok dot else .ok result
  | .invalid c => .invalid c

end JjModel.Path
