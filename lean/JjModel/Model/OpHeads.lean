import JjModel.Model.HeadProto
/-!
  The operation-head store (`/repo/lib/src/simple_op_heads_store.rs`, `op_heads_store.rs`
  `resolve_op_heads`, `transaction.rs` `UnpublishedOperation::publish`) as a client of the generic
  head-set machine.

  Operations are numbered by the harness in creation order (`0` = root operation); the operation
  store is the list `G` of parent lists (`G[i]` = parents of operation `i`, all `< i`).  `G` is the
  *final* store of a run; the store is append-only and content-addressed, and ancestry between
  existing operations never changes, so fixing it up front loses nothing.
-/
namespace JjModel.OpHeads
open JjModel.HeadProto

abbrev Dag := List (List Nat)

def parents (G : Dag) (n : Nat) : List Nat := G.getD n []

/-- parents refer to earlier operations only (creation order) -/
def wfDag (G : Dag) : Bool :=
  (List.range G.length).all fun i => (parents G i).all fun p => decide (p < i)

/-- `a` is an ancestor of `b` or `b` itself (fuel = number of operations suffices) -/
def isAncF (G : Dag) : Nat → Nat → Nat → Bool
  | 0, a, b => a == b
  | f + 1, a, b => a == b || (parents G b).any fun p => isAncF G f a p

def isAnc (G : Dag) (a b : Nat) : Bool := isAncF G G.length a b

/-- `dag_walk::heads`: the heads that are not a proper ancestor of another head -/
def filterHeads (G : Dag) (hs : List Nat) : List Nat :=
  hs.filter fun h => !(hs.any fun h' => h' != h && isAnc G h h')

/-- the heads dropped by the filter (`ancestor_op_heads`) -/
def ancestorHeads (G : Dag) (hs : List Nat) : List Nat :=
  hs.filter fun h => hs.any fun h' => h' != h && isAnc G h h'

def sameSet (a b : List Nat) : Bool := a.all (b.contains ·) && b.all (a.contains ·)

/-- client hook point: `opheads.read` in `resolve_op_heads` before (`false`) / under (`true`) the lock -/
inductive OInstr where
  | read (locked : Bool)
deriving Repr

/-- `update_op_heads(olds, new)`: add first, then remove (`addFirst = false` is the *wrong* order,
    used only by the regression sentinel) -/
def update (addFirst : Bool) (new : Nat) (olds : List Nat) : List (Instr Nat OInstr) :=
  if addFirst then [.add new (olds.map fun o => (true, o))]
  else rmsInstr new (olds.filter (· ≠ new)) ++ [.add new []]

/-- what `resolve_op_heads` decides under the lock when it sees several heads: the head to add and
    the heads to remove.  One head survives the filter → re-add it, remove the ancestors.  Otherwise
    the resolver creates the merge operation `new` (event argument; its parents must be exactly the
    filtered heads) → add it, remove ancestors and parents. -/
def resolvePlan (G : Dag) (heads : List Nat) (arg : List Nat) : Option (Nat × List Nat) :=
  match filterHeads G heads with
  | [h] => some (h, ancestorHeads G heads)
  | f =>
    match arg with
    | [new] =>
      if new < G.length && !heads.contains new && sameSet (parents G new) f
      then some (new, ancestorHeads G heads ++ parents G new)
      else none
    | _ => none

/-- `resolve_op_heads`.  Local state = the operation the call returns.  The event argument of the
    locked read is the number of the merge operation the resolver is about to create (if any). -/
def expand (addFirst : Bool) (G : Dag) : OInstr → List Nat → List Nat → Nat → Option (Nat × List (Instr Nat OInstr))
  | .read locked, arg, heads, loc =>
    match heads with
    | [] => none                       -- `get_op_heads` fails: "Corrupt repository: no head operation"
    | [h] => some (h, [])
    | _ =>
      if !locked then some (loc, [.lock, .client (.read true)])
      else
        match resolvePlan G heads arg with
        | none => none
        | some (t, olds) => some (t, update addFirst t olds)

def pick (arg : List Nat) (pend : List Nat) : Option Nat :=
  match arg with
  | [x] => if pend.contains x then some (pend.idxOf x) else none
  | _ => none

def opClient (addFirst : Bool) (G : Dag) : Client Nat OInstr Nat :=
  { expand := expand addFirst G, pick := pick, commit := id }

abbrev OState := State Nat OInstr Nat
abbrev OEvent := Event Nat OInstr
abbrev OProg := List (Instr Nat OInstr)

/-- `UnpublishedOperation::publish`: lock, then `update_op_heads(parent_ids, id)` -/
def progPublish (addFirst : Bool) (G : Dag) (op : Nat) : OProg :=
  .lock :: update addFirst op (parents G op)

/-- `resolve_op_heads` (what `RepoLoader::load_at_head` runs) -/
def progResolve : OProg := [.client (.read false)]

/-- a fresh repository: the root operation is the only head -/
def s0 (np : Nat) : OState := init [0] (List.replicate np 0)

end JjModel.OpHeads
