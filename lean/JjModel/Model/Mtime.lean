/-!
  C26 — the "is this tracked file clean?" decision of the snapshot.

  Mirrors /repo/lib/src/local_working_copy.rs:
    * `FileState` / `FileState::is_clean`                      (struct at l.293, fn at l.307)
    * `mtime_from_metadata` / `system_time_to_millis`          (l.922-935; non-negative times only)
    * `TreeState::update_own_mtime`, called from `read`        (l.1133-1145): the own mtime is the
      mtime of `.jj/working_copy/tree_state` as found on disk when the state is loaded, `0` if it
      cannot be stat'ed
    * `FileSnapshotter::get_updated_tree_value`                (l.1825-1845): the `clean` test
    * `FileSnapshotter::process_present_file`                  (l.1766-1789): what is recorded

  Times are natural numbers.  File-system timestamps are in nanoseconds; jj sees them through
  `msOf` (milliseconds, truncated).  Nothing below depends on that granularity: the theorems in
  `Props/C26.lean` are stated for an arbitrary monotone `stamp`.
-/
namespace JjModel.Mtime

/-- `FileType` of local_working_copy.rs (`Normal { exec_bit }`, `Symlink`, `GitSubmodule`). -/
inductive FileType where
  | normal (exec : Bool)
  | symlink
  | gitSubmodule
  deriving DecidableEq, Repr

/-- `FileState` without `materialized_conflict_data` (which `is_clean` ignores). -/
structure FileState where
  fileType : FileType
  mtime : Nat
  size : Nat
  deriving DecidableEq, Repr

/-- `FileState::is_clean`: type, mtime and size all equal. -/
def FileState.isClean (new old : FileState) : Bool :=
  decide (new.fileType = old.fileType) && decide (new.mtime = old.mtime) && decide (new.size = old.size)

/-- The `clean` value computed in `get_updated_tree_value`:
    untracked ⇒ not clean; tracked ⇒ `is_clean ∧ recorded.mtime < own_mtime`. -/
def clean (cur : Option FileState) (new : FileState) (ownMtime : Nat) : Bool :=
  match cur with
  | none => false
  | some c => new.isClean c && decide (c.mtime < ownMtime)

/-- The same test *without* the `< own_mtime` conjunct (what the sentinel theorem is about; never
    run against the implementation). -/
def cleanNoOwn (cur : Option FileState) (new : FileState) : Bool :=
  match cur with
  | none => false
  | some c => new.isClean c

/-- `system_time_to_millis` for times at/after the epoch: nanoseconds → truncated milliseconds. -/
def msOf (ns : Nat) : Nat := ns / 1000000

/-- `update_own_mtime`: mtime of the state file if it can be stat'ed, else 0. -/
def ownMtimeOf (stateFileMtimeNs : Option Nat) : Nat :=
  match stateFileMtimeNs with
  | some ns => msOf ns
  | none => 0

/-- One tracked, present file in a snapshot (`process_present_file`), with the tree value kept
    abstract: `treeVal` is what the working-copy tree has, `diskVal` what reading the file now gives.
    Returns the tree value after the snapshot and the file state recorded. -/
def snapshotFile {V : Type} (cur : Option FileState) (new : FileState) (ownMtime : Nat)
    (treeVal diskVal : V) : V × FileState :=
  if clean cur new ownMtime then (treeVal, new) else (diskVal, new)

/-- The scenario the harness drives, in file-system nanoseconds:
    jj recorded the file with mtime `wNs`/size/exec bit, the state file has mtime `sNs`, the file now
    has mtime `eNs`/size/exec bit and `changed` says whether content-or-mode differ from the tree.
    Answer: was the change recorded in the tree, and the state recorded afterwards. -/
def scenario (wNs wSize : Nat) (wExec : Bool) (sNs : Option Nat) (eNs eSize : Nat) (eExec : Bool)
    (changed : Bool) : Bool × FileState :=
  let cur : FileState := ⟨.normal wExec, msOf wNs, wSize⟩
  let new : FileState := ⟨.normal eExec, msOf eNs, eSize⟩
  snapshotFile (some cur) new (ownMtimeOf sNs) false changed

end JjModel.Mtime
