import JjModel.Model.Graph
/-!
  Model of `lib/src/annotate.rs`: `FileAnnotator::{from_commit, compute, to_annotation}`,
  `process_commits`, `process_commit`, `copy_same_lines_with`.

  * commits are index positions of a `Dag.Graph`; `S` is the evaluated revset
    `heads | (domain & ::heads & files(path))` (the harness evaluates it with the real engine and
    passes the set), the node stream is `Graph.graphOf G S true` (`stream_graph` always skips
    transitive edges);
  * file contents are lists of line tokens (`texts[c]`), `[]` when the commit has no such file;
  * the line diff is *abstract*: `diffs` maps a pair `(child, ancestor)` to the list of matching
    ranges `(current_start, parent_start, count)` that `copy_same_lines_with` reports (the harness
    computes them with the real `ContentDiff::by_line`).
-/
namespace JjModel.Annotate
open JjModel.Dag JjModel.Graph

/-- `Result<LineOrigin, LineOrigin>`: `ok = true` ⇒ `Ok`, else `Err` -/
structure Origin where
  ok : Bool
  commit : Nat
  line : Nat
deriving Repr, DecidableEq

/-- `Source::line_map`: `(line number at this commit, line number in the starting file)` -/
abbrev LineMap := List (Nat × Nat)

/-- one matching range of `copy_same_lines_with`: `(current_start, parent_start, count)` -/
abbrev Hunk := Nat × Nat × Nat

/-- `AnnotationState` -/
structure AState where
  orig : List Origin
  srcs : List (Nat × LineMap)
  unresolved : Nat
deriving Repr, DecidableEq

abbrev Diffs := List ((Nat × Nat) × List Hunk)

def lookupDiff (diffs : Diffs) (c t : Nat) : List Hunk :=
  match diffs.find? (fun d => d.1 == (c, t)) with
  | some d => d.2
  | none => []

/-- the abstract diff is usable: every matching range pairs equal lines, lies inside both files, and
the ranges ascend on both sides (`lo1`, `lo2` = first line not yet covered on either side) -/
def hunksSound (a b : List Nat) : Nat → Nat → List Hunk → Bool
  | _, _, [] => true
  | lo1, lo2, (cs, ps, cnt) :: rest =>
    decide (lo1 ≤ cs) && decide (lo2 ≤ ps) && decide (cs + cnt ≤ a.length) && decide (ps + cnt ≤ b.length)
      && (List.range cnt).all (fun k => a[cs + k]? == b[ps + k]?)
      && hunksSound a b (cs + cnt) (ps + cnt) rest

def diffsSound (texts : List (List Nat)) (diffs : Diffs) : Bool :=
  diffs.all fun d => hunksSound (texts.getD d.1.1 []) (texts.getD d.1.2 []) 0 0 d.2

/-- the closure passed to `copy_same_lines_with`, folded over the matching ranges:
`lines` = what is left of `current_lines`; returns `(new_current_line_map, new_parent_line_map)` -/
def copyLoop : List Hunk → LineMap → LineMap → LineMap → LineMap × LineMap
  | [], lines, nc, np => (nc ++ lines, np)
  | (cs, ps, cnt) :: hs, lines, nc, np =>
    let before := lines.takeWhile fun l => l.1 < cs
    let rest := lines.dropWhile fun l => l.1 < cs
    let inside := rest.takeWhile fun l => l.1 < cs + cnt
    let rest2 := rest.dropWhile fun l => l.1 < cs + cnt
    copyLoop hs rest2 (nc ++ before) (np ++ inside.map fun l => (ps + (l.1 - cs), l.2))

/-- `(usize, usize)` tuple order -/
def pairLe (a b : Nat × Nat) : Bool := a.1 < b.1 || (a.1 == b.1 && a.2 ≤ b.2)

/-- `itertools::merge` (`MergeLte`: the left element is taken when `left <= right`) -/
def mergeLte : Nat → LineMap → LineMap → LineMap
  | 0, xs, ys => xs ++ ys
  | _ + 1, [], ys => ys
  | _ + 1, xs, [] => xs
  | f + 1, x :: xs, y :: ys =>
    if pairLe x y then x :: mergeLte f xs (y :: ys) else y :: mergeLte f (x :: xs) ys

def getSrc (srcs : List (Nat × LineMap)) (c : Nat) : Option LineMap :=
  (srcs.find? fun s => s.1 == c).map (·.2)

def removeSrc (srcs : List (Nat × LineMap)) (c : Nat) : List (Nat × LineMap) :=
  srcs.filter fun s => s.1 != c

def setSrc (srcs : List (Nat × LineMap)) (c : Nat) (m : LineMap) : List (Nat × LineMap) :=
  (c, m) :: removeSrc srcs c

/-- `state.original_line_map[starting] = value` for every line of `m` -/
def assign (orig : List Origin) (ok : Bool) (c : Nat) : LineMap → List Origin
  | [] => orig
  | (l, s) :: rest => assign (orig.set s ⟨ok, c, l⟩) ok c rest

/-- `parent_source.line_map` after the lines in common with the current commit have been moved:
`new_parent_line_map` if the parent had none yet, else `itertools::merge` of both -/
def newParentMap (diffs : Diffs) (c : Nat) (cur : LineMap) (st : AState) (e : Edge) : LineMap :=
  let pm := (getSrc st.srcs e.target).getD []
  let np := (copyLoop (lookupDiff diffs c e.target) cur [] []).2
  if pm.isEmpty then np else mergeLte (pm.length + np.length) pm np

/-- `let is_new_root = parent_source.line_map.is_empty();` taken *before* the parent's line map is
replaced: the parent has no lines yet (no entry in `commit_source_map`, or a freshly loaded one) -/
def isNewRoot (st : AState) (e : Edge) : Bool := ((getSrc st.srcs e.target).getD []).isEmpty

/-- `num_unresolved_roots` after a missing edge left lines at its target: an omitted parent is counted
once, when it receives its first lines (`if is_new_root { state.num_unresolved_roots += 1 }`) -/
def countRoot (st : AState) (e : Edge) : Nat :=
  if isNewRoot st e then st.unresolved + 1 else st.unresolved

/-- the body of `for parent_edge in edges` in `process_commit`; `cur` = `current_source.line_map`;
returns the new `current_source.line_map` and the new state -/
def processEdge (diffs : Diffs) (c : Nat) (cur : LineMap) (st : AState) (e : Edge) : LineMap × AState :=
  let pm' := newParentMap diffs c cur st e
  ((copyLoop (lookupDiff diffs c e.target) cur [] []).1,
    if pm'.isEmpty then { st with srcs := removeSrc st.srcs e.target }
    else if e.isMissing then
      { orig := assign st.orig false e.target pm', srcs := setSrc st.srcs e.target pm',
        unresolved := countRoot st e }
    else { st with srcs := setSrc st.srcs e.target pm' })

def processEdges (diffs : Diffs) (c : Nat) : List Edge → LineMap → AState → LineMap × AState
  | [], cur, st => (cur, st)
  | e :: es, cur, st =>
    let r := processEdge diffs c cur st e
    processEdges diffs c es r.1 r.2

/-- `process_commit` -/
def processCommit (diffs : Diffs) (c : Nat) (es : List Edge) (st : AState) : AState :=
  match getSrc st.srcs c with
  | none => st
  | some cur =>
    let r := processEdges diffs c es cur { st with srcs := removeSrc st.srcs c }
    { r.2 with orig := assign r.2.orig true c r.1 }

/-- the `while let Some(..) = nodes.try_next()` loop of `process_commits` -/
def processNodes (diffs : Diffs) : List (Nat × List Edge) → AState → AState
  | [], st => st
  | (c, es) :: rest, st =>
    let st' := processCommit diffs c es st
    if st'.srcs.length == st'.unresolved then st' else processNodes diffs rest st'

/-- `FileAnnotator::with_source` -/
def initState (start : Nat) (nlines : Nat) : AState :=
  { orig := (List.range nlines).map fun i => ⟨false, start, i⟩,
    srcs := [(start, (List.range nlines).map fun i => (i, i))],
    unresolved := 0 }

/-- `from_commit` + one `compute` + `to_annotation`: the origins, one per line of the starting text -/
def annotate (G : Graph) (S : List Nat) (start : Nat) (texts : List (List Nat)) (diffs : Diffs) :
    List Origin × List Nat :=
  let text := texts.getD start []
  let st := processNodes diffs (graphOf G S true) (initState start text.length)
  (st.orig, text)

end JjModel.Annotate
