import JjModel.Model.Matchers
/-
  Model of `lib/src/fileset.rs`: `FilePattern`, `FilesetExpression`,
  `FilesetExpression::to_matcher` / `build_union_matcher` / `union_all_matchers`, and the
  set-theoretic denotation of an expression (the specification vocabulary of C31).

  The model starts from the *resolved* expression (`FilesetExpression`, after `fileset::parse`):
  pattern leaves carry repo paths (`List Nat`, see Model/Matchers.lean) and globs as abstract
  predicates on the tail path (assumption A5).  Text parsing, cwd/root resolution, the glob split
  and case folding happen in `fileset::parse` / `FilePattern::from_str_kind`; they are exercised by
  the harness (the real parser produces the expression sent to the model) and checked against an
  independent reference evaluator there (see notes/C31.md).
-/
namespace JjModel.Fileset
open JjModel.Matchers

/-- `FilePattern` -/
inductive FilePattern where
  | filePath (p : Path)
  | prefixPath (p : Path)
  | fileGlob (dir : Path) (g : Glob)
  | prefixGlob (dir : Path) (g : Glob)

mutual
/-- `FilesetExpression` (`UnionAll(Vec<Self>)` as the mutually defined list `FExprs`) -/
inductive FExpr where
  | none
  | all
  | pattern (p : FilePattern)
  | unionAll (es : FExprs)
  | inter (a b : FExpr)
  | diff (a b : FExpr)
inductive FExprs where
  | nil
  | cons (e : FExpr) (es : FExprs)
end

/-! ### `to_matcher` -/

/-- the `Pattern` elements of a union list, in order (they are bucketed, not pushed) -/
def patternsOf : FExprs → List FilePattern
  | .nil => []
  | .cons (.pattern p) es => p :: patternsOf es
  | .cons _ es => patternsOf es

def filePaths (ps : List FilePattern) : List Path :=
  ps.filterMap fun | .filePath p => some p | _ => none
def prefixPaths (ps : List FilePattern) : List Path :=
  ps.filterMap fun | .prefixPath p => some p | _ => none
def fileGlobs (ps : List FilePattern) : List (Path × Glob) :=
  ps.filterMap fun | .fileGlob d g => some (d, g) | _ => none
def prefixGlobs (ps : List FilePattern) : List (Path × Glob) :=
  ps.filterMap fun | .prefixGlob d g => some (d, g) | _ => none

/-- the tail of `build_union_matcher`: one matcher per non-empty bucket, in the order
files, prefixes, file globs, prefix globs -/
def bucketMatchers (ps : List FilePattern) : List Matcher :=
  (if (filePaths ps).isEmpty then [] else [Matcher.files (filePaths ps)]) ++
  (if (prefixPaths ps).isEmpty then [] else [Matcher.prefixes (prefixPaths ps)]) ++
  (if (fileGlobs ps).isEmpty then [] else [Matcher.globs false (fileGlobs ps)]) ++
  (if (prefixGlobs ps).isEmpty then [] else [Matcher.globs true (prefixGlobs ps)])

/-- `union_all_matchers`: balanced binary tree of `UnionMatcher`s -/
def unionAllMatchers (ms : List Matcher) : Matcher :=
  match ms with
  | [] => .nothingM
  | [m] => m
  | m1 :: m2 :: rest =>
    let n := (m1 :: m2 :: rest).length / 2
    .unionM (unionAllMatchers ((m1 :: m2 :: rest).take n)) (unionAllMatchers ((m1 :: m2 :: rest).drop n))
termination_by ms.length
decreasing_by
  all_goals simp only [List.length_take, List.length_drop, List.length_cons]
  all_goals omega

/-- `build_union_matcher` after its loop: pushed matchers, then the buckets, then the union tree -/
def finish (ms : List Matcher) (ps : List FilePattern) : Matcher :=
  unionAllMatchers (ms ++ bucketMatchers ps)

mutual
/-- `to_matcher` = `build_union_matcher(self.as_union_all())`, by cases on `as_union_all`
(`None ↦ []`, `UnionAll(es) ↦ es`, anything else `↦ [self]`) -/
def toMatcher : FExpr → Matcher
  | .none => finish [] []
  | .all => finish [.everythingM] []
  | .pattern p => finish [] [p]
  | .unionAll es => finish (elemMatchers es) (patternsOf es)
  | .inter a b => finish [.interM (toMatcher a) (toMatcher b)] []
  | .diff a b => finish [.diffM (toMatcher a) (toMatcher b)] []
/-- the loop of `build_union_matcher`: the matchers pushed for the non-pattern elements -/
def elemMatchers : FExprs → List Matcher
  | .nil => []
  | .cons .none es => .nothingM :: elemMatchers es
  | .cons .all es => .everythingM :: elemMatchers es
  | .cons (.pattern _) es => elemMatchers es
  | .cons (.unionAll es') es => finish (elemMatchers es') (patternsOf es') :: elemMatchers es
  | .cons (.inter a b) es => .interM (toMatcher a) (toMatcher b) :: elemMatchers es
  | .cons (.diff a b) es => .diffM (toMatcher a) (toMatcher b) :: elemMatchers es
end

/-! ### denotation -/

/-- `p` is strictly below `dir` and the glob accepts the tail -/
def belowMatch (dir : Path) (g : Glob) (p : Path) : Bool :=
  dir.isPrefixOf p && decide (dir.length < p.length) && g (p.drop dir.length)

/-- the set of paths a pattern denotes -/
def FilePattern.denote : FilePattern → Path → Bool
  | .filePath q, p => p == q
  | .prefixPath q, p => q.isPrefixOf p
  | .fileGlob dir g, p => belowMatch dir g p
  | .prefixGlob dir g, p => belowMatch dir (prefixOf g) p

mutual
/-- the set of paths an expression denotes -/
def denote : FExpr → Path → Bool
  | .none, _ => false
  | .all, _ => true
  | .pattern pat, p => pat.denote p
  | .unionAll es, p => denoteAny es p
  | .inter a b, p => denote a p && denote b p
  | .diff a b, p => denote a p && !denote b p
def denoteAny : FExprs → Path → Bool
  | .nil, _ => false
  | .cons e es, p => denote e p || denoteAny es p
end

/-! ### hypotheses of the soundness corollary -/

def FilePattern.EmptyOk : FilePattern → Prop
  | .prefixGlob _ g => Matchers.EmptyOk g
  | _ => True

mutual
/-- every prefix glob of the expression is `EmptyOk` -/
def FExpr.EmptyOk : FExpr → Prop
  | .pattern p => p.EmptyOk
  | .unionAll es => es.EmptyOk
  | .inter a b => a.EmptyOk ∧ b.EmptyOk
  | .diff a b => a.EmptyOk ∧ b.EmptyOk
  | _ => True
def FExprs.EmptyOk : FExprs → Prop
  | .nil => True
  | .cons e es => e.EmptyOk ∧ es.EmptyOk
end

end JjModel.Fileset
