import JjModel.Model.Repo
import JjModel.Drv.Util
import JjModel.Drv.C11
/-!
  Driver handler for C13:
  `C13 merge <commits> <heads> <bookmarks> <wcs> { <commits> <heads> <bookmarks> <wcs> }+`

  The first group is the common base repository (commit ids 1..n, 0 = root), every further group
  one concurrent operation in the order `merge_operations` receives them: the commits the side
  added to the index (request ids continue from the previous group; `parents/change/desc/tree`)
  and the side's final view.  Syntax of the groups as in C11.
  Answer: `ok order=<names of all non-base commits by index position> new=<commits written by the
  merge> heads=… bm=… wc=…`, `err:cycle` or `panic`.  Names: request id for the given commits,
  `N, N+1, …` (N = number of given commits incl. root) for new ones in index order.
-/
namespace JjModel.Drv.C13
open JjModel.Repo JjModel.Drv JjModel.Drv.C11

def parseView (heads bms wcs : String) : Option View := do
  let hs ← parseNatList heads
  let bm ← (splitList ";" bms).mapM parseBookmark
  let wc ← (splitList ";" wcs).mapM parseWc
  some { heads := hs, bookmarks := bm, wc := wc }

def parseSides : List String → Option (List Side)
  | [] => some []
  | c :: h :: b :: w :: rest => do
    let cs ← (splitList ";" c).mapM parseCommit
    let v ← parseView h b w
    let more ← parseSides rest
    some ({ commits := cs, view := v } :: more)
  | _ => none

/-- store id → name: the request id when it is in the id map, else `N + rank among new ones` -/
def nameOf (idmap : List Nat) (i : Nat) : Nat :=
  match findIdx (fun x => x == i) idmap 0 with
  | some q => q
  | none => idmap.length + ((List.range i).filter fun j => !idmap.contains j).length

def showCommitN (nm : Nat → Nat) (c : Commit) : String :=
  s!"{showNatList (c.parents.map nm)}/{nm c.change}/{c.desc}/{showNatList c.tree}/{showNatList (c.preds.map nm)}"

def handle : List String → Option String
  | "merge" :: commits :: heads :: bms :: wcs :: sides => do
    let base ← parseRepo commits heads bms wcs
    let sides ← parseSides sides
    if sides.isEmpty then none
    else
      match mergeOperations base.store base.view sides with
      | .error .cycle => some "err:cycle"
      | .error .panic => some "panic"
      | .ok (r, idmap) =>
        let nm := nameOf idmap
        let n0 := base.store.length
        let order := (List.range r.store.length).drop n0
        let news := order.filter fun i => !idmap.contains i
        let newsS := if news.isEmpty then "-" else
          ";".intercalate (news.filterMap fun i => (r.store[i]?).map (showCommitN nm))
        let v := r.view
        let bmS := showAssoc showTarget (v.bookmarks.map fun e => (e.1, e.2.map fun x => x.map nm))
        let wcS := showAssoc toString (v.wc.map fun e => (e.1, nm e.2))
        some s!"ok order={showNatList (order.map nm)} new={newsS} heads={showNatList (sortAsc (v.heads.map nm))} bm={bmS} wc={wcS}"
  | _ => none

end JjModel.Drv.C13
