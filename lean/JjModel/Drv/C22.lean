import JjModel.Model.TreeDiff
import JjModel.Drv.C08
/-!
  Driver handler for C22.
    `C22 cp <keep|accept> <history> <commit>`      `collect_changed_paths` (paths joined by `,`, `-` if none)
    `C22 diff <keep|accept> <trees> <trees>`       `MergedTree::diff_stream` (`path=before>after`, joined by `,`)
-/
namespace JjModel.Drv.C22
open JjModel.Trees JjModel.Merge JjModel.Rebase JjModel.TreeDiff JjModel.Drv.TreeCodec JjModel.Drv.C08

def handle : List String → Option String
  | ["cp", sc, h, c] => do
    let sc ← parseSc sc
    let h ← parseHistory h
    let c ← c.toNat?
    if !wellFormed h || c ≥ h.length then none else
    let ps := collectChangedPaths sc (slotMerge sc) h c
    some (if ps.isEmpty then "-" else ",".intercalate (ps.map showPath))
  | ["diff", sc, t1, t2] => do
    let sc ← parseSc sc
    let t1 ← parseTrees t1
    let t2 ← parseTrees t2
    let d := diffStream sc t1 t2
    some (if d.isEmpty then "-" else
      ",".intercalate (d.map fun e => showPath e.1 ++ "=" ++ showMVal e.2.1 ++ ">" ++ showMVal e.2.2))
  | _ => none

end JjModel.Drv.C22
