import JjModel.Model.Mtime
import JjModel.Drv.Util
/-! Driver handler for C26:
    `C26 snap <wNs> <wSize> <wExec> <sNs|none> <eNs> <eSize> <eExec> <changed>`
    → `<changed|unchanged> m=<ms> s=<size> x=<0|1>` (tree outcome + file state recorded afterwards) -/
namespace JjModel.Drv.C26
open JjModel.Mtime JjModel.Drv

def parseBool : String → Option Bool
  | "0" => some false
  | "1" => some true
  | _ => none

def handle : List String → Option String
  | ["snap", w, ws, wx, s, e, es, ex, ch] => do
    let w ← w.toNat?
    let ws ← ws.toNat?
    let wx ← parseBool wx
    let s ← (if s = "none" then some none else s.toNat?.map some)
    let e ← e.toNat?
    let es ← es.toNat?
    let ex ← parseBool ex
    let ch ← parseBool ch
    let (rec, st) := scenario w ws wx s e es ex ch
    let x := match st.fileType with | .normal b => showBool b | _ => "?"
    some s!"{if rec then "changed" else "unchanged"} m={st.mtime} s={st.size} x={x}"
  | _ => none

end JjModel.Drv.C26
