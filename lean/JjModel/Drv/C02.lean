import JjModel.Model.Merge
import JjModel.Drv.Util
/-! Driver handler for C02: `C02 trivial <keep|accept> <terms>` -/
namespace JjModel.Drv.C02
open JjModel.Merge JjModel.Drv

def handle : List String → Option String
  | ["trivial", sc, vs] => do
    let sc ← (match sc with | "keep" => some SameChange.keep | "accept" => some .accept | _ => none)
    let vs ← parseNatList vs
    if vs.length % 2 = 1 then some (showOptNat (trivialMerge vs sc)) else some "panic"
  | _ => none

end JjModel.Drv.C02
