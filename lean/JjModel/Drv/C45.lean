import JjModel.Drv.GitSyncIO
/-! Driver handler for C45:
  `C45 run <nn> <dag> <auto 0|1> <locals> <remotes> <git_refs> <git> <remote-repo> <op>…`
  ops: `set:<n>:<commit|x>`   local bookmark create/move/delete
       `other:<n>:<commit|x>` the branch on the remote is changed by somebody else
       `track:<key>` `untrack:<key>`
       `fetch`                `git fetch origin` + import of the `origin` refs
       `push:<n>+<n>…`        classify the named bookmarks, push the `Update`s to `origin`
  answer: `T <state>` per fetch, `P <actions> <pushed> <rejected> <unexported> <state>` per push,
  final `F <state>`, joined by ` | `; `<state>` = `<locals> <remotes> <git_refs> <git> <remote-repo>`. -/
namespace JjModel.Drv.C45
open JjModel.GitSync JjModel.Drv JjModel.Drv.GitSyncIO

structure St where
  view : View
  git : Git
  rem : Nat → Option Nat

def showSt (nn : Nat) (s : St) : String :=
  s!"{showView nn s.view} {showGit nn s.git} {showRemoteRepo nn s.rem}"

def showOpt : Option Nat → String
  | none => "x"
  | some c => toString c

def showAction (n : Nat) : PushAction → String
  | .update b a => s!"{n}:update:{showOpt b}>{showOpt a}"
  | .alreadyMatches => s!"{n}:matches"
  | .localConflicted => s!"{n}:local-conflicted"
  | .remoteConflicted => s!"{n}:remote-conflicted"
  | .remoteUntracked => s!"{n}:untracked"

def showNames (l : List Nat) : String := joinOrDash (l.map toString)

/-- `Vec::sort` of the pushed / rejected ref names (names are single digits in the harness) -/
def sortNat (l : List Nat) : List Nat := l.foldr (fun x acc => (acc.filter (· < x)) ++ [x] ++ (acc.filter (fun y => ¬ y < x))) []

def origin : Nat := 1

def step (nn : Nat) (anc : Nat → Nat → Bool) (auto : Bool) (s : St) (op : String) :
    Option (St × Option String) :=
  match op.splitOn ":" with
  | ["set", n, c] => do
    let n ← n.toNat?; let c ← parseOptNat c
    some ({ s with view := s.view.setLocal n (ofOpt c) }, none)
  | ["other", n, c] => do
    let n ← n.toNat?; let c ← parseOptNat c
    some ({ s with rem := setAt s.rem n c }, none)
  | ["track", k] => do
    let k ← parseKey k
    some ({ s with view := s.view.track anc k }, none)
  | ["untrack", k] => do
    let k ← parseKey k
    some ({ s with view := s.view.untrack k }, none)
  | ["fetch"] =>
    let git := fetchGit origin (List.range nn) s.git s.rem
    let keys := (allKeys nn).filter (fun k => k.2 == origin)
    let s' := { s with git := git, view := importRefs anc auto keys s.view git }
    some (s', some s!"T {showSt nn s'}")
  | ["push", names] => do
    let names ← (names.splitOn "+").mapM String.toNat?
    let acts := names.map (fun n => showAction n (classifyPushAction (s.view.locals n) (s.view.remotes (n, origin))))
    let ups := pushTargets origin s.view names
    let r := pushRefs origin s.view s.git s.rem ups
    let s' : St := ⟨r.view, r.git, r.remoteRefs⟩
    some (s', some s!"P {joinOrDash acts} {showNames (sortNat r.pushed)} {showNames (sortNat r.rejected)} {showFailed r.unexported} {showSt nn s'}")
  | _ => none

def runOps (nn : Nat) (anc : Nat → Nat → Bool) (auto : Bool) :
    St → List String → List String → Option (St × List String)
  | s, [], acc => some (s, acc.reverse)
  | s, op :: ops, acc =>
    match step nn anc auto s op with
    | some (s', some ev) => runOps nn anc auto s' ops (ev :: acc)
    | some (s', none) => runOps nn anc auto s' ops acc
    | none => none

def handle : List String → Option String
  | "run" :: nn :: dag :: auto :: l :: r :: g :: a :: rem :: ops => do
    let nn ← nn.toNat?
    let dag ← parseDag dag
    let auto ← (match auto with | "0" => some false | "1" => some true | _ => none)
    let locals ← parseLocals l; let remotes ← parseRemotes r
    let gitRefs ← parseGitRefs g; let git ← parseGit a
    let rem ← parseRemoteRepo rem
    let (s, evs) ← runOps nn (isAncestor dag) auto ⟨⟨locals, remotes, gitRefs⟩, git, rem⟩ ops []
    some (" | ".intercalate (evs ++ [s!"F {showSt nn s}"]))
  | ["classify", l, rt, tr] => do
    let l ← parseTarget l; let rt ← parseTarget rt
    let tr ← (match tr with | "T" => some true | "N" => some false | _ => none)
    some (showAction 0 (classifyPushAction l ⟨rt, tr⟩))
  | ["cas", cur, expected, new] => do
    let cur ← parseOptNat cur; let e ← parseOptNat expected; let n ← parseOptNat new
    let r := remoteCas cur e n
    some s!"{if r.1 = .pushed then "pushed" else "rejected"} {showOpt r.2}"
  | _ => none

end JjModel.Drv.C45
