import JjModel.Model.Matchers
import JjModel.Drv.Util
/-!
Driver handler for C30: `C30 eval <k> <depth> <expr tokens…>`

The path universe (`allPaths`) is every path of length `0..depth` over component ids `0..k-1`, enumerated by
length, then lexicographically (`pathIndex`).  The expression is in prefix notation, one node per
token: `N` (nothing) `E` (everything) `F:<paths>` `P:<paths>` `G:<f|p>:<dir>=<bits>;…`
`U` `I` `D` (binary).  A path is `r` (root) or `0.1.2`; `<paths>` is `,`-separated, `-` if empty.
`<bits>` is the truth table of the glob (anchored, file mode) over the universe (character `i` = value on the tail with
`pathIndex = i`).  Answer: `visit` at every universe path as a directory (`A`, `N`,
`S<dirs>/<files>` with a set printed as `*`, `-` or sorted ids), joined by `|`, then a space and
the `matches` bit of every universe path.
-/
namespace JjModel.Drv.C30
open JjModel.Matchers JjModel.Drv

def parsePath (s : String) : Option Path :=
  if s = "r" then some [] else (s.splitOn ".").mapM String.toNat?

def parsePaths (s : String) : Option (List Path) :=
  if s = "-" then some [] else (s.splitOn ",").mapM parsePath

/-- number of paths of length `< len` over `k` names -/
def offset (k : Nat) : Nat → Nat
  | 0 => 0
  | n + 1 => offset k n + k ^ n

def pathValue (k : Nat) : Path → Nat → Nat
  | [], acc => acc
  | c :: rest, acc => pathValue k rest (acc * k + c)

def pathIndex (k : Nat) (p : Path) : Nat := offset k p.length + pathValue k p 0

/-- all paths of exactly length `n`, lexicographic -/
def pathsOfLen (k : Nat) : Nat → List Path
  | 0 => [[]]
  | n + 1 => (List.range k).flatMap fun c => (pathsOfLen k n).map (c :: ·)

def allPaths (k d : Nat) : List Path := (List.range (d + 1)).flatMap (pathsOfLen k)

def tableGlob (k : Nat) (bits : String) : Glob :=
  let a : Array Bool := (bits.toList.map (· == '1')).toArray
  fun tail => a.getD (pathIndex k tail) false

def parseGlobEntry (k : Nat) (s : String) : Option (Path × Glob) :=
  match s.splitOn "=" with
  | [d, bits] => do some ((← parsePath d), tableGlob k bits)
  | _ => none

def parseGlobs (k : Nat) (s : String) : Option (List (Path × Glob)) :=
  if s = "-" then some [] else (s.splitOn ";").mapM (parseGlobEntry k)

/-- recursive descent on the prefix-notation token list; `fuel` bounds the nesting -/
def parseExpr (k : Nat) : Nat → List String → Option (Matcher × List String)
  | 0, _ => none
  | _, [] => none
  | fuel + 1, tok :: rest =>
    if tok = "N" then some (.nothingM, rest)
    else if tok = "E" then some (.everythingM, rest)
    else if tok = "U" ∨ tok = "I" ∨ tok = "D" then do
      let (a, r1) ← parseExpr k fuel rest
      let (b, r2) ← parseExpr k fuel r1
      some ((if tok = "U" then .unionM a b else if tok = "I" then .interM a b else .diffM a b), r2)
    else match tok.splitOn ":" with
      | ["F", ps] => do some (Matcher.files (← parsePaths ps), rest)
      | ["P", ps] => do some (Matcher.prefixes (← parsePaths ps), rest)
      | ["G", "f", gs] => do some (Matcher.globs false (← parseGlobs k gs), rest)
      | ["G", "p", gs] => do some (Matcher.globs true (← parseGlobs k gs), rest)
      | _ => none

def insertSorted (x : Nat) : List Nat → List Nat
  | [] => [x]
  | y :: ys => if x < y then x :: y :: ys else if x = y then y :: ys else y :: insertSorted x ys

def sortDedup (l : List Nat) : List Nat := l.foldr insertSorted []

def showVSet : VSet → String
  | .all => "*"
  | .set l => showNatList (sortDedup l)

def showVisit : Visit → String
  | .allRec => "A"
  | .nothing => "N"
  | .specific ds fs => s!"S{showVSet ds}/{showVSet fs}"

def evalOn (m : Matcher) (k d : Nat) : String :=
  let u := allPaths k d
  "|".intercalate (u.map fun p => showVisit (m.visit p)) ++ " " ++
    String.ofList (u.map fun p => if m.mat p then '1' else '0')

def handle : List String → Option String
  | "eval" :: k :: d :: toks => do
    let k ← k.toNat?
    let d ← d.toNat?
    let (m, rest) ← parseExpr k (toks.length + 1) toks
    if rest.isEmpty then some (evalOn m k d) else none
  | _ => none

end JjModel.Drv.C30
