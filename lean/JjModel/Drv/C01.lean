import JjModel.Model.Merge
import JjModel.Drv.Util
/-! Driver handler for C01: simplify / mapping / update / flatten -/
namespace JjModel.Drv.C01
open JjModel.Merge JjModel.Drv

def handle : List String → Option String
  | ["simplify", vs] => do
    let vs ← parseNatList vs
    some (showNatList (simplify vs))
  | ["mapping", vs] => do
    let vs ← parseNatList vs
    some (showNatList (simplifiedMapping vs))
  | ["update", vs, s] => do
    let vs ← parseNatList vs
    let s ← parseNatList s
    match updateFromSimplified vs s with
    | some r => some (showNatList r)
    | none => some "panic"
  | ["flatten", mm] => do
    let mm ← parseNatListList mm
    some (showNatList (flatten mm))
  | _ => none

end JjModel.Drv.C01
