import JjModel.Model.Rewrite
import JjModel.Drv.C08
/-!
  Driver handler for C09 (history syntax as in C08).
    `C09 squash <keep|accept> <history> <commit>`                    whole commit into its only parent
    `C09 absorb <keep|accept> <history> <source> <d=trees,…|->`      selected tree per destination
    `C09 split  <keep|accept> <history> <commit> <selected trees>`   sequential split
  Answer: the tree of every commit afterwards, in the old numbering (created commits appended),
  joined by `,`; `x` for an abandoned commit; `panic:resolve-debug-assert` when a debug assertion fires.
-/
namespace JjModel.Drv.C09
open JjModel.Trees JjModel.Merge JjModel.Rebase JjModel.Rewrite JjModel.Drv.TreeCodec JjModel.Drv.C08

def showRW (r : Option RW) : String :=
  match r with
  | none => "panic:resolve-debug-assert"
  | some st =>
    ",".intercalate ((List.range st.hist.length).map fun i =>
      if st.abandoned.contains i then "x" else showTrees (treeOf st.hist i))

def parseSel (s : String) : Option (List (Nat × List Tree)) :=
  if s = "-" then some [] else
  (s.splitOn ",").mapM fun e =>
    match e.splitOn "=" with
    | [d, ts] => do
      let d ← d.toNat?
      let ts ← parseTrees ts
      some (d, ts)
    | _ => none

def handle : List String → Option String
  | ["squash", sc, h, c] => do
    let sc ← parseSc sc
    let h ← parseHistory h
    let c ← c.toNat?
    if !wellFormed h || c ≥ h.length || (parentsOf h c).length ≠ 1 then none else
    some (showRW (squashWhole sc (slotMerge sc) h c))
  | ["absorb", sc, h, c, sel] => do
    let sc ← parseSc sc
    let h ← parseHistory h
    let c ← c.toNat?
    let sel ← parseSel sel
    if !wellFormed h || c ≥ h.length then none else
    some (showRW (absorb sc (slotMerge sc) h c sel))
  | ["split", sc, h, c, sel] => do
    let sc ← parseSc sc
    let h ← parseHistory h
    let c ← c.toNat?
    let sel ← parseTrees sel
    if !wellFormed h || c ≥ h.length || c = 0 then none else
    some (showRW (split sc (slotMerge sc) h c sel))
  | _ => none

end JjModel.Drv.C09
