import JjModel.Model.Path
import JjModel.Drv.Str
/-!
  Driver handler for C32 (strings as code-point lists, see `Drv/Str.lean`).
    `C32 components <path>`             → components joined by `;` (`R`, `C`, `P`, `N:<name>`), none = `-`
    `C32 normalize <path>`              → `<path>`
    `C32 relative <from> <to>`          → components of the result (canonical form of a path)
    `C32 from_relative <path>`          → `ok:<repo path>` | `err:<component>`
    `C32 parse_fs <cwd> <base> <input>` → `ok:<repo path>` | `err:<component>`
    `C32 to_fs_path <repo path> <base>` → `ok:<path>` | `err:<component>` | `invalid-repo-path`
-/
namespace JjModel.Drv.C32
open JjModel.Path JjModel.Drv

def showComp : Comp → String
  | .root => "R"
  | .cur => "C"
  | .parent => "P"
  | .normal s => "N:" ++ showStr s

def showComps (cs : List Comp) : String :=
  if cs.isEmpty then "-" else ";".intercalate (cs.map showComp)

def showParse : ParseResult → String
  | .ok p => "ok:" ++ showStr p
  | .invalidComponent c => "err:" ++ showStr c

def handle : List String → Option String
  | ["components", p] => do
    let p ← parseStr p
    some (showComps (components p))
  | ["normalize", p] => do
    let p ← parseStr p
    some (showStr (normalizePath p))
  | ["relative", a, b] => do
    let a ← parseStr a
    let b ← parseStr b
    some (showComps (components (relativePath a b)))
  | ["from_relative", p] => do
    let p ← parseStr p
    some (showParse (fromRelativePath p))
  | ["parse_fs", cwd, base, input] => do
    let cwd ← parseStr cwd
    let base ← parseStr base
    let input ← parseStr input
    some (showParse (parseFsPath cwd base input))
  | ["to_fs_path", p, base] => do
    let p ← parseStr p
    let base ← parseStr base
    if isValidRepoPathStr p then
      match toFsPath p base with
      | .ok f => some ("ok:" ++ showStr f)
      | .invalid c => some ("err:" ++ showStr c)
    else some "invalid-repo-path"
  | _ => none

end JjModel.Drv.C32
