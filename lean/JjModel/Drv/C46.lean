import JjModel.Model.Evolution
import JjModel.Drv.Util
/-!
  Driver handler for C46.

  `C46 walk <start> <ops>`
    * `<start>`: `List Nat` (`1,2` / `-`), the `start_commits`;
    * `<ops>`: the operations in `walk_ancestors` order, separated by `|`; one operation is
      `n` (no `commit_predecessors`), `e` (empty map) or entries separated by `;`, one entry
      `<commit>:<preds>` with `<preds>` a `List Nat`.
  Answer: the stream items separated by `;`, one item `<commit>@<op position or ->:<preds>`,
  `-` for an empty stream; a `CycleDetected(c)` error ends the answer with `!cycle:<c>`.
-/
namespace JjModel.Drv.C46
open JjModel.Evolution JjModel.Drv

def parseEntry (s : String) : Option (Nat × List Nat) :=
  match s.splitOn ":" with
  | [c, ps] => do some ((← c.toNat?), (← parseNatList ps))
  | _ => none

def parseOp (s : String) : Option (Option PMap) :=
  if s = "n" then some none
  else if s = "e" then some (some [])
  else do some (some (← (s.splitOn ";").mapM parseEntry))

def showEntry (e : Entry) : String :=
  s!"{e.commit}@{match e.op with | none => "-" | some k => toString k}:{showNatList e.preds}"

def showResult (r : List Entry × Option Nat) : String :=
  let items := r.1.map showEntry ++ (match r.2 with | none => [] | some c => [s!"!cycle:{c}"])
  if items.isEmpty then "-" else ";".intercalate items

def handle : List String → Option String
  | ["walk", start, ops] => do
    let start ← parseNatList start
    let ops ← (ops.splitOn "|").mapM parseOp
    some (showResult (walkPredecessors ops start))
  | _ => none

end JjModel.Drv.C46
