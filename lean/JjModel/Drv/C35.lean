import JjModel.Model.Dsl
import JjModel.Drv.Str
/-!
  Driver handler for C35 (strings as code-point lists, see `Drv/Str.lean`).
    `C35 escape <s>`                  → `<escaped>`
    `C35 parse_literal <g> <text>`    → `none` | `some:<s>`   (`<g>` ∈ r|f|t: which real grammar the
                                         harness asked; the rule text is the same, so is the model)
    `C35 format_symbol <s>`           → `<text>`
    `C35 format_remote <name> <remote>` → `<text>`
    `C35 parse_symbol <text>`         → `none` | `some:<s>`
    `C35 parse_remote <text>`         → `none` | `some:<name>:<remote>`
  `XID_CONTINUE` is `xidApprox` here (see its documentation for the restriction on inputs).
-/
namespace JjModel.Drv.C35
open JjModel.Dsl JjModel.Drv

def showOptStr : Option (List Char) → String
  | none => "none"
  | some s => "some:" ++ showStr s

def handle : List String → Option String
  | ["escape", s] => do
    let s ← parseStr s
    some (showStr (escapeString s))
  | ["parse_literal", g, t] => do
    if g ≠ "r" ∧ g ≠ "f" ∧ g ≠ "t" then none
    let t ← parseStr t
    some (showOptStr (parseStringLiteral t))
  | ["format_symbol", s] => do
    let s ← parseStr s
    some (showStr (formatSymbol xidApprox s))
  | ["format_remote", n, r] => do
    let n ← parseStr n
    let r ← parseStr r
    some (showStr (formatRemoteSymbol xidApprox n r))
  | ["parse_symbol", t] => do
    let t ← parseStr t
    some (showOptStr (parseSymbol xidApprox t))
  | ["parse_remote", t] => do
    let t ← parseStr t
    match parseRemoteSymbol xidApprox t with
    | none => some "none"
    | some (n, r) => some s!"some:{showStr n}:{showStr r}"
  | _ => none

end JjModel.Drv.C35
