import JjModel.Model.Refs
import JjModel.Drv.Util
/-! Driver handler for C12: `C12 merge <parents table> <left> <base> <right>`.
Targets are comma lists of commit numbers with `n` for an absent term. -/
namespace JjModel.Drv.C12
open JjModel.Refs JjModel.Drv

def parseTerm (s : String) : Option (Option Nat) :=
  if s = "n" then some none else s.toNat?.map some

def parseTarget (s : String) : Option Target :=
  (s.splitOn ",").mapM parseTerm

def showTarget (t : Target) : String :=
  ",".intercalate (t.map fun | none => "n" | some i => toString i)

def handle : List String → Option String
  | ["merge", dag, l, b, r] => do
    let dag ← parseNatListList dag
    let l ← parseTarget l
    let b ← parseTarget b
    let r ← parseTarget r
    if l.length % 2 = 1 ∧ b.length % 2 = 1 ∧ r.length % 2 = 1 then
      some (showTarget (mergeRefTargets (isAncestor dag) l b r))
    else some "panic"
  | _ => none

end JjModel.Drv.C12
