import JjModel.Model.Cli
import JjModel.Drv.Util
/-!
  Driver handler for C40.

  `C40 step <ops> <heads> <wss> <cmd>` — one command on the state observed just before it.

  ops    `parents/view;…` in log order (index = operation id); parents `1,2` or `-`;
         view `ws=tree,ws=tree` or `-`
  heads  `1,2`
  wss    `ws:disk:tree:op;…`
  cmd    `ws:atop:ign:kind:mergeView:txView` — atop `-` or an op id; ign `0|1`;
         kind `n` (normal) | `a<ws>` (workspace add) | `u` (workspace update-stale);
         mergeView a view, `-` when none/empty; txView a view, `-` = empty view, `none` = no transaction
  answer `<ok|stale|err> <events> d=<disk of cmd.ws afterwards> o=<op recorded in the working copy>`
         events = concatenation of `M` `S` `T` (operation published: merge / snapshot / transaction)
         and `W` (files of the workspace written), `-` if none;
         o = `old:<id>` for an operation that existed before, else the letter of the publishing event
-/
namespace JjModel.Drv.C40
open JjModel.Cli JjModel.Drv

def parseView (s : String) : Option View :=
  if s = "-" then some []
  else (s.splitOn ",").mapM fun e =>
    match e.splitOn "=" with
    | [a, b] => do some ((← a.toNat?), (← b.toNat?))
    | _ => none

def parseOp (s : String) : Option Op :=
  match s.splitOn "/" with
  | [ps, v] => do some { parents := (← parseNatList ps), view := (← parseView v) }
  | _ => none

def parseOps (s : String) : Option (List Op) :=
  if s = "-" then some [] else (s.splitOn ";").mapM parseOp

def parseWs (s : String) : Option (Ws × WsState) :=
  match s.splitOn ":" with
  | [w, d, t, o] => do some ((← w.toNat?), { disk := (← d.toNat?), tree := (← t.toNat?), op := (← o.toNat?) })
  | _ => none

def parseWss (s : String) : Option (List (Ws × WsState)) :=
  if s = "-" then some [] else (s.splitOn ";").mapM parseWs

def parseKind (s : String) : Option Kind :=
  if s = "n" then some .normal
  else if s = "u" then some .updateStale
  else (s.dropPrefix? "a").bind (fun r => r.toString.toNat?.map Kind.wsAdd)

def parseCmd (s : String) : Option CmdIn :=
  match s.splitOn ":" with
  | [w, atop, ign, kind, mv, tv] => do
    let w ← w.toNat?
    let atOp ← (if atop = "-" then some none else atop.toNat?.map some)
    let ign ← (if ign = "0" then some false else if ign = "1" then some true else none)
    let kind ← parseKind kind
    let mv ← parseView mv
    let tv ← (if tv = "none" then some none else (parseView tv).map some)
    some { ws := w, atOp := atOp, ignoreWc := ign, kind := kind, mergeView := mv, txView := tv }
  | _ => none

def showEvent : Event → String
  | .publish _ .merge => "M"
  | .publish _ .snapshot => "S"
  | .publish _ .tx => "T"
  | .write _ _ => "W"

def showStatus : Status → String
  | .ok => "ok"
  | .stale => "stale"
  | .err => "err"

def handleStep (ops heads wss cmd : String) : Option String := do
    let ops ← parseOps ops
    let heads ← parseNatList heads
    let wss ← parseWss wss
    let c ← parseCmd cmd
    let s : State := { ops, heads, wss }
    let r := exec s c
    let evs := String.join (r.events.map showEvent)
    let w := lookup r.state.wss c.ws
    -- a checkout that was not preceded by a snapshot although the disk differed from `tree_state`
    -- (workspace absent from the loaded view) leaves a mixture the opaque trees cannot name
    let w0 := lookup s.wss c.ws
    let dirty := match w0 with | some w0 => w0.disk != w0.tree | none => false
    let hasW := r.events.any (fun (e : Event) => match e with | Event.write _ _ => true | _ => false)
    let hasS := r.events.any (fun (e : Event) => match e with | Event.publish _ OpKind.snapshot => true | _ => false)
    let d := if dirty && hasW && !hasS then "?" else match w with | some w => toString w.disk | none => "-"
    let o := match w with
      | some w =>
        if w.op < s.ops.length then s!"old:{w.op}"
        else match r.events.find? (fun (e : Event) => match e with | Event.publish id _ => id == w.op | _ => false) with
          | some e => showEvent e
          | none => "?"
      | none => "-"
    some s!"{showStatus r.status} {if evs.isEmpty then "-" else evs} d={d} o={o}"

/-- the optional last token names the jj command (for the reader of a disagreement; ignored) -/
def handle : List String → Option String
  | ["step", ops, heads, wss, cmd] => handleStep ops heads wss cmd
  | ["step", ops, heads, wss, cmd, _note] => handleStep ops heads wss cmd
  | _ => none

end JjModel.Drv.C40
