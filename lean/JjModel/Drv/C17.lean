import JjModel.Model.GitBackend
import JjModel.Model.CommitHash
import JjModel.Drv.C16
/-!
  Driver handler for C17.

  `C17 git <fix> <k> <commit>{k}` → per write, joined by ` ; `:
        `ok <cls> R <returned commit> B <read-back commit>` | `err:<kind>` | `panic`
      (`cls` = index of the earliest write of the request that got the same id; the read happens
       after all writes, as the harness reads through a freshly loaded backend)
  `C17 simple <commit>` → `ok H <hashed bytes of the returned commit> R <returned> B <read-back>` | `err:<kind>` | `panic`

  commit := P n id{n} Q n id{n} T n id{n} L n label{n} C changeid D desc A name email ms tz K name email ms tz
  (in a read-back commit the change id is `syn` when it was synthesised from the commit id)
-/
namespace JjModel.Drv.C17
open JjModel.GitBackend JjModel.Drv JjModel.Drv.C16

def pSig : P Signature := fun ts => do
  let (n, r) ← pBytes ts
  let (e, r) ← pBytes r
  let (ms, r) ← pInt r
  let (tz, r) ← pInt r
  some (⟨n, e, ms, tz⟩, r)

def pCommit : P Commit := fun ts => do
  let (_, r) ← lit "P" ts
  let (ps, r) ← counted pBytes r
  let (_, r) ← lit "Q" r
  let (qs, r) ← counted pBytes r
  let (_, r) ← lit "T" r
  let (tr, r) ← counted pBytes r
  let (_, r) ← lit "L" r
  let (ls, r) ← counted pBytes r
  let (_, r) ← lit "C" r
  let (cid, r) ← pBytes r
  let (_, r) ← lit "D" r
  let (d, r) ← pBytes r
  let (_, r) ← lit "A" r
  let (a, r) ← pSig r
  let (_, r) ← lit "K" r
  let (k, r) ← pSig r
  some (⟨ps, qs, tr, ls, cid, d, a, k⟩, r)

def showSig (s : Signature) : String := sp [showHex s.name, showHex s.email, toString s.ms, toString s.tz]

def showCommit (c : Commit) (synthetic : Bool := false) : String :=
  sp ["P", showCounted showHex c.parents, "Q", showCounted showHex c.predecessors,
      "T", showCounted showHex c.rootTree, "L", showCounted showHex c.labels,
      "C", if synthetic then "syn" else showHex c.changeId, "D", showHex c.description,
      "A", showSig c.author, "K", showSig c.committer]

def showErr : Err → String
  | .noParents => "err:noparents"
  | .rootMerge => "err:rootmerge"
  | .hashLen => "err:hashlen"
  | .writeObject => "err:writeobject"
  | .badTreesHeader => "err:treesheader"
  | .panic => "panic"

/-- run the writes in order; collect per write either the error or (id, returned) -/
def runWrites (fix : Bool) : Table → List Commit → Table × List (Except Err (GitCommit × Commit))
  | t, [] => (t, [])
  | t, c :: cs =>
    match gitWrite fix t c with
    | .error e => let (t', rs) := runWrites fix t cs; (t', .error e :: rs)
    | .ok (t1, g, r) => let (t', rs) := runWrites fix t1 cs; (t', .ok (g, r) :: rs)

def firstIndexOf (rs : List (Except Err (GitCommit × Commit))) (g : GitCommit) : Nat :=
  (rs.findIdx? fun r => match r with | .ok (g', _) => g' = g | .error _ => false).getD 0

def handle : List String → Option String
  | "git" :: fix :: k :: rest => do
    let fix ← (if fix = "1" then some true else if fix = "0" then some false else none)
    let k ← k.toNat?
    let (cs, r) ← rep pCommit k rest
    if !r.isEmpty then none
    else
      let (t, rs) := runWrites fix [] cs
      some (" ; ".intercalate (rs.map fun res =>
        match res with
        | .error e => showErr e
        | .ok (g, returned) =>
          let back := match gitRead t g with
            | .ok b => showCommit b.commit b.syntheticChangeId
            | .error e => showErr e
          sp ["ok", toString (firstIndexOf rs g), "R", showCommit returned, "B", back]))
  | "simple" :: rest => do
    let (c, r) ← pCommit rest
    if !r.isEmpty then none
    else match simpleWrite c with
      | .error e => some (showErr e)
      | .ok (p, returned) =>
        let back := match simpleRead p with
          | .ok b => showCommit b
          | .error e => showErr e
        some (sp ["ok", "H", showHex (encCommit returned), "R", showCommit returned, "B", back])
  | _ => none

end JjModel.Drv.C17
