import JjModel.Drv.Util
/-!
  Line-protocol helpers for Unicode strings: a string is the comma-separated list of its code
  points in decimal (`97,8364`), the empty string is `-` (same shape as `List Nat`).
-/
namespace JjModel.Drv

def parseStr (s : String) : Option (List Char) := do
  let ns ← parseNatList s
  ns.mapM fun n => if n.isValidChar then some (Char.ofNat n) else none

def showStr (l : List Char) : String := showNatList (l.map Char.toNat)

end JjModel.Drv
