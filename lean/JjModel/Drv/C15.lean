import JjModel.Model.Crash
import JjModel.Drv.Util
/-!
  Driver handler for C15.

  `C15 predict <k> <init> <steps…>`  → what a fresh process sees after the command was killed when
        its k-th step was about to be performed:
        `head=<op> view=<view> wc=<ok|stale|sibling|unreadable> wt=<tree> wo=<op> pub=<ok|lost>` or `noload …`
  `C15 shape <init> <steps…>`        → `repo=<ok|bad@i> wc=<ok|bad@i> tx=<published ops>`: does the recorded
        step sequence obey the write discipline (`okStep`/`okWc`) the theorems assume?
  `C15 persist <old:0|1> <nchunks> <n>` → `final=<none|old|new|partial> temp=<none|partial|complete>`:
        temp-file + rename, killed after `n` system calls.

  `<init>` = `n:v0:t0:wcOp:wcTree` (chain of n operations, head n-1 with view v0 / working-copy tree t0).
  step tokens: `wv:v:t` `wo:o:parents:v` `ws` `wl:o` `ha:o` `hr:o` `wf` `st:t` `sc:o` `x`.
-/
namespace JjModel.Drv.C15
open JjModel.Crash JjModel.Drv

def parseStep (s : String) : Option Step :=
  match s.splitOn ":" with
  | ["wv", v, t] => do some (.wv (← v.toNat?) (← t.toNat?))
  | ["wo", o, ps, v] => do some (.wo (← o.toNat?) ⟨← parseNatList ps, ← v.toNat?⟩)
  | ["ws"] => some .ws
  | ["wl", o] => do some (.wl (← o.toNat?))
  | ["ha", o] => do some (.ha (← o.toNat?))
  | ["hr", o] => do some (.hr (← o.toNat?))
  | ["wf"] => some .wf
  | ["st", t] => do some (.st (← t.toNat?))
  | ["sc", o] => do some (.sc (← o.toNat?))
  | ["x"] => some .x
  | _ => none

def parseInit (s : String) : Option (Fs × Nat) :=
  match s.splitOn ":" with
  | [n, v0, t0, wo, wt] => do
    let n ← n.toNat?
    if n = 0 then none
    else some (initFs n (← v0.toNat?) (← t0.toNat?) (← wo.toNat?) (← wt.toNat?), n)
  | _ => none

def showWc : Wc → String
  | .fresh => "ok"
  | .updated => "ok"      -- the CLI reloads the repo at the working copy's operation and carries on
  | .stale => "stale"
  | .sibling => "sibling"
  | .unreadable => "unreadable"

def showBad (i : Nat) : String := if i = 0 then "ok" else s!"bad@{i}"

def firstBadWc : Fs → List Step → Nat → Nat
  | _, [], _ => 0
  | fs, s :: rest, i => if okWc fs s then firstBadWc (s.apply fs) rest (i + 1) else i

def handle : List String → Option String
  | "predict" :: k :: init :: steps => do
    let k ← k.toNat?
    let (fs0, n) ← parseInit init
    let steps ← steps.mapM parseStep
    let fs := crash fs0 steps k
    let tail := s!"wt={fs.wcTree} wo={fs.wcOp}"
    match load fs with
    | none => some s!"noload {tail}"
    | some l =>
      let pub := if allPublished fs (List.range n) then "ok" else "lost"
      some s!"head={l.head} view={l.view} wc={showWc (wcStatus fs)} {tail} pub={pub}"
  | "shape" :: init :: steps => do
    let (fs0, _) ← parseInit init
    let steps ← steps.mapM parseStep
    let tx := (steps.filter fun s => match s with | .ha _ => true | _ => false).length
    some s!"repo={showBad (firstBad fs0 steps 1)} wc={showBad (firstBadWc fs0 steps 1)} tx={tx}"
  | ["persist", old, nch, n] => do
    let old ← old.toNat?
    let nch ← nch.toNat?
    let n ← n.toNat?
    let chunks : List Bytes := (List.range nch).map fun i => [i]
    let full : Bytes := chunks.flatten
    let oldC : Bytes := [99]
    let fs0 : LFs := if old = 1 then (fun q => if q = 2 then some oldC else none) else fun _ => none
    let fs := persistCrash fs0 1 2 chunks n
    let fin := match fs 2 with
      | none => "none"
      | some c => if c = full then "new" else if old = 1 ∧ c = oldC then "old" else "partial"
    let tmp := match fs 1 with
      | none => "none"
      | some c => if c = full then "complete" else "partial"
    some s!"final={fin} temp={tmp}"
  | _ => none

end JjModel.Drv.C15
