import JjModel.Model.Rebase
import JjModel.Drv.TreeCodec
/-!
  Driver handler for C08.
    `C08 rebase <keep|accept> <history> <commit> <new parents>`   tree of the rebased commit
    `C08 mct <keep|accept> <history> <commits>`                   `merge_commit_trees`
    `C08 frmc <history> <commits>`                                `find_recursive_merge_commits`
  history: commits joined by `,`, each `<parents>=<Merge<Tree>>` (parents joined by `.`, `-` for none);
  commit `0` is the root.
-/
namespace JjModel.Drv.C08
open JjModel.Trees JjModel.Merge JjModel.Rebase JjModel.Drv.TreeCodec

def parseIds (s : String) : Option (List Nat) :=
  if s = "-" then some [] else (s.splitOn ".").mapM String.toNat?

def parseCommit (s : String) : Option Commit :=
  match s.splitOn "=" with
  | [ps, ts] => do
    let ps ← parseIds ps
    let ts ← parseTrees ts
    some { parents := ps, tree := ts }
  | _ => none

def parseHistory (s : String) : Option History := (s.splitOn ",").mapM parseCommit

def wellFormed (h : History) : Bool :=
  (List.range h.length).all fun i => (parentsOf h i).all (· < i) && (treeOf h i).length % 2 = 1

def handle : List String → Option String
  | ["rebase", sc, h, c, ps] => do
    let sc ← parseSc sc
    let h ← parseHistory h
    let c ← c.toNat?
    let ps ← parseIds ps
    if !wellFormed h || c ≥ h.length || ps.any (· ≥ h.length) || ps.isEmpty then none else
    if rebaseDebugAsserts sc (slotMerge sc) h c ps then some (showTrees (rebaseTree sc (slotMerge sc) h c ps))
    else some "panic:resolve-debug-assert"
  | ["mct", sc, h, cs] => do
    let sc ← parseSc sc
    let h ← parseHistory h
    let cs ← parseIds cs
    if !wellFormed h || cs.any (· ≥ h.length) then none else
    match cs with
    | [_] => some (showTrees (mergeCommitTrees sc (slotMerge sc) h cs))
    | _ =>
      if resolveDebugAssert sc (slotMerge sc) (mergeCommitTreesNoResolve h cs) then
        some (showTrees (mergeCommitTrees sc (slotMerge sc) h cs))
      else some "panic:resolve-debug-assert"
  | ["frmc", h, cs] => do
    let h ← parseHistory h
    let cs ← parseIds cs
    if !wellFormed h || cs.any (· ≥ h.length) then none else
    some (showNatList (findRecursiveMergeCommits h (h.length + 1) cs))
  | _ => none

end JjModel.Drv.C08
