import JjModel.Drv.WorkingCopy
/-! Driver handler for C27: the shared working-copy requests (`snap`, `co`, `sparse`),
see `Drv/WorkingCopy.lean`. -/
namespace JjModel.Drv.C27

def handle (args : List String) : Option String := JjModel.Drv.WorkingCopy.handle args

end JjModel.Drv.C27
