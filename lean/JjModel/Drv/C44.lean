import JjModel.Model.TextUtil
import JjModel.Drv.Util
/-! Driver handler for C44.  Strings are `cp.w,cp.w,…` (code point and the per-char width the real
    `unicode-width` crate reports), empty string `-`.
      `elide <start|end> <max> <text> <ell>`                → `<out> w=<n>`
      `trunc <start|end> <max> <dW> <eW> <text> <ell>`      → `<out> w=<n>`
      `pad <start|end|center> <min> <dW> <text> <fill>`     → `<out>`
      `wrap <width> <text>`                                 → `<line>;<line>;…`
    Output strings are code points `cp,cp,…`, empty `-`. -/
namespace JjModel.Drv.C44
open JjModel.TextUtil JjModel.Drv

def parsePair (s : String) : Option (Char × Nat) :=
  match s.splitOn "." with
  | [a, b] => do
    let cp ← a.toNat?
    let w ← b.toNat?
    if cp < 0x110000 then some (Char.ofNat cp, w) else none
  | _ => none

def parseStr (s : String) : Option (List (Char × Nat)) :=
  if s = "-" then some [] else (s.splitOn ",").mapM parsePair

def mkCw (tables : List (List (Char × Nat))) : Char → Nat :=
  fun c => match tables.flatten.find? (fun p => p.1 == c) with
    | some p => p.2
    | none => 0

def showStr (s : List Char) : String := showNatList (s.map Char.toNat)

def handle : List String → Option String
  | ["elide", dir, max, text, ell] => do
    let max ← max.toNat?
    let t ← parseStr text
    let e ← parseStr ell
    let cw := mkCw [t, e]
    let r ← (match dir with
      | "start" => some (elideStart cw (t.map (·.1)) (e.map (·.1)) max)
      | "end" => some (elideEnd cw (t.map (·.1)) (e.map (·.1)) max)
      | _ => none)
    some s!"{showStr r.1} w={r.2}"
  | ["trunc", dir, max, dW, eW, text, ell] => do
    let max ← max.toNat?
    let dW ← dW.toNat?
    let eW ← eW.toNat?
    let t ← parseStr text
    let e ← parseStr ell
    let cw := mkCw [t, e]
    let r ← (match dir with
      | "start" => some (writeTruncatedStart cw dW eW (t.map (·.1)) (e.map (·.1)) max)
      | "end" => some (writeTruncatedEnd cw dW eW (t.map (·.1)) (e.map (·.1)) max)
      | _ => none)
    some s!"{showStr r.1} w={r.2}"
  | ["pad", dir, min, dW, text, fill] => do
    let min ← min.toNat?
    let dW ← dW.toNat?
    let t ← parseStr text
    let f ← parseStr fill
    let r ← (match dir with
      | "start" => some (writePaddedStart dW (t.map (·.1)) (f.map (·.1)) min)
      | "end" => some (writePaddedEnd dW (t.map (·.1)) (f.map (·.1)) min)
      | "center" => some (writePaddedCentered dW (t.map (·.1)) (f.map (·.1)) min)
      | _ => none)
    some (showStr r)
  | ["wrap", width, text] => do
    let width ← width.toNat?
    let t ← parseStr text
    let cw := mkCw [t]
    some (";".intercalate ((wrapBytes cw width (t.map (·.1))).map showStr))
  | _ => none

end JjModel.Drv.C44
