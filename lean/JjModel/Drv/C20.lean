import JjModel.Model.IdPrefix
import JjModel.Drv.Util
/-! Driver handler for C20.  Ids are lower-case hex strings (one character per digit, `-` = empty),
id lists are comma separated, `<sizes>` are the local sizes of the index segments oldest first,
id lists are in global position order.

* `cshort <sizes> <commitIds> <id>`                       → `shortestLen` on the commit tables
* `cres <sizes> <commitIds> <prefix>`                     → `resolvePrefix`: `none` / `amb` / `one:<id>`
* `chshort <sizes> <changeIds> <id>`                      → `shortestLen` on the change tables
* `chres <sizes> <changeIds> <index> <heads> <prefix>`    → `resolveChangeTargets`: `one:<pos>:<v|h>,…`
* `dcshort <sizes> <commitIds> <D|off> <refs> <id>`       → `disambiguateWithRefs ∘ shortestWithin`
* `dcres <sizes> <commitIds> <D|off> <prefix>`            → `resolveCommitWithin`
* `dchshort <sizes> <changeIds> <D|off> <refs> <id>`      → `disambiguateWithRefs ∘ shortestWithin`
* `dchres <sizes> <changeIds> <index> <heads> <D|off> <prefix>` → `resolveChangeWithin`
* `ixshort <keys> <id>`                                    → `idIndexShortest` (`IdIndex::lookup_exact(..).map(shortest_unique_prefix_len)`): `none` / `some:<n>`
* `ixres <keys> <prefix>`                                 → `idIndexResolve` (`IdIndex::resolve_prefix_to_key`)
(`<index>` = parent positions per position as in C18; `D` = ids of the disambiguation set;
`<keys>` = the keys inserted into an `IdIndex`, in insertion order.)
-/
namespace JjModel.Drv.C20
open JjModel.Index JjModel.IdPrefix JjModel.Drv

def parseId (s : String) : Option Id :=
  if s = "-" then some [] else s.toList.mapM hexDigit

def parseIds (s : String) : Option (List Id) :=
  if s = "-" then some [] else (s.splitOn ",").mapM parseId

def parseDis (s : String) : Option (Option (List Id)) :=
  if s = "off" then some none else (parseIds s).map some

def showId (i : Id) : String := if i.isEmpty then "-" else String.ofList (i.map hexChar)

def showRes : Resolution Id → String
  | .noMatch => "none"
  | .ambiguous => "amb"
  | .single x => s!"one:{showId x}"

def showTargets : Resolution (List (Nat × Bool)) → String
  | .noMatch => "none"
  | .ambiguous => "amb"
  | .single l => "one:" ++ ",".intercalate (l.map fun (p, v) => s!"{p}:{if v then "v" else "h"}")

def parseIndex (s : String) : Option Index := do
  let pss ← parseNatListList s
  some (build pss)

def handle : List String → Option String
  | ["cshort", sizes, ids, key] => do
    let sizes ← parseNatList sizes
    let ids ← parseIds ids
    let key ← parseId key
    if sizes.sum = ids.length then
      some (toString (shortestLen (commitTables (mkSegs true sizes ids 0 [])) key)) else none
  | ["cres", sizes, ids, p] => do
    let sizes ← parseNatList sizes
    let ids ← parseIds ids
    let p ← parseId p
    if sizes.sum = ids.length then
      some (showRes (resolvePrefix (commitTables (mkSegs true sizes ids 0 [])) p)) else none
  | ["chshort", sizes, ids, key] => do
    let sizes ← parseNatList sizes
    let ids ← parseIds ids
    let key ← parseId key
    if sizes.sum = ids.length then
      some (toString (shortestLen (changeTables (mkSegs false sizes ids 0 [])) key)) else none
  | ["chres", sizes, ids, idx, heads, p] => do
    let sizes ← parseNatList sizes
    let ids ← parseIds ids
    let idx ← parseIndex idx
    let heads ← parseNatList heads
    let p ← parseId p
    if sizes.sum = ids.length ∧ idx.length = ids.length then
      some (showTargets (resolveChangeTargets idx heads (mkSegs false sizes ids 0 []) p)) else none
  | ["dcshort", sizes, ids, dis, refs, key] => do
    let sizes ← parseNatList sizes
    let ids ← parseIds ids
    let dis ← parseDis dis
    let refs ← parseIds refs
    let key ← parseId key
    if sizes.sum = ids.length then
      some (toString (disambiguateWithRefs refs key
        (shortestWithin dis (commitTables (mkSegs true sizes ids 0 [])) key))) else none
  | ["dcres", sizes, ids, dis, p] => do
    let sizes ← parseNatList sizes
    let ids ← parseIds ids
    let dis ← parseDis dis
    let p ← parseId p
    if sizes.sum = ids.length then
      some (showRes (resolveCommitWithin dis (commitTables (mkSegs true sizes ids 0 [])) p)) else none
  | ["dchshort", sizes, ids, dis, refs, key] => do
    let sizes ← parseNatList sizes
    let ids ← parseIds ids
    let dis ← parseDis dis
    let refs ← parseIds refs
    let key ← parseId key
    if sizes.sum = ids.length then
      some (toString (disambiguateWithRefs refs key
        (shortestWithin dis (changeTables (mkSegs false sizes ids 0 [])) key))) else none
  | ["dchres", sizes, ids, idx, heads, dis, p] => do
    let sizes ← parseNatList sizes
    let ids ← parseIds ids
    let idx ← parseIndex idx
    let heads ← parseNatList heads
    let dis ← parseDis dis
    let p ← parseId p
    if sizes.sum = ids.length ∧ idx.length = ids.length then
      some (showTargets (resolveChangeWithin dis idx heads (mkSegs false sizes ids 0 []) p)) else none
  | ["ixshort", keys, key] => do
    let keys ← parseIds keys
    let key ← parseId key
    some (match idIndexShortest keys key with
      | none => "none"
      | some l => s!"some:{l}")
  | ["ixres", keys, p] => do
    let keys ← parseIds keys
    let p ← parseId p
    some (showRes (idIndexResolve keys p))
  | _ => none

end JjModel.Drv.C20
