import JjModel.Model.Graph
import JjModel.Drv.Util
/-! Driver handler for C39: `C39 graph <skip_transitive:0|1> <graph> <shown set>`
    answer: `c:edges;c:edges;…` with edges `d<t>` direct, `i<t>` indirect, `m<t>` missing, `-` none. -/
namespace JjModel.Drv.C39
open JjModel.Dag JjModel.Graph JjModel.Drv

def showEdge (e : Edge) : String :=
  (match e.kind with | .direct => "d" | .indirect => "i" | .missing => "m") ++ toString e.target

def showEdges (es : List Edge) : String :=
  if es.isEmpty then "-" else ",".intercalate (es.map showEdge)

def handle : List String → Option String
  | ["graph", sk, g, s] => do
    let skipT ← (match sk with | "0" => some false | "1" => some true | _ => none)
    let G ← parseNatListList g
    let S ← parseNatList s
    if !wfB G then some "err:malformed-graph" else
    let nodes := graphOf G S skipT
    if nodes.isEmpty then some "-" else
    some (";".intercalate (nodes.map fun (c, es) => s!"{c}:{showEdges es}"))
  | _ => none

end JjModel.Drv.C39
