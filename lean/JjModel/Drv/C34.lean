import JjModel.Drv.GitSyncIO
/-! Driver handler for C34:
  `C34 run <nn> <root> <dag> <auto 0|1> <locals> <remotes> <git_refs> <git> <op>…`
  ops: `set:<n>:<target>`  `git:<key>:<commit|x>`  `track:<key>`  `untrack:<key>`
       `import`  `importsome:<remote>`  `export`
  answer: one event per import/export (`I <state>` / `E <failed> <state>`) and the final state
  `F <state>`, joined by ` | `; `<state>` = `<locals> <remotes> <git_refs> <git>`.
  `C34 merge <dag> <left> <base> <right>` answers `merge_ref_targets`. -/
namespace JjModel.Drv.C34
open JjModel.GitSync JjModel.Drv JjModel.Drv.GitSyncIO

structure St where
  view : View
  git : Git

def showSt (nn : Nat) (s : St) : String := s!"{showView nn s.view} {showGit nn s.git}"

def step (nn root : Nat) (anc : Nat → Nat → Bool) (auto : Bool) (s : St) (op : String) :
    Option (St × Option String) :=
  match op.splitOn ":" with
  | ["set", n, t] => do
    let n ← n.toNat?; let t ← parseTarget t
    some ({ s with view := s.view.setLocal n t }, none)
  | ["git", k, c] => do
    let k ← parseKey k; let c ← parseOptNat c
    some ({ s with git := setAt s.git k c }, none)
  | ["track", k] => do
    let k ← parseKey k
    some ({ s with view := s.view.track anc k }, none)
  | ["untrack", k] => do
    let k ← parseKey k
    some ({ s with view := s.view.untrack k }, none)
  | ["import"] =>
    let s' := { s with view := importRefs anc auto (allKeys nn) s.view s.git }
    some (s', some s!"I {showSt nn s'}")
  | ["importsome", r] => do
    let r ← r.toNat?
    let s' := { s with view := importRefs anc auto ((allKeys nn).filter (fun k => k.2 == r)) s.view s.git }
    some (s', some s!"I {showSt nn s'}")
  | ["export"] =>
    let e := exportRefs root (allKeys nn) s.view s.git
    let s' : St := ⟨e.view, e.git⟩
    some (s', some s!"E {showFailed e.failed} {showSt nn s'}")
  | _ => none

def runOps (nn root : Nat) (anc : Nat → Nat → Bool) (auto : Bool) :
    St → List String → List String → Option (St × List String)
  | s, [], acc => some (s, acc.reverse)
  | s, op :: ops, acc =>
    match step nn root anc auto s op with
    | some (s', some ev) => runOps nn root anc auto s' ops (ev :: acc)
    | some (s', none) => runOps nn root anc auto s' ops acc
    | none => none

def handle : List String → Option String
  | "run" :: nn :: root :: dag :: auto :: l :: r :: g :: a :: ops => do
    let nn ← nn.toNat?; let root ← root.toNat?
    let dag ← parseDag dag
    let auto ← (match auto with | "0" => some false | "1" => some true | _ => none)
    let locals ← parseLocals l; let remotes ← parseRemotes r
    let gitRefs ← parseGitRefs g; let git ← parseGit a
    let (s, evs) ← runOps nn root (isAncestor dag) auto ⟨⟨locals, remotes, gitRefs⟩, git⟩ ops []
    some (" | ".intercalate (evs ++ [s!"F {showSt nn s}"]))
  | ["merge", dag, l, b, r] => do
    let dag ← parseDag dag
    let l ← parseTarget l; let b ← parseTarget b; let r ← parseTarget r
    some (showTarget (mergeRefTargets (isAncestor dag) l b r))
  | _ => none

end JjModel.Drv.C34
