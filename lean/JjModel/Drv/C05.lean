import JjModel.Model.Conflicts
import JjModel.Model.ConflictsSpec
import JjModel.Drv.Util
/-!
  Driver handler for C05.

  * `C05 mat <style> <markerlen|0> <labels> <files> <hunks> <diffs>` → materialized bytes (hex)
      style   `diff` | `diffexp` | `snapshot` | `git`
      labels  `u` (empty vec) or `,`-separated hex labels (`-` = empty label) given to `ConflictLabels::from_vec`
      files   `,`-separated hex terms of the `Merge<BString>` being materialized (marker length / EOL detection)
      hunks   `;`-separated hunks, each `,`-separated hex terms (= `files::merge_hunks(files)`, computed by the harness)
      diffs   `-` or `;`-separated table entries `L,R,G` of the line diff of `L` vs `R`
              (`G` = `-` or `/`-separated groups `m.<l>.<r>` matching / `d.<l>.<r>` different)
  * `C05 parse <sides> <markerlen> <hex>` → `none` or hunks
  * `C05 choose <files>` → marker length;  `C05 eol <files>` → `lf` | `crlf`
  * `C05 wf <sides> <files> <hunks>` → `1`/`0`: the hypotheses of `roundtrip_end_to_end_partial`
      (`HunksWF` at the chosen marker length and `LinesFrom`) evaluated on a real `merge_hunks` output
  * `C05 diffok <L,R,G>` → `1`/`0`: `DiffOK` (hypothesis `DiffFnOK` of the diff-style theorem) on one
      real `ContentDiff::by_line` result
-/
namespace JjModel.Drv.C05
open JjModel.Conflicts JjModel.Drv

def parseTerms (s : String) : Option (List Bytes) := (s.splitOn ",").mapM parseHex

def parseHunks (s : String) : Option (List (List Bytes)) := (s.splitOn ";").mapM parseTerms

def showHunks (hs : List (List Bytes)) : String :=
  ";".intercalate (hs.map fun h => ",".intercalate (h.map showHex))

def parseStyle : String → Option Style
  | "diff" => some .diff
  | "diffexp" => some .diffExperimental
  | "snapshot" => some .snapshot
  | "git" => some .git
  | _ => none

def parseGroup (s : String) : Option DiffGroup :=
  match s.splitOn "." with
  | [k, l, r] => do
    let m ← (match k with | "m" => some true | "d" => some false | _ => none)
    let l ← parseHex l
    let r ← parseHex r
    some { matching := m, left := l, right := r }
  | _ => none

def parseEntry (s : String) : Option (Bytes × Bytes × List DiffGroup) :=
  match s.splitOn "," with
  | [l, r, g] => do
    let l ← parseHex l
    let r ← parseHex r
    let g ← (if g = "-" then some [] else (g.splitOn "/").mapM parseGroup)
    some (l, r, g)
  | _ => none

def parseTable (s : String) : Option (List (Bytes × Bytes × List DiffGroup)) :=
  if s = "-" then some [] else (s.splitOn ";").mapM parseEntry

/-- The line diff as a lookup table; a pair the harness did not provide yields a poison group,
so the materialized bytes disagree with the implementation (never silently accepted). -/
def tableFn (t : List (Bytes × Bytes × List DiffGroup)) : DiffFn := fun l r =>
  match t.find? (fun e => e.1 = l ∧ e.2.1 = r) with
  | some e => e.2.2
  | none => [{ matching := false, left := ascii "MISSING-DIFF\n", right := ascii "MISSING-DIFF\n" }]

def handle : List String → Option String
  | ["mat", style, ml, labels, files, hunks, diffs] => do
    let style ← parseStyle style
    let ml ← ml.toNat?
    let labels ← (if labels = "u" then some [] else parseTerms labels)
    let files ← parseTerms files
    let hunks ← parseHunks hunks
    let table ← parseTable diffs
    some (showHex (materializeToBytes (tableFn table) files hunks style
      (if ml = 0 then none else some ml) (labelsFromVec labels)))
  | ["parse", sides, ml, input] => do
    let sides ← sides.toNat?
    let ml ← ml.toNat?
    let input ← parseHex input
    match parseConflict input sides ml with
    | none => some "none"
    | some hs => some (showHunks hs)
  | ["wf", sides, files, hunks] => do
    let sides ← sides.toNat?
    let files ← parseTerms files
    let hunks ← parseHunks hunks
    some (showBool (decide (RoundTripHyps files sides hunks)))
  | ["diffok", entry] => do
    let (l, r, g) ← parseEntry entry
    some (showBool (decide (DiffOK g l r)))
  | ["choose", files] => do
    let files ← parseTerms files
    some (toString (chooseMarkerLen files))
  | ["eol", files] => do
    let files ← parseTerms files
    some (if detectEol files = eolCRLF then "crlf" else "lf")
  | _ => none

end JjModel.Drv.C05
