import JjModel.Model.GitIgnore
import JjModel.Drv.Util
/-!
Driver handler for C28.  Strings are lower-case hex of their bytes (`-` = empty); a file list is
`_` (none) or `;`-separated `dirhex=contenthex` entries in *chaining order* (first chained first);
a path list is `,`-separated hex of `/`-joined repository paths.

  `C28 raw <chain> <f|d> <paths>`   → one bit per path: `matches_file` / `matches_dir` of the chain
                                       built by `empty().chain(dir₁, content₁).chain(dir₂, …)…`
  `C28 snap <base> <files> <paths>` → one bit per path: is the untracked file ignored by a snapshot
                                       (base chain = `<base>`; `<files>` = the `.gitignore` files of
                                       the working copy, keyed by directory)
-/
namespace JjModel.Drv.C28
open JjModel.GitIgnore JjModel.Drv

def parseStrHex (s : String) : Option Str := do
  let bs ← parseHex s
  some (bs.map fun b => Char.ofNat b.toNat)

def parsePath (s : String) : Option (List Str) := do
  let p ← parseStrHex s
  if p = [] then some [] else some (splitOnChar '/' p)

def parseEntry (s : String) : Option (List Str × List Pattern) :=
  match s.splitOn "=" with
  | [d, c] => do
    let d ← parsePath d
    let c ← parseStrHex c
    some (d, parseFile c)
  | _ => none

def parseFiles (s : String) : Option (List (List Str × List Pattern)) :=
  if s = "_" then some [] else (s.splitOn ";").mapM parseEntry

def parsePaths (s : String) : Option (List (List Str)) := (s.splitOn ",").mapM parsePath

/-- chaining order → linked list, nearest (last chained) first -/
def toChain (l : List (List Str × List Pattern)) : List (IgnoreFile Pattern) :=
  (l.map fun e => (⟨e.1, e.2⟩ : IgnoreFile Pattern)).reverse

def bits (l : List Bool) : String := String.ofList (l.map fun b => if b then '1' else '0')

def handle : List String → Option String
  | ["raw", chain, kind, paths] => do
    let chain ← parseFiles chain
    let isDir ← (match kind with | "f" => some false | "d" => some true | _ => none)
    let paths ← parsePaths paths
    some (bits (paths.map fun p => matchesPath (toChain chain) p isDir))
  | ["snap", base, files, paths] => do
    let base ← parseFiles base
    let files ← parseFiles files
    let paths ← parsePaths paths
    some (bits (paths.map fun p => snapshotIgnored files (toChain base) p))
  | _ => none

end JjModel.Drv.C28
