import JjModel.Model.SecureConfig
import JjModel.Drv.Util
/-! Driver handler for C43: `C43 run <op> <op> …` — the whole sequence in one request.
    ops: `mk:r rm:r mv:a:b cp:a:b ln:a:b id:r:<del|@abs|h<hex>|h-> leg:r:c edit:r:c rmconf:r ro:r rw:r load:r loadc:r`
    answer: one token per op (`.` or the load result), then the canonical final state. -/
namespace JjModel.Drv.C43
open JjModel.SecureConfig JjModel.Drv

def parseIdContent (s : String) : Option IdFile :=
  if s = "del" then some .absent
  else if s = "@abs" then some (.text "/abs/evil".toList)   -- stands for the absolute path of the planted directory
  else if s.startsWith "h" then do
    let bytes ← parseHex (s.drop 1).toString
    match String.fromUTF8? (ByteArray.mk (bytes.toArray)) with
    | some str => some (.text str.toList)
    | none => some .notUtf8
  else none

def parseOp (s : String) : Option Op :=
  match s.splitOn ":" with
  | ["mk", r] => do some (.mk (← r.toNat?))
  | ["rm", r] => do some (.rm (← r.toNat?))
  | ["mv", a, b] => do some (.mv (← a.toNat?) (← b.toNat?))
  | ["cp", a, b] => do some (.cp (← a.toNat?) (← b.toNat?))
  | ["ln", a, b] => do some (.ln (← a.toNat?) (← b.toNat?))
  | ["id", r, c] => do some (.setId (← r.toNat?) (← parseIdContent c))
  | ["leg", r, c] => do some (.legacy (← r.toNat?) (← c.toNat?))
  | ["edit", r, c] => do some (.edit (← r.toNat?) (← c.toNat?))
  | ["rmconf", r] => do some (.rmConf (← r.toNat?))
  | ["ro", r] => do some (.chmod (← r.toNat?) false)
  | ["rw", r] => do some (.chmod (← r.toNat?) true)
  | ["load", r] => do some (.load (← r.toNat?))
  | ["loadc", r] => do some (.loadC (← r.toNat?))
  | _ => none

def stripRoot : List Str → List Str → Option (List Str)
  | [], p => some p
  | _ :: _, [] => none
  | a :: as, b :: bs => if a = b then stripRoot as bs else none

def showPath (p : List Str) : String :=
  match stripRoot root p with
  | some [id, f] => String.ofList id ++ "/" ++ String.ofList f
  | _ => "ESCAPE"

def showMd : Option Nat → String
  | none => "-"
  | some r => s!"r{r}"

def showWarn : Warn → String
  | .none => "-" | .notFound => "notfound" | .copied => "copied" | .migrated => "migrated"

def showRes : Option Res → String
  | none => "."
  | some (.error .badId) => "err:badid"
  | some (.error .path) => "err:path"
  | some (.error .decode) => "err:decode"
  | some (.ok l) =>
    let f := match l.file with | none => "-" | some p => showPath p
    s!"ok({f},{showMd l.metadata},{showWarn l.warn})"

def showIdFile : IdFile → String
  | .absent => "-"
  | .notUtf8 => "x"
  | .text s => "t" ++ showHex (String.ofList s).toUTF8.toList

def showLegacy : Legacy → String
  | .none => "-"
  | .file c => s!"f{c}"
  | .link id => "l" ++ String.ofList id

def showEntry : Entry → String
  | .absent => "-"
  | .link t => s!"L{t}"
  | .dir d => s!"D(id={showIdFile d.idFile};leg={showLegacy d.legacy};w={showBool d.writable})"

def showConf (name : String) (c : ConfDir) : String :=
  let md := match c.metadata with | none => "-" | some none => "none" | some (some r) => s!"r{r}"
  let cfg := match c.config with | none => "-" | some n => toString n
  s!"{name}(md={md};cfg={cfg})"

/-- literal ids the request mentions (candidates for config dir names) -/
def literalIds : List Op → List Str
  | [] => []
  | .setId _ (.text s) :: ops => s :: literalIds ops
  | _ :: ops => literalIds ops

def insertSorted (s : String) : List String → List String
  | [] => [s]
  | x :: xs => if s < x then s :: x :: xs else if s = x then x :: xs else x :: insertSorted s xs

def handle : List String → Option String
  | "run" :: toks => do
    let ops ← toks.mapM parseOp
    let (fs, rs) := run Fs.empty ops
    let keys := (literalIds ops ++ (List.range fs.next).map genId).map String.ofList
    let keys := keys.foldl (fun acc k => insertSorted k acc) []
    let confs := keys.filterMap (fun k => (fs.confs k.toList).map (showConf k))
    let repos := (List.range 4).map (fun r => s!"{r}={showEntry (fs.repos r)}")
    some (" ".intercalate (rs.map showRes) ++ " | R[" ++ " ".intercalate repos ++ "] C[" ++ " ".intercalate confs ++ "]")
  | _ => none

end JjModel.Drv.C43
