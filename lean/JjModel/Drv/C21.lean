import JjModel.Model.Table
import JjModel.Generated.TableGuard
import JjModel.Drv.Util
/-!
  Driver handler for C21.

  `C21 run <working:0|1> <nproc> <nkeys> <events>`
     events joined by `/`:
       `S<pid>:g` get_head · `S<pid>:G` get_head_locked · `S<pid>:s<entries>` save_table on the held table ·
       `S<pid>:L<entries>` get_head_locked + save under the lock   (entries `k.v,k.v`, `-` = none)
       `T<pid>` / `T<pid>:<i,j,…>` one hook point (argument = observed `read_dir` order as indices into
       the insertion-ordered head list) · `X<pid>` crash
     answer: one item per event joined by `;` — `S`, `X <heads>`, or `<kind> <heads>[ ret=<table> get=<lookups>]`
     (`ret`/`get` when the process's operation ended with this step: the table it returns and
     `get_value` of keys `0..nkeys-1`); `reject@i` if event `i` is not enabled in the model.
  `C21 guard` → the generated constant `tableGuardEq`.
  `C21 save <table> <entries>` → `save_in(start_mutation + entries)`;  `C21 merge <t0> <t1>;<t2>…` merged table.
  Tables are printed newest segment first, segments separated by `<`, entries `k.v` joined by `,`,
  the empty segment `e`; head lists joined by `|`, the empty list `none`.
-/
namespace JjModel.Drv.C21
open JjModel.Table JjModel.HeadProto JjModel.Drv

def showEntries (es : Entries) : String :=
  if es.isEmpty then "e" else ",".intercalate (es.map fun kv => s!"{kv.1}.{kv.2}")

def showTable (t : Table) : String :=
  if t.isEmpty then "nil" else "<".intercalate (t.map showEntries)

def showHeads (hs : List Table) : String :=
  if hs.isEmpty then "none" else "|".intercalate (hs.map showTable)

def parseEntry (s : String) : Option (Nat × Nat) :=
  match s.splitOn "." with
  | [a, b] => do some (← a.toNat?, ← b.toNat?)
  | _ => none

def parseEntries (s : String) : Option Entries :=
  if s = "-" || s = "e" then some [] else (s.splitOn ",").mapM parseEntry

def parseTable (s : String) : Option Table :=
  if s = "nil" then some [] else (s.splitOn "<").mapM parseEntries

def parseOp (s : String) : Option TProg :=
  match s.toList with
  | ['g'] => some progGetHead
  | ['G'] => some progGetHeadLocked
  | 's' :: r => do some (progSave (← parseEntries (String.ofList r)))
  | 'L' :: r => do some (progLockedSave (← parseEntries (String.ofList r)))
  | _ => none

def parseEvent (s : String) : Option (TEvent) :=
  match s.toList with
  | 'S' :: r =>
    match (String.ofList r).splitOn ":" with
    | [p, op] => do some (.start (← p.toNat?) (← parseOp op))
    | _ => none
  | 'T' :: r =>
    match (String.ofList r).splitOn ":" with
    | [p] => do some (.step (← p.toNat?) [])
    | [p, a] => do some (.step (← p.toNat?) (← parseNatList a))
    | _ => none
  | 'X' :: r => do some (.crash (← (String.ofList r).toNat?))
  | _ => none

def kindOf : Instr Table TInstr → List Nat → String
  | .lock, _ => "lock"
  | .add t _, _ => s!"add:{showTable t}"
  | .rms _ pend, _ => s!"rm:{showTable (pend.headD [])}"
  | .client (.read _), _ => "read"
  | .client .write, _ => "write"
  | .client (.save _ _), _ => "write"

def showGets (t : Table) (nkeys : Nat) : String :=
  ",".intercalate ((List.range nkeys).map fun k => match getValue t k with
    | some v => toString v
    | none => "_")

def describe (nkeys : Nat) (s t : TState) : TEvent → String
  | .start _ _ => "S"
  | .crash _ => s!"X {showHeads t.heads}"
  | .step pid arg =>
    let kind := match s.procs[pid]? with
      | some p => match p.instrs with
        | i :: _ => kindOf i arg
        | [] => "?"
      | none => "?"
    let done := match t.procs[pid]? with
      | some p => if p.instrs.isEmpty then s!" ret={showTable p.loc.held} get={showGets p.loc.held nkeys}" else ""
      | none => ""
    s!"{kind} {showHeads t.heads}{done}"

def trace (working : Bool) (nkeys : Nat) (cl : Client Table TInstr TLoc) :
    TState → Nat → List (TEvent) → List String → List String
  | _, _, [], acc => acc.reverse
  | s, i, e :: es, acc =>
    match apply working cl s e with
    | none => (s!"reject@{i}" :: acc).reverse
    | some t => trace working nkeys cl t (i + 1) es (describe nkeys s t e :: acc)

def handle : List String → Option String
  | ["guard"] => some (showBool JjModel.Generated.tableGuardEq)
  | ["run", w, np, nk, evs] => do
    let w ← w.toNat?
    let np ← np.toNat?
    let nk ← nk.toNat?
    let evs ← (evs.splitOn "/").mapM parseEvent
    let s0 : TState := init [] (List.replicate np { held := [], cur := [] })
    some (";".intercalate (trace (w != 0) nk (tableClient JjModel.Generated.tableGuardEq) s0 0 evs []))
  | ["save", t, es] => do
    let t ← parseTable t
    let es ← parseEntries es
    if t.isEmpty then none else some (showTable (saveIn (mutate t es)))
  | ["merge", t0, rest] => do
    let t0 ← parseTable t0
    let rest ← (rest.splitOn ";").mapM parseTable
    if t0.isEmpty || rest.any List.isEmpty then none else some (showTable (mergeHeads t0 rest))
  | _ => none

end JjModel.Drv.C21
