import JjModel.Model.Annotate
import JjModel.Drv.Util
/-! Driver handler for C38:
    `C38 ann <graph> <S> <start> <texts> <diffs>`
    texts = line-token lists per commit (`;`-separated, `-` = no file / empty),
    diffs = `;`-separated entries `child,ancestor,cs1,ps1,cnt1,cs2,ps2,cnt2,…` (`-` = none).
    answer: `sound=<0|1> n=<lines> <origins>` (`err:malformed-graph` / `err:start-not-searched` when a
    hypothesis of the theorems about the walk fails; the harness never produces such a request), origins `o<commit>.<line>` (Ok) / `e<commit>.<line>` (Err). -/
namespace JjModel.Drv.C38
open JjModel.Dag JjModel.Graph JjModel.Annotate JjModel.Drv

def parseHunks : List Nat → Option (List Hunk)
  | [] => some []
  | a :: b :: c :: rest => (parseHunks rest).map ((a, b, c) :: ·)
  | _ => none

def parseDiffs (ls : List (List Nat)) : Option Diffs :=
  ls.filterMap (fun l => if l.isEmpty then none else some l) |>.mapM fun l =>
    match l with
    | c :: t :: rest => (parseHunks rest).map fun hs => ((c, t), hs)
    | _ => none

def showOrigin (o : Origin) : String :=
  (if o.ok then "o" else "e") ++ toString o.commit ++ "." ++ toString o.line

def handle : List String → Option String
  | ["ann", g, s, start, texts, diffs] => do
    let G ← parseNatListList g
    let S ← parseNatList s
    let start ← start.toNat?
    let texts ← parseNatListList texts
    let diffs ← parseNatListList diffs >>= parseDiffs
    if !wfB G then some "err:malformed-graph" else
    -- hypotheses of `err_origin_not_searched`: the starting commit is a commit of `G` and of `S`
    if !(S.contains start && decide (start < G.length)) then some "err:start-not-searched" else
    let r := annotate G S start texts diffs
    let os := if r.1.isEmpty then "-" else ",".intercalate (r.1.map showOrigin)
    some s!"sound={showBool (diffsSound texts diffs)} n={r.2.length} {os}"
  | _ => none

end JjModel.Drv.C38
