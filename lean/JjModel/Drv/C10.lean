import JjModel.Model.Heads
import JjModel.Drv.Util
import JjModel.Drv.C12
/-! Driver handler for C10: `C10 run <op> <op> …` — the whole operation sequence of one case;
answer = canonical view after every `commit` (and `err@<i>` for operations that returned `Err`). -/
namespace JjModel.Drv.C10
open JjModel.Heads JjModel.Refs JjModel.Drv

def parseOp (s : String) : Option Op :=
  match s.splitOn ":" with
  | ["new", ps] => (parseNatList ps).map Op.new
  | ["rw", c] => c.toNat?.map Op.rw
  | ["ab", c] => c.toNat?.map Op.ab
  | ["rebase"] => some Op.rebase
  | ["bm", n, t] => do some (Op.bm (← n.toNat?) (← C12.parseTarget t))
  | ["edit", w, c] => do some (Op.edit (← w.toNat?) (← c.toNat?))
  | ["co", w, c] => do some (Op.co (← w.toNat?) (← c.toNat?))
  | ["rmws", w] => w.toNat?.map Op.rmws
  | ["setwc", w, c] => do some (Op.setwc (← w.toNat?) (← c.toNat?))
  | ["addhead", c] => c.toNat?.map Op.addhead
  | ["rmhead", c] => c.toNat?.map Op.rmhead
  | ["commit"] => some Op.commit
  | _ => none

def insertSorted (x : Nat) : List Nat → List Nat
  | [] => [x]
  | y :: ys => if x ≤ y then x :: y :: ys else y :: insertSorted x ys

def sortNat (l : List Nat) : List Nat := l.foldr insertSorted []

def showView (r : Repo) : String :=
  let b := if r.bookmarks.isEmpty then "-"
    else ";".intercalate (r.bookmarks.map fun (n, t) => s!"{n}:{C12.showTarget t}")
  let w := if r.wcs.isEmpty then "-" else ";".intercalate (r.wcs.map fun (n, c) => s!"{n}:{c}")
  s!"h={showNatList (sortNat r.heads)}|b={b}|w={w}"

def runOps (monitor : Bool) : List Op → Nat → Repo → List String → List String
  | [], _, _, acc => acc.reverse
  | op :: rest, i, r, acc =>
    match step r op with
    | none => ("panic" :: acc).reverse
    | some (r', ok) =>
      let acc := if ok then acc else s!"err@{i}" :: acc
      let acc := match op with
        | .commit => showView r' :: acc
        -- monitor of the premise of `rebase_inv_partial`; the implementation never prints this token
        | .rebase => if !monitor || checkRebaseRefsOk r then acc else s!"!rebase-premise@{i}" :: acc
        | _ => acc
      runOps monitor rest (i + 1) r' acc

def handle : List String → Option String
  | "run" :: ops => do
    let ops ← ops.mapM parseOp
    some (" ".intercalate (runOps true ops 0 Repo.init []))
  | "runlow" :: ops => do
    let ops ← ops.mapM parseOp
    some (" ".intercalate (runOps false ops 0 Repo.init []))
  | _ => none

end JjModel.Drv.C10
