import JjModel.Model.Files
import JjModel.Drv.Util
/-!
  Driver handler for C04.
  `C04 merge <line|word> <keep|accept> <hex>;<hex>;…` (the interleaved terms of the `Merge`) —
  answer `hunks=<R:hex | C:t,t,t|t|…> merge=<t,t,…> try=<none|some:hex>`:
  the results of `files::merge_hunks`, `files::merge`, `files::try_merge`, followed by ` sre=<0|1>`:
  the run-time check of the `SlicesRespectEquality` hypothesis of `merge_cancels_to_side_partial`
  on the model's own line diff (the harness expects `1`).
-/
namespace JjModel.Drv.C04
open JjModel.Files JjModel.Merge JjModel.Drv

def showTerms (l : List (List UInt8)) : String := ",".intercalate (l.map showHex)

def showResult : MergeResult → String
  | .resolved c => "R:" ++ showHex c
  | .conflict hs => "C:" ++ "|".intercalate (hs.map showTerms)

def handle : List String → Option String
  | ["merge", level, sc, terms] => do
    let level ← (match level with | "line" => some HunkLevel.line | "word" => some .word | _ => none)
    let sc ← (match sc with | "keep" => some SameChange.keep | "accept" => some .accept | _ => none)
    let terms ← (terms.splitOn ";").mapM parseHex
    if terms.length % 2 = 0 then some "panic"
    else
      let m := match merge terms level sc with
        | some r => showTerms r
        | none => "panic"
      let t := match tryMerge terms level sc with
        | some c => "some:" ++ showHex c
        | none => "none"
      some s!"hunks={showResult (mergeHunks terms level sc)} merge={m} try={t} sre={showBool (lineDiffSre terms)}"
  | _ => none

end JjModel.Drv.C04
