import JjModel.Model.Revset
import JjModel.Model.RevsetOpt
import JjModel.Drv.Util
/-!
  Driver handler for C19.

    C19 eval    <parents> <heads> <timestamps> <expr>   -- `evaluate_unoptimized`
    C19 evalopt <parents> <heads> <timestamps> <expr>   -- `evaluate` (optimize first)

  `<parents>`: one list per position, `;`-separated (`-` = no parents), e.g. `-;0;0;1,2`.
  `<heads>`, `<timestamps>`: `List Nat`.
  `<expr>` (no spaces):
    n none | a all | v visible_heads | w visible_heads_or_referenced | r root | c[1.2.3] commits
    A(x,lo,hi,fp) ancestors | D(x,lo,hi) descendants | R(roots,heads,lo,hi,fp) range
    G(roots,heads) dag range | E(sources,domain) reachable | H(x) heads | Q(roots,heads,fp,filter)
    O(x) roots | F(x) fork_point | P(x) merge_point | f forks | L(x,n) latest | K(a,b) coalesce | N(x) ~x
    U(a,b) | I(a,b) & | M(a,b) ~       with hi = number or `i` (unbounded), fp = 0/1.
  Answer: the positions, newest first (`-` when empty).
-/
namespace JjModel.Drv.C19
open JjModel.Revset JjModel.Drv

def parseNum : List Char → Nat → Bool → Option (Nat × List Char)
  | c :: cs, acc, seen =>
    if '0' ≤ c ∧ c ≤ '9' then parseNum cs (acc * 10 + (c.toNat - '0'.toNat)) true
    else if seen then some (acc, c :: cs) else none
  | [], acc, seen => if seen then some (acc, []) else none

def parseHi : List Char → Option (Option Nat × List Char)
  | 'i' :: cs => some (none, cs)
  | cs => (parseNum cs 0 false).map fun (n, r) => (some n, r)

def parseBool : List Char → Option (Bool × List Char)
  | '0' :: cs => some (false, cs)
  | '1' :: cs => some (true, cs)
  | _ => none

def expect (c : Char) : List Char → Option (List Char)
  | d :: cs => if c = d then some cs else none
  | [] => none

/-- `1.2.3]` -/
def parseIds : Nat → List Char → List Nat → Option (List Nat × List Char)
  | _, ']' :: cs, acc => some (acc.reverse, cs)
  | 0, _, _ => none
  | f + 1, cs, acc => do
    let (n, r) ← parseNum cs 0 false
    match r with
    | '.' :: r' => parseIds f r' (n :: acc)
    | ']' :: r' => some ((n :: acc).reverse, r')
    | _ => none

def parseExpr : Nat → List Char → Option (Expr × List Char)
  | 0, _ => none
  | f + 1, cs =>
    match cs with
    | 'n' :: r => some (.none, r)
    | 'a' :: r => some (.all, r)
    | 'v' :: r => some (.visibleHeads, r)
    | 'w' :: r => some (.visibleHeadsOrReferenced, r)
    | 'r' :: r => some (.root, r)
    | 'f' :: r => some (.forks, r)
    | 'c' :: '[' :: r => do
      let (l, r) ← parseIds (r.length + 1) r []
      some (.commits l, r)
    | 'A' :: '(' :: r => do
      let (x, r) ← parseExpr f r
      let r ← expect ',' r
      let (lo, r) ← parseNum r 0 false
      let r ← expect ',' r
      let (hi, r) ← parseHi r
      let r ← expect ',' r
      let (fp, r) ← parseBool r
      let r ← expect ')' r
      some (.ancestors x lo hi fp, r)
    | 'D' :: '(' :: r => do
      let (x, r) ← parseExpr f r
      let r ← expect ',' r
      let (lo, r) ← parseNum r 0 false
      let r ← expect ',' r
      let (hi, r) ← parseHi r
      let r ← expect ')' r
      some (.descendants x lo hi, r)
    | 'R' :: '(' :: r => do
      let (x, r) ← parseExpr f r
      let r ← expect ',' r
      let (y, r) ← parseExpr f r
      let r ← expect ',' r
      let (lo, r) ← parseNum r 0 false
      let r ← expect ',' r
      let (hi, r) ← parseHi r
      let r ← expect ',' r
      let (fp, r) ← parseBool r
      let r ← expect ')' r
      some (.range x y lo hi fp, r)
    | 'Q' :: '(' :: r => do
      let (x, r) ← parseExpr f r
      let r ← expect ',' r
      let (y, r) ← parseExpr f r
      let r ← expect ',' r
      let (fp, r) ← parseBool r
      let r ← expect ',' r
      let (z, r) ← parseExpr f r
      let r ← expect ')' r
      some (.headsRange x y fp z, r)
    | 'L' :: '(' :: r => do
      let (x, r) ← parseExpr f r
      let r ← expect ',' r
      let (n, r) ← parseNum r 0 false
      let r ← expect ')' r
      some (.latest x n, r)
    | c :: '(' :: r =>
      if c = 'H' ∨ c = 'O' ∨ c = 'F' ∨ c = 'N' ∨ c = 'P' then do
        let (x, r) ← parseExpr f r
        let r ← expect ')' r
        match c with
        | 'H' => some (.heads x, r)
        | 'O' => some (.roots x, r)
        | 'F' => some (.forkPoint x, r)
        | 'P' => some (.mergePoint x, r)
        | _ => some (.notIn x, r)
      else if c = 'G' ∨ c = 'E' ∨ c = 'K' ∨ c = 'U' ∨ c = 'I' ∨ c = 'M' then do
        let (x, r) ← parseExpr f r
        let r ← expect ',' r
        let (y, r) ← parseExpr f r
        let r ← expect ')' r
        match c with
        | 'G' => some (.dagRange x y, r)
        | 'E' => some (.reachable x y, r)
        | 'K' => some (.coalesce x y, r)
        | 'U' => some (.union x y, r)
        | 'I' => some (.inter x y, r)
        | _ => some (.diff x y, r)
      else none
    | _ => none

def parseGraph (ps hs ts : String) : Option Graph := do
  let parents ← parseNatListList ps
  let heads ← parseNatList hs
  let ts ← parseNatList ts
  some { parents, heads, ts }

def parseE (s : String) : Option Expr :=
  match parseExpr (s.length + 1) s.toList with
  | some (e, []) => some e
  | _ => none

def handle : List String → Option String
  | ["eval", ps, hs, ts, ex] => do
    let g ← parseGraph ps hs ts
    let e ← parseE ex
    some (showNatList (evalTop g e))
  | ["evalopt", ps, hs, ts, ex] => do
    let g ← parseGraph ps hs ts
    let e ← parseE ex
    some (showNatList (evalTopOpt g e))
  | _ => none

end JjModel.Drv.C19
