import JjModel.Model.Fileset
import JjModel.Drv.C30
/-!
Driver handler for C31: `C31 eval <k> <depth> <expr tokens…>`

The resolved `FilesetExpression` (printed by the harness from the value returned by the real
`fileset::parse`) in prefix notation, one node per token: `none` `all` `fp:<path>` `pp:<path>`
`fg:<dir>=<bits>` `pg:<dir>=<bits>` `U:<n>` (followed by `n` expressions) `I` `D` (binary).
Paths, truth tables, universe and the answer format are those of C30 (`Drv/C30.lean`):
`visit` of `to_matcher()` at every universe path, then its `matches` bit at every universe path.
-/
namespace JjModel.Drv.C31
open JjModel.Matchers JjModel.Fileset JjModel.Drv

def parseLeaf (k : Nat) (tok : String) : Option FExpr :=
  if tok = "none" then some .none
  else if tok = "all" then some .all
  else match tok.splitOn ":" with
    | ["fp", p] => do some (.pattern (.filePath (← C30.parsePath p)))
    | ["pp", p] => do some (.pattern (.prefixPath (← C30.parsePath p)))
    | ["fg", e] => do let (d, g) ← C30.parseGlobEntry k e; some (.pattern (.fileGlob d g))
    | ["pg", e] => do let (d, g) ← C30.parseGlobEntry k e; some (.pattern (.prefixGlob d g))
    | _ => none

mutual
def parseExpr (k : Nat) : Nat → List String → Option (FExpr × List String)
  | 0, _ => none
  | _, [] => none
  | fuel + 1, tok :: rest =>
    if tok = "I" ∨ tok = "D" then do
      let (a, r1) ← parseExpr k fuel rest
      let (b, r2) ← parseExpr k fuel r1
      some ((if tok = "I" then .inter a b else .diff a b), r2)
    else match tok.splitOn ":" with
      | ["U", n] => do
        let n ← n.toNat?
        let (es, r) ← parseExprs k fuel n rest
        some (.unionAll es, r)
      | _ => do some ((← parseLeaf k tok), rest)
def parseExprs (k : Nat) : Nat → Nat → List String → Option (FExprs × List String)
  | 0, _, _ => none
  | _, 0, toks => some (.nil, toks)
  | fuel + 1, n + 1, toks => do
    let (e, r1) ← parseExpr k fuel toks
    let (es, r2) ← parseExprs k fuel n r1
    some (.cons e es, r2)
end

def handle : List String → Option String
  | "eval" :: k :: d :: toks => do
    let k ← k.toNat?
    let d ← d.toNat?
    let (e, rest) ← parseExpr k (2 * toks.length + 2) toks
    if rest.isEmpty then some (C30.evalOn (toMatcher e) k d) else none
  | _ => none

end JjModel.Drv.C31
