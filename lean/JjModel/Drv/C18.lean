import JjModel.Model.IndexMerge
import JjModel.Drv.Util
/-! Driver handler for C18.  The index is serialised as the parent positions of every entry in
global position order (`parentsOfPos0;parentsOfPos1;…`, `-` = no parents); generation numbers
are recomputed by the model's `addCommit`.

* `anc <index> a d`            → `isAncestorPos`            (`0`/`1`)
* `gca <index> s1 s2`          → `commonAncestorsPos`       (descending positions)
* `heads <index> cs`           → `heads` (sort/dedup + `headsPos`)
* `allheads <index>`           → `allHeadsPos`              (ascending positions)
* `gen <index> p`              → generation number of position `p`
* `seg <index> <sizes> p`      → entry `p` looked up through the stack of segments with the
                                 given local sizes (oldest first): `parents|gen`
* `squash <sizes> <new>`       → `squashSizes`: local sizes (oldest first) of the stack saved after
                                 adding `new` commits on top of the stack `<sizes>`
* `merge <own> <base> <other>` → `mergeIn` twice (as `MutableRepo::merge` does: first the base
                                 operation's index, then the other operation's); every index is four
                                 tokens `<sizes> <fileIds> <ids> <index>` (oldest first; file ids and
                                 commit ids are harness-chosen numbers); answer `<ids>|<index>`
-/
namespace JjModel.Drv.C18
open JjModel.Index JjModel.Drv

/-- every parent refers to an earlier position (what `add_commit_data` guarantees) -/
def wellFormedInput : List (List Nat) → Nat → Bool
  | [], _ => true
  | ps :: rest, i => ps.all (· < i) && wellFormedInput rest (i + 1)

def parseIndex (s : String) : Option Index := do
  let pss ← parseNatListList s
  if wellFormedInput pss 0 then some (build pss) else none

/-- `(total commits, file id)` per segment file, child first -/
def filesOf (sizes fileIds : List Nat) : List (Nat × Nat) :=
  let totals := sizes.foldl (fun acc n => (acc.headD 0 + n) :: acc) []   -- child first
  totals.zip fileIds.reverse

def parseIdIndex (ids idx : String) : Option IdIndex := do
  let ids ← parseNatList ids
  let pss ← parseNatListList idx
  if ids.length = pss.length ∧ wellFormedInput pss 0 then
    some ((ids.zip (build pss)).map fun (i, e) => { id := i, parents := e.parents, gen := e.gen })
  else none

def handle : List String → Option String
  | ["squash", sizes, new] => do
    let sizes ← parseNatList sizes
    let new ← new.toNat?
    some (showNatList (squashSizes new sizes.reverse).reverse)
  | ["merge", s1, f1, i1, x1, s2, f2, i2, x2, s3, f3, i3, x3] => do
    let own ← parseIdIndex i1 x1
    let base ← parseIdIndex i2 x2
    let other ← parseIdIndex i3 x3
    let (s1, f1) := (← parseNatList s1, ← parseNatList f1)
    let (s2, f2) := (← parseNatList s2, ← parseNatList f2)
    let (s3, f3) := (← parseNatList s3, ← parseNatList f3)
    if s1.length = f1.length ∧ s2.length = f2.length ∧ s3.length = f3.length ∧
        s1.sum = own.length ∧ s2.sum = base.length ∧ s3.sum = other.length then
      let ownFiles := filesOf s1 f1
      let r1 := mergeIn own ownFiles base (filesOf s2 f2)
      let r2 := mergeIn r1 ownFiles other (filesOf s3 f3)
      some s!"{showNatList (r2.map (·.id))}|{showNatListList (r2.map (·.parents))}"
    else none
  | ["anc", idx, a, d] => do
    let idx ← parseIndex idx
    let a ← a.toNat?
    let d ← d.toNat?
    if a < idx.length ∧ d < idx.length then some (showBool (isAncestorPos idx a d)) else none
  | ["gca", idx, s1, s2] => do
    let idx ← parseIndex idx
    let s1 ← parseNatList s1
    let s2 ← parseNatList s2
    if (s1 ++ s2).all (· < idx.length) then some (showNatList (commonAncestorsPos idx s1 s2)) else none
  | ["heads", idx, cs] => do
    let idx ← parseIndex idx
    let cs ← parseNatList cs
    if cs.all (· < idx.length) then some (showNatList (heads idx cs)) else none
  | ["allheads", idx] => do
    let idx ← parseIndex idx
    some (showNatList (allHeadsPos idx))
  | ["gen", idx, p] => do
    let idx ← parseIndex idx
    let p ← p.toNat?
    if p < idx.length then some (toString (genOf idx p)) else none
  | ["seg", idx, sizes, p] => do
    let idx ← parseIndex idx
    let sizes ← parseNatList sizes
    let p ← p.toNat?
    if sizes.sum = idx.length then
      match entryByPos (segmentsOf idx sizes 0 []) p with
      | some e => some s!"{showNatList (sortDescDedup e.parents)}|{e.gen}"
      | none => some "none"
    else none
  | _ => none

end JjModel.Drv.C18
