import JjModel.Model.Index
import JjModel.Drv.Util
/-! Driver handler for C18.  The index is serialised as the parent positions of every entry in
global position order (`parentsOfPos0;parentsOfPos1;…`, `-` = no parents); generation numbers
are recomputed by the model's `addCommit`.

* `anc <index> a d`            → `isAncestorPos`            (`0`/`1`)
* `gca <index> s1 s2`          → `commonAncestorsPos`       (descending positions)
* `heads <index> cs`           → `heads` (sort/dedup + `headsPos`)
* `allheads <index>`           → `allHeadsPos`              (ascending positions)
* `gen <index> p`              → generation number of position `p`
* `seg <index> <sizes> p`      → entry `p` looked up through the stack of segments with the
                                 given local sizes (oldest first): `parents|gen`
-/
namespace JjModel.Drv.C18
open JjModel.Index JjModel.Drv

/-- every parent refers to an earlier position (what `add_commit_data` guarantees) -/
def wellFormedInput : List (List Nat) → Nat → Bool
  | [], _ => true
  | ps :: rest, i => ps.all (· < i) && wellFormedInput rest (i + 1)

def parseIndex (s : String) : Option Index := do
  let pss ← parseNatListList s
  if wellFormedInput pss 0 then some (build pss) else none

def handle : List String → Option String
  | ["anc", idx, a, d] => do
    let idx ← parseIndex idx
    let a ← a.toNat?
    let d ← d.toNat?
    if a < idx.length ∧ d < idx.length then some (showBool (isAncestorPos idx a d)) else none
  | ["gca", idx, s1, s2] => do
    let idx ← parseIndex idx
    let s1 ← parseNatList s1
    let s2 ← parseNatList s2
    if (s1 ++ s2).all (· < idx.length) then some (showNatList (commonAncestorsPos idx s1 s2)) else none
  | ["heads", idx, cs] => do
    let idx ← parseIndex idx
    let cs ← parseNatList cs
    if cs.all (· < idx.length) then some (showNatList (heads idx cs)) else none
  | ["allheads", idx] => do
    let idx ← parseIndex idx
    some (showNatList (allHeadsPos idx))
  | ["gen", idx, p] => do
    let idx ← parseIndex idx
    let p ← p.toNat?
    if p < idx.length then some (toString (genOf idx p)) else none
  | ["seg", idx, sizes, p] => do
    let idx ← parseIndex idx
    let sizes ← parseNatList sizes
    let p ← p.toNat?
    if sizes.sum = idx.length then
      match entryByPos (segmentsOf idx sizes 0 []) p with
      | some e => some s!"{showNatList (sortDescDedup e.parents)}|{e.gen}"
      | none => some "none"
    else none
  | _ => none

end JjModel.Drv.C18
