import JjModel.Model.GitSync
import JjModel.Drv.Util
/-! Parsing / canonical printing of the C34/C45 state (shared by `Drv/C34` and `Drv/C45`).

  target      terms joined by `.`, `x` = absent term:  `3`, `x`, `3.1.4`
  key         `<name>@<remote>`  (remote 0 = git, 1 = origin)
  locals      `<name>=<target>,…`            or `-`
  remotes     `<key>=<target>:<T|N>,…`       or `-`
  git_refs    `<key>=<target>,…`             or `-`
  git         `<key>=<commit>,…`             or `-`
  remote repo `<name>=<commit>,…`            or `-`
-/
namespace JjModel.Drv.GitSyncIO
open JjModel.GitSync JjModel.Drv

def parseTerm (s : String) : Option (Option Nat) :=
  if s = "x" then some none else s.toNat?.map some

def parseTarget (s : String) : Option Target := (s.splitOn ".").mapM parseTerm

def parseOptNat (s : String) : Option (Option Nat) := parseTerm s

def parseKey (s : String) : Option Key :=
  match s.splitOn "@" with
  | [a, b] => do let n ← a.toNat?; let r ← b.toNat?; some (n, r)
  | _ => none

def parseEntries {α : Type} (f : String → String → Option α) (s : String) : Option (List α) :=
  if s = "-" then some []
  else (s.splitOn ",").mapM (fun e => match e.splitOn "=" with
    | [k, v] => f k v
    | _ => none)

def parseLocals (s : String) : Option (Nat → Target) := do
  let es ← parseEntries (fun k v => do let n ← k.toNat?; let t ← parseTarget v; some (n, t)) s
  some (es.foldl (fun m e => setAt m e.1 e.2) (fun _ => absent))

def parseRemoteRef (s : String) : Option RemoteRef :=
  match s.splitOn ":" with
  | [t, "T"] => (parseTarget t).map (fun t => ⟨t, true⟩)
  | [t, "N"] => (parseTarget t).map (fun t => ⟨t, false⟩)
  | _ => none

def parseRemotes (s : String) : Option (Key → RemoteRef) := do
  let es ← parseEntries (fun k v => do let k ← parseKey k; let r ← parseRemoteRef v; some (k, r)) s
  some (es.foldl (fun m e => setAt m e.1 e.2) (fun _ => RemoteRef.absentRef))

def parseGitRefs (s : String) : Option (Key → Target) := do
  let es ← parseEntries (fun k v => do let k ← parseKey k; let t ← parseTarget v; some (k, t)) s
  some (es.foldl (fun m e => setAt m e.1 e.2) (fun _ => absent))

def parseGit (s : String) : Option Git := do
  let es ← parseEntries (fun k v => do let k ← parseKey k; let c ← v.toNat?; some (k, c)) s
  some (es.foldl (fun m e => setAt m e.1 (some e.2)) (fun _ => none))

def parseRemoteRepo (s : String) : Option (Nat → Option Nat) := do
  let es ← parseEntries (fun k v => do let n ← k.toNat?; let c ← v.toNat?; some (n, c)) s
  some (es.foldl (fun m e => setAt m e.1 (some e.2)) (fun _ => none))

/-- all keys over names `0..nn-1` and remotes `0..1`, sorted name-major (symbol order) -/
def allKeys (nn : Nat) : List Key :=
  (List.range nn).flatMap (fun n => [(n, 0), (n, 1)])

def showTerm : Option Nat → String
  | none => "x"
  | some c => toString c

def showTarget (t : Target) : String := ".".intercalate (t.map showTerm)

def showKey (k : Key) : String := s!"{k.1}@{k.2}"

def joinOrDash (l : List String) : String := if l.isEmpty then "-" else ",".intercalate l

def showLocals (nn : Nat) (m : Nat → Target) : String :=
  joinOrDash ((List.range nn).filterMap (fun n =>
    if isPresent (m n) then some s!"{n}={showTarget (m n)}" else none))

def showRemotes (nn : Nat) (m : Key → RemoteRef) : String :=
  joinOrDash ((allKeys nn).filterMap (fun k =>
    if m k ≠ RemoteRef.absentRef then
      some s!"{showKey k}={showTarget (m k).target}:{if (m k).tracked then "T" else "N"}"
    else none))

def showGitRefs (nn : Nat) (m : Key → Target) : String :=
  joinOrDash ((allKeys nn).filterMap (fun k =>
    if isPresent (m k) then some s!"{showKey k}={showTarget (m k)}" else none))

def showGit (nn : Nat) (m : Git) : String :=
  joinOrDash ((allKeys nn).filterMap (fun k => (m k).map (fun c => s!"{showKey k}={c}")))

def showRemoteRepo (nn : Nat) (m : Nat → Option Nat) : String :=
  joinOrDash ((List.range nn).filterMap (fun n => (m n).map (fun c => s!"{n}={c}")))

def showView (nn : Nat) (v : View) : String :=
  s!"{showLocals nn v.locals} {showRemotes nn v.remotes} {showGitRefs nn v.gitRefs}"

def showReason : FailReason → String
  | .conflictedOldState => "conflicted-old"
  | .onRootCommit => "root"
  | .deletedInJjModifiedInGit => "deleted-modified"
  | .addedInJjAddedInGit => "added-added"
  | .modifiedInJjDeletedInGit => "modified-deleted"
  | .failedToSet => "failed-to-set"

def showFailed (l : List (Key × FailReason)) : String :=
  joinOrDash (l.map (fun e => s!"{showKey e.1}:{showReason e.2}"))

def parseDag (s : String) : Option (List (List Nat)) := parseNatListList s

end JjModel.Drv.GitSyncIO
