import JjModel.Model.OpHeads
import JjModel.Drv.Util
/-!
  Driver handler for C14.

  `C14 run <working:0|1> <nproc> <dag> <events>`
     dag: parents of operation 0,1,2,… separated by `;` (`-` = none), e.g. `-;0;0;1,2`
     events joined by `/`: `S<pid>:r` resolve_op_heads · `S<pid>:p<op>` publish operation `op` ·
       `T<pid>` / `T<pid>:<n>` one hook point (argument: the merge operation about to be created for
       a locked read, the removed operation for a remove) · `X<pid>` crash
     answer: one item per event joined by `;` — `S`, `X <heads>`, `<kind> <heads>[ ret=<op>]` (`ret` when a
       `resolve_op_heads` ended with this step: the operation it returns)
       heads = numbers in insertion order joined by `,` (`none` if empty); `reject@i` if event `i`
       is not enabled in the model; `bad-dag` if parents are not earlier operations.
-/
namespace JjModel.Drv.C14
open JjModel.OpHeads JjModel.HeadProto JjModel.Drv

def showHeads (hs : List Nat) : String := if hs.isEmpty then "none" else showNatList hs

def parseEvent (G : Dag) (s : String) : Option OEvent :=
  match s.toList with
  | 'S' :: r =>
    match (String.ofList r).splitOn ":" with
    | [p, op] =>
      match op.toList with
      | ['r'] => do some (.start (← p.toNat?) progResolve)
      | 'p' :: n => do some (.start (← p.toNat?) (progPublish true G (← (String.ofList n).toNat?)))
      | _ => none
    | _ => none
  | 'T' :: r =>
    match (String.ofList r).splitOn ":" with
    | [p] => do some (.step (← p.toNat?) [])
    | [p, a] => do some (.step (← p.toNat?) (← parseNatList a))
    | _ => none
  | 'X' :: r => do some (.crash (← (String.ofList r).toNat?))
  | _ => none

def kindOf : Instr Nat OInstr → List Nat → String
  | .lock, _ => "lock"
  | .add t _, _ => s!"add:{t}"
  | .rms _ _, arg => s!"rm:{showNatList arg}"
  | .client (.read _), _ => "read"

/-- `resolving` = the process's running operation is a `resolve_op_heads` (only then the operation
    it returns is an observation; `publish` returns nothing the model knows about) -/
def describe (s t : OState) (resolving : Bool) : OEvent → String
  | .start _ _ => "S"
  | .crash _ => s!"X {showHeads t.heads}"
  | .step pid arg =>
    let kind := match s.procs[pid]? with
      | some p => match p.instrs with
        | i :: _ => kindOf i arg
        | [] => "?"
      | none => "?"
    let done := match t.procs[pid]? with
      | some p => if p.instrs.isEmpty && resolving then s!" ret={p.loc}" else ""
      | none => ""
    s!"{kind} {showHeads t.heads}{done}"

def isResolveProg : OProg → Bool
  | [.client (.read false)] => true
  | _ => false

def pidOf : OEvent → Nat
  | .start pid _ => pid
  | .step pid _ => pid
  | .crash pid => pid

def trace (working : Bool) (cl : Client Nat OInstr Nat) :
    OState → List Bool → Nat → List OEvent → List String → List String
  | _, _, _, [], acc => acc.reverse
  | s, res, i, e :: es, acc =>
    let res' := match e with
      | .start pid prog => res.set pid (isResolveProg prog)
      | _ => res
    match apply working cl s e with
    | none => (s!"reject@{i}" :: acc).reverse
    | some t => trace working cl t res' (i + 1) es (describe s t (res'.getD (pidOf e) false) e :: acc)

def handle : List String → Option String
  | ["run", w, np, dag, evs] => do
    let w ← w.toNat?
    let np ← np.toNat?
    let G ← parseNatListList dag
    if !wfDag G then some "bad-dag" else
    let evs ← (evs.splitOn "/").mapM (parseEvent G)
    some (";".intercalate (trace (w != 0) (opClient true G) (s0 np) (List.replicate np false) 0 evs []))
  | ["anc", dag, a, b] => do
    let G ← parseNatListList dag
    some (showBool (isAnc G (← a.toNat?) (← b.toNat?)))
  | _ => none

end JjModel.Drv.C14
