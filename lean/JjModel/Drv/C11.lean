import JjModel.Model.Repo
import JjModel.Drv.Util
/-!
  Driver handler for C11:
  `C11 run <commits> <heads> <bookmarks> <wcs> <ops> <opts> <immutable>`

  * commits  `parents/change/desc/tree` for ids 1,2,… separated by `;` (id 0 = root), `-` = none
  * heads    nat list
  * bookmarks `name=terms;…` with terms `3,x,4` (`x` = absent), `-` = none
  * wcs      `ws=id;…`, `-` = none
  * ops      `;`-separated, fields separated by `:`
       `n:parents:desc:tree`       new_commit(..).write()
       `r:old:parents:desc:tree`   rewrite_commit(old).set_parents.set_description.set_tree.write()
       `a:old`                     record_abandoned_commit(old)
       `d:old:ids`                 set_divergent_rewrite(old, ids)
       `s:old:new`                 set_rewritten_commit(old, new)
       `b:name:terms`              set_local_bookmark_target
       `w:ws:id`                   set_wc_commit
  * opts     `empty,simplify,delete`
  * immutable nat list
  Answer: `ok steps=… new=… heads=… bm=… wc=…`, `err:cycle` or `panic`.
-/
namespace JjModel.Drv.C11
open JjModel.Repo JjModel.Drv

def splitList (sep : String) (s : String) : List String :=
  if s = "-" then [] else s.splitOn sep

def parseCommit (s : String) : Option Commit :=
  match s.splitOn "/" with
  | [p, c, d, t] => do
    let parents ← parseNatList p
    let change ← c.toNat?
    let desc ← d.toNat?
    let tree ← parseNatList t
    some { parents, change, desc, tree, preds := [] }
  | _ => none

def parseTerm (s : String) : Option (Option Nat) :=
  if s = "x" then some none else s.toNat?.map some

def parseTarget (s : String) : Option RefTarget := (s.splitOn ",").mapM parseTerm

def parseBookmark (s : String) : Option (Nat × RefTarget) :=
  match s.splitOn "=" with
  | [n, t] => do some ((← n.toNat?), (← parseTarget t))
  | _ => none

def parseWc (s : String) : Option (Nat × Nat) :=
  match s.splitOn "=" with
  | [n, t] => do some ((← n.toNat?), (← t.toNat?))
  | _ => none

inductive Op where
  | new (parents : List Nat) (desc : Nat) (tree : List Nat)
  | rw (old : Nat) (parents : List Nat) (desc : Nat) (tree : List Nat)
  | ab (old : Nat)
  | dv (old : Nat) (ids : List Nat)
  | st (old new : Nat)
  | bm (name : Nat) (t : RefTarget)
  | wc (ws id : Nat)

def parseOp (s : String) : Option Op :=
  match s.splitOn ":" with
  | ["n", p, d, t] => do some (.new (← parseNatList p) (← d.toNat?) (← parseNatList t))
  | ["r", o, p, d, t] => do
    some (.rw (← o.toNat?) (← parseNatList p) (← d.toNat?) (← parseNatList t))
  | ["a", o] => do some (.ab (← o.toNat?))
  | ["d", o, ids] => do some (.dv (← o.toNat?) (← parseNatList ids))
  | ["s", o, n] => do some (.st (← o.toNat?) (← n.toNat?))
  | ["b", n, t] => do some (.bm (← n.toNat?) (← parseTarget t))
  | ["w", w, i] => do some (.wc (← w.toNat?) (← i.toNat?))
  | _ => none

def applyOp (r : Repo) : Op → Repo
  | .new p d t => (r.writeNew p d t).1
  | .rw o p d t => (r.writeRewrite o p d t).1
  | .ab o => r.recordAbandoned o
  | .dv o ids => { r with mapping := r.mapping.insert o (.divergent ids) }
  | .st o n => { r with mapping := r.mapping.insert o (.rewritten n) }
  | .bm n t => r.setLocalBookmarkTarget n t
  | .wc w i => { r with view := { r.view with wc := assocSet w i r.view.wc } }

def showTerm : Option Nat → String
  | none => "x"
  | some n => toString n

def showTarget (t : RefTarget) : String := ",".intercalate (t.map showTerm)

def showAssoc {β : Type} (f : β → String) (l : List (Nat × β)) : String :=
  if l.isEmpty then "-" else ";".intercalate (l.map fun e => s!"{e.1}={f e.2}")

def showCommit (c : Commit) : String :=
  s!"{showNatList c.parents}/{c.change}/{c.desc}/{showNatList c.tree}/{showNatList c.preds}"

def showStep : Step → String
  | .rewritten o n => s!"{o}r{n}"
  | .abandoned o p => s!"{o}a{p}"

def showSteps (l : List Step) : String :=
  if l.isEmpty then "-" else ",".intercalate (l.map showStep)

def showState (n0 : Nat) (r : Repo) : String :=
  let news := r.store.drop n0
  let newsS := if news.isEmpty then "-" else ";".intercalate (news.map showCommit)
  s!"new={newsS} heads={showNatList (sortAsc r.view.heads)} bm={showAssoc showTarget r.view.bookmarks} wc={showAssoc toString r.view.wc}"

def parseOpts (s : String) : Option Options :=
  match s.splitOn "," with
  | [e, si, d] => do
    some { empty := (← e.toNat?), simplify := (← si.toNat?) != 0, deleteAbandoned := (← d.toNat?) != 0 }
  | _ => none

def parseRepo (commits heads bms wcs : String) : Option Repo := do
  let cs ← (splitList ";" commits).mapM parseCommit
  let hs ← parseNatList heads
  let bm ← (splitList ";" bms).mapM parseBookmark
  let wc ← (splitList ";" wcs).mapM parseWc
  some { store := rootCommit :: cs, view := { heads := hs, bookmarks := bm, wc := wc }, mapping := [] }

def handle : List String → Option String
  | ["run", commits, heads, bms, wcs, ops, opts, imm] => do
    let r ← parseRepo commits heads bms wcs
    let ops ← (splitList ";" ops).mapM parseOp
    let opts ← parseOpts opts
    let imm ← parseNatList imm
    let r := ops.foldl applyOp r
    let n0 := r.store.length
    match r.rebaseDescendants imm opts with
    | .error .cycle => some "err:cycle"
    | .error .panic => some "panic"
    | .ok (r, steps) => some s!"ok steps={showSteps steps} {showState n0 r}"
  | _ => none

end JjModel.Drv.C11
