/-
  Line-protocol helpers shared by the per-property driver handlers.
  Tokens are separated by single spaces.  Conventions:
    * natural numbers in decimal;
    * `List Nat` as `1,2,3`, the empty list as `-`;
    * `List (List Nat)` as `1,2;3;4,5` (inner lists separated by `;`, empty inner list `-`);
    * byte strings as lower-case hex, the empty string as `-`;
    * `Option`: `none` / `some:<x>`.
  Unknown requests are answered `bad-op` by `Driver/Main.lean`; handlers return `none` for them.
-/
namespace JjModel.Drv

def parseNatList (s : String) : Option (List Nat) :=
  if s = "-" then some [] else (s.splitOn ",").mapM String.toNat?

def parseNatListList (s : String) : Option (List (List Nat)) :=
  if s = "" then some [] else (s.splitOn ";").mapM parseNatList

def showNatList (l : List Nat) : String :=
  if l.isEmpty then "-" else ",".intercalate (l.map toString)

def showNatListList (l : List (List Nat)) : String :=
  ";".intercalate (l.map showNatList)

def showOptNat : Option Nat → String
  | none => "none"
  | some n => s!"some:{n}"

def hexDigit (c : Char) : Option Nat :=
  if '0' ≤ c ∧ c ≤ '9' then some (c.toNat - '0'.toNat)
  else if 'a' ≤ c ∧ c ≤ 'f' then some (c.toNat - 'a'.toNat + 10)
  else none

def parseHexAux : List Char → List UInt8 → Option (List UInt8)
  | [], acc => some acc.reverse
  | [_], _ => none
  | a :: b :: rest, acc =>
    match hexDigit a, hexDigit b with
    | some x, some y => parseHexAux rest (UInt8.ofNat (x * 16 + y) :: acc)
    | _, _ => none

def parseHex (s : String) : Option (List UInt8) :=
  if s = "-" then some [] else parseHexAux s.toList []

def hexChar (n : Nat) : Char :=
  if n < 10 then Char.ofNat ('0'.toNat + n) else Char.ofNat ('a'.toNat + n - 10)

def showHex (b : List UInt8) : String :=
  if b.isEmpty then "-"
  else String.ofList (b.flatMap fun x => [hexChar (x.toNat / 16), hexChar (x.toNat % 16)])

def showBool (b : Bool) : String := if b then "1" else "0"

end JjModel.Drv
