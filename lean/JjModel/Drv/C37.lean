import JjModel.Model.Bisect
import JjModel.Drv.Util
/-! Driver handler for C37: `C37 run <graph> <range> <bad> <skip>`
    graph = parent lists separated by `;` (position order), sets = `List Nat`. -/
namespace JjModel.Drv.C37
open JjModel.Dag JjModel.Bisect JjModel.Drv

def showResult : Option Result → String
  | none => "nofuel"
  | some (.found b) => s!"found:{showNatList b}"
  | some (.foundDespiteSkips b p) => s!"found-skips:{showNatList b}:{showNatList p}"
  | some .indeterminate => "indeterminate"

def handle : List String → Option String
  | ["run", g, r, b, sk] => do
    let G ← parseNatListList g
    let R ← parseNatList r
    let B ← parseNatList b
    let Sk ← parseNatList sk
    if !wfB G then some "err:malformed-graph" else
    let t := run G R B Sk
    some s!"evals={showNatList t.evals} {showResult t.result}"
  | ["minimal", g, r, b] => do
    let G ← parseNatListList g
    let R ← parseNatList r
    let B ← parseNatList b
    if !wfB G then some "err:malformed-graph" else
    some (showNatList (minimalBad G R B))
  | _ => none

end JjModel.Drv.C37
