import JjModel.Model.Undo
import JjModel.Drv.Util
/-!
  Driver handler for C41.

    C41 undo <head> <imm> <log>
    C41 redo <head> <imm> <log>
    C41 restore <head> <target> <what> <imm> <log>
    C41 revert <head> <target> <what> <imm> <log>

  `<log>`: operations in creation order separated by `|`, one operation
  `<parents>/<desc>/<heads>,<bookmarks>,<tags>,<remotes>,<gitRefs>,<gitHeads>,<wc>` with
  `<parents>` a `List Nat`, `<desc>` = `r` | `u<idx>` | `d<idx>`; `<what>` = letters `r` (repo),
  `t` (remote-tracking) or `-`; `<imm>` = the wc portions whose commit is immutable for this command (`List Nat`).
  Answer: `nochange` | `ok/<desc>/<view>[/newwc]` | `err:<kind>` | `unmodelled`.
-/
namespace JjModel.Drv.C41
open JjModel.Undo JjModel.Drv

def parseDesc (s : String) : Option Desc :=
  if s = "r" then some .regular
  else if s.startsWith "u" then (s.drop 1).toNat?.map .undo
  else if s.startsWith "d" then (s.drop 1).toNat?.map .redo
  else none

def parseView (s : String) : Option View :=
  match (s.splitOn ",").mapM String.toNat? with
  | some [h, b, t, r, g, gh, w] => some ⟨h, b, t, r, g, gh, w⟩
  | _ => none

def parseOp (s : String) : Option Op :=
  match s.splitOn "/" with
  | [ps, d, v] => do some ⟨← parseNatList ps, ← parseDesc d, ← parseView v⟩
  | _ => none

def parseLog (s : String) : Option OpLog := (s.splitOn "|").mapM parseOp

def parseWhat (s : String) : Option (List What) :=
  if s = "-" then some []
  else s.toList.mapM fun c => if c = 'r' then some What.repo else if c = 't' then some What.remoteTracking else none

def parseBool (s : String) : Option Bool := if s = "1" then some true else if s = "0" then some false else none

def showDesc : Desc → String
  | .regular => "r"
  | .undo t => s!"u{t}"
  | .redo t => s!"d{t}"

def showView (v : View) : String :=
  s!"{v.heads},{v.bookmarks},{v.tags},{v.remotes},{v.gitRefs},{v.gitHeads},{v.wc}"

def showErr : Err → String
  | .root => "err:root"
  | .merge => "err:merge"
  | .nothingToRedo => "err:nothing"
  | .internal => "err:internal"
  | .badLog => "err:badlog"

def showOutcome : Outcome → String
  | .nochange => "nochange"
  | .ok d v newWc => s!"ok/{showDesc d}/{showView v}" ++ (if newWc then "/newwc" else "")

def showRes : Except Err Outcome → String
  | .ok o => showOutcome o
  | .error e => showErr e

def handle : List String → Option String
  | ["undo", head, imm, log] => do
    some (showRes (cmdUndo (← parseLog log) (← head.toNat?) (← parseNatList imm)))
  | ["redo", head, imm, log] => do
    some (showRes (cmdRedo (← parseLog log) (← head.toNat?) (← parseNatList imm)))
  | ["restore", head, target, what, imm, log] => do
    some (showRes (cmdRestore (← parseLog log) (← head.toNat?) (← target.toNat?) (← parseWhat what)
      (← parseNatList imm)))
  | ["revert", head, target, what, imm, log] => do
    match cmdRevert (← parseLog log) (← head.toNat?) (← target.toNat?) (← parseWhat what)
      (← parseNatList imm) with
    | .ok none => some "unmodelled"
    | .ok (some o) => some (showOutcome o)
    | .error e => some (showErr e)
  | _ => none

end JjModel.Drv.C41
