import JjModel.Model.OpStore
import JjModel.Drv.Util
/-!
  Driver handler for C16.

  `C16 view <view>`   → `<hashed bytes hex> | <proto> | ok <view>` (or `err:<kind>` as 3rd part)
  `C16 op <operation>`→ `<hashed bytes hex> | <proto> | ok <operation>`
  `C16 pview <proto>` → `ok <view>` / `err:<kind>`      (crafted / legacy protobuf messages)

  Token grammar (single spaces):  bytes = lower-case hex, `-` = empty.
    target  := T<k> term{k}          term := `~` (None) | bytes
    state   := N | K
    view    := H n id{n} LB n (name target){n} LT n (name target){n}
               RV n (name B n (name target state){n} G n (name target state){n}){n}
               GR n (name target){n} GH n (name target){n} WC n (name id){n}
    op      := viewid P n id{n} M ms tz ms tz desc host user snap ws A n (k v){n} CP (none | some n (id n id{n}){n})
-/
namespace JjModel.Drv.C16
open JjModel.Codec JjModel.OpStore JjModel.Drv

abbrev P (α : Type) := List String → Option (α × List String)

def tok : P String
  | [] => none
  | t :: r => some (t, r)

def lit (s : String) : P Unit
  | t :: r => if t = s then some ((), r) else none
  | [] => none

def pBytes : P Bytes := fun ts => do
  let (t, r) ← tok ts
  let b ← parseHex t
  some (b, r)

def pNat : P Nat := fun ts => do
  let (t, r) ← tok ts
  let n ← t.toNat?
  some (n, r)

def pInt : P Int := fun ts => do
  let (t, r) ← tok ts
  let n ← t.toInt?
  some (n, r)

def rep {α} (p : P α) : Nat → P (List α)
  | 0, ts => some ([], ts)
  | n + 1, ts => do
    let (x, r) ← p ts
    let (xs, r') ← rep p n r
    some (x :: xs, r')

/-- `n item{n}` -/
def counted {α} (p : P α) : P (List α) := fun ts => do
  let (n, r) ← pNat ts
  rep p n r

def pTerm : P (Option Bytes) := fun ts => do
  let (t, r) ← tok ts
  if t = "~" then some (none, r) else do
    let b ← parseHex t
    some (some b, r)

def pTarget : P RefTarget := fun ts => do
  let (t, r) ← tok ts
  if t.startsWith "T" then do
    let n ← (t.drop 1).toNat?
    rep pTerm n r
  else none

def pState : P RemoteRefState := fun ts => do
  let (t, r) ← tok ts
  if t = "N" then some (.new, r) else if t = "K" then some (.tracked, r) else none

def pNamed {α} (p : P α) : P (Bytes × α) := fun ts => do
  let (n, r) ← pBytes ts
  let (x, r') ← p r
  some ((n, x), r')

def pRemoteRef : P RemoteRef := fun ts => do
  let (t, r) ← pTarget ts
  let (s, r') ← pState r
  some (⟨t, s⟩, r')

def pRemoteView : P RemoteView := fun ts => do
  let (_, r) ← lit "B" ts
  let (b, r) ← counted (pNamed pRemoteRef) r
  let (_, r) ← lit "G" r
  let (t, r) ← counted (pNamed pRemoteRef) r
  some (⟨b, t⟩, r)

def pView : P View := fun ts => do
  let (_, r) ← lit "H" ts
  let (h, r) ← counted pBytes r
  let (_, r) ← lit "LB" r
  let (lb, r) ← counted (pNamed pTarget) r
  let (_, r) ← lit "LT" r
  let (lt, r) ← counted (pNamed pTarget) r
  let (_, r) ← lit "RV" r
  let (rv, r) ← counted (pNamed pRemoteView) r
  let (_, r) ← lit "GR" r
  let (gr, r) ← counted (pNamed pTarget) r
  let (_, r) ← lit "GH" r
  let (gh, r) ← counted (pNamed pTarget) r
  let (_, r) ← lit "WC" r
  let (wc, r) ← counted (pNamed pBytes) r
  some (⟨h, lb, lt, rv, gr, gh, wc⟩, r)

def pOptBytes : P (Option Bytes) := fun ts => do
  let (t, r) ← tok ts
  if t = "none" then some (none, r)
  else if t.startsWith "some:" then do
    let b ← parseHex (t.drop 5).toString
    some (some b, r)
  else none

def pBool : P Bool := fun ts => do
  let (t, r) ← tok ts
  if t = "1" then some (true, r) else if t = "0" then some (false, r) else none

def pOperation : P Operation := fun ts => do
  let (vid, r) ← pBytes ts
  let (_, r) ← lit "P" r
  let (ps, r) ← counted pBytes r
  let (_, r) ← lit "M" r
  let (sms, r) ← pInt r
  let (stz, r) ← pInt r
  let (ems, r) ← pInt r
  let (etz, r) ← pInt r
  let (desc, r) ← pBytes r
  let (host, r) ← pBytes r
  let (user, r) ← pBytes r
  let (snap, r) ← pBool r
  let (ws, r) ← pOptBytes r
  let (_, r) ← lit "A" r
  let (attrs, r) ← counted (pNamed pBytes) r
  let (_, r) ← lit "CP" r
  let (t, r) ← tok r
  let (cp, r) ← (if t = "none" then some (none, r)
    else if t = "some" then do
      let (m, r) ← counted (pNamed (counted pBytes)) r
      some (some m, r)
    else none : Option (Option (BMap (List Id)) × List String))
  some (⟨vid, ps, ⟨⟨⟨sms, stz⟩, ⟨ems, etz⟩⟩, desc, host, user, snap, ws, attrs⟩, cp⟩, r)

/-! ### printing -/

def sp (l : List String) : String := " ".intercalate l

def showTerm : Option Bytes → String
  | none => "~"
  | some b => showHex b

def showTarget (t : RefTarget) : String := sp (s!"T{t.length}" :: t.map showTerm)

def showState : RemoteRefState → String
  | .new => "N"
  | .tracked => "K"

def showCounted {α} (f : α → String) (l : List α) : String := sp (toString l.length :: l.map f)

def showRemoteRefs (m : BMap RemoteRef) : String :=
  showCounted (fun e => sp [showHex e.1, showTarget e.2.target, showState e.2.state]) m

def showTargets (m : BMap RefTarget) : String :=
  showCounted (fun e => sp [showHex e.1, showTarget e.2]) m

def showView (v : View) : String :=
  sp ["H", showCounted showHex v.headIds,
      "LB", showTargets v.localBookmarks,
      "LT", showTargets v.localTags,
      "RV", showCounted (fun e => sp [showHex e.1, "B", showRemoteRefs e.2.bookmarks, "G", showRemoteRefs e.2.tags]) v.remoteViews,
      "GR", showTargets v.gitRefs,
      "GH", showTargets v.gitHeads,
      "WC", showCounted (fun e => sp [showHex e.1, showHex e.2]) v.wcCommitIds]

def showOptBytes : Option Bytes → String
  | none => "none"
  | some b => "some:" ++ showHex b

def showOperation (o : Operation) : String :=
  let m := o.metadata
  sp [showHex o.viewId, "P", showCounted showHex o.parents,
      "M", toString m.time.start.timestamp, toString m.time.start.tzOffset,
      toString m.time.end.timestamp, toString m.time.end.tzOffset,
      showHex m.description, showHex m.hostname, showHex m.username, showBool m.isSnapshot,
      showOptBytes m.workspaceName,
      "A", showCounted (fun e => sp [showHex e.1, showHex e.2]) m.attributes,
      "CP", match o.commitPredecessors with
        | none => "none"
        | some cp => sp ["some", showCounted (fun e => sp [showHex e.1, showCounted showHex e.2]) cp]]

def showPTarget : PRefTarget → String
  | none => "none"
  | some (.commitId id) => sp ["cid", showHex id]
  | some (.conflictLegacy rs as) => sp ["cl", showCounted showHex rs, showCounted showHex as]
  | some (.conflict rs as) => sp ["c", showCounted showTerm rs, showCounted showTerm as]

def showOptInt : Option Int → String
  | none => "none"
  | some n => s!"some:{n}"

def showPRemoteRefs (l : List PRemoteRef) : String :=
  showCounted (fun e => sp [showHex e.name, showCounted showTerm e.targetTerms, toString e.state]) l

/-- canonical print of the prost `View` (set- and map-typed fields sorted) -/
def showPView (p : PView) : String :=
  sp ["h", showCounted showHex (setOfList p.headIds),
      "wc1", showHex p.wcCommitId,
      "wcs", showCounted (fun e => sp [showHex e.1, showHex e.2]) (BMap.ofList p.wcCommitIds),
      "bm", showCounted (fun b => sp [showHex b.name, showPTarget b.localTarget,
              showCounted (fun rb => sp [showHex rb.remoteName, showPTarget rb.target, showOptInt rb.state])
                b.remoteBookmarks]) p.bookmarks,
      "lt", showCounted (fun e => sp [showHex e.name, showPTarget e.target]) p.localTags,
      "rv", showCounted (fun e => sp [showHex e.name, "b", showPRemoteRefs e.bookmarks, "t", showPRemoteRefs e.tags]) p.remoteViews,
      "gr", showCounted (fun e => sp [showHex e.name, showHex e.commitId, showPTarget e.target]) p.gitRefs,
      "ghl", showHex p.gitHeadLegacy,
      "gh", showPTarget p.gitHead,
      "mig", showBool p.migrated,
      "ghs", showCounted (fun e => sp [showHex e.name, showPTarget e.target]) p.gitHeads]

def showPTimestamp : Option PTimestamp → String
  | none => "none"
  | some t => s!"some:{t.millis}:{t.tzOffset}"

def showPOperation (p : POperation) : String :=
  sp [showHex p.viewId, "p", showCounted showHex p.parents,
      "m", match p.metadata with
        | none => "none"
        | some m => sp ["some", showPTimestamp m.startTime, showPTimestamp m.endTime,
            showHex m.description, showHex m.hostname, showHex m.username, showBool m.isSnapshot,
            showOptBytes m.workspaceName,
            showCounted (fun e => sp [showHex e.1, showHex e.2]) (BMap.ofList m.attributes)],
      "cp", showCounted (fun e => sp [showHex e.commitId, showCounted showHex e.predecessorIds]) p.commitPredecessors,
      "scp", showBool p.storesCommitPredecessors]

def showErr : Err → String
  | .hashLen => "err:hashlen"
  | .badState => "err:badstate"
  | .evenTerms => "err:eventerms"
  | .panic => "panic"

def showResult {α} (f : α → String) : Except Err α → String
  | .ok x => "ok " ++ f x
  | .error e => showErr e

/-! ### parsing a prost `View` (crafted / legacy messages) -/

def pPTarget : P PRefTarget := fun ts => do
  let (t, r) ← tok ts
  if t = "none" then some (none, r)
  else if t = "cid" then do
    let (b, r) ← pBytes r
    some (some (.commitId b), r)
  else if t = "cl" then do
    let (rs, r) ← counted pBytes r
    let (as, r) ← counted pBytes r
    some (some (.conflictLegacy rs as), r)
  else if t = "c" then do
    let (rs, r) ← counted pTerm r
    let (as, r) ← counted pTerm r
    some (some (.conflict rs as), r)
  else none

def pOptInt : P (Option Int) := fun ts => do
  let (t, r) ← tok ts
  if t = "none" then some (none, r)
  else if t.startsWith "some:" then do
    let n ← (t.drop 5).toString.toInt?
    some (some n, r)
  else none

def pPRemoteBookmark : P PRemoteBookmark := fun ts => do
  let (n, r) ← pBytes ts
  let (t, r) ← pPTarget r
  let (s, r) ← pOptInt r
  some (⟨n, t, s⟩, r)

def pPBookmark : P PBookmark := fun ts => do
  let (n, r) ← pBytes ts
  let (t, r) ← pPTarget r
  let (rbs, r) ← counted pPRemoteBookmark r
  some (⟨n, t, rbs⟩, r)

def pPNamedTarget : P PNamedTarget := fun ts => do
  let (n, r) ← pBytes ts
  let (t, r) ← pPTarget r
  some (⟨n, t⟩, r)

def pPRemoteRef : P PRemoteRef := fun ts => do
  let (n, r) ← pBytes ts
  let (terms, r) ← counted pTerm r
  let (s, r) ← pInt r
  some (⟨n, terms, s⟩, r)

def pPRemoteView : P PRemoteView := fun ts => do
  let (n, r) ← pBytes ts
  let (_, r) ← lit "b" r
  let (b, r) ← counted pPRemoteRef r
  let (_, r) ← lit "t" r
  let (t, r) ← counted pPRemoteRef r
  some (⟨n, b, t⟩, r)

def pPGitRef : P PGitRef := fun ts => do
  let (n, r) ← pBytes ts
  let (c, r) ← pBytes r
  let (t, r) ← pPTarget r
  some (⟨n, c, t⟩, r)

def pPView : P PView := fun ts => do
  let (_, r) ← lit "h" ts
  let (h, r) ← counted pBytes r
  let (_, r) ← lit "wc1" r
  let (wc1, r) ← pBytes r
  let (_, r) ← lit "wcs" r
  let (wcs, r) ← counted (pNamed pBytes) r
  let (_, r) ← lit "bm" r
  let (bm, r) ← counted pPBookmark r
  let (_, r) ← lit "lt" r
  let (lt, r) ← counted pPNamedTarget r
  let (_, r) ← lit "rv" r
  let (rv, r) ← counted pPRemoteView r
  let (_, r) ← lit "gr" r
  let (gr, r) ← counted pPGitRef r
  let (_, r) ← lit "ghl" r
  let (ghl, r) ← pBytes r
  let (_, r) ← lit "gh" r
  let (gh, r) ← pPTarget r
  let (_, r) ← lit "mig" r
  let (mig, r) ← pBool r
  let (_, r) ← lit "ghs" r
  let (ghs, r) ← counted pPNamedTarget r
  some (⟨h, wc1, wcs, bm, lt, rv, gr, ghl, gh, mig, ghs⟩, r)

def handle : List String → Option String
  | "pview" :: rest => do
    let (p, r) ← pPView rest
    if !r.isEmpty then none
    else some (showResult showView (viewFromProto p))
  | "view" :: rest => do
    let (v, r) ← pView rest
    if !r.isEmpty then none
    else some (sp [showHex (encView v), "|", showPView (viewToProto v), "|", showResult showView (viewRoundTrip v)])
  | "op" :: rest => do
    let (o, r) ← pOperation rest
    if !r.isEmpty then none
    else if o.parents.isEmpty then   -- `write_operation` asserts: nothing is written
      some (sp [showHex (encOperation o), "|", "-", "|", showResult showOperation (operationRoundTrip o)])
    else some (sp [showHex (encOperation o), "|", showPOperation (operationToProto o), "|",
                   showResult showOperation (operationRoundTrip o)])
  | _ => none

end JjModel.Drv.C16
