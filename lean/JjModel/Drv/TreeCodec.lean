import JjModel.Model.Tree
import JjModel.Drv.Util
/-!
  Text form of trees and tree values used on the line protocol (C07, C08, …).

    tree   := '(' { entry } ')'
    entry  := name ':' value ';'
    value  := 'f' id ('x' | '-')      file, executable or not
            | 's' id                  symlink
            | tree                    directory
    optional value: '~' for absent
    Merge<…>: terms joined by '/';  list of merges: joined by '|';  path: names joined by '.', root '-'
-/
namespace JjModel.Drv.TreeCodec
open JjModel.Trees JjModel.Merge

def parseNatC (cs : List Char) : Option (Nat × List Char) :=
  let ds := cs.takeWhile Char.isDigit
  if ds.isEmpty then none else
    some (ds.foldl (fun acc c => acc * 10 + (c.toNat - '0'.toNat)) 0, cs.dropWhile Char.isDigit)

/-- parses entries up to and including the closing `)`; fuel bounds the number of characters -/
def parseEntries : Nat → List Char → Option (List (Nat × Value) × List Char)
  | 0, _ => none
  | _ + 1, ')' :: rest => some ([], rest)
  | f + 1, cs => do
    let (n, cs) ← parseNatC cs
    let cs ← (match cs with | ':' :: r => some r | _ => none)
    let (v, cs) ← (match cs with
      | 'f' :: r => do
        let (id, r) ← parseNatC r
        match r with
        | 'x' :: r => some (Value.file id true, r)
        | '-' :: r => some (Value.file id false, r)
        | _ => none
      | 's' :: r => do
        let (id, r) ← parseNatC r
        some (Value.symlink id, r)
      | '(' :: r => do
        let (es, r) ← parseEntries f r
        some (Value.tree (Tree.ofEntries es), r)
      | _ => none)
    let cs ← (match cs with | ';' :: r => some r | _ => none)
    let (es, cs) ← parseEntries f cs
    some ((n, v) :: es, cs)

def parseTree (s : String) : Option Tree :=
  match s.toList with
  | '(' :: cs =>
    match parseEntries (cs.length + 1) cs with
    | some (es, []) => some (Tree.ofEntries es)
    | _ => none
  | _ => none

def parseOptValue (s : String) : Option (Option Value) :=
  if s = "~" then some none else
  match s.toList with
  | '(' :: _ => (parseTree s).map (fun t => some (Value.tree t))
  | 'f' :: r =>
    match parseNatC r with
    | some (id, ['x']) => some (some (Value.file id true))
    | some (id, ['-']) => some (some (Value.file id false))
    | _ => none
  | 's' :: r =>
    match parseNatC r with
    | some (id, []) => some (some (Value.symlink id))
    | _ => none
  | _ => none

def parseTrees (s : String) : Option (List Tree) := (s.splitOn "/").mapM parseTree
def parseTreesList (s : String) : Option (List (List Tree)) := (s.splitOn "|").mapM parseTrees
def parseMVal (s : String) : Option MVal := (s.splitOn "/").mapM parseOptValue
def parsePath (s : String) : Option (List Nat) :=
  if s = "-" then some [] else (s.splitOn ".").mapM String.toNat?
def parseSc (s : String) : Option SameChange :=
  match s with | "keep" => some .keep | "accept" => some .accept | _ => none

def showTreeF : Nat → Tree → String
  | 0, _ => "?"
  | f + 1, t =>
    "(" ++ String.join (t.entries.map fun e =>
      toString e.1 ++ ":" ++ (match e.2 with
        | .file id x => "f" ++ toString id ++ (if x then "x" else "-")
        | .symlink id => "s" ++ toString id
        | .tree s => showTreeF f s) ++ ";") ++ ")"

def showTree (t : Tree) : String := showTreeF (t.height + 1) t

def showOptValue : Option Value → String
  | none => "~"
  | some (.file id x) => "f" ++ toString id ++ (if x then "x" else "-")
  | some (.symlink id) => "s" ++ toString id
  | some (.tree t) => showTree t

def showTrees (ts : List Tree) : String := "/".intercalate (ts.map showTree)
def showMVal (vs : MVal) : String := "/".intercalate (vs.map showOptValue)
def showPath (p : List Nat) : String := if p.isEmpty then "-" else ".".intercalate (p.map toString)

end JjModel.Drv.TreeCodec
