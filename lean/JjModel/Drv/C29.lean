import JjModel.Model.Eol
import JjModel.Drv.Util
/-!
  Driver handler for C29.
    `C29 update <mode> <rle>`    → bytes written to disk for stored content
    `C29 snapshot <mode> <rle>`  → bytes stored for disk content
  `<mode>` ∈ `none` | `input` | `input-output`.
  `<rle>`: run-length coded bytes, runs separated by `.`, a run is `hh` (one byte) or `hh*n`
  (n ≥ 2 copies); the canonical form uses maximal runs; the empty string is `-`.
-/
namespace JjModel.Drv.C29
open JjModel.Eol JjModel.Drv

def parseRun (tok : String) : Option (List UInt8) :=
  match tok.splitOn "*" with
  | [h] => match parseHexAux h.toList [] with
    | some [b] => some [b]
    | _ => none
  | [h, n] => match parseHexAux h.toList [], n.toNat? with
    | some [b], some k => some (List.replicate k b)
    | _, _ => none
  | _ => none

def parseRle (s : String) : Option (List UInt8) :=
  if s = "-" then some [] else ((s.splitOn ".").mapM parseRun).map List.flatten

def runs : List UInt8 → List (UInt8 × Nat)
  | [] => []
  | b :: rest =>
    match runs rest with
    | (c, n) :: more => if b = c then (c, n + 1) :: more else (b, 1) :: (c, n) :: more
    | [] => [(b, 1)]

def showRun (r : UInt8 × Nat) : String :=
  let h := String.ofList [hexChar (r.1.toNat / 16), hexChar (r.1.toNat % 16)]
  if r.2 = 1 then h else h ++ "*" ++ toString r.2

def showRle (b : List UInt8) : String :=
  if b.isEmpty then "-" else ".".intercalate ((runs b).map showRun)

def parseMode : String → Option EolConversionMode
  | "none" => some .none
  | "input" => some .input
  | "input-output" => some .inputOutput
  | _ => none

def handle : List String → Option String
  | ["update", m, x] => do
    let m ← parseMode m
    let x ← parseRle x
    some (showRle (update m x))
  | ["snapshot", m, x] => do
    let m ← parseMode m
    let x ← parseRle x
    some (showRle (snapshot m x))
  | _ => none

end JjModel.Drv.C29
