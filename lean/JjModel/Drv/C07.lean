import JjModel.Model.Tree
import JjModel.Drv.TreeCodec
/-!
  Driver handler for C07.
    `C07 mt <keep|accept> <trees>`            `merge_trees` on a `Merge<TreeId>` (terms joined by `/`)
    `C07 merge <keep|accept> <inputs>`        `MergedTree::merge` (inputs joined by `|`, each a `Merge<Tree>`)
    `C07 pv <keep|accept> <trees> <path>`     `MergedTree::path_value`
    `C07 rfv <keep|accept> <values>`          `resolve_file_values`
  The content merge is `slotMerge` (see `Model/Tree.lean`).
-/
namespace JjModel.Drv.C07
open JjModel.Trees JjModel.Merge JjModel.Drv.TreeCodec

def handle : List String → Option String
  | ["mt", sc, ts] => do
    let sc ← parseSc sc
    let ts ← parseTrees ts
    if ts.length % 2 = 1 then some (showTrees (mergeTrees sc (slotMerge sc) ts)) else some "panic"
  | ["merge", sc, inputs] => do
    let sc ← parseSc sc
    let inputs ← parseTreesList inputs
    if inputs.length % 2 = 1 ∧ inputs.all (fun i => i.length % 2 = 1) then
      -- the harness links jj with debug assertions: a firing `debug_assert_eq!` is a panic
      if resolveDebugAssert sc (slotMerge sc) (mergeNoResolve inputs) then
        some (showTrees (mergedTreeMerge sc (slotMerge sc) inputs))
      else some "panic:resolve-debug-assert"
    else some "panic"
  | ["pv", sc, ts, p] => do
    let sc ← parseSc sc
    let ts ← parseTrees ts
    let p ← parsePath p
    some (showMVal (pathValue sc ts p))
  | ["rfv", sc, vs] => do
    let sc ← parseSc sc
    let vs ← parseMVal vs
    if vs.length % 2 = 1 then some (showMVal (resolveFileValues sc (slotMerge sc) vs)) else some "panic"
  | _ => none

end JjModel.Drv.C07
