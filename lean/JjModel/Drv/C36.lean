import JjModel.Generated.Grammars
import JjModel.Model.Alias
import JjModel.Drv.Util
/-!
  Driver handler for C36.
    `C36 parse <revset|fileset|template> <rule> <hex utf8>` → `ok` | `err`
       does the pest rule `<rule>` of the grammar accept the text?  (All start rules used by jj end
       in `EOI`, so acceptance means the whole text.)  `oof` would mean the fuel computed by
       `fuelBound` ran out — excluded by `peg_terminates`.
    `C36 expand <aliases> <expr>` → `ok:<expr>` | `err:<error>:<trace>`
       alias expansion on abstract expressions.  Everything is a comma-separated list of numbers
       in prefix notation:
         expr    ::= 0 x | 1 f k expr{k} | 2 name expr | 3 expr expr | 4 id expr
         id      ::= 0 name | 1 name param | 2 name k param{k} | 3 name
         aliases ::= count entry{count}
         entry   ::= 0 name defn | 1 name param defn | 2 name k param{k} defn
         defn    ::= 0 | 1 expr                     (0: the definition text does not parse)
       `<error>` is `recursive=<id>` | `args=<name>` | `syntax`; `<trace>` the ids of the enclosing
       expansions, outermost first, separated by `/` (`-` if none).
-/
namespace JjModel.Drv.C36
open JjModel.Peg JjModel.Generated JjModel.Drv JjModel.Alias

def grammarOf : String → Option Grammar
  | "revset" => some revsetGrammar
  | "fileset" => some filesetGrammar
  | "template" => some templateGrammar
  | _ => none

def decodeUtf8 (s : String) : Option (List Char) := do
  let bytes ← parseHex s
  let str ← String.fromUTF8? (ByteArray.mk bytes.toArray)
  some str.toList

def takeN : Nat → List Nat → Option (List Nat × List Nat)
  | 0, l => some ([], l)
  | _ + 1, [] => none
  | n + 1, x :: l => do
    let (a, r) ← takeN n l
    some (x :: a, r)

def decodeId : List Nat → Option (AliasId × List Nat)
  | 0 :: n :: r => some (.symbol n, r)
  | 1 :: n :: p :: r => some (.pattern n p, r)
  | 2 :: n :: k :: r => do
    let (ps, r) ← takeN k r
    some (.function n ps, r)
  | 3 :: n :: r => some (.parameter n, r)
  | _ => none

mutual
def decodeAst : Nat → List Nat → Option (Ast × List Nat)
  | 0, _ => none
  | fuel + 1, l =>
    match l with
    | 0 :: x :: r => some (.ident x, r)
    | 1 :: f :: k :: r => do
      let (args, r) ← decodeAsts fuel k r
      some (.call f args, r)
    | 2 :: n :: r => do
      let (v, r) ← decodeAst fuel r
      some (.pat n v, r)
    | 3 :: r => do
      let (a, r) ← decodeAst fuel r
      let (b, r) ← decodeAst fuel r
      some (.bin a b, r)
    | 4 :: r => do
      let (id, r) ← decodeId r
      let (s, r) ← decodeAst fuel r
      some (.expanded id s, r)
    | _ => none
def decodeAsts : Nat → Nat → List Nat → Option (List Ast × List Nat)
  | 0, _, _ => none
  | _ + 1, 0, r => some ([], r)
  | fuel + 1, k + 1, r => do
    let (a, r) ← decodeAst fuel r
    let (as, r) ← decodeAsts fuel k r
    some (a :: as, r)
end

def decodeDefn (fuel : Nat) : List Nat → Option (Option Ast × List Nat)
  | 0 :: r => some (none, r)
  | 1 :: r => do
    let (a, r) ← decodeAst fuel r
    some (some a, r)
  | _ => none

def decodeEntries (fuel : Nat) : Nat → List Nat → Aliases → Option Aliases
  | 0, [], m => some m
  | 0, _ :: _, _ => none
  | k + 1, l, m =>
    match l with
    | 0 :: n :: r => do
      let (d, r) ← decodeDefn fuel r
      decodeEntries fuel k r { m with symbols := m.symbols ++ [(n, d)] }
    | 1 :: n :: p :: r => do
      let (d, r) ← decodeDefn fuel r
      decodeEntries fuel k r { m with patterns := m.patterns ++ [(n, p, d)] }
    | 2 :: n :: c :: r => do
      let (ps, r) ← takeN c r
      let (d, r) ← decodeDefn fuel r
      decodeEntries fuel k r { m with functions := m.functions ++ [(n, ps, d)] }
    | _ => none

def encodeId : AliasId → List Nat
  | .symbol n => [0, n]
  | .pattern n p => [1, n, p]
  | .function n ps => [2, n, ps.length] ++ ps
  | .parameter n => [3, n]

mutual
def encodeAst : Ast → List Nat
  | .ident x => [0, x]
  | .call f args => [1, f, args.length] ++ encodeAsts args
  | .pat n v => [2, n] ++ encodeAst v
  | .bin a b => [3] ++ encodeAst a ++ encodeAst b
  | .expanded id s => [4] ++ encodeId id ++ encodeAst s
def encodeAsts : List Ast → List Nat
  | [] => []
  | a :: as => encodeAst a ++ encodeAsts as
end

def showErr : Err → String
  | .recursive id => "recursive=" ++ showNatList (encodeId id)
  | .badArgs n => s!"args={n}"
  | .syntax => "syntax"

def showTrace (t : List AliasId) : String :=
  if t.isEmpty then "-" else "/".intercalate (t.map fun i => showNatList (encodeId i))

def handleExpand (aliases expr : String) : Option String := do
  let al ← parseNatList aliases
  let ex ← parseNatList expr
  let m ← match al with
    | count :: rest => decodeEntries (al.length + 1) count rest { symbols := [], patterns := [], functions := [] }
    | [] => none
  let (e, rest) ← decodeAst (ex.length + 1) ex
  if !rest.isEmpty then none
  match expandAliases m e with
  | .ok a => some ("ok:" ++ showNatList (encodeAst a))
  | .err t e => some ("err:" ++ showErr e ++ ":" ++ showTrace t)
  | .oof => some "oof"

def handle : List String → Option String
  | ["parse", g, rule, text] => do
    let g ← grammarOf g
    let i ← g.rules.findIdx? (·.name == rule)
    let input ← decodeUtf8 text
    match recognise g i input with
    | .ok _ => some "ok"
    | .fail => some "err"
    | .oof => some "oof"
  | ["expand", aliases, expr] => handleExpand aliases expr
  | _ => none

end JjModel.Drv.C36
