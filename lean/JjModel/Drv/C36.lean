import JjModel.Generated.Grammars
import JjModel.Drv.Util
/-!
  Driver handler for C36.
    `C36 parse <revset|fileset|template> <rule> <hex utf8>` → `ok` | `err`
       does the pest rule `<rule>` of the grammar accept the text?  (All start rules used by jj end
       in `EOI`, so acceptance means the whole text.)  `oof` would mean the fuel computed by
       `fuelBound` ran out — excluded by `peg_terminates`.
    `C36 expand <aliases> <expr>` → `ok:<expr>` | `err:recursive:<id>` | `err:args:<name>` | `err:syntax:<id>`
       abstract alias expansion (see `Model/Alias.lean` for the encoding).
-/
namespace JjModel.Drv.C36
open JjModel.Peg JjModel.Generated JjModel.Drv

def grammarOf : String → Option Grammar
  | "revset" => some revsetGrammar
  | "fileset" => some filesetGrammar
  | "template" => some templateGrammar
  | _ => none

def decodeUtf8 (s : String) : Option (List Char) := do
  let bytes ← parseHex s
  let str ← String.fromUTF8? (ByteArray.mk bytes.toArray)
  some str.toList

def handle : List String → Option String
  | ["parse", g, rule, text] => do
    let g ← grammarOf g
    let i ← g.rules.findIdx? (·.name == rule)
    let input ← decodeUtf8 text
    match recognise g i input with
    | .ok _ => some "ok"
    | .fail => some "err"
    | .oof => some "oof"
  | _ => none

end JjModel.Drv.C36
