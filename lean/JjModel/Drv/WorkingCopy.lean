import JjModel.Model.WorkingCopy
/-!
  Shared request parser / printer for the working-copy properties C23, C24, C25, C27.

  Every request carries the whole pre-state, so the driver stays stateless:
    snap   <tree> <states> <sparse> <disk> <ign>          → <tree'> <states'>
    co     <tree> <states> <sparse> <disk> <newtree>      → <disk'> <states'> <u,a,r,s> <hook-trace>
    sparse <tree> <states> <sparse> <disk> <newsparse>    → <disk'> <states'> <a,r,s> <hook-trace>
  Encodings (no spaces inside a token):
    path      components joined by `/`; the root is `.`
    tree      `path=f:<hex>:<0|1>` | `path=l:<hex>` | `path=c:<id>:<hex>:<0|1>`, joined by `;`, empty `-`
    disk      `path=f:<hex>:<0|1>` | `path=l:<hex>` | `path=d`, joined by `;`, empty `-`
    path list joined by `;`, empty `-`
  Contents and link targets stay hex strings (the model only compares them).
  Answers list maps and sets in `RepoPath` order.
-/
namespace JjModel.Drv.WorkingCopy
open JjModel.WorkingCopy

def parsePath (s : String) : Option Path :=
  if s = "." then some [] else
  let cs := s.splitOn "/"
  if cs.any (· = "") then none else some cs

def showPath (p : Path) : String := if p.isEmpty then "." else "/".intercalate p

def parseList {α : Type} (f : String → Option α) (s : String) : Option (List α) :=
  if s = "-" then some [] else (s.splitOn ";").mapM f

def parseBool (s : String) : Option Bool :=
  if s = "1" then some true else if s = "0" then some false else none

def parseKV {α : Type} (f : List String → Option α) (s : String) : Option (Path × α) :=
  match s.splitOn "=" with
  | [p, v] => do
    let p ← parsePath p
    let v ← f (v.splitOn ":")
    some (p, v)
  | _ => none

def parseTreeValue : List String → Option TreeValue
  | ["f", c, x] => do some (.file c (← parseBool x))
  | ["l", t] => some (.symlink t)
  | ["c", id, m, x] => do some (.conflict id m (← parseBool x))
  | _ => none

def parseEntry : List String → Option Entry
  | ["f", c, x] => do some (.file c (← parseBool x))
  | ["l", t] => some (.symlink t)
  | ["d"] => some .dir
  | _ => none

def parseTree : String → Option Tree := parseList (parseKV parseTreeValue)
def parseDisk : String → Option Disk := parseList (parseKV parseEntry)
def parsePaths : String → Option (List Path) := parseList parsePath

def showB (b : Bool) : String := if b then "1" else "0"

def showTreeValue : TreeValue → String
  | .file c x => s!"f:{c}:{showB x}"
  | .symlink t => s!"l:{t}"
  | .conflict id m x => s!"c:{id}:{m}:{showB x}"

def showEntry : Entry → String
  | .file c x => s!"f:{c}:{showB x}"
  | .symlink t => s!"l:{t}"
  | .dir => "d"

def showJoined (l : List String) : String := if l.isEmpty then "-" else ";".intercalate l

def showMap {α : Type} (f : α → String) (m : List (Path × α)) : String :=
  showJoined ((sortPaths (m.map (·.1))).filterMap fun p =>
    (get m p).map fun v => s!"{showPath p}={f v}")

def showPaths (l : List Path) : String := showJoined ((sortPaths l).map showPath)

/-- the paths that reach `remove_old_file` / `can_create_new_file` (hooks `wc.remove`,
`wc.create`), in processing order: every diff entry whose parent directories could be created -/
def hookTrace (log : List (Path × Action)) : List Path :=
  log.reverse.filterMap fun (p, a) =>
    match a with
    | .skipParent => none
    | _ => some p

def showTrace (l : List Path) : String := showJoined (l.map showPath)

def showUpdate (u : UState) : String :=
  s!"{showMap showEntry u.disk} {showPaths u.states}"

def handle : List String → Option String
  | ["snap", tree, states, sparse, disk, ign] => do
    let tree ← parseTree tree
    let states ← parsePaths states
    let sparse ← parsePaths sparse
    let disk ← parseDisk disk
    let ign ← parsePaths ign
    let wc' := snapshot { tree, states, sparse } disk (fun p => ign.contains p)
    some s!"{showMap showTreeValue wc'.tree} {showPaths wc'.states}"
  | ["co", tree, states, sparse, disk, newtree] => do
    let tree ← parseTree tree
    let states ← parsePaths states
    let sparse ← parsePaths sparse
    let disk ← parseDisk disk
    let newtree ← parseTree newtree
    let (_, u) := checkOut { tree, states, sparse } disk newtree
    let s := u.stats
    some s!"{showUpdate u} {s.updated},{s.added},{s.removed},{s.skipped} {showTrace (hookTrace u.log)}"
  | ["sparse", tree, states, sparse, disk, pats] => do
    let tree ← parseTree tree
    let states ← parsePaths states
    let sparse ← parsePaths sparse
    let disk ← parseDisk disk
    let pats ← parsePaths pats
    let (wc', a, r) := setSparsePatterns { tree, states, sparse } disk pats
    some s!"{showMap showEntry r.disk} {showPaths wc'.states} {a.stats.added},{r.stats.removed},{a.stats.skipped} {showTrace (hookTrace a.log ++ hookTrace r.log)}"
  | _ => none

end JjModel.Drv.WorkingCopy
