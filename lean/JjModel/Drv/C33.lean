import JjModel.Model.GitRef
import JjModel.Drv.Str
/-!
  Driver handler for C33 (strings as code-point lists, see `Drv/Str.lean`).
    `C33 parse <ref>`                    → `none` | `some:<b|t>:<name>:<remote>`
    `C33 export <b|t> <name> <remote>`   → `none` | `some:<ref>`
    `C33 validate <remote>`              → `ok` | `invalid` | `reserved` | `slash`
-/
namespace JjModel.Drv.C33
open JjModel.GitRef JjModel.Drv

def parseKind : String → Option Kind
  | "b" => some .bookmark
  | "t" => some .tag
  | _ => none

def showKind : Kind → String
  | .bookmark => "b"
  | .tag => "t"

def handle : List String → Option String
  | ["parse", g] => do
    let g ← parseStr g
    match parseGitRef g with
    | none => some "none"
    | some (k, s) => some s!"some:{showKind k}:{showStr s.name}:{showStr s.remote}"
  | ["export", k, n, r] => do
    let k ← parseKind k
    let n ← parseStr n
    let r ← parseStr r
    match toGitRefName k ⟨n, r⟩ with
    | none => some "none"
    | some g => some s!"some:{showStr g}"
  | ["validate", r] => do
    let r ← parseStr r
    match validateRemoteName noEmptyComponent r with
    | .ok => some "ok"
    | .invalidName => some "invalid"
    | .reserved => some "reserved"
    | .withSlash => some "slash"
  | _ => none

end JjModel.Drv.C33
