import JjModel.Model.ConflictUpdate
import JjModel.Drv.C05
/-!
  Driver handler for C06: `C06 update <markerlen> <ids> <old> <content>` → ids | `panic`
    ids      `,`-separated terms: `n` (absent) or `s<hex>` (`s-` = empty file)
    old      `r<hex>` (merge_hunks of the simplified old contents resolved) or `c<hunks>` (C05 hunk syntax)
    content  hex of the file read back from disk
-/
namespace JjModel.Drv.C06
open JjModel.Conflicts JjModel.Drv

def parseId (s : String) : Option FileId :=
  if s = "n" then some none
  else if s.startsWith "s" then (parseHex (s.drop 1).toString).map some
  else none

def showId : FileId → String
  | none => "n"
  | some c => "s" ++ showHex c

def parseOld (s : String) : Option MergeResult :=
  if s.startsWith "r" then (parseHex (s.drop 1).toString).map .resolved
  else if s.startsWith "c" then (C05.parseHunks (s.drop 1).toString).map .conflict
  else none

def handle : List String → Option String
  | ["update", ml, ids, old, content] => do
    let ml ← ml.toNat?
    let ids ← (ids.splitOn ",").mapM parseId
    let old ← parseOld old
    let content ← parseHex content
    match updateFromContent old ids content ml with
    | some r => some (",".intercalate (r.map showId))
    | none => some "panic"
  | _ => none

end JjModel.Drv.C06
