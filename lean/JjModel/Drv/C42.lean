import JjModel.Model.Immutable
import JjModel.Drv.Util
/-!
  Driver handler for C42.

  `C42 run  <graph> <heads> <wc> <ign> <mode> <cmd> <args…>`
  `C42 snap <graph> <heads> <wc> <ign>`

  graph  `id:parents:flags;…` in topological order (parents first), `-` = empty; parents `1,2`;
         flags ⊆ `d` (discardable and unreferenced) `e` (empty diff), `-` = none
  heads  ids of `immutable_heads()` as evaluated by jj, `-` = none
  mode   `=` (the model predicts the exact rewritten / abandoned sets) or `obs:<rw>/<ab>` (the
         observed sets are supplied; the model answers whether they lie within its bound)
  answer `imm=<ids> rejected | err | ok rw=<ids> ab=<ids> | ok within | ok outside:<ids>`
-/
namespace JjModel.Drv.C42
open JjModel.Immutable JjModel.Drv

def parseFlags (s : String) : Bool × Bool := (s.contains 'd', s.contains 'e')

def parseCommit (s : String) : Option Commit :=
  match s.splitOn ":" with
  | [i, ps, fl] => do
    let i ← i.toNat?
    let ps ← parseNatList ps
    let (d, e) := parseFlags fl
    some { id := i, parents := ps, disc := d, empty := e }
  | _ => none

def parseGraph (s : String) : Option Graph :=
  if s = "-" then some [] else (s.splitOn ";").mapM parseCommit

def parseBool : String → Option Bool
  | "0" => some false
  | "1" => some true
  | _ => none

def parseCmd : List String → Option Cmd
  | ["describe", ts] => (parseNatList ts).map .describe
  | ["abandon", ts] => (parseNatList ts).map .abandon
  | ["rebase-s", s, d] => do some (.rebaseS (← s.toNat?) (← d.toNat?))
  | ["rebase-b", b, d] => do some (.rebaseB (← b.toNat?) (← d.toNat?))
  | ["rebase-r", x, d] => do some (.rebaseR (← x.toNat?) (← d.toNat?))
  | ["rebase-r-after", x, y] => do some (.rebaseRAfter (← x.toNat?) (← y.toNat?))
  | ["rebase-r-before", x, y] => do some (.rebaseRBefore (← x.toNat?) (← y.toNat?))
  | ["squash-into", x, y] => do some (.squashInto (← x.toNat?) (← y.toNat?))
  | ["squash-parent", x] => do some (.squashParent (← x.toNat?))
  | ["new-after", x] => do some (.newAfter (← x.toNat?))
  | ["new-before", x] => do some (.newBefore (← x.toNat?))
  | ["new-on", x] => do some (.newOn (← x.toNat?))
  | ["edit", x] => do some (.edit (← x.toNat?))
  | ["metaedit", x] => do some (.metaedit (← x.toNat?))
  | ["restore-into", s, x, df] => do some (.restoreInto (← s.toNat?) (← x.toNat?) (← parseBool df))
  | ["restore-changes", x] => do some (.restoreChanges (← x.toNat?))
  | ["split", x] => do some (.split (← x.toNat?))
  | ["diffedit", x] => do some (.diffedit (← x.toNat?))
  | ["duplicate-after", x, y] => do some (.duplicateAfter (← x.toNat?) (← y.toNat?))
  | ["parallelize", ts] => (parseNatList ts).map .parallelize
  | ["simplify-parents", x] => do some (.simplifyParents (← x.toNat?))
  | ["ref-set", x] => do some (.refSet (← x.toNat?))
  | ["commit"] => some .commitWc
  | ["new-ab", x, ys] => do some (.newAB (← x.toNat?) (← parseNatList ys))
  | ["rebase-r-ab", z, x, ys] => do some (.rebaseRAB (← z.toNat?) (← x.toNat?) (← parseNatList ys))
  | ["duplicate-ab", z, x, ys] => do some (.duplicateAB (← z.toNat?) (← x.toNat?) (← parseNatList ys))
  | ["revert-ab", z, x, ys] => do some (.revertAB (← z.toNat?) (← x.toNat?) (← parseNatList ys))
  | _ => none

def showImm (g : Graph) (heads : List Nat) : String :=
  s!"imm={showNatList (dedupSorted (immutableSet g heads))}"

def handle : List String → Option String
  | "run" :: g :: heads :: wc :: ign :: mode :: cmd => do
    let g ← parseGraph g
    let heads ← parseNatList heads
    let wc ← wc.toNat?
    let ign ← parseBool ign
    let c ← parseCmd cmd
    let pre := showImm g heads
    match run g heads wc ign c with
    | .rejected => some s!"{pre} rejected"
    | .err => some s!"{pre} err"
    | .ok rw ab =>
      if mode = "=" then some s!"{pre} ok rw={showNatList rw} ab={showNatList ab}"
      else do
        let obs ← (mode.dropPrefix? "obs:").map (·.toString)
        match obs.splitOn "/" with
        | [orw, oab] =>
          let orw ← parseNatList orw
          let oab ← parseNatList oab
          let out := (orw ++ oab).filter (fun x => decide (x ∉ affected g wc c))
          if out.isEmpty then some s!"{pre} ok within" else some s!"{pre} ok outside:{showNatList out}"
        | _ => none
  | ["snap", g, heads, wc, ign] => do
    let g ← parseGraph g
    let heads ← parseNatList heads
    let wc ← wc.toNat?
    let ign ← parseBool ign
    let pre := showImm g heads
    match snapshot g heads wc ign with
    | .child p => some s!"{pre} child:{p}"
    | .amend rw => some s!"{pre} amend rw={showNatList rw}"
  | _ => none

end JjModel.Drv.C42
