import JjModel.Model.Diff
import JjModel.Drv.Util
/-!
  Driver handler for C03.
  * `C03 hunks <steps> <hex>;<hex>;…` — `steps` = `tok:cmp,tok:cmp,…` (first = `for_tokenizer`,
    rest = `refine_changed_regions`); answer = the `hunk_ranges()` stream
    `M:lo-hi,lo-hi;D:…` (`-` when there is no hunk) followed by ` wf=<W><I><C><M>`: the run-time
    checks of the hypotheses of the `Props/C03.lean` theorems on the model's own regions
    (`regionsWFb`, `interiorNonEmptyb`, `compactedb`, every region matches under the weakest
    comparator used).
  * `C03 tok <line|word|nonword> <hex>` — token ranges.
  * `C03 eq <cmp> <hex> <hex>` — `CompareBytes::eq`.
-/
namespace JjModel.Drv.C03
open JjModel.Diff JjModel.Drv

def parseTok : String → Option Tokenizer
  | "line" => some .line | "word" => some .word | "nonword" => some .nonword | "none" => some .none
  | _ => none

def parseCmp : String → Option Compare
  | "exact" => some .exact | "allws" => some .ignoreAllWs | "wsamt" => some .ignoreWsAmount
  | _ => none

def parseStep (s : String) : Option (Tokenizer × Compare) :=
  match s.splitOn ":" with
  | [t, c] => do some ((← parseTok t), (← parseCmp c))
  | _ => none

def parseSteps (s : String) : Option (List (Tokenizer × Compare)) := (s.splitOn ",").mapM parseStep

def parseInputs (s : String) : Option (List Bytes) := (s.splitOn ";").mapM parseHex

def showRng (r : Rng) : String := s!"{r.lo}-{r.hi}"

def showRngs (l : List Rng) : String := if l.isEmpty then "-" else ",".intercalate (l.map showRng)

def showHunk (h : HunkRange) : String :=
  (match h.kind with | .matching => "M:" | .different => "D:") ++ showRngs h.ranges

def showHunks (l : List HunkRange) : String :=
  if l.isEmpty then "-" else ";".intercalate (l.map showHunk)

/-- the weakest comparison used by the steps (`exact ⊆ wsamt ⊆ allws`) -/
def weakest (steps : List (Tokenizer × Compare)) : Compare :=
  if steps.any (fun s => s.2 == .ignoreAllWs) then .ignoreAllWs
  else if steps.any (fun s => s.2 == .ignoreWsAmount) then .ignoreWsAmount
  else .exact

def handle : List String → Option String
  | ["hunks", steps, inputs] => do
    let steps ← parseSteps steps
    let inputs ← parseInputs inputs
    match build inputs steps with
    | none => some "panic"
    | some d =>
      let c := weakest steps
      let flags := showBool (regionsWFb d.inputs d.regions) ++ showBool (interiorNonEmptyb d.regions)
        ++ showBool (compactedb d.regions) ++ showBool (d.regions.all (regionMatches c d.inputs))
      some (showHunks d.hunkRanges ++ " wf=" ++ flags)
  | ["tok", t, text] => do
    let t ← parseTok t
    let text ← parseHex text
    some (showRngs (t.run text))
  | ["eq", c, l, r] => do
    let c ← parseCmp c
    some (showBool (c.eq (← parseHex l) (← parseHex r)))
  | _ => none

end JjModel.Drv.C03
