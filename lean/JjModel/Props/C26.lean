import JjModel.Model.Mtime
/-!
  C26 — Edits after a command finished are always detected.

  Time line (real time `Nat`, any unit): jj writes / stats the tracked file no later than `t_w`, so
  the recorded mtime is `stamp t_w`; it saves its state at `t_s ≥ t_w`, so the own mtime read by the
  next command is `stamp t_s`; somebody edits the file at `t_e ≥ t_s`, so the file's mtime at the
  next snapshot is `stamp t_e`.  `stamp` is the composition of the file system's clock, its timestamp
  granularity and jj's millisecond truncation; the only thing assumed about it is monotonicity.
  The edit may keep size and type, so nothing but the two time comparisons can reveal it.
-/
namespace JjModel.C26
open JjModel.Mtime

/-- `stamp` never runs backwards (no other assumption: any granularity, any offset). -/
def Monotone (stamp : Nat → Nat) : Prop := ∀ a b, a ≤ b → stamp a ≤ stamp b

/-- Characterisation of the decision (what the code computes, as a proposition). -/
theorem clean_iff (c new : FileState) (own : Nat) :
    clean (some c) new own = true ↔
      new.fileType = c.fileType ∧ new.mtime = c.mtime ∧ new.size = c.size ∧ c.mtime < own := by
  simp [clean, FileState.isClean, and_assoc]

theorem untracked_never_clean (new : FileState) (own : Nat) : clean none new own = false := rfl

/-- Core step, in terms of stamps only: a file whose current mtime is not before the own mtime is
    never considered clean — whatever was recorded. -/
theorem stamp_not_before_state_never_clean (cur : Option FileState) (new : FileState) (own : Nat)
    (h : own ≤ new.mtime) : clean cur new own = false := by
  cases cur with
  | none => rfl
  | some c =>
    cases hc : clean (some c) new own with
    | false => rfl
    | true =>
      have := (clean_iff c new own).mp hc
      omega

/-- **late_edit_detected** — for EVERY monotone `stamp`: recorded at `t_w`, saved at `t_s ≥ t_w`,
    edited at `t_e ≥ t_s` (same size, same type allowed) ⇒ the next snapshot does not consider the
    file clean, i.e. it re-reads it. -/
theorem late_edit_detected (stamp : Nat → Nat) (mono : Monotone stamp) (tw ts te : Nat)
    (_hws : tw ≤ ts) (hse : ts ≤ te) (rec new : FileState)
    (_hrec : rec.mtime = stamp tw) (hnew : new.mtime = stamp te) :
    clean (some rec) new (stamp ts) = false :=
  stamp_not_before_state_never_clean _ _ _ (by rw [hnew]; exact mono _ _ hse)

/-- non-vacuity: a clock with 2-unit granularity, write, save and edit all inside one tick, same size -/
example : clean (some ⟨.normal false, (fun t => t / 2) 0, 4⟩) ⟨.normal false, (fun t => t / 2) 1, 4⟩
    ((fun t => t / 2) 0) = false := by decide

/-- `msOf` (jj's millisecond truncation) is monotone, so it can be composed with any monotone
    file-system clock. -/
theorem msOf_mono : Monotone msOf := fun _ _ h => Nat.div_le_div_right h

theorem monotone_comp (f g : Nat → Nat) (hf : Monotone f) (hg : Monotone g) : Monotone (fun t => f (g t)) :=
  fun _ _ h => hf _ _ (hg _ _ h)

/-- A non-clean file is re-read: the tree value after the snapshot is what is on disk now. -/
theorem reread_records_content {V : Type} (cur : Option FileState) (new : FileState) (own : Nat)
    (treeVal diskVal : V) (h : clean cur new own = false) :
    snapshotFile cur new own treeVal diskVal = (diskVal, new) := by
  simp [snapshotFile, h]

/-- … and a clean file is not: the tree keeps its old value (this is where a racing edit is lost). -/
theorem clean_keeps_tree_value {V : Type} (cur : Option FileState) (new : FileState) (own : Nat)
    (treeVal diskVal : V) (h : clean cur new own = true) :
    snapshotFile cur new own treeVal diskVal = (treeVal, new) := by
  simp [snapshotFile, h]

/-- **late_edit_recorded** — the property, end to end on the scenario the driver runs (`scenario`,
    file-system nanoseconds seen through jj's millisecond truncation): whatever the recorded state,
    an edit stamped at or after the state file's stamp is recorded by the next snapshot (`changed`
    is returned as given), for every file-system clock `fsclock` that is monotone. -/
theorem late_edit_recorded (fsclock : Nat → Nat) (mono : Monotone fsclock) (tw ts te : Nat)
    (hse : ts ≤ te) (wSize eSize : Nat) (wExec eExec changed : Bool) :
    (scenario (fsclock tw) wSize wExec (some (fsclock ts)) (fsclock te) eSize eExec changed).1 = changed := by
  have h : clean (some ⟨.normal wExec, msOf (fsclock tw), wSize⟩) ⟨.normal eExec, msOf (fsclock te), eSize⟩
      (ownMtimeOf (some (fsclock ts))) = false :=
    stamp_not_before_state_never_clean _ _ _ (msOf_mono _ _ (mono _ _ hse))
  simp [scenario, snapshotFile, h]

/-- The harness oracle's rule, on the scenario: edit stamp (ns) ≥ state-file stamp (ns) ⇒ recorded. -/
theorem scenario_late (wNs wSize : Nat) (wExec : Bool) (sNs eNs eSize : Nat) (eExec changed : Bool)
    (h : sNs ≤ eNs) : (scenario wNs wSize wExec (some sNs) eNs eSize eExec changed).1 = changed :=
  late_edit_recorded id (fun _ _ h => h) wNs sNs eNs h wSize eSize wExec eExec changed

/-- If the state file cannot be stat'ed the own mtime is 0 and nothing is ever clean. -/
theorem no_state_file_rereads_all (cur : Option FileState) (new : FileState) :
    clean cur new (ownMtimeOf none) = false :=
  stamp_not_before_state_never_clean _ _ _ (Nat.zero_le _)

/-- **own_mtime_needed** (sentinel) — with the `< own_mtime` conjunct dropped the statement of
    `late_edit_detected` is false: a clock of granularity 2, write and save at real time 0, a
    same-size edit at real time 1 — the edit is after the save and yet the file looks clean. -/
theorem own_mtime_needed :
    ¬ (∀ (stamp : Nat → Nat), Monotone stamp → ∀ (tw ts te : Nat), tw ≤ ts → ts ≤ te →
        ∀ (rec new : FileState), rec.mtime = stamp tw → new.mtime = stamp te →
          cleanNoOwn (some rec) new = false) := by
  intro h
  have := h (fun t => t / 2) (fun a b hab => Nat.div_le_div_right hab) 0 0 1 (by decide) (by decide)
    ⟨.normal false, 0, 4⟩ ⟨.normal false, 0, 4⟩ (by decide) (by decide)
  revert this
  decide

/-- The real test does detect that very witness. -/
example : clean (some ⟨.normal false, 0, 4⟩) ⟨.normal false, 0, 4⟩ ((fun t => t / 2) 0) = false := by decide

/-- Stated, *not* claimed: an edit racing with the command (`t_e < t_s`, stamped like jj's own
    write, same size) is considered clean — outside the property's quantifier; the harness tallies
    such cases as out of scope and the model predicts "missed" for them. -/
theorem racing_edit_can_be_missed :
    ∃ (stamp : Nat → Nat), Monotone stamp ∧ ∃ tw te ts : Nat, tw ≤ te ∧ te < ts ∧
      clean (some ⟨.normal false, stamp tw, 4⟩) ⟨.normal false, stamp te, 4⟩ (stamp ts) = true :=
  ⟨fun t => t / 2, fun a b hab => Nat.div_le_div_right hab, 0, 1, 2, by decide, by decide, by decide⟩

/-- A change of size or type is detected regardless of all stamps. -/
theorem size_or_type_change_detected (c new : FileState) (own : Nat)
    (h : new.size ≠ c.size ∨ new.fileType ≠ c.fileType) : clean (some c) new own = false := by
  cases hc : clean (some c) new own with
  | false => rfl
  | true => have := (clean_iff c new own).mp hc; rcases h with h | h <;> simp_all

end JjModel.C26
