import JjModel.Lemmas.CrashPersist
import JjModel.Lemmas.CrashTx
/-!
  # C15 — a crash at any point leaves a loadable repo and loses no committed operation

  Model: `JjModel/Model/Crash.lean`.  The statements are about the definitions the driver runs
  (`crash`, `load`, `wcStatus`, `okStep`/`okWc` = `shape`, `persistCrash`).

  * Part A (`persist_atomic`, `persist_ca_idempotent`, `persist_temp_complete`, `persist_frame`):
    the temp-file + rename idiom never exposes a partially written file under the final name.
  * Part B: for EVERY step sequence obeying the write discipline `okStep` (checked on the real
    traces by the driver's `shape` request) and every crash point, the repository loads, the head
    is the last operation whose `opheads.add` was performed, no stored operation/view is modified
    or lost and every previously published operation stays reachable (`crash_prefix_loads`);
    before the first `opheads.add` the loaded state is exactly the old one, for the transaction
    protocol `txSteps` it is exactly the old or exactly the new one (`crash_before_or_after`);
    the working copy is fresh or stale — never a sibling, never unreadable — and
    `workspace update-stale` (itself crash-safe) makes it fresh (`wc_recoverable_partial`).
  * `cmdSteps_disciplined`: the protocol jj implements (objects, index link, op-head add, op-head
    remove, checkout, tree_state, checkout file) satisfies the discipline for any number of
    transactions.
-/
namespace JjModel.C15
open JjModel.Crash

/-! ## Part A -/

/-- A reader of the final name never sees a partial file: wherever the writer dies, the final
    name holds what it held before or the complete new content. -/
theorem persist_atomic (fs : LFs) (t p : Nat) (chunks : List Bytes) (htp : t ≠ p) (n : Nat) :
    persistCrash fs t p chunks n p = fs p ∨
    persistCrash fs t p chunks n p = some chunks.flatten := by
  have hpt : p ≠ t := fun e => htp e.symm
  cases n with
  | zero => left; rw [persistCrash_zero]
  | succ m =>
    by_cases hm : m ≤ chunks.length
    · left
      rw [persistCrash_before fs t p chunks m hm, lrun_appends_other t p hpt]
      exact LFs.set_other _ _ hpt
    · right
      rw [persistCrash_after fs t p chunks (m + 1) (by omega)]
      have ht := lrun_appends_temp t chunks (fs.set t (some [])) [] (by simp)
      simp only [List.nil_append] at ht
      simp only [LStep.apply, ht]
      rw [LFs.set_other _ _ hpt]
      simp

/-- … exactly: old content until the rename, new content after it -/
theorem persist_atomic_exact (fs : LFs) (t p : Nat) (chunks : List Bytes) (htp : t ≠ p) (n : Nat) :
    (n ≤ chunks.length + 1 → persistCrash fs t p chunks n p = fs p) ∧
    (chunks.length + 2 ≤ n → persistCrash fs t p chunks n p = some chunks.flatten) := by
  have hpt : p ≠ t := fun e => htp e.symm
  constructor
  · intro hn
    cases n with
    | zero => rw [persistCrash_zero]
    | succ m =>
      rw [persistCrash_before fs t p chunks m (by omega), lrun_appends_other t p hpt]
      exact LFs.set_other _ _ hpt
  · intro hn
    rw [persistCrash_after fs t p chunks n hn]
    have ht := lrun_appends_temp t chunks (fs.set t (some [])) [] (by simp)
    simp only [List.nil_append] at ht
    simp only [LStep.apply, ht]
    rw [LFs.set_other _ _ hpt]
    simp

/-- Content-addressed names: if the final name already holds this content (an identical object
    written earlier or by a concurrent process), every crash point leaves it intact. -/
theorem persist_ca_idempotent (fs : LFs) (t p : Nat) (chunks : List Bytes) (htp : t ≠ p)
    (hold : fs p = some chunks.flatten) (n : Nat) :
    persistCrash fs t p chunks n p = some chunks.flatten := by
  rcases persist_atomic fs t p chunks htp n with h | h
  · rw [h, hold]
  · exact h

/-- the content is complete in the temp file before the rename is attempted -/
theorem persist_temp_complete (fs : LFs) (t p : Nat) (chunks : List Bytes) :
    persistCrash fs t p chunks (chunks.length + 1) t = some chunks.flatten :=
  JjModel.Crash.persist_temp_complete fs t p chunks

/-- no other file is touched -/
theorem persist_frame (fs : LFs) (t p q : Nat) (chunks : List Bytes) (hqt : q ≠ t) (hqp : q ≠ p)
    (n : Nat) : persistCrash fs t p chunks n q = fs q := by
  cases n with
  | zero => rw [persistCrash_zero]
  | succ m =>
    by_cases hm : m ≤ chunks.length
    · rw [persistCrash_before fs t p chunks m hm, lrun_appends_other t q hqt]
      exact LFs.set_other _ _ hqt
    · rw [persistCrash_after fs t p chunks (m + 1) (by omega)]
      simp only [LStep.apply]
      cases hx : lrun (fs.set t (some [])) (chunks.map (LStep.append t)) t with
      | none =>
        simp only []
        rw [lrun_appends_other t q hqt]
        exact LFs.set_other _ _ hqt
      | some c =>
        simp only []
        rw [LFs.set_other _ _ hqt, LFs.set_other _ _ hqp, lrun_appends_other t q hqt]
        exact LFs.set_other _ _ hqt

example : persistCrash (fun q => if q = 2 then some [9] else none) 1 2 [[1, 2], [3]] 2 2 = some [9] := by
  decide
example : persistCrash (fun q => if q = 2 then some [9] else none) 1 2 [[1, 2], [3]] 4 2 = some [1, 2, 3] := by
  decide

/-! ## Part B -/

/-- **Every crash point of every disciplined writer leaves a loadable repository.**
    `fs` satisfies the invariant (e.g. a single head whose operation and view files exist),
    `steps` obeys `okStep` (the driver's `shape` check on the real trace).  Then, killed when the
    k-th step is about to be performed:
    the repo loads; its head is the last operation whose `opheads.add` was performed (`h` if
    none); every operation of `P` (those published before) is still reachable from it; no
    operation file and no view file that existed has been changed or lost. -/
theorem crash_prefix_loads (fs : Fs) (h : Nat) (P : List Nat) (steps : List Step)
    (inv : RepoInv fs fs h P) (wo : wellOrdered fs steps = true) (k : Nat) :
    ∃ l, load (crash fs steps k) = some l ∧
      l.head = headAfter h (steps.take (k - 1)) ∧
      (∀ a ∈ P, ∃ n, isAnc (crash fs steps k).ops n [l.head] a = true) ∧
      (∀ o r, look o fs.ops = some r → look o (crash fs steps k).ops = some r) ∧
      (∀ v t, look v fs.views = some t → look v (crash fs steps k).views = some t) := by
  have inv' := prefix_preserves steps fs h inv wo (k - 1)
  obtain ⟨r, t, _, _, hload⟩ := load_of_inv inv'
  exact ⟨_, hload, rfl, inv'.pub, inv'.opsMono, inv'.viewsMono⟩

/-- Before the first `opheads.add` the loader sees *exactly* the old state (same head, same view,
    same working-copy tree). -/
theorem crash_before_publish (fs : Fs) (h : Nat) (P : List Nat) (steps : List Step)
    (inv : RepoInv fs fs h P) (wo : wellOrdered fs steps = true) (k : Nat)
    (hb : ((steps.take (k - 1)).all noHa) = true) :
    load (crash fs steps k) = load fs := by
  have inv' := prefix_preserves steps fs h inv wo (k - 1)
  rw [headAfter_noHa h _ hb] at inv'
  obtain ⟨r, t, hr, ht, hload⟩ := load_of_inv inv'
  obtain ⟨r0, t0, hr0, ht0, hload0⟩ := load_of_inv inv
  have e1 : r = r0 := by
    have := inv'.opsMono h r0 hr0
    rw [show (run fs (List.take (k - 1) steps)).ops = (crash fs steps k).ops from rfl] at this
    have hr' : look h (crash fs steps k).ops = some r := hr
    rw [this] at hr'
    exact (Option.some.inj hr').symm
  subst e1
  have e2 : t = t0 := by
    have := inv'.viewsMono r.view t0 ht0
    have ht' : look r.view (run fs (List.take (k - 1) steps)).views = some t := ht
    rw [this] at ht'
    exact (Option.some.inj ht').symm
  subst e2
  rw [hload0]
  exact hload

/-- **Before or after, nothing in between** — for one transaction (`Transaction::write`,
    `publish`, working-copy update) started in a state with the single head `h`:
    killed at step `k ≤ (#object writes) + 1` (i.e. up to and including the moment `opheads.add`
    is about to be performed) the loader sees exactly the old state; killed at any later step it
    sees exactly the new operation with its view and working-copy tree. -/
theorem crash_before_or_after (fs : Fs) (h : Nat) (P : List Nat) (tx : Tx)
    (inv : RepoInv fs fs h P) (hh : fs.heads = [h]) (hw : fs.wcOp = h) (fr : FreshTx fs h tx)
    (k : Nat) :
    (k ≤ (txPre h tx).length + 1 → load (crash fs (txSteps h tx) k) = load fs) ∧
    ((txPre h tx).length + 2 ≤ k →
      load (crash fs (txSteps h tx) k) = some ⟨tx.op, tx.view, tx.tree⟩) := by
  have wow := txSteps_wellOrderedWc fs h tx hh hw fr
  have wo := wellOrdered_of_wc _ _ wow
  constructor
  · intro hk
    apply crash_before_publish fs h P _ inv wo k
    rw [take_txSteps_pre h tx (k - 1) (by omega)]
    have := txPre_noHa h tx
    rw [List.all_eq_true] at this ⊢
    intro s hs
    exact this s (List.mem_of_mem_take hs)
  · intro hk
    -- restart the argument from the state after the object writes
    have hsplit : wellOrderedWc (afterPre fs h tx) (txPost h tx) = true :=
      txPost_wellOrderedWc fs h tx hh hw fr
    have wo2 := wellOrdered_of_wc _ _ hsplit
    have invA : RepoInv (afterPre fs h tx) (afterPre fs h tx) h [] := by
      have := prefix_preserves (txSteps h tx) fs h inv wo (txPre h tx).length
      rw [take_txSteps_pre h tx _ (Nat.le_refl _), List.take_length, run_txPre,
        headAfter_noHa h _ (txPre_noHa h tx)] at this
      exact ⟨this.heads, this.opRec, by intro a ha; simp at ha, fun _ _ hk => hk, fun _ _ hk => hk⟩
    obtain ⟨m, hmdef⟩ : ∃ m, m = k - 1 - (txPre h tx).length := ⟨_, rfl⟩
    have hm : 1 ≤ m := by omega
    have hcrash : crash fs (txSteps h tx) k = run (afterPre fs h tx) ((txPost h tx).take m) := by
      unfold crash
      rw [take_txSteps_post h tx (k - 1) (by omega), run_append, run_txPre, hmdef]
    have invB := prefix_preserves (txPost h tx) (afterPre fs h tx) h invA wo2 m
    have hhead : headAfter h ((txPost h tx).take m) = tx.op := by
      obtain ⟨m', rfl⟩ : ∃ m', m = m' + 1 := ⟨m - 1, by omega⟩
      unfold txPost
      rw [List.cons_append, List.take_succ_cons, headAfter_cons]
      simp only [nextHead]
      apply headAfter_noHa
      exact all_take _ _ _ (txPost_tail_noHa h tx)
    rw [hhead] at invB
    obtain ⟨r, t, hr, ht, hload⟩ := load_of_inv invB
    have hr0 : look tx.op (afterPre fs h tx).ops = some ⟨[h], tx.view⟩ := by
      simp [afterPre, look_cons]
    have ht0 : look tx.view (afterPre fs h tx).views = some tx.tree := by
      simp [afterPre, look_cons]
    have e1 : r = ⟨[h], tx.view⟩ := by
      have := invB.opsMono _ _ hr0
      rw [this] at hr
      exact (Option.some.inj hr).symm
    subst e1
    have e2 : t = tx.tree := by
      have := invB.viewsMono _ _ ht0
      rw [this] at ht
      exact (Option.some.inj ht).symm
    subst e2
    rw [hcrash, hload]

/-- **The working copy left behind is recoverable** (partial: the file-level merge performed by
    `workspace update-stale` — snapshot of the stale working copy, three-way merge, checkout — is
    *not* modelled here; the harness checks on the real repository that no file is lost).
    Proved: at every crash point of a disciplined writer (`okStep` ∧ `okWc`) whose working copy
    was at the head or one operation behind a fresh head, `check_stale` classifies the working copy
    as fresh or stale — its recorded operation is readable and an ancestor of the head, never a
    sibling — so the documented command applies. -/
theorem wc_recoverable_partial (fs : Fs) (h : Nat) (P : List Nat) (steps : List Step)
    (inv : RepoInv fs fs h P) (wc : WcInv fs h) (wo : wellOrderedWc fs steps = true) (k : Nat) :
    wcStatus (crash fs steps k) = .fresh ∨ wcStatus (crash fs steps k) = .stale := by
  obtain ⟨i1, i2⟩ := prefix_preserves_wc steps fs h inv wc wo (k - 1)
  exact wcStatus_of_inv i1 i2

/-- The working-copy state files are never left in the one combination that would be silently
    wrong: `checkout` naming the loaded head while `tree_state` records another tree.
    (They are (old op, old tree), (old op, new tree) — classified fresh by the tree comparison of
    `check_stale` — or (new op, new tree); `tree_state` is saved before `checkout`.) -/
theorem wc_consistent (fs : Fs) (h : Nat) (P : List Nat) (steps : List Step)
    (inv : RepoInv fs fs h P) (wc : WcInv fs h) (wo : wellOrderedWc fs steps = true) (k : Nat)
    (l : Loaded) (hl : load (crash fs steps k) = some l) (hw : (crash fs steps k).wcOp = l.head) :
    (crash fs steps k).wcTree = l.tree := by
  obtain ⟨i1, i2⟩ := prefix_preserves_wc steps fs h inv wc wo (k - 1)
  exact wc_consistent_of_inv i1 i2 l hl hw

/-- `workspace update-stale` from such a state: every crash point *during the recovery* is again
    fresh-or-stale with the same loaded repository, and the completed recovery is fresh. -/
theorem update_stale_recovers (fs0 fs : Fs) (h : Nat) (P : List Nat) (inv : RepoInv fs0 fs h P)
    (wc : WcInv fs h) (hh : fs.heads = [h]) (l : Loaded) (hl : load fs = some l) (files : Nat) :
    (∀ k, load (crash fs (updateStaleSteps h l.tree files) k) = some l ∧
          (wcStatus (crash fs (updateStaleSteps h l.tree files) k) = .fresh ∨
           wcStatus (crash fs (updateStaleSteps h l.tree files) k) = .stale)) ∧
    wcStatus (run fs (updateStaleSteps h l.tree files)) = .fresh := by
  have invS : RepoInv fs fs h P :=
    ⟨inv.heads, inv.opRec, inv.pub, fun _ _ hk => hk, fun _ _ hk => hk⟩
  have htree : headTree fs h = some l.tree := by
    obtain ⟨r, t, hr, ht, hload⟩ := load_of_inv inv
    rw [hl] at hload
    cases hload
    rw [headTree_of_look hr, ht]
  have wow := updateStale_wellOrderedWc fs h l.tree files hh htree
  have hno : (updateStaleSteps h l.tree files).all noHa = true := by
    simp [updateStaleSteps, noHa]
  constructor
  · intro k
    refine ⟨?_, wc_recoverable_partial fs h P _ invS wc wow k⟩
    rw [crash_before_publish fs h P _ invS (wellOrdered_of_wc _ _ wow) k ?_, hl]
    rw [List.all_eq_true] at hno ⊢
    intro s hs
    exact hno s (List.mem_of_mem_take hs)
  · have hload : load (run fs (updateStaleSteps h l.tree files)) = some l := by
      have := crash_before_publish fs h P _ invS (wellOrdered_of_wc _ _ wow)
        ((updateStaleSteps h l.tree files).length + 1) (by
          rw [List.all_eq_true] at hno ⊢
          intro s hs
          exact hno s (List.mem_of_mem_take hs))
      unfold crash at this
      rw [Nat.add_sub_cancel, List.take_length] at this
      rw [this, hl]
    obtain ⟨r, t, _, _, hl'⟩ := load_of_inv inv
    have hlh : l.head = h := by rw [hl] at hl'; cases hl'; rfl
    unfold wcStatus
    rw [hload]
    simp [run_updateStale, hlh]

/-- The protocol jj implements obeys the discipline, for any number of transactions of one
    command (snapshot + command, …), any number of checkout file updates, with or without index
    segment / tree_state write — provided ids are fresh and content-addressed (`FreshTxs`). -/
theorem cmdSteps_disciplined (fs : Fs) (h : Nat) (txs : List Tx) (hh : fs.heads = [h])
    (hw : fs.wcOp = h) (fr : FreshTxs fs h txs) :
    wellOrderedWc fs (cmdSteps h txs) = true ∧ wellOrdered fs (cmdSteps h txs) = true :=
  ⟨cmdSteps_wellOrderedWc txs fs h hh hw fr, wellOrdered_of_wc _ _ (cmdSteps_wellOrderedWc txs fs h hh hw fr)⟩

/-- … hence every crash point of a whole command is safe (repo loads at the last published
    operation, working copy fresh or stale). -/
theorem cmd_crash_safe (fs : Fs) (h : Nat) (P : List Nat) (txs : List Tx) (inv : RepoInv fs fs h P)
    (hh : fs.heads = [h]) (hw : fs.wcOp = h) (ht : headTree fs h = some fs.wcTree)
    (fr : FreshTxs fs h txs) (k : Nat) :
    (∃ l, load (crash fs (cmdSteps h txs) k) = some l ∧
      l.head = headAfter h ((cmdSteps h txs).take (k - 1)) ∧
      (∀ a ∈ P, ∃ n, isAnc (crash fs (cmdSteps h txs) k).ops n [l.head] a = true)) ∧
    (wcStatus (crash fs (cmdSteps h txs) k) = .fresh ∨
      wcStatus (crash fs (cmdSteps h txs) k) = .stale) := by
  obtain ⟨w1, w2⟩ := cmdSteps_disciplined fs h txs hh hw fr
  obtain ⟨l, hl, hhd, hp, _, _⟩ := crash_prefix_loads fs h P _ inv w2 k
  exact ⟨⟨l, hl, hhd, hp⟩, wc_recoverable_partial fs h P _ inv (Or.inl ⟨hw, hh, ht⟩) w1 k⟩

/-! ## The discipline is necessary: a writer that publishes before writing the operation file
    leaves an unloadable repository at some crash point (the model notices the mutation). -/

theorem publish_before_write_breaks :
    wellOrdered (initFs 3 0 0 2 0) [.ha 3, .wv 1 1, .wo 3 ⟨[2], 1⟩] = false ∧
    load (crash (initFs 3 0 0 2 0) [.ha 3, .wv 1 1, .wo 3 ⟨[2], 1⟩] 2) = none := by
  decide

/-! ## Non-vacuity: the hypotheses hold of the schematic repository the driver starts from -/

/-- the schematic repository every driver request starts from satisfies the invariant -/
theorem initFs_inv (n v0 t0 w wt : Nat) :
    RepoInv (initFs n v0 t0 w wt) (initFs n v0 t0 w wt) (n - 1) [] := by
  refine ⟨Or.inl rfl,
    ⟨⟨if n - 1 = 0 then [] else [n - 2], v0⟩, t0, by simp [initFs, look_cons], by simp [initFs, look_cons]⟩, ?_,
    fun _ _ hk => hk, fun _ _ hk => hk⟩
  intro a ha
  simp at ha

theorem initFs_inv3 : RepoInv (initFs 3 0 0 2 0) (initFs 3 0 0 2 0) 2 [0, 1, 2] := by
  refine ⟨Or.inl rfl, ⟨⟨[1], 0⟩, 0, by decide, by decide⟩, ?_, fun _ _ hk => hk, fun _ _ hk => hk⟩
  intro a ha
  refine ⟨3, ?_⟩
  simp only [List.mem_cons, List.not_mem_nil, or_false] at ha
  rcases ha with rfl | rfl | rfl <;> decide

def exTxs : List Tx := [⟨3, 1, 1, true, 2, true⟩, ⟨4, 2, 1, true, 0, false⟩]

example : FreshTxs (initFs 3 0 0 2 0) 2 exTxs := by
  refine ⟨⟨by decide, ?_, ?_, ?_, by decide⟩, ⟨by decide, ?_, ?_, ?_, by decide⟩, trivial⟩
  · exact (notMentioned_iff _ _).mp (by decide)
  · intro r' hr'
    have : look 3 (initFs 3 0 0 2 0).ops = none := by decide
    rw [show (⟨3, 1, 1, true, 2, true⟩ : Tx).op = 3 from rfl, this] at hr'
    cases hr'
  · intro t' ht'
    have : look 1 (initFs 3 0 0 2 0).views = none := by decide
    rw [show (⟨3, 1, 1, true, 2, true⟩ : Tx).view = 1 from rfl, this] at ht'
    cases ht'
  · exact (notMentioned_iff _ _).mp (by decide)
  · intro r' hr'
    have : look 4 (afterTx (initFs 3 0 0 2 0) 2 ⟨3, 1, 1, true, 2, true⟩).ops = none := by decide
    rw [show (⟨4, 2, 1, true, 0, false⟩ : Tx).op = 4 from rfl, this] at hr'
    cases hr'
  · intro t' ht'
    have : look 2 (afterTx (initFs 3 0 0 2 0) 2 ⟨3, 1, 1, true, 2, true⟩).views = none := by decide
    rw [show (⟨4, 2, 1, true, 0, false⟩ : Tx).view = 2 from rfl, this] at ht'
    cases ht'

example : wellOrderedWc (initFs 3 0 0 2 0) (cmdSteps 2 exTxs) = true := by decide
example : WcInv (initFs 3 0 0 2 0) 2 := Or.inl ⟨rfl, rfl, by decide⟩
-- the mutation "checkout saved before tree_state" violates the working-copy discipline
example : wellOrderedWc (initFs 3 0 0 2 0)
    [.wv 1 1, .wo 3 ⟨[2], 1⟩, .wl 3, .ha 3, .hr 2, .wf, .sc 3, .st 1] = false := by decide
-- the crash points of `jj new bm`-like traces: before / stale / fresh-after-tree_state
example : (load (crash (initFs 3 0 0 2 0) (cmdSteps 2 exTxs) 5)).map (·.head) = some 2 := by decide
example : wcStatus (crash (initFs 3 0 0 2 0) (cmdSteps 2 exTxs) 8) = .stale := by decide
example : wcStatus (crash (initFs 3 0 0 2 0) (cmdSteps 2 exTxs) 10) = .fresh := by decide
example : (load (crash (initFs 3 0 0 2 0) (cmdSteps 2 exTxs) 17)).map (·.head) = some 4 := by decide

end JjModel.C15
