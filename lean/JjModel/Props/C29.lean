import JjModel.Lemmas.Eol
/-!
  C29 — Line-ending conversion round-trips normalized content.

  All theorems are about the model definitions the driver runs (`JjModel.Eol.update`,
  `JjModel.Eol.snapshot`, i.e. `convertEolForUpdate/Snapshot` at the `PROBE_LIMIT` translated from
  `lib/src/eol.rs`), and most are proved for every probe limit.
  `NoCRLF x`: the stored content has LF line endings only (`\r\n` is not an infix of `x`).
-/
namespace JjModel.C29
open JjModel.Eol

/-- "stored with LF line endings": the byte pair `\r\n` does not occur -/
def NoCRLF (x : Bytes) : Prop := ¬ ([13, 10] : Bytes) <:+: x

/-- text, as classified by the implementation's probe over the first `limit` bytes -/
def IsText (limit : Nat) (x : Bytes) : Prop := probeForBinary limit x = false

/-- every `\n` is immediately preceded by a `\r` -/
def CrlfForm (y : Bytes) : Prop := ∀ i : Nat, y[i]? = some 10 → ∃ j, i = j + 1 ∧ y[j]? = some 13

/-! ### helper facts -/

theorem noCRLF_cons_cons (b c : UInt8) (rest : Bytes) :
    NoCRLF (b :: c :: rest) ↔ ¬ (b = 13 ∧ c = 10) ∧ NoCRLF (c :: rest) := by
  unfold NoCRLF
  rw [List.infix_cons_iff]
  have : ([13, 10] : Bytes) <+: b :: c :: rest ↔ (b = 13 ∧ c = 10) := by
    constructor
    · rintro ⟨t, ht⟩
      simp at ht
      exact ⟨ht.1.symm, ht.2.1.symm⟩
    · rintro ⟨rfl, rfl⟩; exact ⟨rest, rfl⟩
  rw [this]
  exact not_or

theorem noCRLF_single (b : UInt8) : NoCRLF [b] := by
  intro h; have := h.length_le; simp at this

theorem head?_toCrlf (x : Bytes) : (toCrlf x).head? ≠ some 10 := by
  fun_induction toCrlf x <;> simp_all

theorem toLf_cons_of_head (b : UInt8) (l : Bytes) (h : l.head? ≠ some 10) :
    toLf (b :: l) = b :: toLf l := by
  cases l with
  | nil => simp [toLf]
  | cons c r =>
    have : c ≠ 10 := by simpa using h
    simp [toLf, this]

/-- dropping the `\r` of every `\r\n` undoes the LF→CRLF conversion of LF-only content -/
theorem toLf_toCrlf (x : Bytes) (h : NoCRLF x) : toLf (toCrlf x) = x := by
  fun_induction toCrlf x with
  | case1 => rfl
  | case2 => simp [toLf]
  | case3 b hb => simp [toLf]
  | case4 b c rest hbc ih => exact absurd hbc ((noCRLF_cons_cons b c rest).mp h).1
  | case5 c rest hc ih =>
    have := ih ((noCRLF_cons_cons _ _ _).mp h).2
    simp [toLf, this]
  | case6 b c rest hbc hb ih =>
    have := ih ((noCRLF_cons_cons _ _ _).mp h).2
    rw [toLf_cons_of_head _ _ (head?_toCrlf _), this]

theorem crlfForm_toCrlf (x : Bytes) : CrlfForm (toCrlf x) := by
  have step1 : ∀ (b : UInt8) (t : Bytes), b ≠ 10 → CrlfForm t → CrlfForm (b :: t) := by
    intro b t hb ht i hi
    cases i with
    | zero => simp at hi; exact absurd hi hb
    | succ k =>
      obtain ⟨j, rfl, hj⟩ := ht k (by simpa using hi)
      exact ⟨j + 1, rfl, by simpa using hj⟩
  have step2 : ∀ t : Bytes, CrlfForm t → CrlfForm (13 :: 10 :: t) := by
    intro t ht i hi
    match i with
    | 0 => simp at hi
    | 1 => exact ⟨0, rfl, rfl⟩
    | k + 2 =>
      obtain ⟨j, rfl, hj⟩ := ht k (by simpa using hi)
      exact ⟨j + 2, rfl, by simpa using hj⟩
  have nil : CrlfForm [] := by intro i hi; simp at hi
  fun_induction toCrlf x with
  | case1 => exact nil
  | case2 => exact step2 _ nil
  | case3 b hb => exact step1 _ _ hb nil
  | case4 b c rest hbc ih => exact step2 _ ih
  | case5 c rest hc ih => exact step2 _ ih
  | case6 b c rest hbc hb ih => exact step1 _ _ hb ih

/-! ### what the two directions compute -/

theorem update_io_text (limit : Nat) (x : Bytes) (h : IsText limit x) :
    convertEolForUpdate limit .inputOutput x = toCrlf x := by
  unfold IsText at h
  simp [convertEolForUpdate, h, convertEol_crlf]

theorem snapshot_text (limit : Nat) (m : EolConversionMode) (hm : m ≠ .none) (d : Bytes)
    (h : IsText limit d) : convertEolForSnapshot limit m d = toLf d := by
  unfold IsText at h
  cases m <;> simp_all [convertEolForSnapshot, convertEol_lf]

/-- **probe stability** (the probe-window subtlety): content classified as text stays classified
as text after its LFs were expanded to CRLF, although the window then covers fewer source bytes
and may end between an inserted `\r` and its `\n`. -/
theorem probe_stable (limit : Nat) (x : Bytes) (h : IsText limit x) :
    IsText limit (convertEol x .crlf) := by
  unfold IsText at *
  rw [convertEol_crlf, probeForBinary_eq_win] at *
  exact win_toCrlf limit x h

/-! ### the property -/

/-- Files classified as binary pass through unchanged in both directions (every mode). -/
theorem binary_passthrough (limit : Nat) (m : EolConversionMode) (x : Bytes)
    (h : probeForBinary limit x = true) :
    convertEolForUpdate limit m x = x ∧ convertEolForSnapshot limit m x = x := by
  cases m <;> simp [convertEolForUpdate, convertEolForSnapshot, h, convertEol]

/-- Input-only conversion: checkout writes the stored bytes verbatim. -/
theorem input_only_update_verbatim (limit : Nat) (x : Bytes) :
    convertEolForUpdate limit .input x = x := rfl

theorem none_mode_identity (limit : Nat) (x : Bytes) :
    convertEolForUpdate limit .none x = x ∧ convertEolForSnapshot limit .none x = x :=
  ⟨rfl, rfl⟩

/-- Input-output conversion writes text with CRLF endings: every `\n` on disk is preceded by a
`\r`, and (for LF-only stored content) removing those `\r`s gives the stored content back. -/
theorem update_writes_crlf (limit : Nat) (x : Bytes) (h : IsText limit x) :
    CrlfForm (convertEolForUpdate limit .inputOutput x) ∧
    (NoCRLF x → toLf (convertEolForUpdate limit .inputOutput x) = x) := by
  rw [update_io_text limit x h]
  exact ⟨crlfForm_toCrlf x, toLf_toCrlf x⟩

/-- **Round trip** under input-output conversion, for every stored content with LF line endings
(text or binary, any length, any probe limit). -/
theorem input_output_roundtrip (limit : Nat) (x : Bytes) (h : NoCRLF x) :
    convertEolForSnapshot limit .inputOutput (convertEolForUpdate limit .inputOutput x) = x := by
  by_cases hb : probeForBinary limit x = true
  · rw [(binary_passthrough limit .inputOutput x hb).1, (binary_passthrough limit .inputOutput x hb).2]
  · have ht : IsText limit x := by simpa [IsText] using hb
    have hs := probe_stable limit x ht
    rw [convertEol_crlf] at hs
    rw [update_io_text limit x ht, snapshot_text limit .inputOutput (by decide) _ hs]
    exact toLf_toCrlf x h

/-- … and checkout under input-only followed by snapshot is the identity on LF-only content too -/
theorem input_only_roundtrip (limit : Nat) (x : Bytes) (h : NoCRLF x) :
    convertEolForSnapshot limit .input (convertEolForUpdate limit .input x) = x := by
  rw [input_only_update_verbatim]
  by_cases hb : probeForBinary limit x = true
  · exact (binary_passthrough limit .input x hb).2
  · have ht : IsText limit x := by simpa [IsText] using hb
    rw [snapshot_text limit .input (by decide) _ ht]
    have hnl : ∀ x : Bytes, NoCRLF x → toLf x = x := by
      intro x
      fun_induction toLf x with
      | case1 => intro _; rfl
      | case2 b => intro _; rfl
      | case3 b c rest hbc ih => intro h; exact absurd hbc ((noCRLF_cons_cons b c rest).mp h).1
      | case4 b c rest hbc ih => intro h; rw [ih ((noCRLF_cons_cons b c rest).mp h).2]
    exact hnl x h

/-! ### the same statements for the functions the driver runs (`PROBE_LIMIT` from the source) -/

theorem roundtrip (x : Bytes) (h : NoCRLF x) : snapshot .inputOutput (update .inputOutput x) = x :=
  input_output_roundtrip _ x h

theorem update_text_crlf (x : Bytes) (h : IsText Generated.eolProbeLimit x) :
    CrlfForm (update .inputOutput x) ∧ (NoCRLF x → toLf (update .inputOutput x) = x) :=
  update_writes_crlf _ x h

theorem binary_unchanged (m : EolConversionMode) (x : Bytes)
    (h : probeForBinary Generated.eolProbeLimit x = true) : update m x = x ∧ snapshot m x = x :=
  binary_passthrough _ m x h

theorem input_only_verbatim (x : Bytes) : update .input x = x := rfl

/-! ### the forced hypothesis, and non-vacuity -/

/-- Without `NoCRLF` the round trip normalises: stored `a\r\n` comes back as `a\n`
(consistent with the property's premise "stored with LF line endings"). -/
theorem crlf_content_normalised :
    snapshot .inputOutput (update .inputOutput [97, 13, 10]) = [97, 10] := by
  have ht : IsText Generated.eolProbeLimit [97, 13, 10] := by
    unfold IsText; rw [probeForBinary_eq_win]; simp [Generated.eolProbeLimit, win]
  have hs := probe_stable _ _ ht
  rw [convertEol_crlf] at hs
  unfold snapshot update
  rw [update_io_text _ _ ht, snapshot_text _ .inputOutput (by decide) _ hs]
  simp [toCrlf, toLf]

/-- `a\nb\n` is LF-only text; its disk form is `a\r\nb\r\n`. -/
example : NoCRLF [97, 10, 98, 10] ∧ IsText Generated.eolProbeLimit [97, 10, 98, 10] ∧
    update .inputOutput [97, 10, 98, 10] = [97, 13, 10, 98, 13, 10] := by
  have ht : IsText Generated.eolProbeLimit [97, 10, 98, 10] := by
    unfold IsText; rw [probeForBinary_eq_win]; simp [Generated.eolProbeLimit, win]
  refine ⟨?_, ht, ?_⟩
  · simp [noCRLF_cons_cons, noCRLF_single]
  · unfold update; rw [update_io_text _ _ ht]; simp [toCrlf]

/-- a NUL byte makes the content binary -/
example : probeForBinary Generated.eolProbeLimit [97, 0, 10] = true := by
  rw [probeForBinary_eq_win]; simp [Generated.eolProbeLimit, win]

end JjModel.C29
