import JjModel.Lemmas.GitExport
/-!
  C34 — Git import and export converge without dropping updates.

  Statements about `Model/GitSync.lean`: `importRefs` (`import_refs` / `import_some_refs`) and
  `exportRefs` (`export_refs`).  `keys` is the set of refs the operation looks at (all bookmark
  refs of the names and remotes in play; distinct).  `(n, 0)` is the Git branch `refs/heads/n`
  = jj's `n@git`; `v.locals n` the local bookmark; `(v.remotes (n,0)).target` the `@git` record;
  `v.gitRefs (n,0)` jj's record of the last imported/exported position of the Git ref.
-/
namespace JjModel.C34
open JjModel.GitSync

/-- **import_idempotent**: an import directly after an import changes nothing (the whole view). -/
theorem import_idempotent (anc : Nat → Nat → Bool) (auto : Bool) (keys : List Key) (hnd : keys.Nodup)
    (v : View) (git : Git) :
    importRefs anc auto keys (importRefs anc auto keys v git) git = importRefs anc auto keys v git :=
  importRefs_of_synced anc auto keys _ git (importRefs_synced anc auto keys hnd v git)

/-- after an import jj's records (`git_refs` and the remote-tracking targets) are exactly Git's refs -/
theorem import_records_git (anc : Nat → Nat → Bool) (auto : Bool) (keys : List Key) (hnd : keys.Nodup)
    (v : View) (git : Git) (k : Key) (hk : k ∈ keys) :
    (importRefs anc auto keys v git).gitRefs k = ofOpt (git k) ∧
    ((importRefs anc auto keys v git).remotes k).target = ofOpt (git k) :=
  importRefs_synced anc auto keys hnd v git k hk

/-- **one_sided_change_propagates (jj side)** — the export of one branch whose Git ref has not moved
since jj last looked (`git_refs` record = Git's value): whatever non-conflicted position the local
bookmark has (created, moved, deleted or unchanged; not the root commit, which Git cannot hold), the
export writes it: afterwards the Git branch, the `git_refs` record and the `@git` record all equal the
local bookmark, the bookmark itself is untouched and the branch is not reported failed. -/
theorem export_writes_jj_change (root : Nat) (keys : List Key) (hnd : keys.Nodup) (v : View) (git : Git)
    (n : Nat) (hk : (n, 0) ∈ keys)
    (hrec : v.gitRefs (n, 0) = ofOpt (git (n, 0)))
    (hres : hasConflict (v.locals n) = false) (hroot : v.locals n ≠ normal root) :
    (exportRefs root keys v git).git (n, 0) = asNormal (v.locals n) ∧
    (exportRefs root keys v git).view.gitRefs (n, 0) = v.locals n ∧
    ((exportRefs root keys v git).view.remotes (n, 0)).target = v.locals n ∧
    (exportRefs root keys v git).view.locals n = v.locals n ∧
    isFailed (exportRefs root keys v git).failed (n, 0) = false := by
  obtain ⟨hloc, hobs, hfailed, _, htarget⟩ := exportRefs_spec root keys hnd v git
  -- the local bookmark is `[x]`
  obtain ⟨x, hx⟩ : ∃ x, v.locals n = ofOpt x := ⟨asNormal (v.locals n), (ofOpt_asNormal _ hres).symm⟩
  have hitem : exportItem root v (n, 0) = classifyExport root (ofOpt (git (n, 0))) (ofOpt x) := by
    unfold exportItem exportNewTarget
    rw [hrec, if_pos rfl, hx]
  have hroot' : ofOpt x ≠ normal root := by rw [← hx]; exact hroot
  obtain ⟨hnofail, hdel, hupd, hskip⟩ := resolved_export_outcome root (n, 0) (git (n, 0)) x hroot'
  -- not reported failed
  have hnf : isFailed (exportRefsToGit v git (diffRefsToExport root keys v)).failed (n, 0) = false := by
    rw [isFailed_false_iff]
    intro y hy hyk
    obtain ⟨_, h⟩ := exportRefsToGit_failed root keys hnd v git y hy
    rw [hyk, hitem] at h
    rcases h with h | ⟨o, h1, h2⟩ | ⟨old, c, h1, h2⟩
    · exact hnofail _ h
    · rw [(hdel o h1).1] at h2; cases h2
    · rw [(hupd old c h1).1] at h2; cases h2
  -- the Git ref and its record
  have hgo : obs (exportRefsToGit v git (diffRefsToExport root keys v)) (n, 0) = (x, ofOpt x) := by
    rw [exportRefsToGit_obs root keys hnd v git, if_pos hk, hitem, hrec]
    cases hi : classifyExport root (ofOpt (git (n, 0))) (ofOpt x) with
    | skip => simp only; rw [hskip hi]
    | fail r => exact absurd hi (hnofail r)
    | delete o => exact (hdel o hi).2
    | update old c => exact (hupd old c hi).2
  have h1 := hobs (n, 0)
  rw [hgo] at h1
  have hg := congrArg Prod.fst h1
  have hr := congrArg Prod.snd h1
  simp only at hg hr
  refine ⟨by rw [hg, hx]; simp, by rw [hr, hx], ?_, by rw [hloc], by rw [hfailed]; exact hnf⟩
  rw [htarget n hk]
  split
  · rfl
  · next hc =>
    unfold copyCond at hc
    rw [hnf, hres] at hc
    simpa using hc

/-- **import_export_converges**: after `import; export` every non-conflicted local bookmark (not on
the root commit) equals the Git branch, the `@git` record and the `git_refs` record. -/
theorem import_export_converges (anc : Nat → Nat → Bool) (auto : Bool) (root : Nat) (keys : List Key)
    (hnd : keys.Nodup) (v : View) (git : Git) (n : Nat) (hk : (n, 0) ∈ keys)
    (hres : hasConflict ((importRefs anc auto keys v git).locals n) = false)
    (hroot : (importRefs anc auto keys v git).locals n ≠ normal root) :
    (exportRefs root keys (importRefs anc auto keys v git) git).git (n, 0) =
      asNormal ((exportRefs root keys (importRefs anc auto keys v git) git).view.locals n) ∧
    ((exportRefs root keys (importRefs anc auto keys v git) git).view.remotes (n, 0)).target =
      (exportRefs root keys (importRefs anc auto keys v git) git).view.locals n ∧
    (exportRefs root keys (importRefs anc auto keys v git) git).view.gitRefs (n, 0) =
      (exportRefs root keys (importRefs anc auto keys v git) git).view.locals n := by
  have h := export_writes_jj_change root keys hnd (importRefs anc auto keys v git) git n hk
    (importRefs_synced anc auto keys hnd v git (n, 0) hk).1 hres hroot
  obtain ⟨h1, h2, h3, h4, _⟩ := h
  rw [h4]
  exact ⟨h1, h3, h2⟩

/-- an export started from records that agree with Git leaves them agreeing with Git -/
theorem export_preserves_synced (root : Nat) (keys : List Key) (hnd : keys.Nodup) (v : View) (git : Git)
    (hs : Synced keys v git) :
    Synced keys (exportRefs root keys v git).view (exportRefs root keys v git).git := by
  obtain ⟨hloc, hobs, hfailed, hrem, htarget⟩ := exportRefs_spec root keys hnd v git
  intro k hk
  obtain ⟨hs1, hs2⟩ := hs k hk
  by_cases hk0 : k.2 = 0
  · obtain ⟨n, r⟩ := k
    simp only at hk0
    subst hk0
    by_cases hres : hasConflict (v.locals n) = false
    · by_cases hroot : v.locals n = normal root
      · -- refused: Git cannot hold the root commit (unless nothing has to be written)
        have hitem : exportItem root v (n, 0) = classifyExport root (ofOpt (git (n, 0))) (normal root) := by
          unfold exportItem exportNewTarget
          rw [hs1, if_pos rfl, hroot]
        by_cases heq : normal root = ofOpt (git (n, 0))
        · -- (cannot really happen: Git has no root commit) nothing to write
          have hgo : obs (exportRefsToGit v git (diffRefsToExport root keys v)) (n, 0) = (git (n, 0), v.gitRefs (n, 0)) := by
            rw [exportRefsToGit_obs root keys hnd v git, if_pos hk, hitem]
            simp [classifyExport, heq]
          have h1 := hobs (n, 0)
          rw [hgo] at h1
          have hg := congrArg Prod.fst h1
          have hr := congrArg Prod.snd h1
          simp only at hg hr
          refine ⟨by rw [hr, hg, hs1], ?_⟩
          rw [htarget n hk, hg]
          split
          · rw [hroot, heq]
          · exact hs2
        · have hfail : exportItem root v (n, 0) = .fail .onRootCommit := by
            rw [hitem]; simp [classifyExport, heq]
          have hgo : obs (exportRefsToGit v git (diffRefsToExport root keys v)) (n, 0) = (git (n, 0), v.gitRefs (n, 0)) := by
            rw [exportRefsToGit_obs root keys hnd v git, if_pos hk, hfail]
          have h1 := hobs (n, 0)
          rw [hgo] at h1
          have hg := congrArg Prod.fst h1
          have hr := congrArg Prod.snd h1
          simp only at hg hr
          refine ⟨by rw [hr, hg, hs1], ?_⟩
          rw [htarget n hk, hg]
          have hf : isFailed (exportRefsToGit v git (diffRefsToExport root keys v)).failed (n, 0) = true :=
            (isFailed_true_iff _ _).mpr ⟨_, exportRefsToGit_failed_of_item root keys v git (n, 0) _ hk hfail, rfl⟩
          simp [copyCond, hf, hs2]
      · have h := export_writes_jj_change root keys hnd v git n hk hs1 hres hroot
        obtain ⟨h1, h2, h3, _, _⟩ := h
        rw [h1, h2, h3]
        exact ⟨(ofOpt_asNormal _ hres).symm, (ofOpt_asNormal _ hres).symm⟩
    · -- conflicted bookmark: skipped
      have hres' : hasConflict (v.locals n) = true := by simpa using hres
      have hitem : exportItem root v (n, 0) = .skip := by
        unfold exportItem exportNewTarget
        rw [hs1, if_pos rfl]
        exact classifyExport_conflicted root _ _ hres'
      have hgo : obs (exportRefsToGit v git (diffRefsToExport root keys v)) (n, 0) = (git (n, 0), v.gitRefs (n, 0)) := by
        rw [exportRefsToGit_obs root keys hnd v git, if_pos hk, hitem]
      have h1 := hobs (n, 0)
      rw [hgo] at h1
      have hg := congrArg Prod.fst h1
      have hr := congrArg Prod.snd h1
      simp only at hg hr
      refine ⟨by rw [hr, hg, hs1], ?_⟩
      rw [htarget n hk, hg]
      simp [copyCond, hres', hs2]
  · -- a remote-tracking ref of another remote: exported as recorded, i.e. nothing to do
    have hitem : exportItem root v k = .skip := by
      unfold exportItem exportNewTarget
      rw [if_neg hk0, hs1, hs2]
      simp [classifyExport]
    have hgo : obs (exportRefsToGit v git (diffRefsToExport root keys v)) k = (git k, v.gitRefs k) := by
      rw [exportRefsToGit_obs root keys hnd v git, if_pos hk, hitem]
    have h1 := hobs k
    rw [hgo] at h1
    have hg := congrArg Prod.fst h1
    have hr := congrArg Prod.snd h1
    simp only at hg hr
    exact ⟨by rw [hr, hg, hs1], by rw [hrem k hk0, hg, hs2]⟩

/-- **second import changes nothing**: after `import; export`, a further import leaves the whole view
as it is. -/
theorem import_export_import_noop (anc : Nat → Nat → Bool) (auto : Bool) (root : Nat) (keys : List Key)
    (hnd : keys.Nodup) (v : View) (git : Git) :
    importRefs anc auto keys (exportRefs root keys (importRefs anc auto keys v git) git).view
      (exportRefs root keys (importRefs anc auto keys v git) git).git =
    (exportRefs root keys (importRefs anc auto keys v git) git).view :=
  importRefs_of_synced anc auto keys _ _
    (export_preserves_synced root keys hnd _ git (importRefs_synced anc auto keys hnd v git))

/-- **one_sided_change_propagates (Git side)**: the local bookmark equals its tracked `@git` record
(nothing happened to it in jj since the last sync) and no other remote's ref of that name moved:
the import adopts Git's position, whatever it is (created, moved, deleted, unchanged). -/
theorem import_adopts_git_change (anc : Nat → Nat → Bool) (auto : Bool) (keys : List Key) (hnd : keys.Nodup)
    (v : View) (git : Git) (n : Nat) (hk : (n, 0) ∈ keys)
    (hjj : v.remotes (n, 0) = ⟨v.locals n, true⟩)
    (hothers : ∀ k ∈ keys, k.1 = n → k ≠ (n, 0) → diffRemote v git k = none) :
    (importRefs anc auto keys v git).locals n = ofOpt (git (n, 0)) := by
  cases hd : diffRemote v git (n, 0) with
  | none =>
    rw [importRefs_locals_untouched anc auto keys v git n]
    · have := diffRemote_none v git (n, 0) hd
      rw [hjj] at this
      exact this
    · intro k hk' hkn
      by_cases hkk : k = (n, 0)
      · rw [hkk]; exact hd
      · exact hothers k hk' hkn hkk
  | some u0 =>
    have h := importRefs_locals_single anc auto keys hnd v git (n, 0) hk u0 hd hothers
    simp only at h
    obtain ⟨_, hold, _⟩ := diffRemote_key v git (n, 0) u0 hd
    have htr : updTracked auto u0 = true := by
      unfold updTracked
      rw [hold, hjj]
      simp [RemoteRef.absentRef]
    rw [h, htr, hjj]
    simp only [RemoteRef.trackedTarget, if_true]
    exact mergeRefTargets_left_unchanged anc _ _

/-- **two_sided_conflict_recorded**: the bookmark was at `b` at the last sync (tracked `@git` record),
jj moved it to `l`, Git moved the branch to `g`, all different, and neither new position is an
ancestor of the other (an absent side — a deletion — is unrelated to everything).  Then the import
turns the local bookmark into the conflict `[l, b, g]` that holds both new values; the following
export skips it: Git's branch keeps Git's value, the bookmark keeps the conflict — nothing is
overwritten. -/
theorem two_sided_conflict_recorded (anc : Nat → Nat → Bool) (auto : Bool) (root : Nat) (keys : List Key)
    (hnd : keys.Nodup) (v : View) (git : Git) (n : Nat) (hk : (n, 0) ∈ keys) (l b : Option Nat)
    (hloc : v.locals n = [l]) (hrec : v.remotes (n, 0) = ⟨[b], true⟩)
    (hlb : l ≠ b) (hgb : git (n, 0) ≠ b) (hlg : l ≠ git (n, 0)) (hun : Unrelated anc l (git (n, 0)))
    (hothers : ∀ k ∈ keys, k.1 = n → k ≠ (n, 0) → diffRemote v git k = none) :
    (importRefs anc auto keys v git).locals n = [l, b, git (n, 0)] ∧
    hasConflict ((importRefs anc auto keys v git).locals n) = true ∧
    (exportRefs root keys (importRefs anc auto keys v git) git).git (n, 0) = git (n, 0) ∧
    (exportRefs root keys (importRefs anc auto keys v git) git).view.locals n = [l, b, git (n, 0)] := by
  have himp : (importRefs anc auto keys v git).locals n = [l, b, git (n, 0)] := by
    cases hd : diffRemote v git (n, 0) with
    | none =>
      have := diffRemote_none v git (n, 0) hd
      rw [hrec] at this
      simp only [ofOpt, List.cons.injEq, and_true] at this
      exact absurd this.symm hgb
    | some u0 =>
      have h := importRefs_locals_single anc auto keys hnd v git (n, 0) hk u0 hd hothers
      simp only at h
      obtain ⟨_, hold, _⟩ := diffRemote_key v git (n, 0) u0 hd
      have htr : updTracked auto u0 = true := by
        unfold updTracked
        rw [hold, hrec]
        simp [RemoteRef.absentRef]
      rw [h, htr, hrec, hloc]
      simp only [RemoteRef.trackedTarget, if_true]
      exact mergeRefTargets_conflict anc l b (git (n, 0)) hlb hgb hlg hun
  have hconf : hasConflict ((importRefs anc auto keys v git).locals n) = true := by
    rw [himp]; simp [hasConflict]
  obtain ⟨hloc', hobs, _, _, _⟩ := exportRefs_spec root keys hnd (importRefs anc auto keys v git) git
  have hs := importRefs_synced anc auto keys hnd v git (n, 0) hk
  have hitem : exportItem root (importRefs anc auto keys v git) (n, 0) = .skip := by
    unfold exportItem exportNewTarget
    rw [hs.1, if_pos rfl]
    exact classifyExport_conflicted root _ _ hconf
  have hgo := exportRefsToGit_obs root keys hnd (importRefs anc auto keys v git) git (n, 0)
  rw [if_pos hk, hitem] at hgo
  have h1 := hobs (n, 0)
  rw [hgo] at h1
  have hg := congrArg Prod.fst h1
  simp only at hg
  exact ⟨himp, hconf, hg, by rw [hloc', himp]⟩

/-- **never overwritten**: an export changes a Git ref only if the ref still has the value jj recorded
for it (`git_refs`) — a ref that moved in Git since jj last looked is left alone, whatever jj wants to
write. -/
theorem export_never_overwrites (root : Nat) (keys : List Key) (hnd : keys.Nodup) (v : View) (git : Git)
    (k : Key) (hchg : (exportRefs root keys v git).git k ≠ git k) : v.gitRefs k = ofOpt (git k) := by
  obtain ⟨_, hobs, _, _, _⟩ := exportRefs_spec root keys hnd v git
  have h1 := hobs k
  rw [exportRefsToGit_obs root keys hnd v git] at h1
  have hg := congrArg Prod.fst h1
  simp only at hg
  rw [hg] at hchg
  by_cases hk : k ∈ keys
  · rw [if_pos hk] at hchg
    cases hi : exportItem root v k with
    | skip => rw [hi] at hchg; exact absurd rfl hchg
    | fail r => rw [hi] at hchg; exact absurd rfl hchg
    | delete o =>
      rw [hi] at hchg
      obtain ⟨hold, _⟩ := classifyExport_delete root _ _ o hi
      rw [hold]
      simp only [fDel, delRes] at hchg
      cases hc : git k with
      | none => rw [hc] at hchg; exact absurd rfl hchg
      | some c =>
        rw [hc] at hchg
        by_cases hco : c = o
        · rw [hco]; rfl
        · simp [hco] at hchg
    | update old c =>
      rw [hi] at hchg
      obtain ⟨hold, _, _⟩ := classifyExport_update root _ _ old c hi
      rw [hold]
      simp only [fUpd, updRes] at hchg
      cases old with
      | none =>
        cases hc : git k with
        | none => rfl
        | some c' =>
          rw [hc] at hchg
          by_cases hcc : c' = c <;> simp [hcc] at hchg
      | some o =>
        cases hc : git k with
        | none => rw [hc] at hchg; simp at hchg
        | some c' =>
          rw [hc] at hchg
          by_cases hco : c' = o
          · rw [hco]
          · by_cases hcc : c' = c <;> simp [hco, hcc] at hchg
  · rw [if_neg hk] at hchg
    exact absurd rfl hchg

/-- a failed compare-and-swap leaves the ref where it is -/
theorem delRes_err (cur : Option Nat) (o : Nat) (r : FailReason) (h : (delRes cur o).1 = some r) :
    (delRes cur o).2 = cur := by
  unfold delRes at h ⊢
  cases cur with
  | none => simp at h
  | some c => by_cases hco : c = o <;> simp [hco] at h ⊢

theorem updRes_err (cur old : Option Nat) (c : Nat) (r : FailReason) (h : (updRes cur old c).1 = some r) :
    (updRes cur old c).2 = cur := by
  unfold updRes at h ⊢
  cases old with
  | none =>
    cases cur with
    | none => simp at h
    | some c' => by_cases hcc : c' = c <;> simp [hcc] at h ⊢
  | some o =>
    cases cur with
    | none => simp
    | some c' =>
      by_cases hco : c' = o
      · simp [hco] at h
      · by_cases hcc : c' = c <;> simp [hco, hcc] at h ⊢

/-- **failed exports are recorded and change nothing**: a branch reported in `failed_bookmarks` keeps
its Git value, its `git_refs` record and its `@git` record (so the next import still sees the
difference and the next export retries). -/
theorem failed_export_leaves_state (root : Nat) (keys : List Key) (hnd : keys.Nodup) (v : View) (git : Git)
    (n : Nat) (hf : isFailed (exportRefs root keys v git).failed (n, 0) = true) :
    (exportRefs root keys v git).git (n, 0) = git (n, 0) ∧
    (exportRefs root keys v git).view.gitRefs (n, 0) = v.gitRefs (n, 0) ∧
    ((exportRefs root keys v git).view.remotes (n, 0)).target = (v.remotes (n, 0)).target ∧
    (exportRefs root keys v git).view.locals n = v.locals n := by
  obtain ⟨hloc, hobs, hfailed, _, htarget⟩ := exportRefs_spec root keys hnd v git
  rw [hfailed] at hf
  obtain ⟨x, hx, hxk⟩ := (isFailed_true_iff _ _).mp hf
  obtain ⟨hk, hcase⟩ := exportRefsToGit_failed root keys hnd v git x hx
  rw [hxk] at hk hcase
  have hgo : obs (exportRefsToGit v git (diffRefsToExport root keys v)) (n, 0) = (git (n, 0), v.gitRefs (n, 0)) := by
    rw [exportRefsToGit_obs root keys hnd v git, if_pos hk]
    rcases hcase with h | ⟨o, h1, h2⟩ | ⟨old, c, h1, h2⟩
    · rw [h]
    · rw [h1]; simp only [fDel, h2, delRes_err _ _ _ h2]
    · rw [h1]; simp only [fUpd, h2, updRes_err _ _ _ _ h2]
  have h1 := hobs (n, 0)
  rw [hgo] at h1
  have hg := congrArg Prod.fst h1
  have hr := congrArg Prod.snd h1
  simp only at hg hr
  refine ⟨hg, hr, ?_, by rw [hloc]⟩
  rw [htarget n hk]
  simp [copyCond, hf]

/-! ### non-vacuity: concrete histories -/

/-- commits 1 and 2 are unrelated children of the root 0; 3 is a child of 1 -/
def exDag : List (List Nat) := [[], [0], [0], [1]]
def exKeys : List Key := [(0, 0), (0, 1), (1, 0), (1, 1)]
/-- bookmark 0 synced at commit 3; bookmark 1 synced at commit 1 -/
def exView : View :=
  { locals := fun n => if n = 0 then normal 3 else if n = 1 then normal 1 else absent
    remotes := fun k => if k = (0, 0) then ⟨normal 3, true⟩ else if k = (1, 0) then ⟨normal 1, true⟩ else RemoteRef.absentRef
    gitRefs := fun k => if k = (0, 0) then normal 3 else if k = (1, 0) then normal 1 else absent }
def exGit : Git := fun k => if k = (0, 0) then some 3 else if k = (1, 0) then some 1 else none

example : exKeys.Nodup := by decide
example : Synced exKeys exView exGit := by unfold Synced; decide
-- Git-only change: branch 0 is moved to 2 in Git; import adopts it
example : (importRefs (isAncestor exDag) false exKeys exView (setAt exGit (0, 0) (some 2))).locals 0 = normal 2 := by decide
-- jj-only change: bookmark 1 is moved to 3 in jj; export writes it
example : (exportRefs 0 exKeys (exView.setLocal 1 (normal 3)) exGit).git (1, 0) = some 3 := by decide
-- two-sided: bookmark 1 to 3 in jj... no: to 2 in jj, Git moves the branch to 3 (1 → 3 is a descendant of the
-- base but unrelated to 2): conflict holding both; export leaves Git's 3 alone
example : (importRefs (isAncestor exDag) false exKeys (exView.setLocal 1 (normal 2)) (setAt exGit (1, 0) (some 3))).locals 1
    = [some 2, some 1, some 3] := by decide
example : Unrelated (isAncestor exDag) (some 2) (some 3) := by unfold Unrelated; decide
example : (exportRefs 0 exKeys (importRefs (isAncestor exDag) false exKeys (exView.setLocal 1 (normal 2)) (setAt exGit (1, 0) (some 3)))
    (setAt exGit (1, 0) (some 3))).git (1, 0) = some 3 := by decide
-- export without import while Git moved: compare-and-swap fails, Git's value survives, failure recorded
example : (exportRefs 0 exKeys (exView.setLocal 1 (normal 2)) (setAt exGit (1, 0) (some 3))).git (1, 0) = some 3 ∧
    (exportRefs 0 exKeys (exView.setLocal 1 (normal 2)) (setAt exGit (1, 0) (some 3))).failed = [((1, 0), .failedToSet)] := by decide

-- the hypotheses of the main theorems are satisfiable by these histories
example := import_adopts_git_change (isAncestor exDag) false exKeys (by decide) exView
  (setAt exGit (0, 0) (some 2)) 0 (by decide) (by decide) (by decide)
example := export_writes_jj_change 0 exKeys (by decide) (exView.setLocal 1 (normal 3)) exGit 1
  (by decide) (by decide) (by decide) (by decide)
example := two_sided_conflict_recorded (isAncestor exDag) false 0 exKeys (by decide)
  (exView.setLocal 1 (normal 2)) (setAt exGit (1, 0) (some 3)) 1 (by decide) (some 2) (some 1)
  (by decide) (by decide) (by decide) (by decide) (by decide)
  (by show Unrelated _ (some 2) (some 3); unfold Unrelated; decide) (by decide)
example := failed_export_leaves_state 0 exKeys (by decide) (exView.setLocal 1 (normal 2))
  (setAt exGit (1, 0) (some 3)) 1 (by decide)
example := export_never_overwrites 0 exKeys (by decide) (exView.setLocal 1 (normal 3)) exGit (1, 0) (by decide)

end JjModel.C34
