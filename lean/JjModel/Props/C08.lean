import JjModel.Model.Rebase
import JjModel.Props.C07
/-!
  C08 — Rebasing carries a commit's changes and nothing else.

  `rebaseWith` is the tree computation of `CommitRewriter::rebase_with_empty_behavior`; the laws are
  proved for unconflicted (single-tree) merged parents and commit tree, relative to C07's per-path
  theorem and C02's `[n,o,o] ↦ n`, `[x,x,c] ↦ c`.  Conflicted parents / commit trees are covered by
  the differential check and the oracle only (the statement would need the signed-count theorem of
  C01 for `flatten`/`simplify`).
-/
namespace JjModel.C08
open JjModel.Merge JjModel.Trees JjModel.Rebase JjModel.C07
set_option linter.unusedSimpArgs false

/-- the merge `rebase_with_empty_behavior` performs when the parent trees changed -/
def rebase3 (sc : SameChange) (cm : ContentMerge) (newBase oldBase commitTree : Tree) : List Tree :=
  mergedTreeMerge sc cm [[newBase], [oldBase], [commitTree]]

/-- **Rebasing onto parents with the same trees returns the commit's tree exactly** (no merge). -/
theorem rebase_same_parents (sc : SameChange) (cm : ContentMerge) (parentTrees : List (List Tree))
    (oldBase newBase commitTree : List Tree) :
    rebaseWith sc cm parentTrees parentTrees oldBase newBase commitTree = commitTree := by
  simp [rebaseWith]

/-- … in particular rebasing a commit onto its current parents. -/
theorem rebase_onto_current_parents (sc : SameChange) (cm : ContentMerge) (h : History) (c : Nat) :
    rebaseTree sc cm h c (parentsOf h c) = treeOf h c := by
  simp [rebaseTree, rebaseWith]

theorem simplify_three_distinct {α : Type} [DecidableEq α] (a b c : α) (h1 : a ≠ b) (h2 : c ≠ b) :
    simplify [a, b, c] = [a, b, c] := by
  have h1' : ¬ b = a := fun e => h1 e.symm
  have h2' : ¬ b = c := fun e => h2 e.symm
  have e1 : findRemove [a, b, c] a [0, 1, 2] 0 = none := by simp [findRemove, h1']
  have e2 : findRemove [a, b, c] c [0, 1, 2] 0 = none := by simp [findRemove, h2']
  simp [simplify, simplifiedMapping, mappingLoop, e1, e2, applyMapping, List.range, List.range.loop]

theorem treeToVal_injective {a b : Tree} (h : treeToVal a = treeToVal b) : a = b := by
  rw [← treeOrEmpty_treeToVal a, ← treeOrEmpty_treeToVal b, h]

/-- a three-term merge result is already simplified: `resolve` is `merge_trees` -/
theorem resolve_three (sc : SameChange) (cm : ContentMerge) (a b c : Tree) :
    resolve sc cm [a, b, c] = mergeTrees sc cm [a, b, c] := by
  have hlen : 1 < [a, b, c].length := by simp
  have hfuel := mergeTreesF_fuel sc cm (maxHeight [a, b, c]) (maxHeight [a, b, c] + 1) [a, b, c]
    (Nat.le_refl _) (by omega)
  unfold resolve
  rw [mergeTrees_eq _ _ _ hlen, hfuel]
  rcases length_mergeTreesF sc cm (maxHeight [a, b, c] + 1) [a, b, c] with h1 | h3
  · match hm : mergeTreesF sc cm (maxHeight [a, b, c] + 1) [a, b, c], h1 with
    | [t], _ => rfl
  · have hnt := mergeTreesF_conflict_not_trivial sc cm (maxHeight [a, b, c]) [a, b, c] (by simp) hlen
      (by rw [h3]; simp)
    match hm : mergeTreesF sc cm (maxHeight [a, b, c] + 1) [a, b, c], h3 with
    | [r0, r1, r2], _ =>
      rw [hm] at hnt
      have h01 : r0 ≠ r1 := by
        intro e; subst e
        by_cases e' : treeToVal r0 = treeToVal r2 <;> cases sc <;> simp [trivialMerge, e'] at hnt
      have h21 : r2 ≠ r1 := by
        intro e; subst e
        by_cases e' : treeToVal r0 = treeToVal r2 <;> cases sc <;> simp [trivialMerge, e'] at hnt
      simp only [simplify_three_distinct r0 r1 r2 h01 h21]

theorem mergeNoResolve_three (a b c : Tree) : mergeNoResolve [[a], [b], [c]] = simplify [a, b, c] := by
  simp [mergeNoResolve, flatten, flattenFrom, negateTerm, swapPairs]

/-- **Paths the commit did not change take the new parents' content.** -/
theorem rebase_untouched_paths (sc : SameChange) (cm : ContentMerge) (newBase oldBase commitTree : Tree)
    (p : List Nat) (hp : p ≠ []) (hclash : NoClashAbove sc [newBase, oldBase, commitTree] p)
    (hun : commitTree.get p = oldBase.get p) :
    pathValue sc (rebase3 sc cm newBase oldBase commitTree) p = [newBase.get p] := by
  unfold rebase3 mergedTreeMerge
  rw [mergeNoResolve_three]
  by_cases h1 : oldBase = commitTree
  · subst h1
    simp only [simplify_side_base_left, resolve, mergeTrees]
    exact pathValue_single sc _ p hp
  · by_cases h2 : newBase = oldBase
    · subst h2
      simp only [simplify_side_base_right, resolve, mergeTrees]
      rw [pathValue_single sc _ p hp, hun]
    · rw [simplify_three_distinct _ _ _ h2 (fun e => h1 e.symm), resolve_three,
        path_value_merge sc cm _ p (by simp) hp hclash]
      simp only [List.map_cons, List.map_nil, hun, mergeValue]
      rw [mergeEntry_of_trivial _ _ _ _ (newBase.get p)]
      · rfl
      · by_cases e : newBase.get p = oldBase.get p <;> cases sc <;> simp [trivialMerge, e]

/-- **Paths on which old and new parents agree keep the commit's content.** -/
theorem rebase_agreeing_parents (sc : SameChange) (cm : ContentMerge) (newBase oldBase commitTree : Tree)
    (p : List Nat) (hp : p ≠ []) (hclash : NoClashAbove sc [newBase, oldBase, commitTree] p)
    (hag : oldBase.get p = newBase.get p) :
    pathValue sc (rebase3 sc cm newBase oldBase commitTree) p = [commitTree.get p] := by
  unfold rebase3 mergedTreeMerge
  rw [mergeNoResolve_three]
  by_cases h2 : newBase = oldBase
  · subst h2
    simp only [simplify_side_base_right, resolve, mergeTrees]
    exact pathValue_single sc _ p hp
  · by_cases h1 : oldBase = commitTree
    · subst h1
      simp only [simplify_side_base_left, resolve, mergeTrees]
      rw [pathValue_single sc _ p hp, hag]
    · rw [simplify_three_distinct _ _ _ h2 (fun e => h1 e.symm), resolve_three,
        path_value_merge sc cm _ p (by simp) hp hclash]
      simp only [List.map_cons, List.map_nil, hag, mergeValue]
      rw [mergeEntry_of_trivial _ _ _ _ (commitTree.get p)]
      · rfl
      · by_cases e : newBase.get p = commitTree.get p <;> cases sc <;> simp [trivialMerge, e]

/-- the two laws for `rebase_commit` on a history, when the parent trees differ and everything
involved is unconflicted -/
theorem rebase_commit_laws (sc : SameChange) (cm : ContentMerge) (h : History) (c : Nat) (newParents : List Nat)
    (nb ob ct : Tree) (hne : newParents.map (treeOf h) ≠ (parentsOf h c).map (treeOf h))
    (hnb : mergeCommitTrees sc cm h newParents = [nb]) (hob : mergeCommitTrees sc cm h (parentsOf h c) = [ob])
    (hct : treeOf h c = [ct]) (p : List Nat) (hp : p ≠ []) (hclash : NoClashAbove sc [nb, ob, ct] p) :
    (ct.get p = ob.get p → pathValue sc (rebaseTree sc cm h c newParents) p = [nb.get p]) ∧
    (ob.get p = nb.get p → pathValue sc (rebaseTree sc cm h c newParents) p = [ct.get p]) := by
  have : rebaseTree sc cm h c newParents = rebase3 sc cm nb ob ct := by
    simp [rebaseTree, rebaseWith, hne, hnb, hob, hct, rebase3]
  rw [this]
  exact ⟨rebase_untouched_paths sc cm nb ob ct p hp hclash, rebase_agreeing_parents sc cm nb ob ct p hp hclash⟩

/-! ### Finding: the "equal parent trees" shortcut ignores a different merge base -/

/-- root; `1` adds file `0`; `2` (child of `1`) deletes it; `3` merges `2` and `1` and changes nothing -/
def exHistory : History :=
  [ ⟨[], [.nil]⟩, ⟨[0], [.file 0 0 false .nil]⟩, ⟨[1], [.nil]⟩, ⟨[2, 1], [.nil]⟩ ]

/-- Commit `3` is unchanged relative to the merge of its parents `[2,1]` (the empty tree).  Its new
parents `[0,1]` carry the same list of trees `[(), (0:f0)]` but merge to `(0:f0)`; the shortcut
`new_parent_trees == old_parent_trees` keeps the empty tree, so the untouched path `0` does **not**
take the new parents' content. -/
theorem rebase_shortcut_ignores_merge_base :
    mergeCommitTrees .accept (slotMerge .accept) exHistory [2, 1] = [.nil] ∧
    mergeCommitTrees .accept (slotMerge .accept) exHistory [0, 1] = [.file 0 0 false .nil] ∧
    treeOf exHistory 3 = [.nil] ∧
    rebaseTree .accept (slotMerge .accept) exHistory 3 [0, 1] = [.nil] := by
  decide

/-! ### non-vacuity -/
example : NoClashAbove .accept
    [Tree.file 0 1 false (.file 1 0 false .nil), .file 0 0 false (.file 1 0 false .nil), .file 0 0 false (.file 1 2 false .nil)] [0] := by
  intro q r h hq hr
  match q, r, h, hq, hr with
  | [], _, _, hq, _ => exact absurd rfl hq
  | _ :: _, [], _, _, hr => exact absurd rfl hr
  | _ :: _, _ :: _, h, _, _ => simp at h
example : rebase3 .accept (slotMerge .accept)
    (.file 0 1 false (.file 1 0 false .nil)) (.file 0 0 false (.file 1 0 false .nil)) (.file 0 0 false (.file 1 2 false .nil))
    = [.file 0 1 false (.file 1 2 false .nil)] := by decide

end JjModel.C08
