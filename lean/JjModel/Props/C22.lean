import JjModel.Model.TreeDiff
import JjModel.Props.C07
/-!
  C22 — The changed-path index agrees with tree diffs.

  * `mem_diffF` / `diff_spec` — the recursive diff walk (`TreeDiffIterator`) reports exactly the
    non-root paths at which the two merged trees' `path_value`s differ;
  * `changed_paths_spec` — `collect_changed_paths` records exactly the paths that are `Changed`
    between the (unresolved) merge of the parents and the commit; `fast_path_ok`;
  * `index_lookup_eq_collect`, `index_query_eq_scan` — an index built commit by commit answers
    lookups with `collect_changed_paths` and `files()` queries like a scan (segment squashing is
    invisible to lookups).
-/
namespace JjModel.C22
open JjModel.Merge JjModel.Trees JjModel.Rebase JjModel.TreeDiff JjModel.C07
set_option linter.unusedSimpArgs false

theorem subTree_eq (sc : SameChange) (ts : List Tree) (n : Nat) :
    subTree sc ts n = if isTreeM (valueAt sc ts n) then some ((valueAt sc ts n).map treeOrEmpty) else none := by
  unfold subTree
  generalize valueAt sc ts n = v
  match v with
  | [] => simp [isTreeM]
  | [none] => simp [isTreeM]
  | [some (.tree t)] => simp [isTreeM, isTreeOrNone, treeOrEmpty]
  | [some (.file _ _)] => simp [isTreeM, isTreeOrNone]
  | [some (.symlink _)] => simp [isTreeM, isTreeOrNone]
  | a :: b :: rest => simp [isTreeM]

/-- below a basename, `path_value` continues in the trees the diff walk descends into -/
theorem pathValue_cons_cons (sc : SameChange) (ts : List Tree) (n m : Nat) (q : List Nat) :
    pathValue sc ts (n :: m :: q) = pathValue sc (treesOf (valueAt sc ts n)) (m :: q) := by
  simp only [pathValue, subTree_eq, treesOf]
  by_cases h : isTreeM (valueAt sc ts n) = true
  · simp [h]
  · have h' : isTreeM (valueAt sc ts n) = false := by simpa using h
    simp only [h', Bool.false_eq_true, if_false]
    rw [pathValue_single sc .nil (m :: q) (by simp)]
    simp [get_cons]

/-- the three shapes of `Merge<Tree>::value` -/
theorem valueAt_cases (sc : SameChange) (ts : List Tree) (hodd : ts.length % 2 = 1) (n : Nat) :
    (∃ t, ts = [t] ∧ valueAt sc ts n = [t.lookup n]) ∨
    (∃ v, trivialMerge (ts.map (·.lookup n)) sc = some v ∧ valueAt sc ts n = [v]) ∨
    (trivialMerge (ts.map (·.lookup n)) sc = none ∧ valueAt sc ts n = ts.map (·.lookup n)) := by
  by_cases hl : 1 < ts.length
  · rw [valueAt_of_length sc ts hl n]
    cases h : trivialMerge (ts.map (·.lookup n)) sc with
    | some v => right; left; exact ⟨v, rfl, rfl⟩
    | none => right; right; exact ⟨rfl, rfl⟩
  · match ts, hodd, hl with
    | [t], _, _ => left; exact ⟨t, rfl, rfl⟩
    | [], h, _ => simp at h
    | _ :: _ :: _, _, h => simp at h

theorem length_valueAt (sc : SameChange) (ts : List Tree) (hodd : ts.length % 2 = 1) (n : Nat) :
    (valueAt sc ts n).length = 1 ∨ (valueAt sc ts n).length = ts.length := by
  rcases valueAt_cases sc ts hodd n with ⟨t, _, h⟩ | ⟨v, _, h⟩ | ⟨_, h⟩ <;> simp [h]

theorem valueAt_terms (sc : SameChange) (ts : List Tree) (hodd : ts.length % 2 = 1) (n : Nat) :
    ∀ v ∈ valueAt sc ts n, ∃ t ∈ ts, v = t.lookup n := by
  intro v hv
  rcases valueAt_cases sc ts hodd n with ⟨t, ht, h⟩ | ⟨w, hw, h⟩ | ⟨_, h⟩
  · rw [h] at hv; simp at hv; subst ht; exact ⟨t, by simp, hv⟩
  · rw [h] at hv; simp at hv; subst hv
    have := mem_of_trivialMerge _ (by simpa using hodd) sc _ hw
    simpa [eq_comm] using this
  · rw [h] at hv; simpa [eq_comm] using hv

theorem length_treesOf_odd (sc : SameChange) (ts : List Tree) (hodd : ts.length % 2 = 1) (n : Nat) :
    (treesOf (valueAt sc ts n)).length % 2 = 1 := by
  unfold treesOf
  split
  · rcases length_valueAt sc ts hodd n with h | h <;> simp [h, hodd]
  · rfl

theorem maxHeight_treesOf (sc : SameChange) (ts : List Tree) (hodd : ts.length % 2 = 1) (n : Nat) :
    maxHeight (treesOf (valueAt sc ts n)) + 1 ≤ max 1 (maxHeight ts) := by
  have : maxHeight (treesOf (valueAt sc ts n)) ≤ max 1 (maxHeight ts) - 1 := by
    apply maxHeight_le
    intro t ht
    unfold treesOf at ht
    split at ht
    · obtain ⟨v, hv, rfl⟩ := List.mem_map.mp ht
      obtain ⟨a, ha, rfl⟩ := valueAt_terms sc ts hodd n v hv
      have h1 := height_lookup a n
      have h2 := le_maxHeight ha
      omega
    · simp at ht; subst ht; simp [Tree.height]
  omega

theorem valueAt_absent (sc : SameChange) (ts : List Tree) (hodd : ts.length % 2 = 1) (n : Nat)
    (hn : n ∉ allNames ts) : valueAt sc ts n = [none] := by
  have hmap : ts.map (·.lookup n) = ts.map (fun _ => (none : Option Value)) :=
    List.map_congr_left (fun t ht => lookup_none_of_not_mem_allNames hn ht)
  rcases valueAt_cases sc ts hodd n with ⟨t, ht, h⟩ | ⟨v, hv, h⟩ | ⟨hv, _⟩
  · rw [h, lookup_none_of_not_mem_allNames hn (by rw [ht]; simp)]
  · rw [hmap, trivialMerge_const ts none hodd sc] at hv
    injection hv with hv; rw [h, hv]
  · rw [hmap, trivialMerge_const ts none hodd sc] at hv; cases hv

theorem maxHeight_append (a b : List Tree) : maxHeight (a ++ b) = max (maxHeight a) (maxHeight b) := by
  induction a with
  | nil => simp [maxHeight]
  | cons t a ih => simp only [maxHeight, List.cons_append, List.map_cons, List.foldr_cons] at ih ⊢; omega

theorem mem_allNames_append (a b : List Tree) (n : Nat) : n ∈ allNames (a ++ b) ↔ n ∈ allNames a ∨ n ∈ allNames b := by
  simp only [mem_allNames, List.mem_append]
  constructor
  · rintro ⟨t, ht | ht, hn⟩
    · exact Or.inl ⟨t, ht, hn⟩
    · exact Or.inr ⟨t, ht, hn⟩
  · rintro (⟨t, ht, hn⟩ | ⟨t, ht, hn⟩)
    · exact ⟨t, Or.inl ht, hn⟩
    · exact ⟨t, Or.inr ht, hn⟩

theorem treesOf_of_not_tree {v : MVal} (h : isTreeM v = false) : treesOf v = [.nil] := by
  simp [treesOf, h]

theorem pathValue_of_absent (sc : SameChange) (ts : List Tree) (n : Nat) (p : List Nat)
    (h : valueAt sc ts n = [none]) : pathValue sc ts (n :: p) = [none] := by
  cases p with
  | nil => exact h
  | cons m q =>
    rw [pathValue_cons_cons, h, treesOf_of_not_tree (by simp [isTreeM]), pathValue_single sc .nil (m :: q) (by simp)]
    simp [get_cons]

theorem pathValue_congr_valueAt (sc : SameChange) (ts1 ts2 : List Tree) (n : Nat) (p : List Nat)
    (h : valueAt sc ts1 n = valueAt sc ts2 n) : pathValue sc ts1 (n :: p) = pathValue sc ts2 (n :: p) := by
  cases p with
  | nil => exact h
  | cons m q => rw [pathValue_cons_cons, pathValue_cons_cons, h]

/-- **The diff walk reports exactly the paths at which the two merged trees' `path_value`s differ**
(directories included; `diff_stream` then hides the directory sides). -/
theorem mem_diffF (sc : SameChange) : ∀ (f : Nat) (ts1 ts2 : List Tree) (pre q : List Nat) (b a : MVal),
    ts1.length % 2 = 1 → ts2.length % 2 = 1 → maxHeight (ts1 ++ ts2) ≤ f →
    ((q, b, a) ∈ diffF sc f ts1 ts2 pre ↔
      ∃ p, q = pre ++ p ∧ p ≠ [] ∧ b = pathValue sc ts1 p ∧ a = pathValue sc ts2 p ∧ b ≠ a) := by
  intro f
  induction f with
  | zero =>
    intro ts1 ts2 pre q b a h1 h2 hh
    simp only [diffF, List.not_mem_nil, false_iff]
    rintro ⟨p, _, hp, hb, ha, hne⟩
    cases p with
    | nil => exact hp rfl
    | cons n p' =>
      rw [maxHeight_append] at hh
      have e1 : valueAt sc ts1 n = [none] :=
        valueAt_absent sc ts1 h1 n (by rw [allNames_eq_nil_of_maxHeight (by omega)]; simp)
      have e2 : valueAt sc ts2 n = [none] :=
        valueAt_absent sc ts2 h2 n (by rw [allNames_eq_nil_of_maxHeight (by omega)]; simp)
      rw [pathValue_of_absent sc ts1 n p' e1] at hb
      rw [pathValue_of_absent sc ts2 n p' e2] at ha
      exact hne (by rw [hb, ha])
  | succ f ih =>
    intro ts1 ts2 pre q b a h1 h2 hh
    have hsub : ∀ n, maxHeight (treesOf (valueAt sc ts1 n) ++ treesOf (valueAt sc ts2 n)) ≤ f := by
      intro n
      have e1 := maxHeight_treesOf sc ts1 h1 n
      have e2 := maxHeight_treesOf sc ts2 h2 n
      rw [maxHeight_append] at hh ⊢
      omega
    simp only [diffF, List.mem_flatMap]
    constructor
    · rintro ⟨n, _, hmem⟩
      split at hmem
      · simp at hmem
      · next hne =>
        rcases List.mem_cons.mp hmem with heq | hrec
        · injection heq with hq hba
          injection hba with hb ha
          exact ⟨[n], hq, by simp, hb, ha, by rw [hb, ha]; exact hne⟩
        · split at hrec
          · obtain ⟨p', hq, hp', hb, ha, hne'⟩ :=
              (ih _ _ _ q b a (length_treesOf_odd sc ts1 h1 n) (length_treesOf_odd sc ts2 h2 n) (hsub n)).mp hrec
            cases p' with
            | nil => exact absurd rfl hp'
            | cons m r =>
              refine ⟨n :: m :: r, by simp [hq], by simp, ?_, ?_, hne'⟩
              · rw [pathValue_cons_cons]; exact hb
              · rw [pathValue_cons_cons]; exact ha
          · simp at hrec
    · rintro ⟨p, hq, hp, hb, ha, hne⟩
      cases p with
      | nil => exact absurd rfl hp
      | cons n p' =>
        have hvne : valueAt sc ts1 n ≠ valueAt sc ts2 n := by
          intro e; apply hne; rw [hb, ha]; exact pathValue_congr_valueAt sc ts1 ts2 n p' e
        have hn : n ∈ allNames (ts1 ++ ts2) := by
          apply Classical.byContradiction
          intro hn
          rw [mem_allNames_append, not_or] at hn
          apply hvne
          rw [valueAt_absent sc ts1 h1 n hn.1, valueAt_absent sc ts2 h2 n hn.2]
        refine ⟨n, hn, ?_⟩
        rw [if_neg hvne]
        cases p' with
        | nil => rw [hq, hb, ha]; exact List.mem_cons_self
        | cons m r =>
          apply List.mem_cons_of_mem
          have htree : (isTreeM (valueAt sc ts1 n) || isTreeM (valueAt sc ts2 n)) = true := by
            apply Classical.byContradiction
            intro hnt
            simp only [Bool.or_eq_true, not_or, Bool.not_eq_true] at hnt
            apply hne
            rw [hb, ha, pathValue_cons_cons, pathValue_cons_cons, treesOf_of_not_tree hnt.1, treesOf_of_not_tree hnt.2]
          rw [if_pos htree]
          apply (ih _ _ _ q b a (length_treesOf_odd sc ts1 h1 n) (length_treesOf_odd sc ts2 h2 n) (hsub n)).mpr
          refine ⟨m :: r, by simp [hq], by simp, ?_, ?_, hne⟩
          · rw [hb, pathValue_cons_cons]
          · rw [ha, pathValue_cons_cons]

/-- `diff_stream_with_trees`: the entries are the non-root paths at which `path_value` differs -/
theorem diff_spec (sc : SameChange) (ts1 ts2 : List Tree) (h1 : ts1.length % 2 = 1) (h2 : ts2.length % 2 = 1)
    (q : List Nat) (b a : MVal) :
    (q, b, a) ∈ diffWithTrees sc ts1 ts2 ↔
      q ≠ [] ∧ b = pathValue sc ts1 q ∧ a = pathValue sc ts2 q ∧ b ≠ a := by
  unfold diffWithTrees
  split
  · next heq =>
    subst heq
    simp only [List.not_mem_nil, false_iff]
    rintro ⟨_, hb, ha, hne⟩
    exact hne (by rw [hb, ha])
  · rw [mem_diffF sc _ ts1 ts2 [] q b a h1 h2 (Nat.le_refl _)]
    constructor
    · rintro ⟨p, hq, hp, hb, ha, hne⟩
      simp only [List.nil_append] at hq; subst hq
      exact ⟨hp, hb, ha, hne⟩
    · rintro ⟨hp, hb, ha, hne⟩
      exact ⟨q, by simp, hp, hb, ha, hne⟩

/-- what makes `collect_changed_paths` record a path, given the two `path_value`s: they differ, not
both are directories/absent, and the parents' side after file-level resolution still differs from
the commit's side (directories counting as absent) -/
def Changed (sc : SameChange) (cm : ContentMerge) (b a : MVal) : Prop :=
  b ≠ a ∧ ¬ (skipTree b = [none] ∧ skipTree a = [none]) ∧ resolveFileValues sc cm (skipTree b) ≠ skipTree a

theorem changed_paths_general_spec (sc : SameChange) (cm : ContentMerge) (h : History) (c : Nat)
    (h1 : (mergeCommitTreesNoResolve h (parentsOf h c)).length % 2 = 1) (h2 : (treeOf h c).length % 2 = 1)
    (q : List Nat) :
    q ∈ changedPathsGeneral sc cm h c ↔
      q ≠ [] ∧ Changed sc cm (pathValue sc (mergeCommitTreesNoResolve h (parentsOf h c)) q)
        (pathValue sc (treeOf h c) q) := by
  unfold changedPathsGeneral diffStream Changed
  simp only [List.mem_filterMap]
  constructor
  · rintro ⟨⟨q', b', a'⟩, ⟨⟨q0, b0, a0⟩, hmem, hsome⟩, hfin⟩
    obtain ⟨hq, hb, ha, hne⟩ := (diff_spec sc _ _ h1 h2 q0 b0 a0).mp hmem
    simp only at hsome hfin
    split at hsome
    · cases hsome
    · next hpres =>
      injection hsome with hsome
      injection hsome with e1 e23
      injection e23 with e2 e3
      subst e1 e2 e3
      split at hfin
      · cases hfin
      · next hres =>
        injection hfin with hfin
        subst hfin
        rw [← hb, ← ha]
        exact ⟨hq, hne, hpres, hres⟩
  · rintro ⟨hq, hne, hpres, hres⟩
    refine ⟨(q, skipTree (pathValue sc (mergeCommitTreesNoResolve h (parentsOf h c)) q),
        skipTree (pathValue sc (treeOf h c) q)),
      ⟨(q, pathValue sc (mergeCommitTreesNoResolve h (parentsOf h c)) q, pathValue sc (treeOf h c) q),
        (diff_spec sc _ _ h1 h2 q _ _).mpr ⟨hq, rfl, rfl, hne⟩, ?_⟩, ?_⟩
    · simp only [hpres, if_false]
    · simp only [hres, if_false]

/-- **C22.** The paths recorded for a commit are exactly the paths whose value differs (in the sense
of `Changed`) between the merge of its parents and the commit; the single-parent shortcut agrees. -/
theorem changed_paths_spec (sc : SameChange) (cm : ContentMerge) (h : History) (c : Nat)
    (h1 : (mergeCommitTreesNoResolve h (parentsOf h c)).length % 2 = 1) (h2 : (treeOf h c).length % 2 = 1)
    (q : List Nat) :
    q ∈ collectChangedPaths sc cm h c ↔
      q ≠ [] ∧ Changed sc cm (pathValue sc (mergeCommitTreesNoResolve h (parentsOf h c)) q)
        (pathValue sc (treeOf h c) q) := by
  unfold collectChangedPaths
  split
  · next p hp =>
    split
    · next heq =>
      -- the shortcut: both sides are the same merged tree, nothing can differ
      simp only [List.not_mem_nil, false_iff]
      rintro ⟨_, hne, _⟩
      apply hne
      rw [hp]
      simp only [mergeCommitTreesNoResolve, heq]
    · exact changed_paths_general_spec sc cm h c h1 h2 q
  · exact changed_paths_general_spec sc cm h c h1 h2 q

/-- the shortcut is sound: equal trees ⇒ the general computation also finds nothing -/
theorem fast_path_ok (sc : SameChange) (cm : ContentMerge) (h : History) (c p : Nat)
    (hp : parentsOf h c = [p]) (heq : treeOf h c = treeOf h p) : changedPathsGeneral sc cm h c = [] := by
  have : mergeCommitTreesNoResolve h (parentsOf h c) = treeOf h c := by
    rw [hp]; simp only [mergeCommitTreesNoResolve, heq]
  simp [changedPathsGeneral, diffStream, diffWithTrees, this]

/-! ### the index -/

theorem lookup_squash (idx : CPIndex) (pos : Nat) : idx.squash.lookup pos = idx.lookup pos := by
  unfold CPIndex.squash
  split
  · next a b rest hrev =>
    have : idx.segments = rest.reverse ++ [b, a] := by
      have := congrArg List.reverse hrev; simpa using this
    simp [CPIndex.lookup, this]
  · rfl

theorem buildIndex_flatten (sc : SameChange) (cm : ContentMerge) (h : History) (start : Nat) :
    (buildIndex sc cm h start).start = start ∧
    (buildIndex sc cm h start).segments.flatten
      = (List.range' start (h.length - start)).map (collectChangedPaths sc cm h) := by
  unfold buildIndex
  have gen : ∀ (l : List Nat) (idx : CPIndex),
      (l.foldl (fun idx c => idx.add (collectChangedPaths sc cm h c)) idx).start = idx.start ∧
      (l.foldl (fun idx c => idx.add (collectChangedPaths sc cm h c)) idx).segments.flatten
        = idx.segments.flatten ++ l.map (collectChangedPaths sc cm h) := by
    intro l
    induction l with
    | nil => intro idx; simp
    | cons c l ih =>
      intro idx
      obtain ⟨h1, h2⟩ := ih (idx.add (collectChangedPaths sc cm h c))
      refine ⟨by rw [List.foldl_cons, h1]; rfl, ?_⟩
      rw [List.foldl_cons, h2]
      simp [CPIndex.add]
  simpa using gen _ { start := start, segments := [] }

/-- an index built commit by commit answers every indexed position with `collect_changed_paths` -/
theorem index_lookup_eq_collect (sc : SameChange) (cm : ContentMerge) (h : History) (start c : Nat)
    (h1 : start ≤ c) (h2 : c < h.length) :
    (buildIndex sc cm h start).lookup c = some (collectChangedPaths sc cm h c) := by
  obtain ⟨hs, hf⟩ := buildIndex_flatten sc cm h start
  unfold CPIndex.lookup
  rw [hs, hf, if_neg (by omega : ¬ c < start)]
  rw [List.getElem?_map, List.getElem?_range' (by omega)]
  have : start + (c - start) = c := by omega
  simp [this]

/-- **`files()` returns the same commits with or without the index** (any start position). -/
theorem index_query_eq_scan (sc : SameChange) (cm : ContentMerge) (h : History) (start : Nat) (pre : List Nat) :
    filesQuery sc cm h (some (buildIndex sc cm h start)) pre = filesQuery sc cm h none pre := by
  unfold filesQuery
  apply List.filter_congr
  intro c hc
  have hc' : c < h.length := by simpa using hc
  simp only [Option.bind_some, Option.bind_none]
  by_cases hs : start ≤ c
  · rw [index_lookup_eq_collect sc cm h start c hs hc']
  · have : (buildIndex sc cm h start).lookup c = none := by
      unfold CPIndex.lookup
      rw [(buildIndex_flatten sc cm h start).1, if_pos (by omega)]
    rw [this]

/-! ### non-vacuity -/

/-- root; `1` adds `0` and `1/0`; `2` (child of 1) edits slot 0 of `1/0`; `3` (child of 1) edits slot 1;
`4` merges `2` and `3` and additionally adds `2` -/
def exHist : History :=
  [ ⟨[], [.nil]⟩,
    ⟨[0], [.file 0 0 false (.dir 1 (.file 0 0 false .nil) .nil)]⟩,
    ⟨[1], [.file 0 0 false (.dir 1 (.file 0 3 false .nil) .nil)]⟩,
    ⟨[1], [.file 0 0 false (.dir 1 (.file 0 1 false .nil) .nil)]⟩,
    ⟨[2, 3], [.file 0 0 false (.dir 1 (.file 0 4 false .nil) (.file 2 0 false .nil))]⟩ ]

example : (mergeCommitTreesNoResolve exHist (parentsOf exHist 4)).length % 2 = 1 := by decide
example : collectChangedPaths .accept (slotMerge .accept) exHist 4 = [[2]] := by decide
example : collectChangedPaths .accept (slotMerge .accept) exHist 2 = [[1, 0]] := by decide
example : filesQuery .accept (slotMerge .accept) exHist (some (buildIndex .accept (slotMerge .accept) exHist 2)) [1]
    = [1, 2, 3] := by decide

end JjModel.C22
