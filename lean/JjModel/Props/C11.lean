import JjModel.Lemmas.RepoWcAll
/-!
  C11 — Rewrites leave no orphans and references follow.

  Property theorems about the model `JjModel/Model/Repo.lean` (the definitions the driver runs).
  `Acyclic m pred rank`: `rank` strictly decreases from every key of the parent mapping (that
  satisfies `pred`) to each of its replacements.

  Status (see `notes/C11.md`): `rewritten_ids_eq_resolved`, `rewritten_ids_spec`,
  `order_is_topological`, `rebased_keeps_identity`, `bookmarks_follow`, `no_key_is_head` are proved
  in full; `wc_follows` (disjunctive) is proved for any number of workspaces;
  `no_orphans_partial`, `wc_follows_partial`, `change_ids_partial` are weaker than the
  planned statements — the full `no_orphans` is *false* for the code as it stands (known finding
  `rewrite:orphan-rebased-before-its-parent`), the gaps are written next to each statement.
-/
set_option linter.unusedSimpArgs false
namespace JjModel.C11
open JjModel.Repo

/-! ### the two resolution algorithms agree -/

/-- `rewritten_ids_with(olds)` = first-occurrence de-duplication of the full transitive expansion
    of `olds` through the mapping, and nothing it returns is itself mapped.
    (The loop fuel `|olds| + Σ|replacements| + 1` is adequate: `rewritten_ids_fuel_adequate`.) -/
theorem rewritten_ids_spec {m : Mapping} {pred : Rewrite → Bool} {rank : Nat → Nat}
    (hac : Acyclic m pred rank) {olds ids : List Nat}
    (h : rewrittenIdsWith m pred olds = some ids) :
    ids = dedup (olds.flatMap (leaves m pred rank)) ∧ ∀ y ∈ ids, m.getIf pred y = none :=
  rewrittenIdsWith_spec hac h

/-- **fuel adequacy**: above `|stack| + pending replacements` the fuel of the model's loop is
    irrelevant; the fuel `rewritten_ids_with` passes is above that bound, so a `none` of the model is
    always one of the source's `assert!`s, never an exhausted counter. -/
theorem rewritten_ids_fuel_adequate (m : Mapping) (pred : Rewrite → Bool) (olds : List Nat) (extra : Nat) :
    rwLoop m pred (olds.length + mappingSize m + 1 + extra) olds [] [] =
      rwLoop m pred (olds.length + mappingSize m + 1) olds [] [] :=
  rewrittenIdsWith_fuel m pred olds extra

/-- The `debug_assert_eq!` of `resolve_rewrite_mapping_with`: the topologically resolved entry of
    a key equals the result of the iterative `rewritten_ids_with([key])`. -/
theorem rewritten_ids_eq_resolved {m : Mapping} {pred : Rewrite → Bool} {rank : Nat → Nat}
    (hac : Acyclic m pred rank) {nm : List (Nat × List Nat)}
    (hres : resolveRewriteMappingWith m pred = .ok nm) {old : Nat} {rw : Rewrite}
    (hg : m.getIf pred old = some rw) {ids : List Nat}
    (hrw : rewrittenIdsWith m pred [old] = some ids) : nm.lookup old = some ids :=
  Repo.rewritten_ids_eq_resolved hac hres hg hrw

/-- every entry of the resolved mapping is the de-duplicated transitive expansion of its key -/
theorem resolved_entry_spec {m : Mapping} {pred : Rewrite → Bool} {rank : Nat → Nat}
    (hac : Acyclic m pred rank) {sorted : List Nat}
    (hs : TopoRev (replOf m pred) sorted.reverse) {k : Nat} (hk : k ∈ sorted) {rw : Rewrite}
    (hg : m.getIf pred k = some rw) :
    (sorted.foldl (resolveStep m pred) []).lookup k = some (dedup (leaves m pred rank k)) := by
  have := (resolve_fold hac sorted.reverse hs).1 k (by simpa using hk) rw hg
  simpa using this

/-! ### processing order -/

/-- `order_commits_for_rebase`: if it returns (no `panic!("graph has cycle")`), the result lists
    exactly the commits to visit, each once, every commit *before* those of its parents that are
    also to be visited; `transform_commits` pops from the end, hence parents are rebased first.
    Not covered: the dependencies on *rewritten versions* of parents — the source looks only one
    level into the mapping there, which is the root cause of the known finding. -/
theorem order_is_topological {r : Repo} {toVisit order : List Nat}
    (h : r.orderCommitsForRebase toVisit = some order) :
    TopoRev (visitParents r.store toVisit) order ∧ (∀ x, x ∈ order ↔ x ∈ toVisit) :=
  orderCommitsForRebase_spec h

/-- `dag_walk::topo_order_forward` returns a topological order of everything reachable -/
theorem topo_order_forward_correct {σ : Type} {nb : σ → Nat → List Nat × σ} {g : Nat → List Nat}
    {U : List Nat} (hg : ∀ sg k, ∀ t ∈ g k, t ∈ (nb sg k).1) (hU : ∀ sg k, ∀ t ∈ (nb sg k).1, t ∈ U)
    {fuel : Nat} {start sorted : List Nat} {init : σ}
    (h : topoOrderForward fuel start nb init = some sorted) :
    TopoRev g sorted.reverse ∧ (∀ x ∈ start, x ∈ sorted) ∧ (∀ x ∈ sorted, x ∈ start ∨ x ∈ U) :=
  topoOrderForward_spec hg hU h

/-! ### identity of rebased commits -/

theorem toVisit_in_store (r : Repo) (imm : List Nat) :
    ∀ x ∈ r.findDescendantsForRebase imm, x < r.store.length := by
  intro x hx
  unfold Repo.findDescendantsForRebase at hx
  have := (List.mem_filter.mp (mem_sortDesc.mp hx)).1
  unfold descendants at this
  have := (List.mem_filter.mp this).1
  simpa using this

/-- **`rebased_keeps_identity`**: every commit that `rebase_descendants_with_options` reports as
    rewritten (`progress(old, Rewritten(new))`) is, in the resulting store, a commit with the change
    id and the description of `old` whose only predecessor is `old`. -/
theorem rebased_keeps_identity {r r' : Repo} {imm : List Nat} {opts : Options} {steps : List Step}
    (h : r.rebaseDescendantsCore imm opts = .ok (r', steps)) :
    ∀ o n, Step.rewritten o n ∈ steps → IsRebaseOf r'.store n o ∧ r.store.length ≤ n := by
  unfold Repo.rebaseDescendantsCore at h
  simp only at h
  cases ho : r.orderCommitsForRebase (r.findDescendantsForRebase imm) with
  | none => simp [ho] at h
  | some order =>
    simp only [ho] at h
    cases ht : Repo.transformLoop opts order.reverse r [] with
    | none => simp [ht] at h
    | some p =>
      obtain ⟨r1, st1⟩ := p
      simp only [ht] at h
      cases hu : r1.updateRewrittenReferences opts with
      | error e => simp [hu] at h
      | ok r2 =>
        simp only [hu, Except.ok.injEq, Prod.mk.injEq] at h
        obtain ⟨rfl, rfl⟩ := h
        have hord := (orderCommitsForRebase_spec ho).2
        have hlt : ∀ o ∈ order.reverse, o < r.store.length := by
          intro o ho'
          exact toVisit_in_store r imm o ((hord o).mp (by simpa using ho'))
        obtain ⟨_, _, _, news, hn, hall⟩ := transformLoop_spec order.reverse r [] hlt ht
        obtain ⟨t, ht2⟩ := updateRewrittenReferences_store hu
        intro o n hmem
        rw [hn] at hmem
        obtain ⟨h1, h2, _⟩ := (hall _ (by simpa using hmem)).1 o n rfl
        exact ⟨by rw [ht2]; exact h1.append t, h2⟩

/-! ### no orphans -/

/-- **`no_orphans_partial` (step-local form).**  When the rebase loop processes `old`:
    * either its parents are unchanged and then none of them is rewritten/abandoned
      (non-divergent key) at that moment, and nothing is written;
    * or it is abandoned onto its single new parent;
    * or one commit is written whose parents are all un-rewritten at that moment, which keeps
      change id/description, has `old` as predecessor, and `old` is recorded as rewritten to it
      (so `old` will be hidden by `update_heads`).
    GAP to the planned `no_orphans`: "at that moment".  A parent chosen here can be rewritten by a
    *later* iteration when the mapping contains a chain `p → p' → p''` with `p''` itself waiting
    to be rebased (`order_commits_for_rebase` only orders after the direct targets `p'`).  That
    really happens in jj (finding `rewrite:orphan-rebased-before-its-parent`), so the unqualified
    statement is false for the code and is not claimed. -/
theorem no_orphans_partial {opts : Options} {r r' : Repo} {old : Nat} {st : Option Step}
    (hold : old < r.store.length) (h : r.transformStep opts old = some (r', st)) :
    (st = none ∧ r' = r ∧
        ∀ p ∈ parentsOf r.store old, r.mapping.getIf (fun r => !r.isDivergent) p = none) ∨
    (∃ p, st = some (.abandoned old p) ∧ r'.store = r.store) ∨
    (st = some (.rewritten old r.store.length) ∧ (∃ c, r'.store = r.store ++ [c]) ∧
        IsRebaseOf r'.store r.store.length old ∧
        r'.mapping = r.mapping.insert old (.rewritten r.store.length) ∧
        ∀ p ∈ parentsOf r'.store r.store.length,
          r.mapping.getIf (fun r => !r.isDivergent) p = none) :=
  (transformStep_spec hold h).2.2

/-- whatever `new_parents` returns contains no rewritten/abandoned commit -/
theorem new_parents_unmapped {m : Mapping} {olds ids : List Nat} (h : newParents m olds = some ids) :
    ∀ y ∈ ids, m.getIf (fun r => !r.isDivergent) y = none :=
  newParents_unmapped h

/-- **`no_key_is_head`**: after `update_heads` no rewritten/abandoned/divergent-rewritten commit
    is a head of the view (well-formed store; the root is never a key). -/
theorem no_key_is_head {r : Repo} (hwf : WF r.store) (h0 : 0 ∉ r.mapping.keys) :
    ∀ h ∈ r.updateHeads.view.heads, h ∉ r.mapping.keys :=
  updateHeads_no_key_head hwf h0

/-- … and hence for the complete `rebase_descendants` (before the mapping is cleared):
    the hypothesis `WF r'.store` is about the resulting store (parents older than children). -/
theorem no_key_is_head_after_rebase {r r' : Repo} {imm : List Nat} {opts : Options}
    {steps : List Step} (h : r.rebaseDescendantsCore imm opts = .ok (r', steps))
    (hwf : WF r'.store) (h0 : 0 ∉ r'.mapping.keys) :
    ∀ x ∈ r'.view.heads, x ∉ r'.mapping.keys := by
  unfold Repo.rebaseDescendantsCore at h
  simp only at h
  cases ho : r.orderCommitsForRebase (r.findDescendantsForRebase imm) with
  | none => simp [ho] at h
  | some order =>
    simp only [ho] at h
    cases ht : Repo.transformLoop opts order.reverse r [] with
    | none => simp [ht] at h
    | some p =>
      obtain ⟨r1, st1⟩ := p
      simp only [ht] at h
      cases hu : r1.updateRewrittenReferences opts with
      | error e => simp [hu] at h
      | ok r2 =>
        simp only [hu, Except.ok.injEq, Prod.mk.injEq] at h
        obtain ⟨rfl, rfl⟩ := h
        unfold Repo.updateRewrittenReferences at hu
        cases hrm : resolveRewriteMappingWith r1.mapping (fun _ => true) with
        | error e => simp [hrm] at hu
        | ok rm =>
          simp only [hrm] at hu
          cases hw : (r1.updateLocalBookmarks rm opts).updateWcCommits rm with
          | none => simp [hw] at hu
          | some r3 =>
            simp only [hw] at hu
            injection hu with hu
            subst hu
            exact updateHeads_no_key_head hwf h0

/-! ### references follow -/

/-- **`bookmarks_follow`**: an unconflicted bookmark at `old`, where the resolved mapping sends
    `old` to `news`, ends at `bookmarkNewTarget`: the single replacement (`news = [n]`, see
    `bookmark_at_rewritten`), a conflict `[n₀, old, n₁, …]` of the replacements when there are
    several, or absent when `old` was abandoned and `delete_abandoned_bookmarks` is set.
    All other bookmarks may be changed at the same time; bookmark names are unique in the view. -/
theorem bookmarks_follow (r : Repo) (rm : List (Nat × List Nat)) (opts : Options)
    (b old : Nat) (news : List Nat) (pre post : List (Nat × RefTarget))
    (hsplit : r.view.bookmarks = pre ++ (b, RefTarget.normal old) :: post)
    (hpre : ∀ e ∈ pre, e.1 ≠ b) (hpost : ∀ e ∈ post, e.1 ≠ b)
    (hrm : rm.lookup old = some news) :
    (r.updateLocalBookmarks rm opts).view.getBookmark b = bookmarkNewTarget r.mapping opts old news :=
  updateLocalBookmarks_follow r rm opts b old news pre post hsplit hpre hpost hrm

theorem bookmark_untouched (r : Repo) (rm : List (Nat × List Nat)) (opts : Options)
    (b old : Nat) (pre post : List (Nat × RefTarget))
    (hsplit : r.view.bookmarks = pre ++ (b, RefTarget.normal old) :: post)
    (hpre : ∀ e ∈ pre, e.1 ≠ b) (hpost : ∀ e ∈ post, e.1 ≠ b)
    (hrm : rm.lookup old = none) :
    (r.updateLocalBookmarks rm opts).view.getBookmark b = RefTarget.normal old :=
  updateLocalBookmarks_untouched r rm opts b old pre post hsplit hpre hpost hrm

theorem bookmark_at_rewritten (m : Mapping) (opts : Options) (old n : Nat)
    (h : isAbandonedKey m old = false) : bookmarkNewTarget m opts old [n] = RefTarget.normal n :=
  bookmarkNewTarget_rewritten m opts old n h

theorem bookmark_at_abandoned_deleted (m : Mapping) (opts : Options) (old : Nat) (news : List Nat)
    (h : isAbandonedKey m old = true) (hd : opts.deleteAbandoned = true) :
    bookmarkNewTarget m opts old news = RefTarget.absent :=
  bookmarkNewTarget_deleted m opts old news h hd

theorem bookmark_at_abandoned_moves_to_parent (m : Mapping) (opts : Options) (old p : Nat)
    (hd : opts.deleteAbandoned = false) : bookmarkNewTarget m opts old [p] = RefTarget.normal p :=
  bookmarkNewTarget_abandoned_single m opts old p hd

/-- **`wc_follows_partial`** (views with ONE workspace; with several workspaces `edit()` may turn
    the record of a discardable old commit into `Abandoned` between two workspaces — covered by the
    correspondence run only).  Rewritten ⇒ first replacement; abandoned ⇒ a new empty commit on
    the resolved parents with a fresh change id. -/
theorem wc_follows_partial (r r' : Repo) (rm : List (Nat × List Nat)) (ws c : Nat)
    (news : List Nat) (hwc : r.view.wc = [(ws, c)]) (hrm : rm.lookup c = some news)
    (h : r.updateWcCommits rm = some r') :
    (isAbandonedKey r.mapping c = false → ∃ n rest, news = n :: rest ∧ assocGet r'.view.wc ws = some n) ∧
    (isAbandonedKey r.mapping c = true →
      assocGet r'.view.wc ws = some r.store.length ∧
      r'.store = r.store ++ [{ parents := news, change := r.store.length, desc := 0,
                               tree := mergeCommitTrees r.store news, preds := [] }]) :=
  updateWcCommits_single r r' rm ws c news hwc hrm h

/-- **`wc_follows`** (any number of workspaces, distinct names): after `update_wc_commits` every
    workspace whose commit is a key of the resolved mapping points at the first replacement, or at a
    commit written by this call with parents = the replacements, empty description, no
    predecessors and a fresh change id.  (Which of the two: `wc_follows_partial` for one workspace;
    with several workspaces `edit()` may turn a `Rewritten` record of a discardable commit into
    `Abandoned` in between, so the second alternative can also occur for a rewritten commit — the
    documented quirk in `notes/C11.md`.) -/
theorem wc_follows (r r' : Repo) (rm : List (Nat × List Nat))
    (hnd : (r.view.wc.map (·.1)).Nodup) (h : r.updateWcCommits rm = some r') :
    (∃ tail, r'.store = r.store ++ tail) ∧
    ∀ ws c news, (ws, c) ∈ r.view.wc → rm.lookup c = some news →
      ∃ t, assocGet r'.view.wc ws = some t ∧
        ((∃ rest, news = t :: rest) ∨ IsFreshWc r.store.length r'.store news t) :=
  updateWcCommits_follows r r' rm hnd h

/-! ### change ids -/

/-- **`change_ids_partial`**: the rebase loop never invents or duplicates a change id on its own:
    a commit it writes carries the change id of exactly the commit it replaces, and that commit is
    recorded as rewritten (hence removed from the heads by `no_key_is_head`).
    GAP to `change_ids_unique`: global uniqueness among *visible* commits additionally needs the
    unqualified `no_orphans` (the replaced commit must have no remaining visible descendant),
    which fails in the chained-rewrite case. -/
theorem change_ids_partial {opts : Options} {r r' : Repo} {old n : Nat}
    (hold : old < r.store.length)
    (h : r.transformStep opts old = some (r', some (.rewritten old n))) :
    changeOf r'.store n = changeOf r'.store old ∧ r'.mapping.get old = some (.rewritten n) := by
  rcases (transformStep_spec hold h).2.2 with ⟨h0, _⟩ | ⟨p, h0, _⟩ | ⟨h0, _, hi, hm, _⟩
  · cases h0
  · cases h0
  · injection h0 with h0; injection h0 with _ h0; subst h0
    obtain ⟨c, co, h1, h2, _, h4, _⟩ := hi
    refine ⟨by simp [changeOf, h1, h2, h4], ?_⟩
    rw [hm]
    exact Mapping.get_insert_self _ _ _

/-! ### non-vacuity: concrete instances of the hypotheses -/

/-- a chain `1 → 3`, `2 abandoned onto [1]`, `4 ⇒ divergent [5, 6]` -/
def exMapping : Mapping := [(1, .rewritten 3), (2, .abandoned [1]), (4, .divergent [5, 6])]

def exRank : Nat → Nat := fun i => if i = 2 then 2 else if i = 1 ∨ i = 4 then 1 else 0

example : Acyclic exMapping (fun _ => true) exRank := by
  intro k rw h t ht
  unfold exMapping Mapping.getIf Mapping.get at h
  simp only [List.lookup] at h
  by_cases h1 : k = 1
  · subst h1; simp at h; subst h; simp [Rewrite.newParentIds] at ht; subst ht; decide
  · by_cases h2 : k = 2
    · subst h2; simp at h; subst h; simp [Rewrite.newParentIds] at ht; subst ht; decide
    · by_cases h4 : k = 4
      · subst h4; simp at h; subst h; simp [Rewrite.newParentIds] at ht
        rcases ht with rfl | rfl <;> decide
      · have e1 : (k == 1) = false := by simpa using h1
        have e2 : (k == 2) = false := by simpa using h2
        have e4 : (k == 4) = false := by simpa using h4
        simp [e1, e2, e4] at h

example : rewrittenIdsWith exMapping (fun _ => true) [2, 4, 1] = some [3, 5, 6] := by decide
example : newParents exMapping [2, 4] = some [3, 4] := by decide
example : (match resolveRewriteMappingWith exMapping (fun _ => true) with
    | .ok nm => nm.lookup 2 | .error _ => none) = some [3] := by decide

/-- a store `0 ← 1 ← 2`, `0 ← 3` (3 = rewrite of 1): rebasing 2 -/
def exStore : Store :=
  [rootCommit, ⟨[0], 1, 1, [1], []⟩, ⟨[1], 2, 2, [1, 2], []⟩, ⟨[0], 1, 7, [1], [1]⟩]
def exRepo : Repo :=
  { store := exStore, view := { heads := [2, 3], bookmarks := [(1, [some 1])], wc := [(1, 2)] },
    mapping := [(1, .rewritten 3)] }

example : WF exStore := by
  intro i p hp
  unfold exStore parentsOf at hp
  match i, hp with
  | 0, hp => simp [rootCommit] at hp
  | 1, hp => simp at hp; omega
  | 2, hp => simp at hp; omega
  | 3, hp => simp at hp; omega
  | n + 4, hp => simp at hp

example : exRepo.findDescendantsForRebase [] = [2] := by decide
example : exRepo.orderCommitsForRebase [2] = some [2] := by decide
example : (exRepo.transformStep ⟨0, false, false⟩ 2).map (·.2) = some (some (.rewritten 2 4)) := by
  decide
example : (match exRepo.rebaseDescendants [] ⟨0, false, false⟩ with
    | .ok (r, steps) => some (steps, sortAsc r.view.heads, r.view.bookmarks, r.view.wc)
    | .error _ => none) = some ([.rewritten 2 4], [4], [(1, [some 3])], [(1, 4)]) := by rfl

end JjModel.C11
