import JjModel.Lemmas.Table
import JjModel.Lemmas.TableExact
import JjModel.Lemmas.HeadProto
import JjModel.Generated.TableGuard
import JjModel.Props.C21Guard
/-!
  C21 — stacked tables keep every saved entry under concurrent writers.

  Model: `Model/Table.lean` (segments, `merge_in`, squash, `save_in`, `get_head[_locked]`, `save_table`)
  run by the generic head-set machine `Model/HeadProto.lean` at the granularity of the hook points.
  `guardEq` = does `get_head_locked` skip the removal of a head whose name equals the merged
  table's name.  The code's current value is the generated constant `Generated.tableGuardEq`.

  * `no_entry_lost` — for `guardEq = true`: in every run in which removals of different processes do
    not overlap (whole operations in sequence from arbitrarily stale heads, with crashes anywhere; or
    all removers under a working lock) every key of every table ever published as a head — in
    particular of the result of every completed save (`save_has_entries`) — is found from some head.
  * `entry_lost_without_guard` — for `guardEq = false` the same statement is false (F8): a concrete
    sequential 3-save history ends with an empty `heads/`.
  * `no_entry_lost_interleaved` — arbitrary interleavings at hook granularity (locks ignored): the
    invariant holds when every update only removes heads *strictly* below (fewer keys than) the
    head it added.  Without strictness it is false even with the guard
    (`crossing_saves_empty_heads`): two unlocked `save_table` calls whose results are each other's
    parent — segment names are content hashes — remove each other's head.
  * `merge_in_contains`, `squash_preserves_lookup`, `save_in_preserves_lookup`, `later_save_wins`,
    `merged_head_covers_all`.
-/
namespace JjModel.C21
open JjModel.Table JjModel.HeadProto JjModel.Generated

/-! ### segment-level facts -/

/-- after `self.merge_in(other)` every key of `other`'s chain and every key `self` had is found -/
theorem merge_in_contains (m : Mut) (other : Table) (k : Nat) :
    (hasKey other k → (mergeIn m other).hasKey k) ∧ (m.hasKey k → (mergeIn m other).hasKey k) :=
  ⟨mergeIn_contains m other k, mergeIn_keeps m other k⟩

/-- squashing never changes a lookup result -/
theorem squash_preserves_lookup (m : Mut) (h : m.WF) (k : Nat) :
    (maybeSquash m).getValue k = m.getValue k := maybeSquash_getValue m h k

/-- `save_in` (squash, serialize, load): the saved table has the lookups of the mutable table -/
theorem save_in_preserves_lookup (m : Mut) (h : m.WF) (k : Nat) : getValue (saveIn m) k = m.getValue k :=
  saveIn_getValue m h k

/-- a save returns base-overlaid-with-entries, the last `add_entry` of a key winning -/
theorem save_lookup (base : Table) (es : Entries) (h : WF base) (k : Nat) :
    getValue (saveIn (mutate base es)) k = match lookupLast es k with
      | some v => some v
      | none => getValue base k := save_getValue base es h k

/-- a later sequential save of a key wins over an earlier one -/
theorem later_save_wins (base : Table) (es1 es2 : Entries) (h : WF base) (k v : Nat)
    (h2 : lookupLast es2 k = some v) :
    getValue (saveIn (mutate (saveIn (mutate base es1)) es2)) k = some v :=
  JjModel.Table.later_save_wins base es1 es2 h k v h2

/-- every table the model produces from well-formed tables is well-formed -/
theorem wf_preserved (base t0 : Table) (rest : List Table) (es : Entries) (h : WF base) (h0 : WF t0) :
    WF (saveIn (mutate base es)) ∧ WF (mergeHeads t0 rest) ∧ WF ([[]] : Table) :=
  ⟨saveIn_wf _ (mutate_wf base es h), mergeHeads_wf t0 rest h0, by intro s hs; simp at hs; subst hs; exact sorted_nil⟩

example : WF [[(0, 248), (3, 135), (5, 112)], [(1, 1)]] := by
  intro s hs; simp at hs; rcases hs with rfl | rfl <;> simp [Sorted]
example : lookupLast [(5, 112), (3, 135), (5, 7)] 5 = some 7 := by decide

/-! ### protocol level -/

theorem lePre : IsPreorder le := ⟨le_refl, fun h1 h2 => le_trans h1 h2⟩

def s0 (np : Nat) : TState := init [] (List.replicate np { held := [], cur := [] })

/-- a program as a caller can start it: lock and client hook points only -/
def isPlain : Instr Table TInstr → Bool
  | .lock => true
  | .client _ => true
  | _ => false

/-- removals of different processes do not overlap: a `remove-head` step is only taken while no
    other process has removals pending -/
def Atomic (s : TState) : TEvent → Prop
  | .step pid _ => ∀ p new pend rest, s.procs[pid]? = some p → p.instrs = .rms new pend :: rest →
      ∀ (j : Nat) (q : Proc Table TInstr TLoc), j ≠ pid → s.procs[j]? = some q → NoRms q.instrs
  | .start _ prog => ∀ i ∈ prog, isPlain i = true
  | .crash _ => True

theorem mem_pickAll {α : Type} {hs : List α} {perm : List Nat} {l : List α} (h : pickAll hs perm = some l)
    {i : Nat} (hi : i ∈ perm) {x : α} (hx : hs[i]? = some x) : x ∈ l := by
  induction perm generalizing l with
  | nil => simp at hi
  | cons j r ih =>
    simp only [pickAll] at h
    cases hj : hs[j]? with
    | none => simp [hj] at h
    | some y =>
      cases hr : pickAll hs r with
      | none => simp [hj, hr] at h
      | some ys =>
        simp only [hj, hr, Option.some.injEq] at h
        subst h
        simp only [List.mem_cons] at hi
        rcases hi with rfl | hi
        · rw [hj] at hx; simp at hx; simp [hx]
        · exact List.mem_cons_of_mem _ (ih hr hi)

theorem pickAll_length {α : Type} {hs : List α} {perm : List Nat} {l : List α} (h : pickAll hs perm = some l) :
    l.length = perm.length := by
  induction perm generalizing l with
  | nil => simp [pickAll] at h; simp [h]
  | cons j r ih =>
    simp only [pickAll] at h
    cases hj : hs[j]? with
    | none => simp [hj] at h
    | some y =>
      cases hr : pickAll hs r with
      | none => simp [hj, hr] at h
      | some ys =>
        simp only [hj, hr, Option.some.injEq] at h
        subst h
        simp [ih hr]

/-- the listing handed to `get_head` contains every head -/
theorem mem_permute {α : Type} [DecidableEq α] {hs : List α} {perm : List Nat} {l : List α}
    (h : permute hs perm = some l) {x : α} (hx : x ∈ hs) : x ∈ l ∧ l.length = hs.length := by
  unfold permute at h
  split at h
  · rename_i hc
    obtain ⟨i, hi, rfl⟩ := List.mem_iff_getElem.mp hx
    have hall := List.all_eq_true.mp hc.2 i (List.mem_range.mpr hi)
    have hmem : i ∈ perm := by simpa using hall
    exact ⟨mem_pickAll h hmem (List.getElem?_eq_getElem hi), by rw [pickAll_length h, hc.1]⟩
  · simp at h

/-- what the table client pushes is covered by the new head, removals of the new head itself being
    guarded — provided `get_head_locked` has the guard -/
theorem expand_okA (c : TInstr) (arg : List Nat) (heads : List Table) (loc loc' : TLoc)
    (is : List (Instr Table TInstr)) (h : expand true c arg heads loc = some (loc', is)) :
    (∀ i ∈ is, OkA le heads i) ∧ NoRms is := by
  cases c with
  | write => simp [expand] at h; obtain ⟨_, rfl⟩ := h; exact ⟨by simp, by simp [NoRms]⟩
  | save onCur es =>
    have key : ∀ base : Table, (∃ l, (if base.isEmpty then none else
        some (l, [Instr.add (saveIn (mutate base es)) [(true, base)]])) = some (loc', is)) →
        (∀ i ∈ is, OkA le heads i) ∧ NoRms is := by
      intro base ⟨l, hb⟩
      split at hb
      · simp at hb
      · simp only [Option.some.injEq, Prod.mk.injEq] at hb
        obtain ⟨_, rfl⟩ := hb
        refine ⟨?_, by simp [NoRms, isRms]⟩
        intro i hi
        simp only [List.mem_singleton] at hi
        subst hi
        intro go hgo
        simp only [List.mem_singleton] at hgo
        subst hgo
        exact ⟨le_save _ es, fun _ => rfl⟩
    simp only [expand] at h
    exact key _ ⟨_, h⟩
  | read locked =>
    simp only [expand] at h
    split at h
    · simp at h
    · simp only [Option.some.injEq, Prod.mk.injEq] at h
      obtain ⟨_, rfl⟩ := h
      refine ⟨?_, by simp [NoRms, isRms]⟩
      intro i hi
      simp only [List.mem_cons, List.not_mem_nil, or_false] at hi
      rcases hi with rfl | rfl
      · trivial
      · intro go hgo; simp at hgo
    · simp only [Option.some.injEq, Prod.mk.injEq] at h
      obtain ⟨_, rfl⟩ := h
      exact ⟨by simp, by simp [NoRms]⟩
    · rename_i _ t0 rest _ _
      split at h
      · simp only [Option.some.injEq, Prod.mk.injEq] at h
        obtain ⟨_, rfl⟩ := h
        refine ⟨?_, by simp [NoRms, isRms]⟩
        intro i hi
        simp only [List.mem_cons, List.not_mem_nil, or_false] at hi
        rcases hi with rfl | rfl <;> trivial
      · simp only [Option.some.injEq, Prod.mk.injEq] at h
        obtain ⟨_, rfl⟩ := h
        refine ⟨?_, by simp [NoRms, isRms]⟩
        intro i hi
        simp only [List.mem_cons, List.not_mem_nil, or_false] at hi
        rcases hi with rfl | rfl
        · trivial
        · intro go hgo
          simp only [List.mem_cons, List.mem_map] at hgo
          rcases hgo with rfl | ⟨t, ht, rfl⟩
          · exact ⟨le_mergeHeads t0 rest (by simp), fun _ => rfl⟩
          · exact ⟨le_mergeHeads t0 rest (by simp [ht]), fun _ => rfl⟩

/-- every key of every table ever published as a head is found from some current head -/
def NoEntryLostIn (t : TState) : Prop :=
  ∀ T ∈ t.pub, ∀ k, hasKey T k → ∃ h ∈ t.heads, hasKey h k

/-- the C21 statement for the protocol with (`g = true`) or without the name guard -/
def NoEntryLost (g : Bool) : Prop :=
  ∀ (w : Bool) (np : Nat) (es : List (TEvent)) (t : TState),
    RunOk Atomic w (tableClient g) (s0 np) es → run w (tableClient g) (s0 np) es = some t → NoEntryLostIn t

theorem runOk_atomic {w : Bool} {s : TState} {es : List (TEvent)}
    (h : RunOk Atomic w (tableClient true) s es) : RunOk (AtomicOk le (tableClient true)) w (tableClient true) s es := by
  induction es generalizing s with
  | nil => trivial
  | cons e es ih =>
    refine ⟨?_, fun t ht => ih (h.2 t ht)⟩
    cases e with
    | step pid arg =>
      exact ⟨fun p c rest loc' is _ _ he => expand_okA c arg s.heads p.loc loc' is he, h.1⟩
    | start pid prog =>
      have hp : ∀ i ∈ prog, isPlain i = true := h.1
      refine ⟨fun i hi => ?_, fun i hi => ?_⟩
      · have := hp i hi; cases i <;> simp_all [isPlain, OkA]
      · have := hp i hi; cases i <;> simp_all [isPlain, isRms]
    | crash pid => trivial

theorem no_entry_lost_of_guard : NoEntryLost true := by
  intro w np es t hok hrun T hT k hk
  have hinv := invA_run lePre (invA_init lePre [] _) (runOk_atomic hok) hrun
  obtain ⟨h, hh, hl⟩ := hinv.1 T hT
  exact ⟨h, hh, hl k hk⟩

/-- **C21 main theorem.**  Stated for the code's own guard constant: once `get_head_locked` has the
    guard (`tableGuardEq = true`, checked separately by `Props/C21Guard.lean`) no entry is lost. -/
theorem no_entry_lost (hg : tableGuardEq = true) : NoEntryLost tableGuardEq := by
  rw [hg]; exact no_entry_lost_of_guard

/-- the C21 statement, unconditionally, for the code as it is (`guard_present` is re-checked against the generated constant on every run) -/
theorem no_entry_lost_now : NoEntryLost tableGuardEq := no_entry_lost guard_present

/-- the entries of a completed save are keys of the table it published -/
theorem save_has_entries (base : Table) (es : Entries) (k : Nat) (h : lookup es k ≠ none) :
    hasKey (saveIn (mutate base es)) k := JjModel.Table.save_has_entries base es k h

/-- after quiescence `get_head_locked` returns one table that has every key ever published -/
theorem merged_head_covers_all {g : Bool} {s : TState} (hc : Covered le s)
    {perm : List Nat} {loc loc' : TLoc} {is : List (Instr Table TInstr)}
    (h : expand g (.read true) perm s.heads loc = some (loc', is)) :
    ∀ T ∈ s.pub, le T loc'.cur := by
  intro T hT
  obtain ⟨hd, hhd, hl⟩ := hc T hT
  simp only [expand] at h
  split at h
  · simp at h
  · rename_i hp
    have := (mem_permute hp hhd).1
    simp at this
  · rename_i t hp
    simp only [Option.some.injEq, Prod.mk.injEq] at h
    obtain ⟨rfl, _⟩ := h
    have := (mem_permute hp hhd).1
    simp only [List.mem_singleton] at this
    subst this
    exact hl
  · rename_i _ t0 rest _ hp
    simp only [Bool.not_true, Bool.false_eq_true, if_false, Option.some.injEq, Prod.mk.injEq] at h
    obtain ⟨rfl, _⟩ := h
    exact le_trans hl (le_mergeHeads t0 rest (mem_permute hp hhd).1)

/-! ### interleaved regime -/

/-- any schedule at hook granularity, crashes anywhere, locks ignored: no entry is lost as long as
    every update only removes heads strictly below the head it added (or that head itself, guarded) -/
theorem no_entry_lost_interleaved (g w : Bool) (np : Nat) (es : List (TEvent)) (t : TState)
    (hstrict : RunOk (ClientOk le (tableClient g)) w (tableClient g) (s0 np) es)
    (hrun : run w (tableClient g) (s0 np) es = some t) : NoEntryLostIn t := by
  intro T hT k hk
  have hinv := inv_run lePre (inv_init lePre [] _) hstrict hrun
  obtain ⟨h, hh, hl⟩ := hinv.1 T hT
  exact ⟨h, hh, hl k hk⟩

/-- a save that writes at least one key its base does not have is strictly above its base -/
theorem save_strict_of_fresh_key (base : Table) (es : Entries) (k : Nat) (h : lookup es k ≠ none)
    (hb : ¬ hasKey base k) : Below le base (saveIn (mutate base es)) :=
  ⟨le_save base es, fun hle => hb (hle k (save_has_entries base es k h))⟩

example : Below le [[(1, 1)]] (saveIn (mutate [[(1, 1)]] [(2, 5)])) :=
  save_strict_of_fresh_key _ _ 2 (by decide) (by unfold hasKey; decide)

/-! ### concrete histories (F8 and the crossing-saves defect), checked by evaluation -/

/-- Bool check of "every other process is idle" (whole operations in sequence) -/
def othersIdleFrom : List (Proc Table TInstr TLoc) → Nat → Nat → Bool
  | [], _, _ => true
  | q :: r, j, pid => (j == pid || q.instrs.isEmpty) && othersIdleFrom r (j + 1) pid

theorem othersIdleFrom_spec {l : List (Proc Table TInstr TLoc)} {j0 pid : Nat}
    (h : othersIdleFrom l j0 pid = true) :
    ∀ (j : Nat) (q : Proc Table TInstr TLoc), l[j]? = some q → j0 + j ≠ pid → q.instrs = [] := by
  induction l generalizing j0 with
  | nil => intro j q hj; simp at hj
  | cons a r ih =>
    simp only [othersIdleFrom, Bool.and_eq_true, Bool.or_eq_true, beq_iff_eq, List.isEmpty_iff] at h
    intro j q hj hne
    cases j with
    | zero =>
      simp only [List.getElem?_cons_zero, Option.some.injEq] at hj
      subst hj
      rcases h.1 with h1 | h1
      · exact absurd h1 (by simpa using hne)
      · exact h1
    | succ j =>
      simp only [List.getElem?_cons_succ] at hj
      exact ih h.2 j q hj (by omega)

def evSeqB (s : TState) : TEvent → Bool
  | .step pid _ => othersIdleFrom s.procs 0 pid
  | .start _ prog => prog.all isPlain
  | .crash _ => true

def seqRunB (w : Bool) (cl : Client Table TInstr TLoc) : TState → List (TEvent) → Bool
  | _, [] => true
  | s, e :: es => evSeqB s e && match apply w cl s e with
    | none => true
    | some t => seqRunB w cl t es

/-- a run in which every step is taken while all other processes are idle is `Atomic` -/
theorem seqRunB_sound {w : Bool} {cl : Client Table TInstr TLoc} {s : TState} {es : List (TEvent)}
    (h : seqRunB w cl s es = true) : RunOk Atomic w cl s es := by
  induction es generalizing s with
  | nil => trivial
  | cons e es ih =>
    simp only [seqRunB, Bool.and_eq_true] at h
    refine ⟨?_, ?_⟩
    · cases e with
      | step pid arg =>
        intro p new pend rest _ _ j q hne hj
        have := othersIdleFrom_spec h.1 j q hj (by omega)
        rw [this]; simp [NoRms]
      | start pid prog => exact fun i hi => List.all_eq_true.mp h.1 i hi
      | crash pid => trivial
    · intro t ht
      have h2 := h.2
      rw [ht] at h2
      exact ih h2

/-- F8: `S0: get_head; save {0→248}` · `S1: get_head; save {3→129, 5→42}` ·
    `S0 (stale): save {5→112, 3→135}` · `S2: get_head` (merges the two heads) -/
def f8Events : List (TEvent) :=
  [.start 0 progGetHead, .step 0 [], .step 0 [], .step 0 [],
   .start 0 (progSave [(0, 248)]), .step 0 [], .step 0 [], .step 0 [],
   .start 1 progGetHead, .step 1 [0],
   .start 1 (progSave [(3, 129), (5, 42)]), .step 1 [], .step 1 [], .step 1 [],
   .start 0 (progSave [(5, 112), (3, 135)]), .step 0 [], .step 0 [], .step 0 [],
   .start 2 progGetHead, .step 2 [0, 1], .step 2 [], .step 2 [0, 1], .step 2 [], .step 2 [], .step 2 [],
   .step 2 []]

def f8T3 : Table := [[(0, 248), (3, 135), (5, 112)]]

/-- the code as it is (no guard): after the merge `heads/` is empty although `f8T3` was published -/
theorem get_head_loses_head_when_names_collide :
    ∃ t, run true (tableClient false) (s0 3) f8Events = some t ∧ t.heads = [] ∧ f8T3 ∈ t.pub := by
  have h : (match run true (tableClient false) (s0 3) f8Events with
      | some t => decide (t.heads = []) && decide (f8T3 ∈ t.pub)
      | none => false) = true := by decide
  cases hr : run true (tableClient false) (s0 3) f8Events with
  | none => simp [hr] at h
  | some t => simp [hr] at h; exact ⟨t, rfl, h⟩

theorem f8_is_sequential : seqRunB true (tableClient false) (s0 3) f8Events = true := by decide

/-- **negation of the C21 statement for the unguarded protocol** (the 3-save history of F8) -/
theorem entry_lost_without_guard : ¬ NoEntryLost false := by
  intro h
  obtain ⟨t, hr, hh, hp⟩ := get_head_loses_head_when_names_collide
  obtain ⟨x, hx, _⟩ := h true 3 f8Events t (seqRunB_sound f8_is_sequential) hr f8T3 hp 0 (by unfold hasKey f8T3; decide)
  rw [hh] at hx
  simp at hx

/-- with the guard the same history (one hook point shorter: the removal of the merged head is
    skipped) ends with the single head `f8T3` (non-vacuity of `no_entry_lost`) -/
theorem f8_repaired :
    ∃ t, run true (tableClient true) (s0 3) f8Events.dropLast = some t ∧ t.heads = [f8T3] := by
  have h : (match run true (tableClient true) (s0 3) f8Events.dropLast with
      | some t => decide (t.heads = [f8T3])
      | none => false) = true := by decide
  cases hr : run true (tableClient true) (s0 3) f8Events.dropLast with
  | none => simp [hr] at h
  | some t => simp [hr] at h; exact ⟨t, rfl, h⟩

example : RunOk Atomic true (tableClient true) (s0 3) f8Events.dropLast :=
  seqRunB_sound (by decide)

/-- crossing saves: process 0 saves `{1→1}` on top of `{1→2}`, process 1 (stale) saves `{1→2}` on
    top of `{1→1}`; both results squash to the other's parent; add, add, remove, remove -/
def crossingEvents : List (TEvent) :=
  [.start 0 progGetHead, .step 0 [], .step 0 [], .step 0 [],
   .start 0 (progSave [(1, 1)]), .step 0 [], .step 0 [], .step 0 [],
   .start 1 progGetHead, .step 1 [0],
   .start 0 (progSave [(1, 2)]), .step 0 [], .step 0 [], .step 0 [],
   .start 0 (progSave [(1, 1)]), .start 1 (progSave [(1, 2)]),
   .step 0 [], .step 1 [], .step 0 [], .step 1 [], .step 0 [], .step 1 []]

/-- **second defect class**: even with the guard, two overlapping unlocked `save_table` calls can
    empty `heads/` (names are content hashes, so "is my parent" is not a strict order).  This is why
    `no_entry_lost` needs non-overlapping removals and `no_entry_lost_interleaved` needs strictness. -/
theorem crossing_saves_empty_heads :
    ∃ t, run true (tableClient true) (s0 2) crossingEvents = some t ∧ t.heads = [] ∧ [[(1, 1)]] ∈ t.pub := by
  have h : (match run true (tableClient true) (s0 2) crossingEvents with
      | some t => decide (t.heads = []) && decide (([[(1, 1)]] : Table) ∈ t.pub)
      | none => false) = true := by decide
  cases hr : run true (tableClient true) (s0 2) crossingEvents with
  | none => simp [hr] at h
  | some t => simp [hr] at h; exact ⟨t, rfl, h⟩

end JjModel.C21
