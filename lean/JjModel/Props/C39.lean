import JjModel.Lemmas.Graph
/-!
  C39 — Log graph edges preserve ancestry.

  Theorems about `JjModel.Graph.graphOf G S skipT`, the model of `RevsetGraphWalk`
  (`lib/src/default_index/revset_graph_iterator.rs`): `G` any commit DAG by index position
  (`wfB G`), `S` the shown set, `skipT` = `skip_transitive_edges`.  Every theorem holds for both
  values of `skipT` (it is a variable).

  * `nodes_are_shown_set`, `order_topological`, `before_not_ancestor` — newest first, every commit
    before its ancestors;
  * `direct_is_parent` — a direct edge goes to a shown parent;
  * `indirect_spec` — an indirect edge goes to a shown proper ancestor and there is a path to it whose
    interior is non-empty and entirely outside the shown set;
  * `missing_spec` — a missing edge leads outside: its target is not shown, has no shown ancestor, and
    is a parent or reached through commits outside the shown set;
  * `edges_generate_ancestry` — for shown `a ≠ d`: `a` is an ancestor of `d` ⇔ `a` is reachable from
    `d` through emitted non-missing edges;
  * `remove_transitive_preserves_reachability` — reachability is the same with and without
    transitive-edge skipping.
-/
namespace JjModel.C39
open JjModel.Dag JjModel.Graph

variable {G : Graph} {S : List Nat} {skipT : Bool}

/-- The emitted nodes are exactly the shown commits (that exist in the graph), newest first. -/
theorem nodes_are_shown_set :
    (graphOf G S skipT).map (·.1) = descFilter G.length fun c => S.contains c := by
  unfold graphOf
  simp [List.map_map, Function.comp_def]

/-- Nodes come out in strictly descending position order (no commit twice). -/
theorem order_topological : ((graphOf G S skipT).map (·.1)).Pairwise (· > ·) := by
  rw [nodes_are_shown_set]; exact descFilter_pairwise _ _

/-- Every commit is emitted before its ancestors: nothing emitted before `d` is an ancestor of `d`. -/
theorem before_not_ancestor (hwf : wfB G = true) {l1 l2 : List Nat} {d : Nat}
    (h : (graphOf G S skipT).map (·.1) = l1 ++ d :: l2) : ∀ a ∈ l1, ¬ Anc G a d := by
  intro a ha hanc
  have hp := order_topological (G := G) (S := S) (skipT := skipT)
  rw [h, List.pairwise_append] at hp
  have := hp.2.2 a ha d (by simp)
  have := hanc.le (wfB_iff.1 hwf)
  omega

/-- … and every shown ancestor of `d` is emitted (after it). -/
theorem ancestors_emitted_after (hwf : wfB G = true) {l1 l2 : List Nat} {d a : Nat}
    (h : (graphOf G S skipT).map (·.1) = l1 ++ d :: l2) (haS : a ∈ S) (hne : a ≠ d)
    (hanc : Anc G a d) : a ∈ l2 := by
  have hd : d ∈ (graphOf G S skipT).map (·.1) := by rw [h]; simp
  rw [nodes_are_shown_set, mem_descFilter] at hd
  have hle := hanc.le (wfB_iff.1 hwf)
  have ha : a ∈ (graphOf G S skipT).map (·.1) := by
    rw [nodes_are_shown_set, mem_descFilter]
    exact ⟨by omega, by simpa using haS⟩
  rw [h] at ha
  rcases List.mem_append.1 ha with h1 | h1
  · exact absurd hanc (before_not_ancestor hwf h a h1)
  · rcases List.mem_cons.1 h1 with h2 | h2
    · exact absurd h2 hne
    · exact h2

theorem edge_ok (hwf : wfB G = true) {c : Nat} {es : List Edge} (hc : (c, es) ∈ graphOf G S skipT) :
    RowOK G S .direct c es := by
  obtain ⟨h1, _, rfl⟩ := mem_graphOf.1 hc
  exact nodeEdges_rowOK (wfB_iff.1 hwf) h1

/-- A direct edge means the target is a (shown) parent. -/
theorem direct_is_parent (hwf : wfB G = true) {c : Nat} {es : List Edge}
    (hc : (c, es) ∈ graphOf G S skipT) {e : Edge} (he : e ∈ es) (hk : e.kind = .direct) :
    e.target ∈ parents G c ∧ e.target ∈ S := by
  have := ((edge_ok hwf hc).ok e he).2 (by rw [hk]; simp)
  rcases this.2 with h | h
  · exact ⟨h.2, this.1⟩
  · rw [hk] at h; exact absurd h.1 (by simp)

/-- An indirect edge means the target is a shown proper ancestor reached only through commits
outside the shown set (a path with at least one interior commit, all interior commits not shown). -/
theorem indirect_spec (hwf : wfB G = true) {c : Nat} {es : List Edge}
    (hc : (c, es) ∈ graphOf G S skipT) {e : Edge} (he : e ∈ es) (hk : e.kind = .indirect) :
    e.target ∈ S ∧ Anc G e.target c ∧ e.target ≠ c ∧ Via G S c e.target := by
  have hok := (edge_ok hwf hc).ok e he
  have := hok.2 (by rw [hk]; simp)
  have hlt := hok.lt (wfB_iff.1 hwf)
  refine ⟨this.1, hok.anc, by omega, ?_⟩
  rcases this.2 with h | h
  · rw [hk] at h; exact absurd h.1 (by simp)
  · exact h.2

/-- A missing edge leads out of the shown set for good. -/
theorem missing_spec (hwf : wfB G = true) {c : Nat} {es : List Edge}
    (hc : (c, es) ∈ graphOf G S skipT) {e : Edge} (he : e ∈ es) (hk : e.kind = .missing) :
    e.target ∉ S ∧ NoShownAnc G S e.target ∧ ExtDesc G S c e.target :=
  ((edge_ok hwf hc).ok e he).1 hk

/-- one emitted non-missing edge `d → t` -/
def Step (G : Graph) (S : List Nat) (skipT : Bool) (d t : Nat) : Prop :=
  ∃ es, (d, es) ∈ graphOf G S skipT ∧ ∃ e ∈ es, e.kind ≠ .missing ∧ e.target = t

/-- reachability through emitted non-missing edges (at least one edge) -/
inductive Reach (G : Graph) (S : List Nat) (skipT : Bool) : Nat → Nat → Prop
  | single {d t : Nat} : Step G S skipT d t → Reach G S skipT d t
  | cons {d t a : Nat} : Step G S skipT d t → Reach G S skipT t a → Reach G S skipT d a

theorem Step.spec (hwf : wfB G = true) {d t : Nat} (h : Step G S skipT d t) :
    t ∈ S ∧ Anc G t d ∧ t < d := by
  obtain ⟨es, hc, e, he, hk, rfl⟩ := h
  have hok := (edge_ok hwf hc).ok e he
  exact ⟨(hok.2 hk).1, hok.anc, hok.lt (wfB_iff.1 hwf)⟩

theorem Reach.spec (hwf : wfB G = true) {d a : Nat} (h : Reach G S skipT d a) :
    a ∈ S ∧ Anc G a d ∧ a < d := by
  induction h with
  | single hs => exact hs.spec hwf
  | cons hs _ ih =>
    obtain ⟨_, h2, h3⟩ := hs.spec hwf
    exact ⟨ih.1, ih.2.1.trans h2, by omega⟩

/-- **Every ancestry relation between shown commits is implied by the edges, and nothing else
is**: for shown `a ≠ d`, `a` is an ancestor of `d` iff `a` is reachable from `d` through emitted
non-missing edges.  (With and without transitive-edge skipping: `skipT` is arbitrary.) -/
theorem edges_generate_ancestry (hwf : wfB G = true) {a d : Nat} (ha : a ∈ S) (hd : d ∈ S)
    (hdn : d < G.length) (hne : a ≠ d) : Anc G a d ↔ Reach G S skipT d a := by
  have hwf' := wfB_iff.1 hwf
  constructor
  · intro hanc
    induction d using Nat.strongRecOn with
    | _ d ih =>
      have hrow := nodeEdges_rowOK (S := S) (skipT := skipT) hwf' hdn
      obtain ⟨e, he, hm, hae⟩ := hrow.covers a ha hne hanc
      have hk := isMissing_false_iff.1 hm
      have hstep : Step G S skipT d e.target :=
        ⟨_, mem_graphOf.2 ⟨hdn, hd, rfl⟩, e, he, hk, rfl⟩
      obtain ⟨htS, _, hlt⟩ := hstep.spec hwf
      by_cases hat : a = e.target
      · subst hat; exact Reach.single hstep
      · exact Reach.cons hstep (ih e.target hlt htS (by omega) hat hae)
  · intro h; exact (h.spec hwf).2.1

/-- Skipping transitive edges does not change which shown commits are reachable from which. -/
theorem remove_transitive_preserves_reachability (hwf : wfB G = true) {a d : Nat} (ha : a ∈ S)
    (hd : d ∈ S) (hdn : d < G.length) :
    Reach G S true d a ↔ Reach G S false d a := by
  by_cases hne : a = d
  · subst hne
    constructor <;> intro h <;> have := (h.spec hwf).2.2 <;> omega
  · rw [← edges_generate_ancestry hwf ha hd hdn hne, ← edges_generate_ancestry hwf ha hd hdn hne]

/-! ### non-vacuity: the examples of the source file's doc comment -/

/-- `A(5) → B(4), c(3)`; `B → d(1), E(2)`; `c → E`; `d, E → root(0)`; shown: `A B E` -/
def docGraph : Graph := [[], [0], [0], [2], [1, 2], [4, 3]]

example : graphOf docGraph [5, 4, 2] false =
    [(5, [⟨4, .direct⟩, ⟨2, .indirect⟩]), (4, [⟨1, .missing⟩, ⟨2, .direct⟩]), (2, [⟨0, .missing⟩])] := by
  decide

/-- with transitive-edge skipping the edge `A → E` disappears (there is `A → B → E`) -/
example : graphOf docGraph [5, 4, 2] true =
    [(5, [⟨4, .direct⟩]), (4, [⟨1, .missing⟩, ⟨2, .direct⟩]), (2, [⟨0, .missing⟩])] := by
  decide

example : wfB docGraph = true := by decide

/-- instance of `edges_generate_ancestry`: `E` is reachable from `A` in both modes -/
example : Reach docGraph [5, 4, 2] true 5 2 :=
  (edges_generate_ancestry (by decide) (by decide) (by decide) (by decide) (by decide)).1
    (Anc.step (p := 4) (by decide) (Anc.step (p := 2) (by decide) (Anc.refl 2)))

/-- a shown parent reached a second time through an external commit: both edges are emitted
(`test_graph_iterator` behaviour of the code: direct and indirect edge to the same target) -/
example : graphOf [[], [0], [1], [1, 2]] [1, 3] true =
    [(3, [⟨1, .direct⟩, ⟨1, .indirect⟩]), (1, [⟨0, .missing⟩])] := by decide

end JjModel.C39
