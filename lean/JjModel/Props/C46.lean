import JjModel.Lemmas.EvolutionWalk
/-!
  C46 — Evolution history is complete and acyclic.

  The theorems are about `JjModel.Evolution.walkPredecessors`, the model of
  `jj_lib::evolution::walk_predecessors` that the driver runs (lean/JjModel/Model/Evolution.lean).
  `ops` is the operation log in the order `op_walk::walk_ancestors` yields it (newest first).

  Hypotheses (both hold for logs written by `Transaction::write` of this jj version; the harness
  evaluates them on every generated log and applies the oracle exactly when they hold):
  * `Recorded ops`: every operation stores `commit_predecessors`, and every commit that occurs as a
    predecessor has a creation record (is a key of some operation);
  * `Fresh ops`: a commit created by an operation occurs in no operation listed after it
    (`FreshAcross`), and inside one operation a commit is rewritten only from older commits
    (`WithinAcyclic`: some rank decreases along the edges that stay inside the operation).

  Termination: `spliceLoop` and `topoLoop` are defined by well-founded recursion on
  `(free m seen, …)`; Lean accepted the definitions with the decrease proofs `free_lt` / `free_mono`,
  for *every* map (cyclic and legacy logs included), so the model's walk always terminates.
-/
namespace JjModel.C46
open JjModel.Evolution

/-- `LEdge⁺`: `c` was (transitively, in at least one step) rewritten from `p`. -/
inductive LPlus (ops : Log) : Nat → Nat → Prop
  | single {a b} : LEdge ops a b → LPlus ops a b
  | tail {a b c} : LPlus ops a b → LEdge ops b c → LPlus ops a c

/-- The full statement proved by induction along the operation log. -/
theorem walk_spec (ops : Log) (start : List Nat) (hrec : Recorded ops) (hfresh : Fresh ops)
    (hstart : start.Nodup) : WalkSpec ops start (walkPredecessors ops start) :=
  walkFrom_spec ops 0 start hrec hfresh
    (fun x _ _ => List.nodup_iff_count.mp hstart x)

/-- **walk_terminates** — on a recorded, fresh log the stream ends normally: no
`CycleDetected`.  (That the loops terminate at all is part of the model's definition, see the
header.) -/
theorem walk_terminates (ops : Log) (start : List Nat) (hrec : Recorded ops) (hfresh : Fresh ops)
    (hstart : start.Nodup) : (walkPredecessors ops start).2 = none :=
  (walk_spec ops start hrec hfresh hstart).no_error

/-- **walk_emits_once** — every commit reachable from the start set through predecessor edges is
listed, nothing else is, and nothing is listed twice. -/
theorem walk_emits_once (ops : Log) (start : List Nat) (hrec : Recorded ops) (hfresh : Fresh ops)
    (hstart : start.Nodup) :
    (commits (walkPredecessors ops start).1).Nodup ∧
    ∀ c, c ∈ commits (walkPredecessors ops start).1 ↔ LReach ops start c :=
  ⟨(walk_spec ops start hrec hfresh hstart).nodup, (walk_spec ops start hrec hfresh hstart).complete⟩

/-- **walk_order** — a commit is listed before every commit it was rewritten from: wherever the
list is cut at an entry, all recorded predecessors of that entry's commit are in the part after
it (so each commit comes after all of its own rewrites). -/
theorem walk_order (ops : Log) (start : List Nat) (hrec : Recorded ops) (hfresh : Fresh ops)
    (hstart : start.Nodup) (l1 l2 : List Entry) (e : Entry)
    (hcut : (walkPredecessors ops start).1 = l1 ++ e :: l2) (p : Nat)
    (hp : LEdge ops e.commit p) : p ∈ commits l2 := by
  have spec := walk_spec ops start hrec hfresh hstart
  have hnd := spec.nodup
  have hmem : e.commit ∈ commits (walkPredecessors ops start).1 := by
    rw [hcut]; simp [commits]
  obtain ⟨a, b, hab, hpb⟩ := spec.order e.commit p hmem hp
  rw [hcut] at hnd hab
  have hsplit : commits (l1 ++ e :: l2) = commits l1 ++ e.commit :: commits l2 := by
    simp [commits]
  rw [hsplit] at hnd hab
  -- `e.commit` occurs once, so the two cuts agree
  have hnot1 : e.commit ∉ commits l1 := by
    intro h
    have := (List.nodup_append.mp hnd).2.2 _ h e.commit (by simp)
    exact this rfl
  have hnota : e.commit ∉ a := by
    intro h
    rw [hab] at hnd
    have := (List.nodup_append.mp hnd).2.2 _ h e.commit (by simp)
    exact this rfl
  have := List.append_eq_append_iff.mp hab
  rcases this with ⟨t, h1, h2⟩ | ⟨t, h1, h2⟩
  · cases t with
    | nil => simp at h2; rw [h2]; exact hpb
    | cons x t =>
      simp at h2
      exfalso; apply hnota; rw [h1, ← h2.1]; simp
  · cases t with
    | nil => simp at h2; rw [← h2]; exact hpb
    | cons x t =>
      simp at h2
      exfalso; apply hnot1; rw [h1, ← h2.1]; simp

/-- the predecessors reported with an entry are recorded ones -/
theorem walk_reports_recorded (ops : Log) (start : List Nat) (hrec : Recorded ops)
    (hfresh : Fresh ops) (hstart : start.Nodup) (e : Entry)
    (he : e ∈ (walkPredecessors ops start).1) (p : Nat) (hp : p ∈ e.preds) :
    LEdge ops e.commit p :=
  (walk_spec ops start hrec hfresh hstart).entries e he p hp

/-! ### acyclicity -/

theorem LPlus.mentioned {ops : Log} {a b : Nat} (h : LPlus ops a b) : ∃ c, LEdge ops c b := by
  cases h with
  | single e => exact ⟨_, e⟩
  | tail _ e => exact ⟨_, e⟩

/-- a path that ends in a commit created by the newest operation lies inside that operation -/
theorem LPlus.stay {m : PMap} {rest : Log} (hf : FreshAcross (some m :: rest)) {a b : Nat}
    (h : LPlus (some m :: rest) a b) (hb : m.isKey b = true) : Plus m a b := by
  induction h with
  | single e =>
    rcases LEdge.cons_iff.mp e with e' | e'
    · exact .single e'
    · exact absurd e' ((hf.1 m rfl _ hb).2 _)
  | tail _ e ih =>
    rcases LEdge.cons_iff.mp e with e' | e'
    · exact .tail (ih e'.isKey) e'
    · exact absurd e' ((hf.1 m rfl _ hb).2 _)

/-- a path that starts at a commit not created by the newest operation lies in the older ones -/
theorem LPlus.out {m : PMap} {rest : Log} (hf : FreshAcross (some m :: rest)) {a b : Nat}
    (h : LPlus (some m :: rest) a b) (ha : m.isKey a = false) : LPlus rest a b := by
  induction h with
  | single e =>
    rcases LEdge.cons_iff.mp e with e' | e'
    · have := e'.isKey; simp [ha] at this
    · exact .single e'
  | tail _ e ih =>
    rcases LEdge.cons_iff.mp e with e' | e'
    · obtain ⟨c, hc⟩ := ih.mentioned
      exact absurd hc ((hf.1 m rfl _ e'.isKey).2 c)
    · exact .tail ih e'

theorem LPlus.drop_none {rest : Log} {a b : Nat} (h : LPlus (none :: rest) a b) : LPlus rest a b := by
  have drop : ∀ {c p}, LEdge (none :: rest) c p → LEdge rest c p := by
    rintro c p ⟨m, hm, he⟩
    rcases List.mem_cons.mp hm with h | h
    · simp at h
    · exact ⟨m, h, he⟩
  induction h with
  | single e => exact .single (drop e)
  | tail _ e ih => exact .tail ih (drop e)

/-- **acyclic** — under `Fresh` no commit is (transitively) rewritten from itself, whatever the
shape of the log (legacy operations included). -/
theorem acyclic (ops : Log) (hfresh : Fresh ops) (c : Nat) : ¬ LPlus ops c c := by
  induction ops with
  | nil =>
    intro h
    obtain ⟨x, m, hm, _⟩ := h.mentioned
    simp at hm
  | cons o rest ih =>
    intro h
    cases o with
    | none => exact ih hfresh.tail h.drop_none
    | some m =>
      cases hk : m.isKey c with
      | true => exact (hfresh.2 m (by simp)).no_loop c (h.stay hfresh.1 hk)
      | false => exact ih hfresh.tail (h.out hfresh.1 hk)

/-- … so `CycleDetected` is unreachable on recorded fresh logs (same fact as `walk_terminates`,
stated as the corollary of acyclicity the property asks for). -/
theorem cycle_error_unreachable (ops : Log) (start : List Nat) (hrec : Recorded ops)
    (hfresh : Fresh ops) (hstart : start.Nodup) (c : Nat) :
    (walkPredecessors ops start).2 ≠ some c := by
  rw [walk_terminates ops start hrec hfresh hstart]; simp

/-! ### decidable sufficient conditions for the hypotheses, and a concrete history -/

def mentionsB (m : PMap) (k : Nat) : Bool := m.any fun e => e.1 == k || e.2.contains k

def freshAcrossB : Log → Bool
  | [] => true
  | o :: rest =>
    (match o with
      | none => true
      | some m => m.all fun e => rest.all fun o' =>
          match o' with | none => true | some m' => !mentionsB m' e.1) && freshAcrossB rest

/-- inside one operation every predecessor that is itself created there has a smaller number
(the harness numbers commits in creation order) -/
def withinB (m : PMap) : Bool := m.all fun e => e.2.all fun p => !m.isKey p || p < e.1

def freshB (ops : Log) : Bool :=
  freshAcrossB ops && ops.all fun o => match o with | none => true | some m => withinB m

def recordedB (ops : Log) : Bool :=
  ops.all (·.isSome) && ops.all fun o =>
    match o with
    | none => true
    | some m => m.all fun e => e.2.all fun p => ops.any fun o' =>
        match o' with | none => false | some m' => m'.isKey p

theorem get_mem {m : PMap} {c : Nat} {ps : List Nat} (h : m.get c = some ps) : (c, ps) ∈ m := by
  unfold PMap.get at h
  induction m with
  | nil => simp [List.lookup] at h
  | cons e m ih =>
    obtain ⟨k, v⟩ := e
    simp only [List.lookup] at h
    by_cases hk : c = k
    · subst hk; simp at h; subst h; simp
    · have : (c == k) = false := by simp [hk]
      simp [this] at h
      exact List.mem_cons_of_mem _ (ih h)

theorem edge_mem {m : PMap} {c p : Nat} (h : Edge m c p) : ∃ ps, (c, ps) ∈ m ∧ p ∈ ps := by
  unfold Edge PMap.nbrs at h
  cases hg : m.get c with
  | none => simp [hg] at h
  | some ps => exact ⟨ps, get_mem hg, by simpa [hg] using h⟩

theorem isKey_mem {m : PMap} {c : Nat} (h : m.isKey c = true) : ∃ ps, (c, ps) ∈ m := by
  unfold PMap.isKey at h
  cases hg : m.get c with
  | none => simp [hg] at h
  | some ps => exact ⟨ps, get_mem hg⟩

theorem freshAcrossB_sound : ∀ ops : Log, freshAcrossB ops = true → FreshAcross ops := by
  intro ops
  induction ops with
  | nil => intro _; trivial
  | cons o rest ih =>
    intro h
    simp only [freshAcrossB, Bool.and_eq_true] at h
    refine ⟨?_, ih h.2⟩
    intro m hm k hk
    subst hm
    obtain ⟨ps, hmem⟩ := isKey_mem hk
    have h1 := List.all_eq_true.mp h.1 (k, ps) hmem
    have hno : ∀ m', some m' ∈ rest → mentionsB m' k = false := by
      intro m' hm'
      have := List.all_eq_true.mp h1 (some m') hm'
      simpa using this
    refine ⟨?_, ?_⟩
    · rintro ⟨m', hm', hk'⟩
      obtain ⟨ps', hmem'⟩ := isKey_mem hk'
      have := hno m' hm'
      simp only [mentionsB, List.any_eq_false] at this
      have := this (k, ps') hmem'
      simp at this
    · rintro c ⟨m', hm', he⟩
      obtain ⟨ps', hmem', hp⟩ := edge_mem he
      have := hno m' hm'
      simp only [mentionsB, List.any_eq_false] at this
      have := this (c, ps') hmem'
      simp at this
      exact this.2 hp

theorem withinB_sound (m : PMap) (h : withinB m = true) : WithinAcyclic m := by
  refine ⟨id, ?_⟩
  intro c p he hk
  obtain ⟨ps, hmem, hp⟩ := edge_mem he
  have := List.all_eq_true.mp (List.all_eq_true.mp h (c, ps) hmem) p hp
  simpa [hk] using this

theorem freshB_sound (ops : Log) (h : freshB ops = true) : Fresh ops := by
  simp only [freshB, Bool.and_eq_true] at h
  refine ⟨freshAcrossB_sound ops h.1, ?_⟩
  intro m hm
  exact withinB_sound m (by simpa using List.all_eq_true.mp h.2 (some m) hm)

theorem recordedB_sound (ops : Log) (h : recordedB ops = true) : Recorded ops := by
  simp only [recordedB, Bool.and_eq_true] at h
  refine ⟨?_, ?_⟩
  · intro o ho hn
    subst hn
    have := List.all_eq_true.mp h.1 none ho
    simp at this
  · rintro c p ⟨m, hm, he⟩
    obtain ⟨ps, hmem, hp⟩ := edge_mem he
    have h1 := List.all_eq_true.mp h.2 (some m) hm
    have h2 := List.all_eq_true.mp (List.all_eq_true.mp h1 (c, ps) hmem) p hp
    obtain ⟨o', ho', hk⟩ := List.any_eq_true.mp h2
    cases o' with
    | none => simp at hk
    | some m' => exact ⟨m', ho', hk⟩

/-- The history of `test_walk_predecessors_transitive_graph_order` followed by a concurrent pair of
rewrites: op 3 creates 1, rewrites it to 2, 2 to 3 and 1 to 4; op 2 squashes 4 and 3 into 5;
two concurrent operations rewrite 5 to 6 and 5 to 7; the merge operation records nothing. -/
def exampleLog : Log :=
  [some [], some [(7, [5])], some [(6, [5])], some [(5, [4, 3])],
   some [(1, []), (2, [1]), (3, [2]), (4, [1])], some []]

example : Recorded exampleLog := recordedB_sound _ (by decide)
example : Fresh exampleLog := freshB_sound _ (by decide)
example : [7, 6].Nodup := by decide
example : LEdge exampleLog 5 3 := ⟨[(5, [4, 3])], by simp [exampleLog], by simp [Edge, PMap.nbrs, PMap.get, List.lookup]⟩

/-- the hypotheses are not redundant: a self-referencing record is rejected by `Fresh` … -/
example : ¬ Fresh [some [(1, [1])]] := by
  intro h
  have hac : WithinAcyclic [(1, [1])] := h.2 _ (by simp)
  exact hac.no_loop 1 (.single (by simp [Edge, PMap.nbrs, PMap.get, List.lookup]))

end JjModel.C46
