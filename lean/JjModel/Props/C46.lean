import JjModel.Model.Evolution
/-! C46 — Evolution history is complete and acyclic (theorems follow). -/
namespace JjModel.C46
open JjModel.Evolution
end JjModel.C46
