import JjModel.Lemmas.TextUtil
/-!
  C44 — Text truncation and wrapping respect the width.

  `W cw s` = Σ `cw c` is *the* width (the per-character measure the cutting loops of
  `text_util.rs` implement); `cw` is arbitrary, so the theorems hold for any width table
  (unicode-width 0.2.2 in the build that is checked).  The functions that take decisions with the
  string-level `str.width()` get that number as an argument (`dW`, `eW`); their theorems assume it
  equals `W` (hypothesis `hd`/`he`) — false for some control characters and emoji sequences, which
  the harness generates on purpose and only tallies.
-/
namespace JjModel.C44
open JjModel.TextUtil

variable (cw : Char → Nat)

/-! ### elide_start / elide_end -/

/-- **elide_width** (end): the result is never wider than `max`, and the reported width is the
    width of the returned string. -/
theorem elideEnd_width (text ell : List Char) (max : Nat) :
    W cw (elideEnd cw text ell max).1 ≤ max ∧ (elideEnd cw text ell max).2 = W cw (elideEnd cw text ell max).1 := by
  obtain ⟨t1, t2, t3, _⟩ := scanFit_spec cw max text 0
  obtain ⟨e1, e2, e3, _⟩ := scanFit_spec cw max ell 0
  simp only [Nat.zero_add] at t2 e2
  have t3 := t3 (Nat.zero_le _)
  have e3 := e3 (Nat.zero_le _)
  unfold elideEnd
  simp only
  split
  · next h =>
    rw [h, List.take_length] at t2
    simp only; rw [t2] at t3; exact ⟨t3, t2⟩
  · split
    · simp only; rw [e2] at e3; exact ⟨e3, e2⟩
    · next he =>
      have he : (scanFit cw max ell 0).1 = ell.length := by simpa using he
      rw [he, List.take_length] at e2
      have hk : (scanFit cw max text 0).2 = W cw (text.take (scanFit cw max text 0).1).reverse := by
        rw [W_reverse]; exact t2
      obtain ⟨b1, b2⟩ := skip_bound cw (text.take (scanFit cw max text 0).1).reverse
        (scanFit cw max text 0).2 (scanFit cw max ell 0).2 max hk e3
      simp only [W_append, W_dropEnd, b1]
      rw [← e2]
      constructor <;> omega

/-- **fits_unchanged** (end) -/
theorem elideEnd_fits (text ell : List Char) (max : Nat) (h : W cw text ≤ max) :
    elideEnd cw text ell max = (text, W cw text) := by
  simp [elideEnd, scanFit_all cw max text h]

/-- **elide_width** (start) -/
theorem elideStart_width (text ell : List Char) (max : Nat) :
    W cw (elideStart cw text ell max).1 ≤ max ∧
      (elideStart cw text ell max).2 = W cw (elideStart cw text ell max).1 := by
  obtain ⟨t1, t2, t3, _⟩ := scanFit_spec cw max text.reverse 0
  obtain ⟨e1, e2, e3, _⟩ := scanFit_spec cw max ell.reverse 0
  simp only [Nat.zero_add] at t2 e2
  have t3 := t3 (Nat.zero_le _)
  have e3 := e3 (Nat.zero_le _)
  unfold elideStart
  simp only
  split
  · next h =>
    have : text.reverse.take text.length = text.reverse := List.take_of_length_le (by simp)
    rw [h, this, W_reverse] at t2
    simp only; rw [t2] at t3; exact ⟨t3, t2⟩
  · split
    · simp only [W_trimZero, W_takeEnd]; rw [e2] at e3; exact ⟨e3, e2⟩
    · next he =>
      have he : (scanFit cw max ell.reverse 0).1 = ell.length := by simpa using he
      have : ell.reverse.take ell.length = ell.reverse := List.take_of_length_le (by simp)
      rw [he, this, W_reverse] at e2
      have hk : (scanFit cw max text.reverse 0).2 = W cw (takeEnd (scanFit cw max text.reverse 0).1 text) := by
        rw [W_takeEnd]; exact t2
      obtain ⟨b1, b2⟩ := skip_bound cw (takeEnd (scanFit cw max text.reverse 0).1 text)
        (scanFit cw max text.reverse 0).2 (scanFit cw max ell.reverse 0).2 max hk e3
      simp only [W_append, W_trimZero, b1]
      rw [← e2]
      constructor <;> omega

/-- **fits_unchanged** (start) -/
theorem elideStart_fits (text ell : List Char) (max : Nat) (h : W cw text ≤ max) :
    elideStart cw text ell max = (text, W cw text) := by
  have := scanFit_all cw max text.reverse (by rw [W_reverse]; exact h)
  simp [elideStart, this, W_reverse]

/-- **elide_width** — both directions. -/
theorem elide_width (text ell : List Char) (max : Nat) :
    W cw (elideStart cw text ell max).1 ≤ max ∧ W cw (elideEnd cw text ell max).1 ≤ max :=
  ⟨(elideStart_width cw text ell max).1, (elideEnd_width cw text ell max).1⟩

/-- **fits_unchanged** — both directions. -/
theorem fits_unchanged (text ell : List Char) (max : Nat) (h : W cw text ≤ max) :
    (elideStart cw text ell max).1 = text ∧ (elideEnd cw text ell max).1 = text := by
  simp [elideStart_fits cw text ell max h, elideEnd_fits cw text ell max h]

/-! ### write_truncated_start / write_truncated_end -/

/-- **truncate_width** (end): under the width hypothesis the output fits and the reported width is
    the width of the output. -/
theorem truncateEnd_width (dW eW : Nat) (data ell : List Char) (max : Nat)
    (hd : dW = W cw data) (he : eW = W cw ell) :
    W cw (writeTruncatedEnd cw dW eW data ell max).1 ≤ max ∧
      (writeTruncatedEnd cw dW eW data ell max).2 = W cw (writeTruncatedEnd cw dW eW data ell max).1 := by
  unfold writeTruncatedEnd
  split
  · obtain ⟨_, t2, t3, _⟩ := scanFit_spec cw (max - eW) data 0
    obtain ⟨_, e2, e3, _⟩ := scanFit_spec cw max ell 0
    simp only [Nat.zero_add] at t2 e2
    have t3 := t3 (Nat.zero_le _)
    have e3 := e3 (Nat.zero_le _)
    have e4 := W_take_le cw ell (scanFit cw max ell 0).1
    simp only [W_append]
    constructor <;> omega
  · simp only; constructor <;> omega

/-- **fits_unchanged** for `write_truncated_end` (no width hypothesis needed: the decision is taken
    with `dW`) -/
theorem truncateEnd_fits (dW eW : Nat) (data ell : List Char) (max : Nat) (h : dW ≤ max) :
    writeTruncatedEnd cw dW eW data ell max = (data, dW) := by
  simp [writeTruncatedEnd, Nat.not_lt.mpr h]

/-- **truncate_width** (start) -/
theorem truncateStart_width (dW eW : Nat) (data ell : List Char) (max : Nat)
    (hd : dW = W cw data) (he : eW = W cw ell) :
    W cw (writeTruncatedStart cw dW eW data ell max).1 ≤ max ∧
      (writeTruncatedStart cw dW eW data ell max).2 = W cw (writeTruncatedStart cw dW eW data ell max).1 := by
  unfold writeTruncatedStart
  split
  · obtain ⟨_, t2, t3, _⟩ := scanFit_spec cw (max - eW) data.reverse 0
    obtain ⟨_, e2, e3, _⟩ := scanFit_spec cw max ell.reverse 0
    simp only [Nat.zero_add] at t2 e2
    have t3 := t3 (Nat.zero_le _)
    have e3 := e3 (Nat.zero_le _)
    have e4 := W_take_le cw ell.reverse (scanFit cw max ell.reverse 0).1
    rw [W_reverse] at e4
    simp only [W_append, W_trimZero, W_takeEnd, W_keptStart]
    constructor <;> omega
  · simp only; constructor <;> omega

/-- **fits_unchanged** for `write_truncated_start` (no width hypothesis needed: the decision is
    taken with `dW`): text that fits comes back unchanged, leading zero-width characters included.
    (Before /repo 645211a the code dropped them — former finding
    `text:truncate-start-drops-leading-zero-width-chars-of-text-that-fits`; this theorem was then
    only the weaker `truncateStart_fits_partial` with result `trimZero cw data`.) -/
theorem truncateStart_fits (dW eW : Nat) (data ell : List Char) (max : Nat) (h : dW ≤ max) :
    writeTruncatedStart cw dW eW data ell max = (data, dW) := by
  simp [writeTruncatedStart, Nat.not_lt.mpr h]

/-- … and even on the truncating path (`dW > max`, possible with `W data ≤ max - eW` only when the
    string-level measure exceeds the per-character sum) nothing is dropped from a text whose
    characters are all kept: zero-width characters are skipped only after a removed character. -/
theorem truncateStart_keeps_all_of_fit (dW eW : Nat) (data ell : List Char) (max : Nat)
    (h : W cw data ≤ max - eW) :
    ∃ e, (writeTruncatedStart cw dW eW data ell max).1 = e ++ data := by
  unfold writeTruncatedStart
  split
  · have := scanFit_all cw (max - eW) data.reverse (by rw [W_reverse]; exact h)
    refine ⟨trimZero cw (takeEnd (scanFit cw max ell.reverse 0).1 ell), ?_⟩
    simp [keptStart, this]
  · exact ⟨[], rfl⟩

/-- the former reproducer of the finding, on the model: a combining mark in front of a letter,
    width 4 — unchanged; and cut to width 0 budget the mark goes with its letter -/
example : writeTruncatedStart (fun c => if c = 'a' then 1 else 0) 1 0 ['\u0301', 'a'] [] 4 = (['\u0301', 'a'], 1) := by decide
example : writeTruncatedStart (fun c => if c = 'a' then 1 else 0) 2 0 ['a', '\u0301', 'a'] [] 1 = (['a'], 1) := by decide
example : W (fun c => if c = 'a' then 1 else 0) ['\u0301', 'a'] ≤ 4 - 0 := by decide

/-! ### write_padded_* -/

/-- **pad_width**: with a fill of width 1 the result is exactly `max min (W data)` wide -/
theorem pad_width (dW : Nat) (data fill : List Char) (min : Nat) (hd : dW = W cw data) (hf : W cw fill = 1) :
    W cw (writePaddedStart dW data fill min) = Nat.max min (W cw data) ∧
    W cw (writePaddedEnd dW data fill min) = Nat.max min (W cw data) ∧
    W cw (writePaddedCentered dW data fill min) = Nat.max min (W cw data) := by
  simp only [writePaddedStart, writePaddedEnd, writePaddedCentered, W_append, W_padding, hf, Nat.mul_one]
  have : Nat.max min (W cw data) = if min ≤ W cw data then W cw data else min := by
    simp only [Nat.max_def]
  rw [this]
  split <;> refine ⟨?_, ?_, ?_⟩ <;> omega

/-- padding never touches the text, and text at least `min` wide comes back unchanged -/
theorem pad_fits (dW : Nat) (data fill : List Char) (min : Nat) (h : min ≤ dW) :
    writePaddedStart dW data fill min = data ∧ writePaddedEnd dW data fill min = data ∧
      writePaddedCentered dW data fill min = data := by
  have : min - dW = 0 := by omega
  simp [writePaddedStart, writePaddedEnd, writePaddedCentered, this, padding]

theorem pad_keeps_text (dW : Nat) (data fill : List Char) (min : Nat) :
    (∃ k, writePaddedStart dW data fill min = padding fill k ++ data) ∧
    (∃ k, writePaddedEnd dW data fill min = data ++ padding fill k) ∧
    (∃ k l, writePaddedCentered dW data fill min = padding fill k ++ data ++ padding fill l) :=
  ⟨⟨_, rfl⟩, ⟨_, rfl⟩, ⟨_, _, rfl⟩⟩

/-! ### char_boundaries -/

/-- **char_boundaries** — in this model strings are lists of characters and every position is a
    character count, so a character cannot be split *by construction*; what remains to be said is
    that every output is assembled from contiguous pieces of the inputs: a prefix of the text and a
    prefix of the ellipsis (end), a suffix of the ellipsis and a suffix of the text (start).
    (The byte-index arithmetic of the source, `start + c.len_utf8()`, is not modelled; the harness
    checks on every case that the real output is valid UTF-8 made of such pieces.) -/
theorem char_boundaries (text ell : List Char) (max : Nat) :
    (∃ n m, (elideEnd cw text ell max).1 = text.take n ++ ell.take m) ∧
    (∃ n m, (elideStart cw text ell max).1 = ell.drop m ++ text.drop n) := by
  constructor
  · unfold elideEnd
    simp only
    split
    · exact ⟨text.length, 0, by simp⟩
    · split
      · exact ⟨0, (scanFit cw max ell 0).1, by simp⟩
      · refine ⟨min ((text.take (scanFit cw max text 0).1).length -
            (scanSkip cw ((scanFit cw max text 0).2 - (max - (scanFit cw max ell 0).2))
              (text.take (scanFit cw max text 0).1).reverse 0).1) (scanFit cw max text 0).1, ell.length, ?_⟩
        rw [dropEnd_eq_take, List.take_take, List.take_length]
  · unfold elideStart
    simp only
    split
    · exact ⟨0, ell.length, by simp⟩
    · split
      · obtain ⟨k, hk⟩ := trimZero_eq_drop cw (takeEnd (scanFit cw max ell.reverse 0).1 ell)
        refine ⟨text.length, ell.length - (scanFit cw max ell.reverse 0).1 + k, ?_⟩
        rw [hk, takeEnd_eq_drop, List.drop_drop]; simp
      · obtain ⟨k, hk⟩ := trimZero_eq_drop cw
          ((takeEnd (scanFit cw max text.reverse 0).1 text).drop
            (scanSkip cw ((scanFit cw max text.reverse 0).2 - (max - (scanFit cw max ell.reverse 0).2))
              (takeEnd (scanFit cw max text.reverse 0).1 text) 0).1)
        refine ⟨text.length - (scanFit cw max text.reverse 0).1 +
          (scanSkip cw ((scanFit cw max text.reverse 0).2 - (max - (scanFit cw max ell.reverse 0).2))
              (takeEnd (scanFit cw max text.reverse 0).1 text) 0).1 + k, 0, ?_⟩
        rw [hk, takeEnd_eq_drop, List.drop_drop, List.drop_drop]; simp [Nat.add_assoc]

theorem char_boundaries_truncate (dW eW : Nat) (data ell : List Char) (max : Nat) :
    (∃ n m, (writeTruncatedEnd cw dW eW data ell max).1 = data.take n ++ ell.take m) ∧
    (∃ n m, (writeTruncatedStart cw dW eW data ell max).1 = ell.drop m ++ data.drop n) := by
  constructor
  · unfold writeTruncatedEnd
    split
    · exact ⟨_, _, rfl⟩
    · exact ⟨data.length, 0, by simp⟩
  · unfold writeTruncatedStart
    split
    · obtain ⟨k, hk⟩ := trimZero_eq_drop cw (takeEnd (scanFit cw max ell.reverse 0).1 ell)
      obtain ⟨j, hj⟩ := keptStart_eq_drop cw (scanFit cw (max - eW) data.reverse 0).1 data
      refine ⟨j, ell.length - (scanFit cw max ell.reverse 0).1 + k, ?_⟩
      simp only
      rw [hk, hj, takeEnd_eq_drop, List.drop_drop]
    · exact ⟨0, ell.length, by simp⟩

/-! ### wrap_bytes -/

/-- first-fit on one line, for any word measure `ww`: each produced line fits (`groupW` counts the
    words and the spaces between them) or consists of a single word -/
theorem wrapFirstFit_spec (ww : List Char → Nat) (n : Nat) (words : List Word) :
    ∀ g ∈ wrapFirstFit ww n words, (g.length ≤ 1 ∨ groupW ww g ≤ n) ∧ (∀ x ∈ g, x ∈ words) := by
  intro g hg
  obtain ⟨h1, h2⟩ := wrapAux_spec ww n words [] 0 (by simp [fullW]) (Or.inl (by simp)) g hg
  exact ⟨h1, fun x hx => by rcases h2 x hx with h | h; simp at h; exact h⟩

/-- **wrap_width** (one input line): a space is one column wide and the words of the line contain
    no ANSI escape (so that textwrap's measure is the plain sum) ⇒ every wrapped line is at most `n`
    wide, unless it is one single word of the input (which contains no space, hence cannot be
    broken) that is itself wider than `n`. -/
theorem wrap_width (line : List Char) (n : Nat) (hsp : cw ' ' = 1) (hesc : ESC ∉ line) :
    ∀ l ∈ wrapLine cw n line,
      W cw l ≤ n ∨ (∃ x ∈ splitWords line, l = x.word ∧ ' ' ∉ l ∧ n < W cw l) := by
  intro l hl
  simp only [wrapLine, List.mem_map] at hl
  obtain ⟨g, hg, rfl⟩ := hl
  obtain ⟨h1, h2⟩ := wrapFirstFit_spec (displayWidth cw) n (splitWords line) g hg
  have hww : ∀ x ∈ g, displayWidth cw x.word = W cw x.word := fun x hx =>
    displayWidth_eq_W cw x.word (fun hm => hesc ((splitWords_chars line x (h2 x hx)).1 _ hm))
  rcases h1 with h1 | h1
  · match g, h1, h2 with
    | [], _, _ => left; simp [lineOf, W]
    | [x], _, h2 =>
      by_cases hx : W cw x.word ≤ n
      · left; simpa [lineOf] using hx
      · right
        exact ⟨x, h2 x (by simp), by simp [lineOf], by simpa [lineOf] using (splitWords_chars line x (h2 x (by simp))).2,
          by simpa [lineOf] using hx⟩
    | _ :: _ :: _, h1, _ => simp at h1
  · left
    rw [W_lineOf cw g hsp, ← groupW_congr _ _ g hww]
    exact h1

/-- **wrap_width** for the whole text (`wrap_bytes`): the same for every output line. -/
theorem wrapBytes_width (text : List Char) (n : Nat) (hsp : cw ' ' = 1) (hesc : ESC ∉ text) :
    ∀ l ∈ wrapBytes cw n text, W cw l ≤ n ∨ (' ' ∉ l ∧ n < W cw l) := by
  intro l hl
  simp only [wrapBytes, List.mem_flatMap] at hl
  obtain ⟨line, hline, hl⟩ := hl
  have : ESC ∉ line := fun hm => hesc (splitOn_chars '\n' text line hline _ hm)
  rcases wrap_width cw line n hsp this l hl with h | ⟨_, _, _, h3, h4⟩
  · exact Or.inl h
  · exact Or.inr ⟨h3, h4⟩

/-- **wrap_content**: wrapping a line consumes nothing but spaces — the non-space characters of
    the output lines, in order, are exactly those of the input line (for any width table). -/
theorem wrap_content (line : List Char) (n : Nat) :
    noSp (wrapLine cw n line).flatten = noSp line := by
  have h1 : ∀ gs : List (List Word), noSp (gs.map lineOf).flatten = gs.flatten.flatMap (fun x => noSp x.word) := by
    intro gs
    induction gs with
    | nil => rfl
    | cons g gs ih => simp only [List.map_cons, List.flatten_cons, noSp_append, noSp_lineOf, ih, List.flatMap_append]
  have h2 : ∀ ws : List Word, ws.flatMap (fun x => noSp x.word) = noSp (ws.flatMap (fun x => x.word)) := by
    intro ws
    induction ws with
    | nil => rfl
    | cons x xs ih => simp only [List.flatMap_cons, noSp_append, ih]
  have h3 : noSp (noSp line) = noSp line := by simp [noSp]
  rw [wrapLine, h1, wrapFirstFit, wrapAux_flatten, List.reverse_nil, List.nil_append, h2, splitWords,
    splitWordsAux_words, List.reverse_nil, List.nil_append, h3]

/-- non-vacuity / the unit tests of `wrap_bytes` evaluated on the model -/
example : wrapBytes (fun _ => 1) 10 "foo bar baz".toList = ["foo bar".toList, "baz".toList] ∧
    wrapBytes (fun _ => 1) 8 "foo  bar   baz".toList = ["foo  bar".toList, "baz".toList] ∧
    wrapBytes (fun _ => 1) 7 "foo bar \nx".toList = ["foo bar".toList, "x".toList] ∧
    wrapBytes (fun _ => 1) 2 "foo x".toList = ["foo".toList, "x".toList] ∧
    wrapBytes (fun _ => 1) 10 " ".toList = [[]] ∧
    wrapBytes (fun _ => 1) 3 "foo\n".toList = ["foo".toList, []] := by decide

/-- the unit tests of `elide_*` with a combining mark (width 0) -/
example :
    let cw : Char → Nat := fun c => if c = '\u0300' then 0 else 1
    elideStart cw "a\u0300bcde\u0300".toList [] 4 = ("bcde\u0300".toList, 4) ∧
    elideStart cw "a\u0300bcde\u0300".toList "A\u0300CE\u0300".toList 4 = ("A\u0300CE\u0300e\u0300".toList, 4) ∧
    elideEnd cw "a\u0300bcde\u0300".toList "A\u0300CE\u0300".toList 4 = ("a\u0300A\u0300CE\u0300".toList, 4) ∧
    elideEnd cw "a\u0300bcde\u0300".toList "A\u0300CE\u0300".toList 2 = ("A\u0300C".toList, 2) := by decide

end JjModel.C44
