import JjModel.Model.Matchers
import JjModel.Lemmas.Matchers
/-!
  C30 — matcher directory pruning is sound.

  `Sound m` (Model/Matchers.lean): for every directory `dir` and every path `dir/c/rest`
  strictly below it, (a,b) if the path matches then `m.visit dir` permits descending to `c`
  (`Visit.ok`: not `Nothing`; if `Specific`, `c` is in the files set when `rest = []`, in the dirs
  set otherwise; `All` counts as everything), and (c) if `m.visit dir = AllRecursively` the path
  matches.  `sound_iff_spec` spells this out in the words of the property.

  Proved for every leaf matcher over **any** `RepoPathTree` (not only trees built by `new`) and
  preserved by the three combinators, hence for every expression tree of any nesting depth
  (`sound_expr`).  The only hypothesis is on prefix-mode glob matchers: their pattern sets are
  closed under path extension (`ExtClosed`, the shape `…(?:/|$)` of `glob_to_prefix_regex`;
  assumption A5, checked on every truth table by the harness).
-/
namespace JjModel.C30
open JjModel.Matchers

/-! ### the statement, spelled out -/

/-- The property text, clause by clause. -/
def SoundSpec (m : Matcher) : Prop :=
  ∀ (dir : Path) (c : Comp) (rest : Path),
    -- never skip a directory that contains a matching path
    (m.mat (dir ++ c :: rest) = true → m.visit dir ≠ .nothing) ∧
    -- never omit a matching child from a specific visit list
    (∀ ds fs, m.mat (dir ++ c :: rest) = true → m.visit dir = .specific ds fs →
        (rest = [] → fs.has c = true) ∧ (rest ≠ [] → ds.has c = true)) ∧
    -- never claim a directory matches entirely unless every path below it matches
    (m.visit dir = .allRec → m.mat (dir ++ c :: rest) = true)

theorem sound_iff_spec (m : Matcher) : Sound m ↔ SoundSpec m := by
  constructor
  · intro h dir c rest
    obtain ⟨h1, h2⟩ := h dir c rest
    refine ⟨fun hm hv => ?_, fun ds fs hm hv => ?_, h2⟩
    · have := h1 hm; rw [hv] at this; exact this
    · have := h1 hm; rw [hv] at this
      cases rest <;> simp_all [Visit.ok]
  · intro h dir c rest
    obtain ⟨h1, h2, h3⟩ := h dir c rest
    refine ⟨fun hm => ?_, h3⟩
    cases hv : m.visit dir with
    | allRec => trivial
    | nothing => exact absurd hv (h1 hm)
    | specific ds fs =>
      have := h2 ds fs hm hv
      cases rest <;> simp_all [Visit.ok]

/-! ### constant matchers -/

theorem sound_nothing : Sound .nothingM := by
  intro dir c rest; simp [Matcher.mat, Matcher.visit]

theorem sound_everything : Sound .everythingM := by
  intro dir c rest; simp [Matcher.mat, Matcher.visit, Visit.ok]

/-! ### `FilesMatcher` -/

theorem filesVisit_ok (t : Tree FilesKind) (dir : Path) (c : Comp) (rest : Path)
    (h : filesMatches t (dir ++ c :: rest) = true) : (filesVisit t dir).ok c rest.isEmpty := by
  induction dir generalizing t with
  | nil =>
    simp only [List.nil_append, filesMatches, Tree.get] at h
    simp only [filesVisit, Tree.get, filesTreeToVisit]
    cases hc : t.child c with
    | none => simp [hc] at h
    | some s =>
      simp only [hc] at h
      apply ok_sets
      cases rest with
      | nil =>
        simp only [Tree.get] at h
        simpa using Forest.mem_namesWhere (p := fun s => s.value == .file) hc h
      | cons c' rest' =>
        simp only [Tree.get] at h
        cases hc' : s.child c' with
        | none => simp [hc'] at h
        | some s' =>
          have : s.hasChildren = true := by
            simp [Tree.hasChildren, Forest.find_isEmpty hc']
          simpa using Forest.mem_namesWhere (p := fun s => s.hasChildren) hc this
  | cons d dir ih =>
    simp only [List.cons_append, filesMatches, Tree.get] at h
    simp only [filesVisit, Tree.get]
    cases hd : t.child d with
    | none => simp [hd] at h
    | some s =>
      simp only [hd] at h
      exact ih s h

theorem filesVisit_ne_allRec (t : Tree FilesKind) (dir : Path) : filesVisit t dir ≠ .allRec := by
  unfold filesVisit
  split
  · simp
  · exact sets_ne_allRec _ _

/-- `FilesMatcher` over any tree prunes soundly. -/
theorem sound_files (t : Tree FilesKind) : Sound (.filesM t) := by
  intro dir c rest
  exact ⟨filesVisit_ok t dir c rest, fun h => absurd h (filesVisit_ne_allRec t dir)⟩

/-! ### `PrefixMatcher` -/

theorem prefixVisit_ok (t : Tree PrefixKind) (dir : Path) (c : Comp) (rest : Path)
    (h : prefixMatches t (dir ++ c :: rest) = true) : (prefixVisit t dir).ok c rest.isEmpty := by
  induction dir generalizing t with
  | nil =>
    simp only [List.nil_append, prefixMatches, Bool.or_eq_true] at h
    simp only [prefixVisit]
    by_cases hv : (t.value == PrefixKind.pfx) = true
    · simp [hv, Visit.ok]
    · simp only [hv, Bool.false_eq_true, false_or] at h
      simp only [hv]
      cases hc : t.child c with
      | none => simp [hc] at h
      | some s =>
        simp only [hc] at h
        apply ok_sets
        cases rest with
        | nil =>
          simp only [prefixMatches] at h
          simpa using Forest.mem_namesWhere (p := fun s => s.value == .pfx) hc h
        | cons c' rest' =>
          simpa using Forest.mem_namesWhere (p := fun _ => true) hc rfl
  | cons d dir ih =>
    simp only [List.cons_append, prefixMatches, Bool.or_eq_true] at h
    simp only [prefixVisit]
    by_cases hv : (t.value == PrefixKind.pfx) = true
    · simp [hv, Visit.ok]
    · simp only [hv, Bool.false_eq_true, false_or] at h
      simp only [hv]
      cases hd : t.child d with
      | none => simp [hd] at h
      | some s =>
        simp only [hd] at h
        exact ih s h

theorem prefixVisit_allRec (t : Tree PrefixKind) (dir : Path) (c : Comp) (rest : Path)
    (h : prefixVisit t dir = .allRec) : prefixMatches t (dir ++ c :: rest) = true := by
  induction dir generalizing t with
  | nil =>
    simp only [prefixVisit] at h
    by_cases hv : (t.value == PrefixKind.pfx) = true
    · simp [prefixMatches, hv]
    · simp only [hv] at h
      exact absurd h (sets_ne_allRec _ _)
  | cons d dir ih =>
    simp only [prefixVisit] at h
    by_cases hv : (t.value == PrefixKind.pfx) = true
    · simp [prefixMatches, hv]
    · simp only [hv] at h
      cases hd : t.child d with
      | none => simp [hd] at h
      | some s =>
        simp only [hd] at h
        simp [prefixMatches, hd, ih s h]

/-- `PrefixMatcher` over any tree prunes soundly. -/
theorem sound_prefix (t : Tree PrefixKind) : Sound (.prefixM t) := by
  intro dir c rest
  exact ⟨prefixVisit_ok t dir c rest, prefixVisit_allRec t dir c rest⟩

/-! ### `GlobsMatcher` -/

/-- once `max_visit` is `SOME` the result is `AllRecursively` or `SOME` -/
theorem globsVisit_true (pfx : Bool) (t : Tree (Option Glob)) (dir : Path) :
    globsVisit pfx t dir true = .allRec ∨ globsVisit pfx t dir true = Visit.some_ := by
  induction dir generalizing t with
  | nil =>
    unfold globsVisit
    split
    · split <;> simp
    · simp
  | cons d dir ih =>
    unfold globsVisit
    split
    · split
      · simp
      · split
        · simp
        · split
          · simp
          · exact ih _
    · split
      · simp
      · exact ih _

theorem globsVisit_true_ok (pfx : Bool) (t : Tree (Option Glob)) (dir : Path) (c : Comp) (leaf : Bool) :
    (globsVisit pfx t dir true).ok c leaf := by
  rcases globsVisit_true pfx t dir with h | h <;> rw [h]
  · trivial
  · exact ok_some c leaf

theorem globsVisit_ok (pfx : Bool) (t : Tree (Option Glob)) (dir : Path) (ms : Bool) (c : Comp)
    (rest : Path) (h : globsMatches t (dir ++ c :: rest) = true) :
    (globsVisit pfx t dir ms).ok c rest.isEmpty := by
  induction dir generalizing t ms with
  | nil =>
    simp only [List.nil_append, globsMatches, Bool.or_eq_true] at h
    unfold globsVisit
    cases hv : t.value with
    | some g =>
      simp only
      split
      · trivial
      · exact ok_some _ _
    | none =>
      simp only [hv, Bool.false_eq_true, false_or] at h
      simp only
      split
      · exact ok_some _ _
      · cases hc : t.child c with
        | none => simp [hc] at h
        | some s =>
          simp only [hc] at h
          cases rest with
          | nil => simp [globsMatches] at h
          | cons c' rest' =>
            apply ok_sets
            simpa using Forest.mem_namesWhere (p := fun _ => true) hc rfl
  | cons d dir ih =>
    simp only [List.cons_append, globsMatches, Bool.or_eq_true] at h
    unfold globsVisit
    cases hv : t.value with
    | some g =>
      simp only
      split
      · trivial
      · split
        · exact ok_some _ _
        · split
          · exact ok_some _ _
          · exact globsVisit_true_ok _ _ _ _ _
    | none =>
      simp only [hv, Bool.false_eq_true, false_or] at h
      simp only
      cases hd : t.child d with
      | none => simp [hd] at h
      | some s =>
        simp only [hd] at h
        exact ih s ms h

theorem globsVisit_allRec (pfx : Bool) (t : Tree (Option Glob)) (hext : t.All GlobOptExt)
    (dir : Path) (ms : Bool) (c : Comp) (rest : Path)
    (h : globsVisit pfx t dir ms = .allRec) : globsMatches t (dir ++ c :: rest) = true := by
  induction dir generalizing t ms with
  | nil =>
    unfold globsVisit at h
    cases hv : t.value with
    | some g =>
      simp only [hv] at h
      split at h
      · rename_i hg
        simp only [Bool.and_eq_true] at hg
        have := hext.1 g hv [] (c :: rest) hg.2
        simp only [List.nil_append] at this
        simp [globsMatches, hv, this]
      · exact absurd h some_ne_allRec
    | none =>
      simp only [hv] at h
      split at h
      · exact absurd h some_ne_allRec
      · exact absurd h (sets_ne_allRec _ _)
  | cons d dir ih =>
    unfold globsVisit at h
    cases hv : t.value with
    | some g =>
      simp only [hv] at h
      split at h
      · rename_i hg
        simp only [Bool.and_eq_true] at hg
        have := hext.1 g hv (d :: dir) (c :: rest) hg.2
        simp only [List.cons_append] at this
        simp [globsMatches, hv, this]
      · split at h
        · exact absurd h some_ne_allRec
        · split at h
          · exact absurd h some_ne_allRec
          · rename_i s hd
            have := ih s (Tree.All_child hd hext) true h
            simp [globsMatches, hd, this]
    | none =>
      simp only [hv] at h
      split at h
      · split at h
        · exact absurd h some_ne_allRec
        · simp at h
      · rename_i s hd
        have := ih s (Tree.All_child hd hext) ms h
        simp [globsMatches, hd, this]

theorem globsVisit_file_ne_allRec (t : Tree (Option Glob)) (dir : Path) (ms : Bool) :
    globsVisit false t dir ms ≠ .allRec := by
  induction dir generalizing t ms with
  | nil =>
    unfold globsVisit
    split
    · simp [some_ne_allRec]
    · split
      · exact some_ne_allRec
      · exact sets_ne_allRec _ _
  | cons d dir ih =>
    unfold globsVisit
    split
    · simp [some_ne_allRec]
    · split
      · split
        · exact some_ne_allRec
        · simp
      · exact ih _ _

/-- File-mode `GlobsMatcher` (arbitrary glob predicates) over any tree prunes soundly. -/
theorem sound_globs_file (t : Tree (Option Glob)) : Sound (.globsM false t) := by
  intro dir c rest
  exact ⟨globsVisit_ok false t dir false c rest,
         fun h => absurd h (globsVisit_file_ne_allRec t dir false)⟩

/-- Prefix-mode `GlobsMatcher` over any tree whose pattern sets are extension-closed prunes soundly. -/
theorem sound_globs_prefix (t : Tree (Option Glob)) (hext : t.All GlobOptExt) :
    Sound (.globsM true t) := by
  intro dir c rest
  exact ⟨globsVisit_ok true t dir false c rest, globsVisit_allRec true t hext dir false c rest⟩

/-! ### combinators -/

theorem sound_union {a b : Matcher} (ha : Sound a) (hb : Sound b) : Sound (.unionM a b) := by
  intro dir c rest
  obtain ⟨a1, a2⟩ := ha dir c rest; obtain ⟨b1, b2⟩ := hb dir c rest
  refine ⟨fun h => ?_, fun h => ?_⟩
  · simp only [Matcher.mat, Bool.or_eq_true] at h
    exact ok_union (h.imp a1 b1)
  · simp only [Matcher.mat, Bool.or_eq_true]
    exact (allRec_union h).imp a2 b2

theorem sound_intersection {a b : Matcher} (ha : Sound a) (hb : Sound b) : Sound (.interM a b) := by
  intro dir c rest
  obtain ⟨a1, a2⟩ := ha dir c rest; obtain ⟨b1, b2⟩ := hb dir c rest
  refine ⟨fun h => ?_, fun h => ?_⟩
  · simp only [Matcher.mat, Bool.and_eq_true] at h
    exact ok_inter (a1 h.1) (b1 h.2)
  · simp only [Matcher.mat, Bool.and_eq_true]
    exact ⟨a2 (allRec_inter h).1, b2 (allRec_inter h).2⟩

theorem sound_difference {w u : Matcher} (hw : Sound w) (hu : Sound u) : Sound (.diffM w u) := by
  intro dir c rest
  obtain ⟨w1, w2⟩ := hw dir c rest; obtain ⟨u1, u2⟩ := hu dir c rest
  refine ⟨fun h => ?_, fun h => ?_⟩
  · simp only [Matcher.mat, Bool.and_eq_true, Bool.not_eq_true'] at h
    refine ok_diff (w1 h.1) ?_
    intro hall; have := u2 hall; simp_all
  · simp only [Matcher.mat, Bool.and_eq_true, Bool.not_eq_true']
    obtain ⟨hwa, hun⟩ := allRec_diff h
    refine ⟨w2 hwa, ?_⟩
    -- `unwanted.visit dir = Nothing` ⇒ nothing below matches `unwanted` (its own soundness)
    cases hm : u.mat (dir ++ c :: rest) with
    | false => rfl
    | true => have := u1 hm; rw [hun] at this; exact absurd this (by simp [Visit.ok])

/-! ### every expression tree -/

/-- **C30.** Every matcher expression — any nesting of union / intersection / difference over
constant, files, prefix and glob matchers — prunes soundly, provided the prefix-mode glob
pattern sets are extension-closed (`Matcher.WF`). -/
theorem sound_expr : ∀ (m : Matcher), m.WF → Sound m
  | .nothingM, _ => sound_nothing
  | .everythingM, _ => sound_everything
  | .filesM t, _ => sound_files t
  | .prefixM t, _ => sound_prefix t
  | .globsM false t, _ => sound_globs_file t
  | .globsM true t, h => sound_globs_prefix t h
  | .unionM a b, h => sound_union (sound_expr a h.1) (sound_expr b h.2)
  | .interM a b, h => sound_intersection (sound_expr a h.1) (sound_expr b h.2)
  | .diffM a b, h => sound_difference (sound_expr a h.1) (sound_expr b h.2)

/-! ### matchers built by the public constructors -/

/-- `GlobsMatcher::builder().prefix_paths(true)…build()` is well-formed as soon as every glob that
accepts the empty string accepts every single component (`EmptyOk`). -/
theorem globs_wf (pfx : Bool) (pats : List (Path × Glob)) (h : ∀ p ∈ pats, EmptyOk p.2) :
    (Matcher.globs pfx pats).WF := by
  cases pfx with
  | false => trivial
  | true =>
    show (globsBuild true pats).All GlobOptExt
    simp only [globsBuild, if_true]
    apply globsNew_All
    intro p hp
    simp only [List.mem_map] at hp
    obtain ⟨q, hq, rfl⟩ := hp
    exact prefixOf_extClosed (h q hq)

theorem sound_files_new (ps : List Path) : Sound (Matcher.files ps) := sound_files _
theorem sound_prefix_new (ps : List Path) : Sound (Matcher.prefixes ps) := sound_prefix _
theorem sound_globs_new (pfx : Bool) (pats : List (Path × Glob)) (h : ∀ p ∈ pats, EmptyOk p.2) :
    Sound (Matcher.globs pfx pats) := sound_expr _ (globs_wf pfx pats h)

/-! ### non-vacuity -/

/-- a `*/1`-like glob (second component is `1`) is `EmptyOk`; its prefix matcher at `[0]`, minus the
files `0/2/1`, intersected with everything below `0`, is covered by `sound_expr`. -/
example : Sound (.diffM (.interM (Matcher.globs true [([0], fun t => t.drop 1 == [1])])
                                 (Matcher.prefixes [[0]]))
                        (Matcher.files [[0, 2, 1]])) :=
  sound_expr _ ⟨⟨globs_wf true _ (by intro p hp; simp at hp; subst hp; intro h; simp at h), trivial⟩, trivial⟩

/-- the example is not trivial: it matches `0/2/1/5` but not `0/2/1` nor `0/2/2` -/
example : let m : Matcher := .diffM (.interM (Matcher.globs true [([0], fun t => t.drop 1 == [1])])
                                 (Matcher.prefixes [[0]])) (Matcher.files [[0, 2, 1]])
    (m.mat [0, 2, 1, 5], m.mat [0, 2, 1], m.mat [0, 2, 2]) = (true, false, false) := by decide

/-- The `ExtClosed` hypothesis cannot be dropped: a prefix-mode pattern set accepting only the
empty tail claims `AllRecursively` at the root while matching nothing. -/
example : ¬ Sound (.globsM true ⟨some (fun t => t.isEmpty), .nil⟩) := by
  intro h
  have := (h [] 0 []).2 (by simp [Matcher.visit, globsVisit])
  simp [Matcher.mat, globsMatches, Forest.find, Tree.child] at this

end JjModel.C30
