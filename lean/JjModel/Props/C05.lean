import JjModel.Model.Conflicts
namespace JjModel.C05
end JjModel.C05
