import JjModel.Lemmas.ConflictParse
/-!
  C05 — Materialized conflicts parse back to the same conflict.

  `materializeHunks` / `parseConflict` are the model of `materialize_conflict_hunks` /
  `parse_conflict` (`Model/Conflicts.lean`); the hunk list is what `files::merge_hunks` returns.
-/
namespace JjModel.C05
open JjModel.Conflicts JjModel.Generated

theorem conflict_of_wf {n len : Nat} {hs : List (List Bytes)} (hwf : HunksWFAux n len hs) :
    ∀ h ∈ hs, h.length ≠ 1 → h.length % 2 = 1 ∧ ∀ c ∈ h, ContentOK len c := by
  induction hs with
  | nil => simp
  | cons x rest ih =>
    unfold HunksWFAux at hwf
    obtain ⟨hx, hrest⟩ := hwf
    intro h hh hne
    rcases List.mem_cons.mp hh with rfl | hmem
    · split at hx
      · simp at hne
      · exact ⟨hx.1, hx.2.2.1⟩
    · exact ih hrest h hmem hne

/-- **(a) Snapshot style.** A well-formed hunk list, materialized in the snapshot style with any
labels free of line terminators and either EOL, parses back to exactly the same hunk list. -/
theorem parse_materialize_snapshot (diffFn : DiffFn) (n len : Nat) (hs : List (List Bytes))
    (labels : List Bytes) (eol : Bytes) (hwf : HunksWF n len hs) (hl : LabelsOK labels)
    (he : IsEol eol) :
    parseConflict (materializeHunks diffFn hs .snapshot len labels eol) n len = some hs := by
  refine parse_materialize_of_render diffFn .snapshot n len hwf.len_pos labels eol he hs ?_
    hwf.hunks hwf.has_conflict
  intro h hh hne ci nc
  obtain ⟨hodd, hc⟩ := conflict_of_wf hwf.hunks h hh hne
  exact ⟨fun hall => nodiff_renders_eol diffFn .snapshot rfl len hwf.len_pos eol he labels hl h
      (by simp) hodd hc hall ci nc,
    fun hall => nodiff_renders_noeol diffFn .snapshot rfl len hwf.len_pos eol he labels hl h
      (by simp) hodd hc hall ci nc⟩

/-- **(b) Git style.** Same statement for `ConflictMarkerStyle::Git`: 3-term hunks are written
with `<<<<<<<`/`|||||||`/`=======`/`>>>>>>>` and parsed by `parse_git_style_conflict_hunk`,
hunks of any other arity fall back to the jj-style snapshot writer. -/
theorem parse_materialize_git (diffFn : DiffFn) (n len : Nat) (hs : List (List Bytes))
    (labels : List Bytes) (eol : Bytes) (hwf : HunksWF n len hs) (hl : LabelsOK labels)
    (he : IsEol eol) :
    parseConflict (materializeHunks diffFn hs .git len labels eol) n len = some hs := by
  refine parse_materialize_of_render diffFn .git n len hwf.len_pos labels eol he hs ?_
    hwf.hunks hwf.has_conflict
  intro h hh hne ci nc
  obtain ⟨hodd, hc⟩ := conflict_of_wf hwf.hunks h hh hne
  by_cases h3 : h.length = 3
  · exact ⟨fun hall => git_renders_eol3 diffFn len hwf.len_pos eol he labels hl h h3 hc hall ci nc,
      fun hall => git_renders_noeol3 diffFn len hwf.len_pos eol he labels hl h h3 hc hall ci nc⟩
  · exact ⟨fun hall => nodiff_renders_eol diffFn .git rfl len hwf.len_pos eol he labels hl h
        (fun _ => h3) hodd hc hall ci nc,
      fun hall => nodiff_renders_noeol diffFn .git rfl len hwf.len_pos eol he labels hl h
        (fun _ => h3) hodd hc hall ci nc⟩

/-- **(d) Diff and DiffExperimental styles**, relative to the assumption `DiffFnOK` about the line
diff the materializer runs internally (`ContentDiff::by_line`, C03's subject): it reconstructs
both inputs, matching groups are equal, groups are whole lines.  Which side becomes the snapshot
(the `diff_size` heuristic) does not matter for the round trip. -/
theorem parse_materialize_diff (diffFn : DiffFn) (hdf : DiffFnOK diffFn) (style : Style)
    (hstyle : style = .diff ∨ style = .diffExperimental) (n len : Nat) (hs : List (List Bytes))
    (labels : List Bytes) (eol : Bytes) (hwf : HunksWF n len hs) (hdw : DiffWF len hs)
    (hl : LabelsOK labels) (he : IsEol eol) :
    parseConflict (materializeHunks diffFn hs style len labels eol) n len = some hs := by
  have hsd : style.allowsDiff = true := by rcases hstyle with rfl | rfl <;> rfl
  refine parse_materialize_of_render diffFn style n len hwf.len_pos labels eol he hs ?_
    hwf.hunks hwf.has_conflict
  intro h hh hne ci nc
  obtain ⟨hodd, hc⟩ := conflict_of_wf hwf.hunks h hh hne
  have hd := hdw.safe h hh hne
  exact ⟨fun hall => diff_renders_eol diffFn hdf style hsd len hwf.len_pos eol he labels hl h hodd hc hd
      hall ci nc,
    fun hall => diff_renders_noeol diffFn hdf style hsd len hdw.len_two eol he labels hl h hodd hc hd
      hall ci nc⟩

/-- every style at once -/
theorem parse_materialize (diffFn : DiffFn) (hdf : DiffFnOK diffFn) (style : Style) (n len : Nat)
    (hs : List (List Bytes)) (labels : List Bytes) (eol : Bytes) (hwf : HunksWF n len hs)
    (hdw : DiffWF len hs) (hl : LabelsOK labels) (he : IsEol eol) :
    parseConflict (materializeHunks diffFn hs style len labels eol) n len = some hs := by
  cases style with
  | diff => exact parse_materialize_diff diffFn hdf .diff (Or.inl rfl) n len hs labels eol hwf hdw hl he
  | diffExperimental =>
    exact parse_materialize_diff diffFn hdf .diffExperimental (Or.inr rfl) n len hs labels eol hwf hdw hl he
  | snapshot => exact parse_materialize_snapshot diffFn n len hs labels eol hwf hl he
  | git => exact parse_materialize_git diffFn n len hs labels eol hwf hl he

/-! ### (c) the marker length chosen by `choose_materialized_conflict_marker_len`

These use the constants generated from the source (`MIN_CONFLICT_MARKER_LEN`,
`CONFLICT_MARKER_LEN_INCREMENT`): with an increment of 1 `marker_len_protects_diff_lines` fails. -/

/-- the chosen length is strictly greater than every marker-like run in the files, by the
increment of the source, and at least the minimum length -/
theorem marker_len_exceeds_existing (files : List Bytes) (f l : Bytes) (hf : f ∈ files)
    (hl : l ∈ linesWT f) (k : MarkerKind) (m : Nat) (hm : parseMarkerAnyLen l = some (k, m)) :
    m + CONFLICT_MARKER_LEN_INCREMENT ≤ chooseMarkerLen files ∧
      MIN_CONFLICT_MARKER_LEN ≤ chooseMarkerLen files := by
  have h1 := markerLen_le_max hf hl hm
  have h2 := chooseMarkerLen_gt files
  exact ⟨by omega, h2.2⟩

/-- hence no line of the inputs can be mistaken for a marker of the chosen length … -/
theorem marker_len_protects_lines (files : List Bytes) (f : Bytes) (hf : f ∈ files) :
    ContentOK (chooseMarkerLen files) f := chooseMarkerLen_safe files f hf

/-- … not even with a diff prefix byte in front (needs `INCREMENT ≥ 2` and `MIN ≥ 2`) -/
theorem marker_len_protects_diff_lines (files : List Bytes) (f : Bytes) (hf : f ∈ files) :
    DiffSafe (chooseMarkerLen files) f := chooseMarkerLen_diffSafe files f hf

theorem contentOK_of_linesFrom {files : List Bytes} {hs : List (List Bytes)} (hlf : LinesFrom files hs)
    {h : List Bytes} (hh : h ∈ hs) {c : Bytes} (hc : c ∈ h) :
    ContentOK (chooseMarkerLen files) c ∧ DiffSafe (chooseMarkerLen files) c := by
  constructor
  · intro l hl; obtain ⟨f, hf, hlf'⟩ := hlf h hh c hc l hl
    exact chooseMarkerLen_safe files f hf l hlf'
  · intro l hl; obtain ⟨f, hf, hlf'⟩ := hlf h hh c hc l hl
    exact chooseMarkerLen_diffSafe files f hf l hlf'

/-- `DiffWF` comes for free with the chosen marker length -/
theorem diffWF_of_linesFrom {files : List Bytes} {hs : List (List Bytes)} (hlf : LinesFrom files hs) :
    DiffWF (chooseMarkerLen files) hs :=
  ⟨by have := (chooseMarkerLen_gt files).2; have := min_len_ge_two; omega,
   fun _ hh _ _ hc => (contentOK_of_linesFrom hlf hh hc).2⟩

theorem detectEol_isEol (files : List Bytes) : IsEol (detectEol files) := by
  unfold detectEol; split
  · exact Or.inr rfl
  · exact Or.inl rfl

/-- **End to end** for `materialize_merge_result_to_bytes` with `marker_len = None`: if the hunks
(the result of `files::merge_hunks`) are well formed and made of lines of the files, the text
parses back to them, for every style.
`_partial`: `HunksWF`/`LinesFrom` are *hypotheses* about `merge_hunks` (C04, not modelled here; the
harness evaluates both on every real `merge_hunks` output) and `DiffFnOK` about the line diff (C03). -/
theorem roundtrip_end_to_end_partial (diffFn : DiffFn) (hdf : DiffFnOK diffFn) (style : Style)
    (files : List Bytes) (n : Nat) (hs : List (List Bytes)) (labels : List Bytes)
    (hwf : HunksWF n (chooseMarkerLen files) hs) (hlf : LinesFrom files hs) (hl : LabelsOK labels) :
    parseConflict (materializeToBytes diffFn files hs style none (labelsFromVec labels)) n
      (chooseMarkerLen files) = some hs :=
  parse_materialize diffFn hdf style n _ hs _ _ hwf (diffWF_of_linesFrom hlf) (LabelsOK_fromVec hl)
    (detectEol_isEol files)

/-- non-vacuity of `DiffFnOK`: the coarsest diff (one "different" group) satisfies it -/
example : DiffFnOK (fun l r => [{ matching := false, left := l, right := r }]) := by
  intro l r hl hr
  exact ⟨by simp, by simp, by simp, by simp [hl, hr]⟩

/-- non-vacuity: a 2-sided conflict between resolved context, the last side lacking the final EOL,
with a short marker look-alike in the content -/
example : HunksWF 2 7 [[[97, 10]], [[98, 10], [60, 60, 60, 10], []], [[99, 10]], [[100], [], [101, 10]]] := by
  decide

example : DiffWF 7 [[[97, 10]], [[98, 10], [60, 60, 60, 10], []], [[99, 10]], [[100], [], [101, 10]]] := by
  decide

/-- … and the hypotheses of the end-to-end theorem on the files these hunks come from
(`a\nb\nc\nd`, `a\n<<<\nc\n`, `a\nc\ne\n`): chosen length 7 -/
example : RoundTripHyps [[97, 10, 98, 10, 99, 10, 100], [97, 10, 60, 60, 60, 10, 99, 10], [97, 10, 99, 10, 101, 10]] 2
    [[[97, 10]], [[98, 10], [60, 60, 60, 10], []], [[99, 10]], [[100], [], [101, 10]]] := by
  decide

end JjModel.C05
