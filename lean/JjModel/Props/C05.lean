import JjModel.Lemmas.ConflictParse
/-!
  C05 — Materialized conflicts parse back to the same conflict.

  `materializeHunks` / `parseConflict` are the model of `materialize_conflict_hunks` /
  `parse_conflict` (`Model/Conflicts.lean`); the hunk list is what `files::merge_hunks` returns.
-/
namespace JjModel.C05
open JjModel.Conflicts JjModel.Generated

/-- Well-formedness of a hunk list, as `files::merge_hunks` produces it for an `n`-sided conflict
and as seen by a parser looking for markers of length ≥ `len` (decidable):
* `len ≥ 1`, and there is at least one unresolved hunk;
* resolved hunks are non-empty, never adjacent, and end with `\n` unless last;
* unresolved hunks have `2n-1` terms; only the last hunk may have a term without final `\n`;
* no line of any term is a conflict marker of length ≥ `len` (`ContentOK`). -/
structure HunksWF (n len : Nat) (hs : List (List Bytes)) : Prop where
  len_pos : 1 ≤ len
  has_conflict : hs.any (·.length ≠ 1) = true
  hunks : HunksWFAux n len hs

instance (n len : Nat) (hs : List (List Bytes)) : Decidable (HunksWF n len hs) :=
  decidable_of_iff (1 ≤ len ∧ hs.any (·.length ≠ 1) = true ∧ HunksWFAux n len hs)
    ⟨fun ⟨a, b, c⟩ => ⟨a, b, c⟩, fun ⟨a, b, c⟩ => ⟨a, b, c⟩⟩

theorem conflict_of_wf {n len : Nat} {hs : List (List Bytes)} (hwf : HunksWFAux n len hs) :
    ∀ h ∈ hs, h.length ≠ 1 → h.length % 2 = 1 ∧ ∀ c ∈ h, ContentOK len c := by
  induction hs with
  | nil => simp
  | cons x rest ih =>
    unfold HunksWFAux at hwf
    obtain ⟨hx, hrest⟩ := hwf
    intro h hh hne
    rcases List.mem_cons.mp hh with rfl | hmem
    · split at hx
      · simp at hne
      · exact ⟨hx.1, hx.2.2.1⟩
    · exact ih hrest h hmem hne

/-- **(a) Snapshot style.** A well-formed hunk list, materialized in the snapshot style with any
labels free of line terminators and either EOL, parses back to exactly the same hunk list. -/
theorem parse_materialize_snapshot (diffFn : DiffFn) (n len : Nat) (hs : List (List Bytes))
    (labels : List Bytes) (eol : Bytes) (hwf : HunksWF n len hs) (hl : LabelsOK labels)
    (he : IsEol eol) :
    parseConflict (materializeHunks diffFn hs .snapshot len labels eol) n len = some hs := by
  refine parse_materialize_of_render diffFn .snapshot n len hwf.len_pos labels eol he hs ?_
    hwf.hunks hwf.has_conflict
  intro h hh hne ci nc
  obtain ⟨hodd, hc⟩ := conflict_of_wf hwf.hunks h hh hne
  exact ⟨fun hall => nodiff_renders_eol diffFn .snapshot rfl len hwf.len_pos eol he labels hl h
      (by simp) hodd hc hall ci nc,
    fun hall => nodiff_renders_noeol diffFn .snapshot rfl len hwf.len_pos eol he labels hl h
      (by simp) hodd hc hall ci nc⟩

/-- **(b) Git style.** Same statement for `ConflictMarkerStyle::Git`: 3-term hunks are written
with `<<<<<<<`/`|||||||`/`=======`/`>>>>>>>` and parsed by `parse_git_style_conflict_hunk`,
hunks of any other arity fall back to the jj-style snapshot writer. -/
theorem parse_materialize_git (diffFn : DiffFn) (n len : Nat) (hs : List (List Bytes))
    (labels : List Bytes) (eol : Bytes) (hwf : HunksWF n len hs) (hl : LabelsOK labels)
    (he : IsEol eol) :
    parseConflict (materializeHunks diffFn hs .git len labels eol) n len = some hs := by
  refine parse_materialize_of_render diffFn .git n len hwf.len_pos labels eol he hs ?_
    hwf.hunks hwf.has_conflict
  intro h hh hne ci nc
  obtain ⟨hodd, hc⟩ := conflict_of_wf hwf.hunks h hh hne
  by_cases h3 : h.length = 3
  · exact ⟨fun hall => git_renders_eol3 diffFn len hwf.len_pos eol he labels hl h h3 hc hall ci nc,
      fun hall => git_renders_noeol3 diffFn len hwf.len_pos eol he labels hl h h3 hc hall ci nc⟩
  · exact ⟨fun hall => nodiff_renders_eol diffFn .git rfl len hwf.len_pos eol he labels hl h
        (fun _ => h3) hodd hc hall ci nc,
      fun hall => nodiff_renders_noeol diffFn .git rfl len hwf.len_pos eol he labels hl h
        (fun _ => h3) hodd hc hall ci nc⟩

/-- non-vacuity: a 2-sided conflict between resolved context, the last side lacking the final EOL,
with a short marker look-alike in the content -/
example : HunksWF 2 7 [[[97, 10]], [[98, 10], [60, 60, 60, 10], []], [[99, 10]], [[100], [], [101, 10]]] := by
  decide

end JjModel.C05
