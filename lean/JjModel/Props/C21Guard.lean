import JjModel.Generated.TableGuard
/-!
  C21 — the guard obligation (active since the F8 repair, /repo commit 9f7a0d7).

  `tools/translate.py` regenerates `Generated/TableGuard.lean` from the source text on every check;
  if the guard is ever removed again, `tableGuardEq` becomes `false`, `guard_present` stops
  compiling, and the check reports a broken obligation (plus the oracle's failing input).
-/
namespace JjModel.C21

theorem guard_present : JjModel.Generated.tableGuardEq = true := by decide

end JjModel.C21
