import JjModel.Model.Undo
/-!
  C41 — Undo and restore return the repository to the earlier state.

  Theorems about the model `JjModel.Undo` (the definitions the driver runs).  "State" is the part
  of a view the property talks about: `RepoEq` = visible heads, local bookmarks, tags and
  working-copy pointers; `RestoredEq` adds the remote-tracking portion (what `undo`/`redo` and the
  default `op restore` bring back).  `resultView cur o` is the view after the command: unchanged
  for "Nothing changed.", else the view of the new operation — up to the permitted exception, which
  the outcome flags as `newWc` and which happens exactly when the input `imm` says the restored
  working-copy commit is immutable (`exception_iff_immutable`).

  `WF log`: every undo/redo operation of the log has the restored portions of the operation its
  description names (true for logs grown by `cmdUndo`/`cmdRedo` without the exception:
  `wf_append_undo`, `wf_append_redo`).
-/
namespace JjModel.C41
open JjModel.Undo

def RepoEq (a b : View) : Prop :=
  a.heads = b.heads ∧ a.bookmarks = b.bookmarks ∧ a.tags = b.tags ∧ a.wc = b.wc

def RestoredEq (a b : View) : Prop := RepoEq a b ∧ a.remotes = b.remotes

theorem RestoredEq.refl (a : View) : RestoredEq a a := ⟨⟨rfl, rfl, rfl, rfl⟩, rfl⟩

theorem RestoredEq.trans {a b c : View} (h1 : RestoredEq a b) (h2 : RestoredEq b c) : RestoredEq a c := by
  obtain ⟨⟨h11, h12, h13, h14⟩, h15⟩ := h1
  obtain ⟨⟨h21, h22, h23, h24⟩, h25⟩ := h2
  exact ⟨⟨h11.trans h21, h12.trans h22, h13.trans h23, h14.trans h24⟩, h15.trans h25⟩

/-- the view after the command -/
def resultView (cur : View) : Outcome → View
  | .nochange => cur
  | .ok _ v _ => v

theorem resultView_finish (cur new : View) (d : Desc) (imm : List Nat) :
    resultView cur (finish cur new d imm) = new := by
  unfold finish
  by_cases h : new = cur
  · simp [h, resultView]
  · simp [h, resultView]

/-- **immutable_wc_exception** — a new working-copy commit is reported exactly when an operation is
created and the restored working-copy commit is immutable; nothing else distinguishes the outcome
from plain restoration. -/
theorem exception_iff_immutable (cur new : View) (d d' : Desc) (imm : List Nat) (nw : Bool) (v : View)
    (h : finish cur new d imm = .ok d' v nw) :
    nw = imm.contains new.wc ∧ v = new ∧ d' = d ∧ new ≠ cur := by
  unfold finish at h
  by_cases hn : new = cur
  · simp [hn] at h
  · simp only [hn, if_false, Outcome.ok.injEq] at h
    exact ⟨h.2.2.symm, h.2.1.symm, h.1.symm, hn⟩

theorem restored_default (r c : View) : RestoredEq (viewWithDesiredPortionsRestored r c defaultWhat) r := by
  simp [viewWithDesiredPortionsRestored, defaultWhat, RestoredEq, RepoEq]

theorem restored_git (r c : View) (what : List What) :
    (viewWithDesiredPortionsRestored r c what).gitRefs = c.gitRefs ∧
    (viewWithDesiredPortionsRestored r c what).gitHeads = c.gitHeads := by
  simp [viewWithDesiredPortionsRestored]

theorem getOp_some {log : OpLog} {i : Nat} {op : Op} (h : log[i]? = some op) : getOp log i = .ok op := by
  simp [getOp, h]

theorem getOp_ok {log : OpLog} {i : Nat} {op : Op} (h : getOp log i = .ok op) : log[i]? = some op := by
  unfold getOp at h
  split at h
  · rename_i o ho; simp at h; rw [← h]; exact ho
  · simp at h

/-- **restore_eq_target** — `jj op restore`: the new view has the target's heads, local bookmarks,
tags and working-copy pointers when `repo` is restored (the current ones otherwise), the target's
remote-tracking portion when `remote-tracking` is restored (the current one otherwise); git refs
and git heads always stay the current ones. -/
theorem restore_eq_target (log : OpLog) (head target : Nat) (what : List What) (imm : List Nat)
    (hop top : Op) (hh : log[head]? = some hop) (ht : log[target]? = some top) :
    ∃ o, cmdRestore log head target what imm = .ok o ∧
      (What.repo ∈ what → RepoEq (resultView hop.view o) top.view) ∧
      (What.repo ∉ what → RepoEq (resultView hop.view o) hop.view) ∧
      (What.remoteTracking ∈ what → (resultView hop.view o).remotes = top.view.remotes) ∧
      (What.remoteTracking ∉ what → (resultView hop.view o).remotes = hop.view.remotes) ∧
      (resultView hop.view o).gitRefs = hop.view.gitRefs ∧
      (resultView hop.view o).gitHeads = hop.view.gitHeads := by
  refine ⟨finish hop.view (viewWithDesiredPortionsRestored top.view hop.view what) .regular imm,
    by simp only [cmdRestore, getOp_some hh, getOp_some ht], ?_⟩
  rw [resultView_finish]
  refine ⟨?_, ?_, ?_, ?_, ?_, ?_⟩
  · intro h
    simp [viewWithDesiredPortionsRestored, h, RepoEq]
  · intro h
    simp [viewWithDesiredPortionsRestored, h, RepoEq]
  · intro h
    simp [viewWithDesiredPortionsRestored, h]
  · intro h
    simp [viewWithDesiredPortionsRestored, h]
  · simp [viewWithDesiredPortionsRestored]
  · simp [viewWithDesiredPortionsRestored]

/-- every undo/redo operation carries the restored portions of the operation its description names -/
def WF (log : OpLog) : Prop :=
  ∀ (i : Nat) (op : Op), log[i]? = some op →
    (∀ t, op.desc = Desc.undo t → ∃ top : Op, log[t]? = some top ∧ RestoredEq op.view top.view) ∧
    (∀ t, op.desc = Desc.redo t → ∃ top : Op, log[t]? = some top ∧ RestoredEq op.view top.view)

theorem RestoredEq.symm {a b : View} (h : RestoredEq a b) : RestoredEq b a := by
  obtain ⟨⟨a1, b1, c1, d1⟩, e1⟩ := h
  exact ⟨⟨a1.symm, b1.symm, c1.symm, d1.symm⟩, e1.symm⟩

/-- what `cmdUndo` computes once the five lookups succeed -/
theorem cmdUndo_ok {log : OpLog} {head : Nat} {imm : List Nat} {hop top pop rop : Op} {p : Nat}
    (hh : log[head]? = some hop) (ht : log[undoTarget hop.desc head]? = some top)
    (hpar : top.parents = [p]) (hp : log[p]? = some pop)
    (hr : log[undoTarget pop.desc p]? = some rop) :
    cmdUndo log head imm = .ok (finish hop.view
      (viewWithDesiredPortionsRestored rop.view hop.view defaultWhat)
      (.undo (undoTarget pop.desc p)) imm) := by
  simp only [cmdUndo, getOp_some hh, getOp_some ht, hpar, singleParent, getOp_some hp, getOp_some hr]

/-- … and conversely: a successful `cmdUndo` went through those lookups -/
theorem cmdUndo_inv {log : OpLog} {head : Nat} {imm : List Nat} {o : Outcome}
    (h : cmdUndo log head imm = .ok o) :
    ∃ hop top pop rop p, log[head]? = some hop ∧ log[undoTarget hop.desc head]? = some top ∧
      top.parents = [p] ∧ log[p]? = some pop ∧ log[undoTarget pop.desc p]? = some rop ∧
      o = finish hop.view (viewWithDesiredPortionsRestored rop.view hop.view defaultWhat)
        (.undo (undoTarget pop.desc p)) imm := by
  unfold cmdUndo at h
  split at h
  · simp at h
  · rename_i hop hhop
    split at h
    · simp at h
    · rename_i top htop
      split at h
      · simp at h
      · rename_i p hsp
        split at h
        · simp at h
        · rename_i pop hpop
          split at h
          · simp at h
          · rename_i rop hrop
            have hpar : top.parents = [p] := by
              unfold singleParent at hsp
              split at hsp
              next q hq => simp at hsp; rw [hq, hsp]
              next => simp at hsp
              next => simp at hsp
            simp only [Except.ok.injEq] at h
            exact ⟨hop, top, pop, rop, p, getOp_ok hhop, getOp_ok htop, hpar, getOp_ok hpop,
              getOp_ok hrop, h.symm⟩

/-- **undo_eq_before** — after `jj undo` the restored portions of the view equal those recorded
*before* the undone operation (by its parent), git refs / git heads stay current, and the new
operation is marked as an undo-operation.  The undone operation is `undoTarget hop.desc head`:
the latest operation, or — when undo is repeated — the operation the previous undo went back to.
Covers the "jump over earlier undo-operations" rule: when the parent is itself an undo-operation
the view comes from the operation that one restored, which by `WF` is the same state. -/
theorem undo_eq_before (log : OpLog) (hwf : WF log) (head : Nat) (imm : List Nat) (hop uop pop : Op) (p : Nat)
    (hh : log[head]? = some hop) (hu : log[undoTarget hop.desc head]? = some uop)
    (hpar : uop.parents = [p]) (hp : log[p]? = some pop) :
    ∃ o, cmdUndo log head imm = .ok o ∧
      RestoredEq (resultView hop.view o) pop.view ∧
      (resultView hop.view o).gitRefs = hop.view.gitRefs ∧
      (resultView hop.view o).gitHeads = hop.view.gitHeads ∧
      (∀ d v nw, o = .ok d v nw → ∃ t, d = .undo t) := by
  -- where the view comes from
  have hsrc : ∃ rop : Op, log[undoTarget pop.desc p]? = some rop ∧ RestoredEq rop.view pop.view := by
    cases hd : pop.desc with
    | regular => exact ⟨pop, by simpa [undoTarget] using hp, RestoredEq.refl _⟩
    | redo t => exact ⟨pop, by simpa [undoTarget] using hp, RestoredEq.refl _⟩
    | undo t =>
      obtain ⟨top, ht, heq⟩ := (hwf p pop hp).1 t hd
      exact ⟨top, by simpa [undoTarget] using ht, heq.symm⟩
  obtain ⟨rop, hrop, hreq⟩ := hsrc
  refine ⟨_, cmdUndo_ok hh hu hpar hp hrop, ?_, ?_, ?_, ?_⟩
  · rw [resultView_finish]
    exact (restored_default _ _).trans hreq
  · rw [resultView_finish]; exact (restored_git _ _ _).1
  · rw [resultView_finish]; exact (restored_git _ _ _).2
  · intro d v nw ho
    exact ⟨_, (exception_iff_immutable _ _ _ _ _ _ _ ho).2.2.1⟩

/-- `jj undo` refuses exactly at the root and at merge operations -/
theorem undo_errors (log : OpLog) (head : Nat) (imm : List Nat) (hop uop : Op)
    (hh : log[head]? = some hop) (hu : log[undoTarget hop.desc head]? = some uop) :
    (uop.parents = [] → cmdUndo log head imm = .error .root) ∧
    (2 ≤ uop.parents.length → cmdUndo log head imm = .error .merge) := by
  constructor
  · intro h0
    simp only [cmdUndo, getOp_some hh, getOp_some hu, h0, singleParent]
  · intro h2
    match hps : uop.parents, h2 with
    | a :: b :: rest, _ =>
      simp only [cmdUndo, getOp_some hh, getOp_some hu, hps, singleParent]

theorem getElem?_append_old {log : OpLog} {u : Op} {i : Nat} {op : Op} (h : log[i]? = some op) :
    (log ++ [u])[i]? = some op := by
  have hi : i < log.length := by
    cases Nat.lt_or_ge i log.length with
    | inl h' => exact h'
    | inr h' => simp [List.getElem?_eq_none h'] at h
  rw [List.getElem?_append_left hi]; exact h

theorem getElem?_append_new (log : OpLog) (u : Op) : (log ++ [u])[log.length]? = some u := by
  simp

/-- **redo_eq_undone** — `jj undo` followed by `jj redo` reinstates the restored portions of the
view the undo started from (the undone state), whatever that operation was. -/
theorem redo_eq_undone (log : OpLog) (hwf : WF log) (head : Nat) (imm : List Nat) (hop : Op)
    (hh : log[head]? = some hop) (d : Desc) (v : View)
    (hundo : cmdUndo log head [] = .ok (.ok d v false)) :
    ∃ o, cmdRedo (log ++ [⟨[head], d, v⟩]) log.length imm = .ok o ∧
      RestoredEq (resultView v o) hop.view ∧
      (∀ d' v' nw, o = .ok d' v' nw → ∃ t, d' = .redo t) := by
  -- the undo-operation is marked as such
  obtain ⟨_, _, pop0, _, p0, _, _, _, _, _, hfin⟩ := cmdUndo_inv hundo
  have hd : d = .undo (undoTarget pop0.desc p0) :=
    (exception_iff_immutable _ _ _ _ _ _ _ hfin.symm).2.2.1
  subst hd
  have hu := getElem?_append_new log ⟨[head], .undo (undoTarget pop0.desc p0), v⟩
  have hh' := getElem?_append_old (u := ⟨[head], .undo (undoTarget pop0.desc p0), v⟩) hh
  -- where the view comes from: the undone operation, or what it redid
  have hsrc : ∃ rop : Op, (log ++ [⟨[head], .undo (undoTarget pop0.desc p0), v⟩])[redoTarget hop.desc head]? = some rop ∧
      RestoredEq rop.view hop.view := by
    cases hdesc : hop.desc with
    | regular => exact ⟨hop, by simpa [redoTarget] using hh', RestoredEq.refl _⟩
    | undo t => exact ⟨hop, by simpa [redoTarget] using hh', RestoredEq.refl _⟩
    | redo t' =>
      obtain ⟨top, ht, heq⟩ := (hwf head hop hh).2 t' hdesc
      exact ⟨top, by simpa [redoTarget] using getElem?_append_old ht, heq.symm⟩
  obtain ⟨rop, hrop, hreq⟩ := hsrc
  refine ⟨finish v (viewWithDesiredPortionsRestored rop.view v defaultWhat)
    (.redo (redoTarget hop.desc head)) imm, ?_, ?_, ?_⟩
  · have h1 : redoTarget (Desc.undo (undoTarget pop0.desc p0)) log.length = log.length := rfl
    have h2 : isUndo (Desc.undo (undoTarget pop0.desc p0)) = true := rfl
    simp only [cmdRedo, getOp_some hu, h1, h2, ↓reduceIte, getOp_some hh', getOp_some hrop]
  · rw [resultView_finish]
    exact (restored_default _ _).trans hreq
  · intro d' v' nw ho
    exact ⟨_, (exception_iff_immutable _ _ _ _ _ _ _ ho).2.2.1⟩

/-- `jj redo` right after a regular operation has nothing to redo -/
theorem redo_nothing (log : OpLog) (head : Nat) (imm : List Nat) (hop : Op) (hh : log[head]? = some hop)
    (hd : hop.desc = .regular) : cmdRedo log head imm = .error .nothingToRedo := by
  simp [cmdRedo, getOp_some hh, hd, redoTarget, isUndo]

/-- logs grown by `jj undo` (without the exception) stay well-formed -/
theorem wf_append_undo (log : OpLog) (hwf : WF log) (head : Nat) (d : Desc) (v : View)
    (hundo : cmdUndo log head [] = .ok (.ok d v false)) : WF (log ++ [⟨[head], d, v⟩]) := by
  obtain ⟨hop, _, pop0, rop, p0, _, _, _, _, hr, hfin⟩ := cmdUndo_inv hundo
  have hx := exception_iff_immutable _ _ _ _ _ _ _ hfin.symm
  have hd : d = .undo (undoTarget pop0.desc p0) := hx.2.2.1
  have hv : v = viewWithDesiredPortionsRestored rop.view hop.view defaultWhat := hx.2.1
  subst hd
  intro i op hi
  by_cases hlt : i < log.length
  · rw [List.getElem?_append_left hlt] at hi
    have := hwf i op hi
    exact ⟨fun t ht => (this.1 t ht).imp fun top h => ⟨getElem?_append_old h.1, h.2⟩,
           fun t ht => (this.2 t ht).imp fun top h => ⟨getElem?_append_old h.1, h.2⟩⟩
  · have hi' : i = log.length := by
      cases Nat.lt_or_ge i (log.length + 1) with
      | inl h => omega
      | inr h =>
        have : (log ++ [(⟨[head], .undo (undoTarget pop0.desc p0), v⟩ : Op)])[i]? = none :=
          List.getElem?_eq_none (by simp; omega)
        simp [this] at hi
    subst hi'
    simp at hi
    subst hi
    refine ⟨?_, ?_⟩
    · intro t ht
      simp at ht; subst ht
      exact ⟨rop, getElem?_append_old hr, by rw [hv]; exact restored_default _ _⟩
    · intro t ht; simp at ht

/-- a successful `cmdRedo` went through these lookups -/
theorem cmdRedo_inv {log : OpLog} {head : Nat} {imm : List Nat} {o : Outcome}
    (h : cmdRedo log head imm = .ok o) :
    ∃ hop top pop rop p, log[head]? = some hop ∧ log[redoTarget hop.desc head]? = some top ∧
      isUndo top.desc = true ∧ top.parents = [p] ∧ log[p]? = some pop ∧
      log[redoTarget pop.desc p]? = some rop ∧
      o = finish hop.view (viewWithDesiredPortionsRestored rop.view hop.view defaultWhat)
        (.redo (redoTarget pop.desc p)) imm := by
  unfold cmdRedo at h
  split at h
  · simp at h
  · rename_i hop hhop
    split at h
    · simp at h
    · rename_i top htop
      split at h
      · rename_i hundo
        split at h
        · rename_i p hpar
          split at h
          · simp at h
          · rename_i pop hpop
            split at h
            · simp at h
            · rename_i rop hrop
              simp only [Except.ok.injEq] at h
              exact ⟨hop, top, pop, rop, p, getOp_ok hhop, getOp_ok htop, hundo, hpar, getOp_ok hpop,
                getOp_ok hrop, h.symm⟩
        · simp at h
      · simp at h

/-- logs grown by `jj redo` (without the exception) stay well-formed -/
theorem wf_append_redo (log : OpLog) (hwf : WF log) (head : Nat) (d : Desc) (v : View)
    (hredo : cmdRedo log head [] = .ok (.ok d v false)) : WF (log ++ [⟨[head], d, v⟩]) := by
  obtain ⟨hop, _, pop0, rop, p0, _, _, _, _, _, hr, hfin⟩ := cmdRedo_inv hredo
  have hx := exception_iff_immutable _ _ _ _ _ _ _ hfin.symm
  have hd : d = .redo (redoTarget pop0.desc p0) := hx.2.2.1
  have hv : v = viewWithDesiredPortionsRestored rop.view hop.view defaultWhat := hx.2.1
  subst hd
  intro i op hi
  by_cases hlt : i < log.length
  · rw [List.getElem?_append_left hlt] at hi
    have := hwf i op hi
    exact ⟨fun t ht => (this.1 t ht).imp fun top h => ⟨getElem?_append_old h.1, h.2⟩,
           fun t ht => (this.2 t ht).imp fun top h => ⟨getElem?_append_old h.1, h.2⟩⟩
  · have hi' : i = log.length := by
      cases Nat.lt_or_ge i (log.length + 1) with
      | inl h => omega
      | inr h =>
        have : (log ++ [(⟨[head], .redo (redoTarget pop0.desc p0), v⟩ : Op)])[i]? = none :=
          List.getElem?_eq_none (by simp; omega)
        simp [this] at hi
    subst hi'
    simp at hi
    subst hi
    refine ⟨?_, ?_⟩
    · intro t ht; simp at ht
    · intro t ht
      simp at ht; subst ht
      exact ⟨rop, getElem?_append_old hr, by rw [hv]; exact restored_default _ _⟩

/-- every portion equal ⇒ equal views -/
theorem View.ext_portions {a b : View} (h : RestoredEq a b) (h1 : a.gitRefs = b.gitRefs)
    (h2 : a.gitHeads = b.gitHeads) : a = b := by
  obtain ⟨⟨h3, h4, h5, h6⟩, h7⟩ := h
  cases a; cases b; simp_all

/-- **revert_of_head_eq_undo** — reverting the latest operation (a non-merge, non-root operation
that is not itself an undo-operation) leaves exactly the view `jj undo` leaves. -/
theorem revert_of_head_eq_undo (log : OpLog) (hwf : WF log) (head : Nat) (imm : List Nat) (hop pop : Op)
    (p : Nat) (hh : log[head]? = some hop) (hnu : ∀ t, hop.desc ≠ .undo t) (hpar : hop.parents = [p])
    (hp : log[p]? = some pop) :
    ∃ o o', cmdRevert log head head defaultWhat imm = .ok (some o) ∧ cmdUndo log head imm = .ok o' ∧
      resultView hop.view o = resultView hop.view o' := by
  have hund : undoTarget hop.desc head = head := by
    cases hd : hop.desc with
    | undo t => exact absurd hd (hnu t)
    | regular => rfl
    | redo t => rfl
  obtain ⟨o', ho', heq, hg1, hg2, _⟩ :=
    undo_eq_before log hwf head imm hop hop pop p hh (by rw [hund]; exact hh) hpar hp
  refine ⟨finish hop.view (viewWithDesiredPortionsRestored pop.view hop.view defaultWhat) .regular imm,
    o', ?_, ho', ?_⟩
  · simp only [cmdRevert, getOp_some hh, hpar, singleParent, getOp_some hp, mergeView, if_true]
  · rw [resultView_finish]
    apply View.ext_portions
    · exact (restored_default pop.view hop.view).trans heq.symm
    · rw [hg1]; exact (restored_git _ _ _).1
    · rw [hg2]; exact (restored_git _ _ _).2

/-! ### a concrete log: A, B, C, undo, E, undo, undo (the example of undo.rs) -/

def vw (n : Nat) : View := ⟨n, n, 0, 0, 7, 0, n⟩

/-- operations 0 (root) … 3 = A B C; 4 = `undo` (restores B = 2); 5 = E; 6 = `undo` (restores B,
not operation 4); then `undo` again restores A = 1: the undo-stack from 6 to 2 is jumped over -/
def exampleLog : OpLog :=
  [⟨[], .regular, vw 0⟩, ⟨[0], .regular, vw 1⟩, ⟨[1], .regular, vw 2⟩, ⟨[2], .regular, vw 3⟩,
   ⟨[3], .undo 2, vw 2⟩, ⟨[4], .regular, vw 5⟩, ⟨[5], .undo 2, vw 2⟩]

example : cmdUndo (exampleLog.take 4) 3 [] = .ok (.ok (.undo 2) (vw 2) false) := by rfl
example : cmdUndo (exampleLog.take 6) 5 [] = .ok (.ok (.undo 2) (vw 2) false) := by rfl
example : cmdUndo exampleLog 6 [] = .ok (.ok (.undo 1) (vw 1) false) := by rfl
example : cmdRedo exampleLog 6 [] = .ok (.ok (.redo 5) (vw 5) false) := by rfl
example : cmdRedo (exampleLog.take 6) 5 [] = .error .nothingToRedo := by rfl
example : cmdUndo (exampleLog.take 1) 0 [] = .error .root := by rfl
example : cmdRevert (exampleLog.take 4) 3 3 defaultWhat [2] = .ok (some (.ok .regular (vw 2) true)) := by rfl
example : cmdRestore exampleLog 6 3 [.repo] [] = .ok (.ok .regular (vw 3) false) := by rfl
example : cmdRestore exampleLog 6 4 defaultWhat [2] = .ok .nochange := by rfl

example : WF exampleLog := by
  intro i op hi
  match i, hi with
  | 0, hi | 1, hi | 2, hi | 3, hi | 5, hi =>
    simp [exampleLog] at hi; subst hi; exact ⟨by simp, by simp⟩
  | 4, hi | 6, hi =>
    simp [exampleLog] at hi; subst hi
    exact ⟨fun t ht => by simp at ht; subst ht; exact ⟨_, rfl, RestoredEq.refl _⟩, by simp⟩
  | n + 7, hi => simp [exampleLog] at hi

end JjModel.C41
