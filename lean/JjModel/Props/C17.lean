import JjModel.Lemmas.GitBackend
import JjModel.Model.CommitHash
import JjModel.Generated.HashLayout
/-!
  C17 — Commit backends return on read exactly what write reported.

  * `simple_roundtrip`: the simple backend returns the commit unchanged and reads it back unchanged.
  * `git_read_eq_returned`: for the Git backend, from *any* state of the extras table, a write that
    succeeds on a commit satisfying `Accepts` yields an id under which exactly the returned commit
    is read (`Accepts false` = the code as it stands, needs a whole-second author timestamp — F1;
    `Accepts true` = the repaired code, no such hypothesis).
  * `unfixed_author_counterexample`, `placeholder_counterexample`, `untrimmed_counterexample`,
    `simple_all_empty_labels_counterexample`: each hypothesis is necessary (witnesses; the first is the
    defect to repair, the others are recorded as known findings).
  * `git_fields_distinguish`: canonical commits that differ in any field give different Git records
    or different extras (hence different ids under A1, together with the adjustment loop).
-/
namespace JjModel.C17
open JjModel.GitBackend

/-! ### simple backend -/

/-- the documented invariant of `backend::Commit::conflict_labels` ("if resolved, must be empty
string") plus what `ConflictLabels` normalises away (labels that are all empty) and `Merge` arity -/
structure SimpleAccepts (c : Commit) : Prop where
  treeOdd : c.rootTree.length % 2 = 1
  labelsResolved : c.labels.length = 1 → c.labels = [[]]
  labelsOdd : c.labels.length % 2 = 1
  labelsNotAllEmpty : c.labels.length ≠ 1 → c.labels.all (·.isEmpty) = false

/-- **C17, simple backend**: `write` returns the commit it was given and `read` gives it back. -/
theorem simple_roundtrip (c r : Commit) (p : SimpleProto) (hw : simpleWrite c = .ok (p, r))
    (ha : SimpleAccepts c) : r = c ∧ simpleRead p = .ok c := by
  unfold simpleWrite at hw
  split at hw
  · cases hw
  · simp only [Except.ok.injEq, Prod.mk.injEq] at hw
    obtain ⟨hp, hr⟩ := hw
    subst hp hr
    refine ⟨rfl, ?_⟩
    have ho : ¬ c.rootTree.length % 2 = 0 := by have := ha.treeOdd; omega
    obtain ⟨parents, preds, tree, labels, cid, desc, a, k⟩ := c
    simp only [simpleRead, commitFromProto, commitToProto, ho, if_false]
    by_cases h1 : labels.length = 1
    · have := ha.labelsResolved h1
      simp only at this
      subst this
      simp [labelsFromVec]
      rfl
    · have hne : labels.isEmpty = false := by
        cases labels with
        | nil => have := ha.labelsOdd; simp at this
        | cons a b => rfl
      have hodd : ¬ labels.length % 2 = 0 := by have := ha.labelsOdd; simp only at this; omega
      have hall := ha.labelsNotAllEmpty h1
      simp only at hall
      simp [labelsFromVec, h1, hne, hodd, hall]
      rfl

/-- the side condition on labels is necessary (known finding `simplebackend:all-empty-labels-normalized`) -/
theorem simple_all_empty_labels_counterexample :
    let c : Commit := ⟨[[1]], [], [[1], [2], [3]], [[], [], []], [9], [], ⟨[], [], 0, 0⟩, ⟨[], [], 0, 0⟩⟩
    ∃ p r b, simpleWrite c = .ok (p, r) ∧ simpleRead p = .ok b ∧ b ≠ r := by
  refine ⟨_, _, _, rfl, rfl, ?_⟩
  decide

/-- the model hashes commits in the layout of the current `#[derive(ContentHash)] struct Commit` -/
theorem layout_commit : commitC.desc = JjModel.Generated.HashLayout.Commit := by rfl

/-- **simple backend ids**: the id is the hash of `encCommit`, and `encCommit` determines the commit
(every field: parents, predecessors, trees, labels, change id, description, both signatures with
millisecond timestamps and offsets), so under A1 two commits that differ get different ids. -/
theorem simple_id_distinguishes (c c' : Commit) (hc : commitC.dom c) (hc' : commitC.dom c')
    (h : encCommit c = encCommit c') : c = c' := commitC.inj hc hc' h

/-! ### Git backend -/

/-- What the proof needs of a commit beyond being accepted by `write_commit`:
canonical signatures (no surrounding whitespace, not the placeholder), the documented label
invariant, odd tree arity (`Merge`), a non-empty change id, and — for the code as it stands
(`fixAuthor = false`) — an author timestamp in whole seconds. -/
structure Accepts (fixAuthor : Bool) (c : Commit) : Prop where
  author : SigCanon c.author
  committer : SigCanon c.committer
  authorWhole : fixAuthor = false → c.author.ms % 1000 = 0
  labelsResolved : c.labels.length = 1 → c.labels = [[]]
  labelsArity : c.labels.length ≠ 1 → c.labels.length = c.rootTree.length
  treeOdd : c.rootTree.length % 2 = 1
  changeId : c.changeId ≠ []

/-- what a successful `toGitCommit` tells about the record -/
theorem toGitCommit_ok (c : Commit) (g : GitCommit) (h : toGitCommit c = .ok g) :
    c.parents ≠ [] ∧ gitParents c.parents = .ok g.parents ∧ g.author = signatureToGit c.author ∧
    g.committer = signatureToGit c.committer ∧ g.message = c.description ∧
    g.changeIdHeader = some c.changeId ∧
    (c.labels.length = 1 → g.labelsHeader = none) ∧
    (c.labels.length ≠ 1 → (∀ l ∈ c.labels, l.contains 10 = false) ∧
        g.labelsHeader = some (labelsHeaderValue c.labels)) ∧
    ((∃ id, c.rootTree = [id] ∧ g.tree = .plain id ∧ g.treesHeader = none) ∨
     (c.rootTree.length ≠ 1 ∧ g.treesHeader = some c.rootTree ∧ ∀ i ∈ c.rootTree, i.length = hashLen)) := by
  unfold toGitCommit at h
  cases ht : gitTreeOf c.rootTree with
  | error e => simp [ht] at h
  | ok tree =>
    by_cases hpe : c.parents.isEmpty = true
    · simp [ht, hpe] at h
    · cases hp : gitParents c.parents with
      | error e => simp [ht, hpe, hp] at h
      | ok ps =>
        cases hl : labelsHeaderOf c.labels with
        | error e => simp [ht, hpe, hp, hl] at h
        | ok lh =>
          simp only [ht, hpe, hp, hl, Bool.false_eq_true, if_false, Except.ok.injEq] at h
          subst h
          refine ⟨by intro e; simp [e] at hpe, rfl, rfl, rfl, rfl, rfl, ?_, ?_, ?_⟩
          · intro h1
            simp only [labelsHeaderOf, h1, ne_eq, not_true_eq_false, if_false, Except.ok.injEq] at hl
            exact hl.symm
          · intro h1
            simp only [labelsHeaderOf, ne_eq, h1, not_false_eq_true, if_true] at hl
            split at hl
            · cases hl
            · rename_i hany
              simp only [Except.ok.injEq] at hl
              refine ⟨?_, hl.symm⟩
              intro l hlm
              simp only [List.any_eq_true, not_exists, not_and, Bool.not_eq_true] at hany
              exact hany l hlm
          · cases hrt : c.rootTree with
            | nil =>
              rw [hrt] at ht
              simp only [gitTreeOf, List.all_nil, if_true, Except.ok.injEq] at ht
              exact Or.inr ⟨by simp, by simp, by intro i hi; cases hi⟩
            | cons x xs =>
              cases xs with
              | nil =>
                rw [hrt] at ht
                simp only [gitTreeOf] at ht
                split at ht
                · simp only [Except.ok.injEq] at ht
                  exact Or.inl ⟨x, rfl, ht.symm, by simp⟩
                · cases ht
              | cons y ys =>
                rw [hrt] at ht
                simp only [gitTreeOf] at ht
                split at ht
                · rename_i hall
                  refine Or.inr ⟨by simp, by simp, ?_⟩
                  intro i hi
                  simp only [List.all_eq_true] at hall
                  simpa [validId] using hall i hi
                · cases ht

theorem gitWrite_ok (fixAuthor : Bool) (t t' : Table) (c r : Commit) (g : GitCommit)
    (hw : gitWrite fixAuthor t c = .ok (t', g, r)) :
    ∃ g0, toGitCommit c = .ok g0 ∧ (sigRejected g0.author || sigRejected g0.committer) = false ∧
      g = adjustLoop t (serializeExtras c) (t.length + 1) g0 ∧
      t' = (g, serializeExtras c) :: t ∧
      r = { c with committer := { c.committer with ms := g.committer.seconds * 1000 }
                   author := if fixAuthor then { c.author with ms := g.author.seconds * 1000 } else c.author } := by
  unfold gitWrite at hw
  cases h0 : toGitCommit c with
  | error e => simp [h0] at hw
  | ok g0 =>
    simp only [h0] at hw
    split at hw
    · cases hw
    · rename_i hrej
      simp only [Except.ok.injEq, Prod.mk.injEq] at hw
      obtain ⟨rfl, rfl, rfl⟩ := hw
      exact ⟨g0, rfl, by simpa using hrej, rfl, rfl, rfl⟩

/-- **C17, Git backend**: whatever the extras table holds, a successful write of an accepted
commit returns an id under which exactly the returned commit is read. -/
theorem git_read_eq_returned (fixAuthor : Bool) (t t' : Table) (c r : Commit) (g : GitCommit)
    (hw : gitWrite fixAuthor t c = .ok (t', g, r)) (ha : Accepts fixAuthor c) :
    gitRead t' g = .ok ⟨r, false⟩ := by
  obtain ⟨g0, h0, _, hg, ht', hr⟩ := gitWrite_ok fixAuthor t t' c r g hw
  · · obtain ⟨hpne, hps, hau, hco, hmsg, hcid, hl1, hl2, htree⟩ := toGitCommit_ok c g0 h0
      obtain ⟨s, hs⟩ := adjustLoop_shape t (serializeExtras c) (t.length + 1) g0
      have hs' := hg.trans hs
      clear hg hs hw
      subst ht' hr
      have hg1 : g.labelsHeader = g0.labelsHeader := by rw [hs']
      have hg2 : g.treesHeader = g0.treesHeader := by rw [hs']
      have hg3 : g.tree = g0.tree := by rw [hs']
      have hg4 : g.parents = g0.parents := by rw [hs']
      have hg5 : g.message = g0.message := by rw [hs']
      have hg6 : g.author = g0.author := by rw [hs']
      have hg7 : g.committer = { g0.committer with seconds := s } := by rw [hs']
      -- labels
      have hlabels : ∀ g' : GitCommit, g'.labelsHeader = g0.labelsHeader → extractLabels g' = .ok c.labels := by
        intro g' hg'
        unfold extractLabels
        rw [hg']
        by_cases h1 : c.labels.length = 1
        · simp only [hl1 h1]; rw [ha.labelsResolved h1]
        · obtain ⟨hnl, hh⟩ := hl2 h1
          simp only [hh]
          have hne : c.labels ≠ [] := by
            intro e; have := ha.labelsArity h1; have := ha.treeOdd; simp [e] at *; omega
          rw [splitTerminator_labelsHeaderValue c.labels hne hnl]
          have : c.labels.length % 2 = 1 := by rw [ha.labelsArity h1]; exact ha.treeOdd
          simp [this]
      -- root tree
      have htreeR : ∀ g' : GitCommit, g'.treesHeader = g0.treesHeader → g'.tree = g0.tree →
          extractRootTree g' = .ok c.rootTree := by
        intro g' hg1 hg2
        unfold extractRootTree
        rw [hg1, hg2]
        rcases htree with ⟨id, hid, hpl, hnone⟩ | ⟨hlen, hsome, hall⟩
        · simp only [hnone, hpl, hid]
        · simp only [hsome]
          have h1 : (c.rootTree.any fun i => decide (i.length ≠ hashLen)) = false := by
            simp only [List.any_eq_false, decide_eq_true_eq, Decidable.not_not]
            exact hall
          have h2 : ¬ (c.rootTree.length = 1 ∨ c.rootTree.length % 2 = 0) := by
            have := ha.treeOdd; omega
          simpa [h2] using hall
      have hparents := gitParents_readback c.parents g0.parents hpne hps
      have hcidne : c.changeId.isEmpty = false := by
        cases hc : c.changeId with
        | nil => exact absurd hc ha.changeId
        | cons a b => rfl
      unfold gitRead
      rw [hlabels g hg1, htreeR g hg2 hg3]
      simp only [Table.get?_head, serializeExtras, hcidne, Bool.not_false, if_true, hg4, hparents, hg5, hmsg,
        hg6, hg7, hau, hco]
      congr 2
      have hA := sig_roundtrip c.author ha.author (c.author.ms / 1000)
      have eA : { signatureToGit c.author with seconds := c.author.ms / 1000 } = signatureToGit c.author := rfl
      rw [eA] at hA
      have hK := sig_roundtrip c.committer ha.committer s
      obtain ⟨parents, preds, tree, labels, cid, desc, a, k⟩ := c
      simp only at hA hK ⊢
      rw [hA, hK]
      cases fixAuthor with
      | true => rfl
      | false =>
        have hw := ha.authorWhole rfl
        simp only at hw
        obtain ⟨n, e, ms, tz⟩ := a
        simp only at hw ⊢
        congr 2
        omega

/-- **Ids are never shared between different metadata**: the id chosen by `write_commit` is either
new to the extras table or already associated with exactly the same extras (the Rust loop is
unbounded; the model's fuel `t.length + 1` is proved sufficient: `adjustLoop_fuel_suffices`). -/
theorem git_write_never_reuses_id (fixAuthor : Bool) (t t' : Table) (c r : Commit) (g : GitCommit)
    (hw : gitWrite fixAuthor t c = .ok (t', g, r)) :
    t.get? g = none ∨ t.get? g = some (serializeExtras c) := by
  obtain ⟨g0, _, _, hg, _, _⟩ := gitWrite_ok fixAuthor t t' c r g hw
  rw [hg]
  exact adjustLoop_fuel_suffices t (serializeExtras c) g0

/-- writing into the empty table, for a commit whose timestamps are whole seconds -/
theorem gitWrite_empty_whole (c : Commit) (g : GitCommit) (hg : toGitCommit c = .ok g)
    (hrej : (sigRejected g.author || sigRejected g.committer) = false)
    (h1 : c.author.ms % 1000 = 0) (h2 : c.committer.ms % 1000 = 0) :
    gitWrite true [] c = .ok ([(g, serializeExtras c)], g, c) := by
  obtain ⟨_, _, hau, hco, _⟩ := toGitCommit_ok c g hg
  unfold gitWrite
  simp only [hg, hrej, Bool.false_eq_true, if_false, adjustLoop, Table.get?, List.find?_nil, Option.map_none]
  simp only [if_true, hau, hco]
  obtain ⟨parents, preds, tree, labels, cid, desc, ⟨an, ae, ams, atz⟩, ⟨kn, ke, kms, ktz⟩⟩ := c
  simp only [signatureToGit] at *
  have e1 : ams / 1000 * 1000 = ams := by omega
  have e2 : kms / 1000 * 1000 = kms := by omega
  simp [e1, e2]

/-- **Every recorded field is distinguished**: two accepted canonical commits (whole-second
timestamps) that are mapped to the same Git commit record and the same extras are equal.  With A1
(the id is a function of the record, injectively) and the adjustment loop (same record, different
extras ⇒ the committer second is changed until the record differs): commits that differ in any
field get different ids. -/
theorem git_fields_distinguish (c c' : Commit) (g : GitCommit)
    (ha : Accepts true c) (ha' : Accepts true c')
    (hw : c.author.ms % 1000 = 0 ∧ c.committer.ms % 1000 = 0)
    (hw' : c'.author.ms % 1000 = 0 ∧ c'.committer.ms % 1000 = 0)
    (hg : toGitCommit c = .ok g) (hg' : toGitCommit c' = .ok g)
    (hrej : (sigRejected g.author || sigRejected g.committer) = false)
    (he : serializeExtras c = serializeExtras c') : c = c' := by
  have h1 := git_read_eq_returned true [] _ c c g (gitWrite_empty_whole c g hg hrej hw.1 hw.2) ha
  have h2 := git_read_eq_returned true [] _ c' c' g (gitWrite_empty_whole c' g hg' hrej hw'.1 hw'.2) ha'
  rw [he] at h1
  rw [h1] at h2
  simpa using h2

/-! ### every hypothesis of `Accepts` is necessary (witnesses) -/

def sig0 : Signature := ⟨[65], [97, 64, 98], 1700000000000, 60⟩

/-- a plain commit on top of the root commit -/
def base : Commit :=
  ⟨[rootCommitId], [], [List.replicate 20 7], [[]], List.replicate 16 3, [109, 115, 103, 10], sig0, sig0⟩

/-- **F1 (defect)**: with the code as it stands, an author timestamp with milliseconds is kept in the
returned commit but stored in whole seconds: read-back ≠ returned … -/
theorem unfixed_author_counterexample :
    let c := { base with author := { sig0 with ms := 1700000000123 } }
    ∃ t' g r b, gitWrite false [] c = .ok (t', g, r) ∧ gitRead t' g = .ok ⟨b, false⟩ ∧
      r.author.ms = 1700000000123 ∧ b.author.ms = 1700000000000 ∧ b ≠ r :=
  ⟨_, _, _, _, rfl, rfl, rfl, rfl, by decide⟩

/-- … and the proposed repair (truncate the author timestamp in the returned commit) removes it. -/
theorem fixed_author_example :
    let c := { base with author := { sig0 with ms := 1700000000123 } }
    ∃ t' g r, gitWrite true [] c = .ok (t', g, r) ∧ gitRead t' g = .ok ⟨r, false⟩ :=
  ⟨_, _, _, rfl, rfl⟩

/-- known finding `gitbackend:empty-string-placeholder-collision` -/
theorem placeholder_counterexample :
    let c := { base with committer := { sig0 with name := placeholder } }
    ∃ t' g r b, gitWrite true [] c = .ok (t', g, r) ∧ gitRead t' g = .ok ⟨b, false⟩ ∧
      r.committer.name = placeholder ∧ b.committer.name = [] :=
  ⟨_, _, _, _, rfl, rfl, rfl, rfl⟩

/-- known finding `gitbackend:name-email-whitespace-trimmed` -/
theorem untrimmed_counterexample :
    let c := { base with author := { sig0 with email := [32, 120] } }
    ∃ t' g r b, gitWrite true [] c = .ok (t', g, r) ∧ gitRead t' g = .ok ⟨b, false⟩ ∧
      r.author.email = [32, 120] ∧ b.author.email = [120] :=
  ⟨_, _, _, _, rfl, rfl, rfl, rfl⟩

/-- an empty change id is not stored in the extras: the reader synthesises one from the commit id -/
theorem empty_change_id_counterexample :
    let c := { base with changeId := [] }
    ∃ t' g r b, gitWrite true [] c = .ok (t', g, r) ∧ gitRead t' g = .ok ⟨b, true⟩ :=
  ⟨_, _, _, _, rfl, rfl⟩

/-- resolved but non-empty labels (excluded by the documented invariant) are not stored -/
theorem resolved_nonempty_label_counterexample :
    let c := { base with labels := [[120]] }
    ∃ t' g r b, gitWrite true [] c = .ok (t', g, r) ∧ gitRead t' g = .ok ⟨b, false⟩ ∧ b.labels = [[]] :=
  ⟨_, _, _, _, rfl, rfl, rfl⟩

/-! ### non-vacuity -/

theorem sig0_canon : SigCanon sig0 := ⟨⟨by decide, by decide⟩, ⟨by decide, by decide⟩⟩

/-- a conflicted, labelled merge commit with predecessors, sub-second committer, negative author time -/
def sample : Commit :=
  { parents := [List.replicate 20 1, List.replicate 20 2]
    predecessors := [List.replicate 20 9]
    rootTree := [List.replicate 20 4, List.replicate 20 5, List.replicate 20 6]
    labels := [[115, 105, 100, 101], [], [98, 32, 195, 169]]
    changeId := List.replicate 16 8
    description := [10, 10, 120]
    author := ⟨[], [], -5000, -720⟩
    committer := ⟨[195, 169], [120], 1700000000999, 840⟩ }

theorem sample_accepts : Accepts false sample := by
  refine ⟨⟨⟨by decide, by decide⟩, ⟨by decide, by decide⟩⟩, ⟨⟨by decide, by decide⟩, ⟨by decide, by decide⟩⟩,
    fun _ => by decide, by decide, by decide, by decide, by decide⟩

example : ∃ t' g r, gitWrite false [] sample = .ok (t', g, r) ∧ gitRead t' g = .ok ⟨r, false⟩ ∧
    r.committer.ms = 1700000000000 := ⟨_, _, _, rfl, rfl, rfl⟩

/-- the adjustment loop at work: the same Git object with different extras gets another id, and the
returned commit carries the adjusted committer time -/
example :
    ∃ t1 g1 r1 t2 g2 r2, gitWrite false [] base = .ok (t1, g1, r1) ∧
      gitWrite false t1 { base with predecessors := [List.replicate 20 9] } = .ok (t2, g2, r2) ∧
      g1 ≠ g2 ∧ r2.committer.ms = 1699999999000 ∧ gitRead t2 g2 = .ok ⟨r2, false⟩ ∧ gitRead t2 g1 = .ok ⟨r1, false⟩ :=
  ⟨_, _, _, _, _, _, rfl, rfl, by decide, rfl, rfl, rfl⟩

example : SimpleAccepts sample := ⟨by decide, by decide, by decide, fun _ => by decide⟩

end JjModel.C17
