import JjModel.Lemmas.Refs
import JjModel.Props.C02
/-!
  C12 — Bookmark target merges resolve only when safe.

  Theorems about `JjModel.Refs.mergeRefTargets` (model of `refs.rs::merge_ref_targets`) for an
  *arbitrary* ancestry test `anc : Nat → Nat → Bool`; transitivity / antisymmetry of `anc` are
  explicit hypotheses exactly where they are used (the real index is a reflexive partial order).

  * `left_unchanged`, `right_unchanged`, `both_agree` — the three trivial rules;
  * `fast_forward`, `fast_forward_left` — normal targets on one line of history ⇒ the descendant
    (an absent base counts as a root);
  * `no_invention` — every term of the result occurs in an input;
  * `arity_odd`, `fuel_enough`, `loop_terminates_at_fixpoint` — the loop is total and its fuel suffices;
  * `conflict_otherwise` — complete case analysis of the result: a trivial rule, the counting rule
    on the flattened+simplified merge, or a `Reduces`-normal form of it;
  * `flatten_count` — the flattened merge has signed counts `left − base + right`;
  * `dropped_terms_justified` — in the last case the signed multiset of the result equals that of
    the simplified merge minus the dropped `(remove, add)` pairs, every dropped remove is absent or
    an ancestor of its add and every dropped add is an ancestor-or-equal of an add that survives:
    the function never "picks a side" that does not descend from what it replaces;
  * `resolved_only_when_justified` — corollary for a resolved result;
  * `result_is_normal_form` — nothing more could have been dropped (completeness of the search).
-/
namespace JjModel.C12
open JjModel.Merge JjModel.Refs

variable (anc : Nat → Nat → Bool)

/-! ### the three trivial rules -/

theorem left_unchanged (l b r : Target) (h : l = b) : mergeRefTargets anc l b r = r := by
  subst h
  simp only [mergeRefTargets, trivialMerge]
  by_cases h2 : l = r <;> simp [h2]

theorem right_unchanged (l b r : Target) (h : r = b) : mergeRefTargets anc l b r = l := by
  subst h
  simp only [mergeRefTargets, trivialMerge]
  by_cases h2 : l = r <;> simp [h2]

theorem both_agree (l b r : Target) (h : l = r) : mergeRefTargets anc l b r = l := by
  subst h
  simp [mergeRefTargets, trivialMerge]

/-! ### fast-forward -/

theorem simplify_three (x y z : Option Nat) (h1 : x ≠ y) (h2 : z ≠ y) : simplify [x, y, z] = [x, y, z] := by
  simp [simplify, simplifiedMapping, mappingLoop, findRemove, applyMapping, List.range, List.range.loop,
    Ne.symm h1, Ne.symm h2]

/-- all three terms distinct, `l` is the add that is dropped -/
theorem ff_core (l r : Nat) (b : Option Nat) (hlr : l ≠ r) (hlb : some l ≠ b) (hrb : some r ≠ b)
    (hb : removeOk anc l b = true) (h : anc l r = true) :
    mergeRefTargets anc [some l] [b] [some r] = [some r] := by
  have e1 : trivialMerge [[some l], [b], [some r]] SameChange.accept = none := by
    simp [trivialMerge, hlr, hlb, hrb]
  have e2 : trivialMerge [some l, b, some r] SameChange.accept = none := by
    simp [trivialMerge, hlr, hlb, hrb]
  simp [mergeRefTargets, e1, flatten, flattenFrom, negateTerm, swapPairs, simplify_three _ _ _ hlb hrb, e2,
    mergeRefTargetsNonTrivial, nonTrivialLoop, findPairToRemove, adds, removes, outerLoop, innerLoop, pickAdd,
    hlr, h, position, hb, swapRemove, vecSwapRemove]

/-- all three terms distinct, `r` is the add that is dropped -/
theorem ff_core_left (l r : Nat) (b : Option Nat) (hlr : l ≠ r) (hlb : some l ≠ b) (hrb : some r ≠ b)
    (hb : removeOk anc r b = true) (h : anc r l = true) (h' : anc l r = false) :
    mergeRefTargets anc [some l] [b] [some r] = [some l] := by
  have e1 : trivialMerge [[some l], [b], [some r]] SameChange.accept = none := by
    simp [trivialMerge, hlr, hlb, hrb]
  have e2 : trivialMerge [some l, b, some r] SameChange.accept = none := by
    simp [trivialMerge, hlr, hlb, hrb]
  simp [mergeRefTargets, e1, flatten, flattenFrom, negateTerm, swapPairs, simplify_three _ _ _ hlb hrb, e2,
    mergeRefTargetsNonTrivial, nonTrivialLoop, findPairToRemove, adds, removes, outerLoop, innerLoop, pickAdd,
    hlr, h, h', position, hb, swapRemove, vecSwapRemove]

/-- Fast-forward, right side ahead: base `b` (absent, or an ancestor of `l`), `l` an ancestor of `r`
⇒ the result is `r`.  `removeOk anc l b` is "`b` is absent or `anc b l`". -/
theorem fast_forward (l r : Nat) (b : Option Nat)
    (hanti : anc l r = true → anc r l = true → l = r)
    (hb : removeOk anc l b = true) (h : anc l r = true) :
    mergeRefTargets anc [some l] [b] [some r] = [some r] := by
  by_cases hlr : l = r
  · rw [both_agree anc _ _ _ (by rw [hlr])]; rw [hlr]
  by_cases hlb : some l = b
  · exact left_unchanged anc _ _ _ (by rw [hlb])
  by_cases hrb : some r = b
  · subst hrb
    exact absurd (hanti h hb) hlr
  exact ff_core anc l r b hlr hlb hrb hb h

/-- Fast-forward, left side ahead. -/
theorem fast_forward_left (l r : Nat) (b : Option Nat)
    (hanti : anc l r = true → anc r l = true → l = r)
    (hb : removeOk anc r b = true) (h : anc r l = true) :
    mergeRefTargets anc [some l] [b] [some r] = [some l] := by
  by_cases hlr : l = r
  · exact both_agree anc _ _ _ (by rw [hlr])
  by_cases hrb : some r = b
  · exact right_unchanged anc _ _ _ (by rw [hrb])
  by_cases hlb : some l = b
  · subst hlb
    exact absurd (hanti hb h) hlr
  have h' : anc l r = false := by
    cases hh : anc l r
    · rfl
    · exact absurd (hanti hh h) hlr
  exact ff_core_left anc l r b hlr hlb hrb hb h h'

/-! ### termination -/

/-- after `mergeRefTargetsNonTrivial` no removable pair is left: fuel `m.length` reaches the
fixpoint of the `while let` loop -/
theorem loop_terminates_at_fixpoint (m : Target) :
    findPairToRemove anc (mergeRefTargetsNonTrivial anc m) = none :=
  loop_fixpoint anc m.length m (by omega)

theorem loop_stable_succ (fuel : Nat) (m : Target)
    (h : findPairToRemove anc (nonTrivialLoop anc fuel m) = none) :
    nonTrivialLoop anc (fuel + 1) m = nonTrivialLoop anc fuel m := by
  fun_induction nonTrivialLoop anc fuel m with
  | case1 m => simp only [nonTrivialLoop] at h ⊢; rw [h]
  | case2 fuel m ri ai hf ih =>
    have := ih h
    rw [nonTrivialLoop, hf]; exact this
  | case3 fuel m hf => simp [nonTrivialLoop, hf]

/-- more fuel never changes the answer: the model's loop equals the unbounded `while let` loop -/
theorem fuel_enough (m : Target) (k : Nat) :
    nonTrivialLoop anc (m.length + k) m = mergeRefTargetsNonTrivial anc m := by
  induction k with
  | zero => rfl
  | succ k ih =>
    rw [← ih, ← Nat.add_assoc]
    apply loop_stable_succ
    exact loop_fixpoint anc _ m (by omega)

/-! ### complete case analysis -/

/-- the flattened and simplified three-way merge on which the non-trivial rules work -/
def combined (l b r : Target) : Target := simplify (flatten [l, b, r])

/-- **Complete case analysis**: the result is produced by one of the trivial rules, by the
counting rule on `combined l b r`, or it is a `Reduces`-normal form of `combined l b r`
(only justified `(remove, add)` pairs dropped, and no further pair can be found). -/
theorem conflict_otherwise (l b r : Target) :
    (l = b ∧ mergeRefTargets anc l b r = r) ∨
    (r = b ∧ mergeRefTargets anc l b r = l) ∨
    (l = r ∧ mergeRefTargets anc l b r = l) ∨
    (∃ v, trivialMerge (combined l b r) .accept = some v ∧ mergeRefTargets anc l b r = [v]) ∨
    (trivialMerge (combined l b r) .accept = none ∧
      Reduces anc (combined l b r) (mergeRefTargets anc l b r) ∧
      findPairToRemove anc (mergeRefTargets anc l b r) = none) := by
  by_cases h1 : l = b
  · exact Or.inl ⟨h1, left_unchanged anc l b r h1⟩
  by_cases h2 : r = b
  · exact Or.inr (Or.inl ⟨h2, right_unchanged anc l b r h2⟩)
  by_cases h3 : l = r
  · exact Or.inr (Or.inr (Or.inl ⟨h3, both_agree anc l b r h3⟩))
  right; right; right
  have e1 : trivialMerge [l, b, r] SameChange.accept = none := by
    simp [trivialMerge, h1, h2, h3]
  cases h4 : trivialMerge (combined l b r) SameChange.accept with
  | some v =>
    left
    refine ⟨v, rfl, ?_⟩
    simp only [combined] at h4
    simp [mergeRefTargets, e1, h4]
  | none =>
    right
    have e : mergeRefTargets anc l b r = mergeRefTargetsNonTrivial anc (combined l b r) := by
      simp only [combined] at h4
      simp [mergeRefTargets, e1, h4, combined]
    rw [e]
    exact ⟨rfl, loop_reduces anc _ _, loop_terminates_at_fixpoint anc _⟩

/-! ### no invention, arity -/

theorem mem_combined (l b r : Target) (t : Option Nat) (h : t ∈ combined l b r) : t ∈ l ∨ t ∈ b ∨ t ∈ r := by
  have := mem_simplify _ _ h
  rw [flatten_three] at this
  simp only [List.mem_append, mem_negateTerm] at this
  exact or_assoc.mp this

/-- **No invention**: every term (commit id or "absent") of the result occurs in an input. -/
theorem no_invention (l b r : Target) (t : Option Nat) (h : t ∈ mergeRefTargets anc l b r) :
    t ∈ l ∨ t ∈ b ∨ t ∈ r := by
  rcases conflict_otherwise anc l b r with ⟨_, e⟩ | ⟨_, e⟩ | ⟨_, e⟩ | ⟨v, hv, e⟩ | ⟨_, hred, _⟩
  · rw [e] at h; exact Or.inr (Or.inr h)
  · rw [e] at h; exact Or.inl h
  · rw [e] at h; exact Or.inl h
  · rw [e] at h; simp at h; subst h
    exact mem_combined l b r _ (mem_of_trivialMerge _ _ _ hv)
  · exact mem_combined l b r _ (reduces_mem anc _ _ hred t h)

theorem combined_odd (l b r : Target) (hl : l.length % 2 = 1) (hb : b.length % 2 = 1) (hr : r.length % 2 = 1) :
    (combined l b r).length % 2 = 1 := by
  apply length_simplify_odd
  rw [flatten_three]; simp [length_negateTerm]; omega

/-- the result is a well-formed merge (odd number of terms) -/
theorem arity_odd (l b r : Target) (hl : l.length % 2 = 1) (hb : b.length % 2 = 1) (hr : r.length % 2 = 1) :
    (mergeRefTargets anc l b r).length % 2 = 1 := by
  rcases conflict_otherwise anc l b r with ⟨_, e⟩ | ⟨_, e⟩ | ⟨_, e⟩ | ⟨v, hv, e⟩ | ⟨_, hred, _⟩
  · rw [e]; exact hr
  · rw [e]; exact hl
  · rw [e]; exact hl
  · rw [e]; rfl
  · exact reduces_odd anc _ _ hred (combined_odd l b r hl hb hr)

/-- signed counts of the flattened three-way merge: `left − base + right` (with C01's
`count (simplify m) = count m` this is also the count of `combined l b r`) -/
theorem flatten_count (l b r : Target) (hl : l.length % 2 = 1) (hb : b.length % 2 = 1) (v : Option Nat) :
    count (flatten [l, b, r]) v = count l v - count b v + count r v :=
  count_flatten_three l b r hl hb v

/-! ### never picks a side -/

/-- **Dropped terms are justified.**  In the non-trivial case there is a list `ds` of dropped
`(remove, add)` pairs such that the signed multiset of `combined l b r` is that of the result plus
the dropped pairs, every dropped remove is absent or an ancestor of its add, and every dropped add
is an ancestor-or-equal of an add that *survives* in the result. -/
theorem dropped_terms_justified
    (htrans : ∀ a b c, anc a b = true → anc b c = true → anc a c = true)
    (l b r : Target) (hl : l.length % 2 = 1) (hb : b.length % 2 = 1) (hr : r.length % 2 = 1)
    (h1 : l ≠ b) (h2 : r ≠ b) (h3 : l ≠ r) (h4 : trivialMerge (combined l b r) .accept = none) :
    ∃ ds : List (Option Nat × Nat),
      (∀ v, count (combined l b r) v = count (mergeRefTargets anc l b r) v + droppedCount ds v) ∧
      ∀ d ∈ ds, removeOk anc d.2 d.1 = true ∧ BelowSurvivor anc (mergeRefTargets anc l b r) d.2 := by
  rcases conflict_otherwise anc l b r with ⟨e, _⟩ | ⟨e, _⟩ | ⟨e, _⟩ | ⟨v, hv, _⟩ | ⟨_, hred, _⟩
  · exact absurd e h1
  · exact absurd e h2
  · exact absurd e h3
  · rw [h4] at hv; cases hv
  · exact reduces_spec anc htrans _ _ hred (combined_odd l b r hl hb hr)

/-- **Resolved only when justified.**  If the result is resolved to `v`, then a trivial rule or the
counting rule (C02) produced it, or `v = some s` and every dropped add is an ancestor-or-equal of
`s`, every dropped remove absent or an ancestor of its add, and nothing else was dropped. -/
theorem resolved_only_when_justified
    (htrans : ∀ a b c, anc a b = true → anc b c = true → anc a c = true)
    (l b r : Target) (hl : l.length % 2 = 1) (hb : b.length % 2 = 1) (hr : r.length % 2 = 1)
    (v : Option Nat) (hres : mergeRefTargets anc l b r = [v]) :
    (l = b ∧ r = [v]) ∨ (r = b ∧ l = [v]) ∨ (l = r ∧ l = [v]) ∨
    trivialMerge (combined l b r) .accept = some v ∨
    ∃ ds : List (Option Nat × Nat),
      (∀ w, count (combined l b r) w = ind v w + droppedCount ds w) ∧
      ∀ d ∈ ds, removeOk anc d.2 d.1 = true ∧ ∃ s, v = some s ∧ (d.2 = s ∨ anc d.2 s = true) := by
  rcases conflict_otherwise anc l b r with ⟨e, e'⟩ | ⟨e, e'⟩ | ⟨e, e'⟩ | ⟨v', hv, e'⟩ | ⟨hnone, hred, _⟩
  · exact Or.inl ⟨e, by rw [← e', hres]⟩
  · exact Or.inr (Or.inl ⟨e, by rw [← e', hres]⟩)
  · exact Or.inr (Or.inr (Or.inl ⟨e, by rw [← e', hres]⟩))
  · rw [hres] at e'; simp at e'; subst e'
    exact Or.inr (Or.inr (Or.inr (Or.inl hv)))
  · right; right; right; right
    obtain ⟨ds, hc, hd⟩ := reduces_spec anc htrans _ _ hred (combined_odd l b r hl hb hr)
    rw [hres] at hc hd
    refine ⟨ds, fun w => by rw [hc w]; simp [count], ?_⟩
    intro d hdm
    obtain ⟨h1, s, hs, h2⟩ := hd d hdm
    simp [adds] at hs
    exact ⟨h1, s, hs.symm, h2⟩

/-- **Normal form**: in the result of the non-trivial path no justified pair is left, i.e. no add is
an ancestor-or-equal of another add while some remove is absent or an ancestor of it. -/
theorem result_is_normal_form
    (htrans : ∀ a b c, anc a b = true → anc b c = true → anc a c = true)
    (l b r : Target) (h1 : l ≠ b) (h2 : r ≠ b) (h3 : l ≠ r)
    (h4 : trivialMerge (combined l b r) .accept = none) (ri ai : Nat) :
    ¬ Justified anc (adds (mergeRefTargets anc l b r)) (removes (mergeRefTargets anc l b r)) ri ai := by
  rcases conflict_otherwise anc l b r with ⟨e, _⟩ | ⟨e, _⟩ | ⟨e, _⟩ | ⟨v, hv, _⟩ | ⟨_, _, hfix⟩
  · exact absurd e h1
  · exact absurd e h2
  · exact absurd e h3
  · rw [h4] at hv; cases hv
  · exact findPair_complete anc htrans _ hfix ri ai

/-! ### non-vacuity: concrete instances on the linear history `0 ← 1 ← 2 ← 3` and on a fork -/

/-- linear history: `a` is an ancestor of `b` iff `a ≤ b` -/
def lin (a b : Nat) : Bool := decide (a ≤ b)

theorem lin_trans : ∀ a b c, lin a b = true → lin b c = true → lin a c = true := by
  intro a b c; simp only [lin, decide_eq_true_eq]; omega

/-- fork `0 ← 1`, `0 ← 2`, merge `3` of `1` and `2` -/
def forkDag : List (List Nat) := [[], [0], [0], [1, 2]]

example : mergeRefTargets lin [some 1] [some 1] [some 2] = [some 2] := left_unchanged lin _ _ _ rfl
example : mergeRefTargets lin [some 2] [some 1] [some 3] = [some 3] :=
  fast_forward lin 2 3 (some 1) (by simp only [lin, decide_eq_true_eq]; omega) (by decide) (by decide)
example : mergeRefTargets lin [some 3] [none] [some 2] = [some 3] :=
  fast_forward_left lin 3 2 none (by simp only [lin, decide_eq_true_eq]; omega) (by decide) (by decide)
-- diverged sides on the fork: a conflict, both sides kept
example : mergeRefTargets (isAncestor forkDag) [some 1] [some 0] [some 2] = [some 1, some 0, some 2] := by decide
-- conflicted left side, right side moved to the merge commit: resolved by ancestry
example : mergeRefTargets (isAncestor forkDag) [some 1, some 0, some 2] [some 1] [some 3]
    = [some 3] := by decide
-- hypotheses of `dropped_terms_justified` hold for the previous instance
example : ([some 1, some 0, some 2] : Target) ≠ [some 1] ∧ ([some 3] : Target) ≠ [some 1]
    ∧ trivialMerge (combined [some 1, some 0, some 2] [some 1] [some 3]) .accept = none := by decide
example : Justified (isAncestor forkDag) (adds [some 1, some 0, some 3]) (removes [some 1, some 0, some 3]) 0 0 :=
  ⟨1, 1, 3, some 0, by decide, by decide, by decide, Or.inr (by decide), by decide, by decide⟩

end JjModel.C12
