import JjModel.Lemmas.OpStore
import JjModel.Generated.HashLayout
/-!
  C16 — Operations and views round-trip and are content-addressed.

  * `layout_*`: the byte layout the model's encoders use is the layout `tools/translate.py` reads
    off the `#[derive(ContentHash)]` types of the current Rust sources (field names, order, types).
  * `enc*_decodes` / `enc*_injective`: the hashed byte stream determines the value (for every hashed
    type, via the codec combinators: each has a decoder that inverts the encoder in front of any
    suffix).  With A1 (BLAKE2b-512 collision freedom): equal ids ⇒ equal values; `id` is a function
    of the value by construction (`encView`/`encOperation` take nothing else).
  * `view_roundtrip`, `operation_roundtrip`: reading back what was written gives the same value.
-/
namespace JjModel.C16
open JjModel.Codec JjModel.OpStore

/-! ### layout tie (re-checked against the regenerated file on every run) -/

theorem layout_view : viewC.desc = JjModel.Generated.HashLayout.View := by rfl
theorem layout_operation : operationC.desc = JjModel.Generated.HashLayout.Operation := by rfl
theorem layout_operationMetadata :
    operationMetadataC.desc = JjModel.Generated.HashLayout.OperationMetadata := by decide
theorem layout_remoteView : remoteViewC.desc = JjModel.Generated.HashLayout.RemoteView := by decide
theorem layout_remoteRef : remoteRefC.desc = JjModel.Generated.HashLayout.RemoteRef := by decide
theorem layout_remoteRefState : remoteRefStateC.desc = JjModel.Generated.HashLayout.RemoteRefState := by decide
theorem layout_refTarget : refTargetC.desc = JjModel.Generated.HashLayout.RefTarget := by decide
theorem layout_timestampRange : timestampRangeC.desc = JjModel.Generated.HashLayout.TimestampRange := by decide
theorem layout_timestamp : timestampC.desc = JjModel.Generated.HashLayout.Timestamp := by decide
theorem layout_commitId : commitIdC.desc = JjModel.Generated.HashLayout.CommitId := by decide
theorem layout_viewId : (idC "ViewId").desc = JjModel.Generated.HashLayout.ViewId := by decide
theorem layout_operationId : (idC "OperationId").desc = JjModel.Generated.HashLayout.OperationId := by decide

/-! ### the hashed encoding determines the value

`Hashable c x` (= `c.dom x`) says that `x` fits the Rust types: every container has fewer than
2⁶⁴ elements, `i64`/`i32` fields are in range.  Nothing else is required. -/

abbrev Hashable {α} (c : C α) (x : α) : Prop := c.dom x

/-- generic: any value of any hashed type can be decoded back from its hashed bytes, whatever follows -/
theorem enc_decodes {α} (c : C α) (x : α) (rest : Bytes) (h : Hashable c x) :
    c.dec (c.enc x ++ rest) = some (x, rest) := c.ok x rest h

/-- generic: `enc_injective` for every hashed type -/
theorem enc_injective {α} (c : C α) (x y : α) (hx : Hashable c x) (hy : Hashable c y)
    (h : c.enc x = c.enc y) : x = y := c.inj hx hy h

theorem encView_decodes (v : View) (rest : Bytes) (h : Hashable viewC v) :
    viewC.dec (encView v ++ rest) = some (v, rest) := by
  unfold encView; exact viewC.ok v rest h

/-- two views with the same hashed byte stream are the same view -/
theorem encView_injective (v w : View) (hv : Hashable viewC v) (hw : Hashable viewC w)
    (h : encView v = encView w) : v = w := viewC.inj hv hw h

theorem encOperation_decodes (o : Operation) (rest : Bytes) (h : Hashable operationC o) :
    operationC.dec (encOperation o ++ rest) = some (o, rest) := by
  unfold encOperation; exact operationC.ok o rest h

/-- two operations with the same hashed byte stream are the same operation -/
theorem encOperation_injective (o p : Operation) (ho : Hashable operationC o) (hp : Hashable operationC p)
    (h : encOperation o = encOperation p) : o = p := operationC.inj ho hp h

/-- different values ⇒ different hashed bytes (contrapositive form used in the property text) -/
theorem different_views_hash_differently (v w : View) (hv : Hashable viewC v) (hw : Hashable viewC w)
    (h : v ≠ w) : encView v ≠ encView w := fun e => h (encView_injective v w hv hw e)

theorem different_operations_hash_differently (o p : Operation) (ho : Hashable operationC o)
    (hp : Hashable operationC p) (h : o ≠ p) : encOperation o ≠ encOperation p :=
  fun e => h (encOperation_injective o p ho hp e)

/-- The encodings of the parts are injective too (ref targets incl. conflicted/absent terms,
remote refs in both tracking states, …): instances of the generic theorem. -/
theorem encRefTarget_injective (s t : RefTarget) (hs : Hashable refTargetC s) (ht : Hashable refTargetC t)
    (h : refTargetC.enc s = refTargetC.enc t) : s = t := refTargetC.inj hs ht h

theorem encRemoteRef_injective (s t : RemoteRef) (hs : Hashable remoteRefC s) (ht : Hashable remoteRefC t)
    (h : remoteRefC.enc s = remoteRefC.enc t) : s = t := remoteRefC.inj hs ht h

/-! ### write → read -/

/-- What a `View` held by jj satisfies: sets/maps are ordered without duplicates (`HashSet`,
`BTreeMap`), every `Merge` has an odd number of terms, and no *absent* target is stored for a local
bookmark (`View::set_local_bookmark_target` removes such entries; the legacy on-disk bookmark form
cannot represent them — see `absent_local_bookmark_is_dropped`). -/
structure ViewWF (v : View) : Prop where
  heads : SetSorted v.headIds
  localBookmarks : TargetsWF v.localBookmarks
  localBookmarksPresent : ∀ e ∈ v.localBookmarks, e.2.isPresent = true
  localTags : TargetsWF v.localTags
  remoteViewsSorted : BMap.Sorted v.remoteViews
  remoteViews : ∀ e ∈ v.remoteViews, RemoteViewWF e.2
  gitRefs : TargetsWF v.gitRefs
  gitHeads : TargetsWF v.gitHeads
  wcCommitIds : BMap.Sorted v.wcCommitIds

theorem namedTargets_roundtrip (m : BMap RefTarget) (h : TargetsWF m) :
    mapE namedTargetFromProto (m.map fun e => (⟨e.1, refTargetToProto e.2⟩ : PNamedTarget)) = .ok m := by
  have := mapE_map_ok (fun e : Name × RefTarget => (⟨e.1, refTargetToProto e.2⟩ : PNamedTarget))
    namedTargetFromProto id m (by
      intro e he
      simp [namedTargetFromProto, refTarget_proto_roundtrip _ (h.2 e he)])
  simpa using this

theorem gitRefs_roundtrip (m : BMap RefTarget) (h : TargetsWF m) :
    mapE gitRefFromProto (m.map fun e => (⟨e.1, [], refTargetToProto e.2⟩ : PGitRef)) = .ok m := by
  have := mapE_map_ok (fun e : Name × RefTarget => (⟨e.1, [], refTargetToProto e.2⟩ : PGitRef))
    gitRefFromProto id m (by
      intro e he
      simp [gitRefFromProto, refTargetToProto, refTargetFromProto,
        fromRemovesAdds_removes_adds _ (h.2 e he)])
  simpa using this

theorem remoteViewsOfProto_roundtrip (v : View) (legacy : BMap RemoteView)
    (hs : BMap.Sorted v.remoteViews) (h : ∀ e ∈ v.remoteViews, RemoteViewWF e.2)
    (hnil : v.remoteViews = [] → legacy = []) :
    remoteViewsOfProto (viewToProto v) legacy v.gitRefs = .ok v.remoteViews := by
  simp only [remoteViewsOfProto, viewToProto, if_true]
  cases hv : v.remoteViews with
  | nil => simp [remoteViewsToProto, hnil hv]
  | cons e r =>
    rw [← hv, remoteViews_roundtrip _ hs h]
    simp [remoteViewsToProto, hv]

theorem gitHeadsOfProto_roundtrip (v : View) (h : TargetsWF v.gitHeads) :
    gitHeadsOfProto (viewToProto v) = .ok v.gitHeads := by
  simp only [gitHeadsOfProto, viewToProto, namedTargets_roundtrip _ h, bind_ok,
    BMap.ofList_sorted _ h.1]
  cases hg : v.gitHeads with
  | nil => simp [BMap.get?, absent_not_present]
  | cons e r => simp

/-- **C16, views**: `read_view(write_view(v)) = v`. -/
theorem view_roundtrip (v : View) (h : ViewWF v) : viewRoundTrip v = .ok v := by
  obtain ⟨legacy, hleg, hnil⟩ := legacy_bookmarks_roundtrip v.localBookmarks v.remoteViews
    h.localBookmarks h.localBookmarksPresent h.remoteViews
  have hwc : v.wcCommitIds.foldl (fun m e => BMap.insert e.1 e.2 m) [] = v.wcCommitIds :=
    BMap.ofList_sorted _ h.wcCommitIds
  have hrv := remoteViewsOfProto_roundtrip v legacy h.remoteViewsSorted h.remoteViews hnil
  have hgh := gitHeadsOfProto_roundtrip v h.gitHeads
  have h1 : (viewToProto v).wcCommitId = [] := rfl
  have h2 : (viewToProto v).wcCommitIds = v.wcCommitIds := rfl
  have h3 : (viewToProto v).headIds = v.headIds := rfl
  have h4 : (viewToProto v).bookmarks = bookmarkViewsToProtoLegacy v.localBookmarks v.remoteViews := rfl
  have h5 : (viewToProto v).localTags = v.localTags.map fun e => ⟨e.1, refTargetToProto e.2⟩ := rfl
  have h6 : (viewToProto v).gitRefs = v.gitRefs.map fun e => ⟨e.1, [], refTargetToProto e.2⟩ := rfl
  simp only [viewRoundTrip, viewFromProto, h1, h2, h3, h4, h5, h6, List.isEmpty_nil, if_true, hwc,
    setOfList_sorted _ h.heads, hleg, bind_ok, namedTargets_roundtrip _ h.localTags,
    gitRefs_roundtrip _ h.gitRefs, BMap.ofList_sorted _ h.localTags.1, BMap.ofList_sorted _ h.gitRefs.1,
    hrv, hgh]

/-- The side condition on local bookmarks is necessary: a stored absent local bookmark target is
dropped by the legacy form (while its hash differs from the view without the entry). -/
theorem absent_local_bookmark_is_dropped :
    let v : View := ⟨[], [([97], RefTarget.absent)], [], [], [], [], []⟩
    viewRoundTrip v = .ok ⟨[], [], [], [], [], [], []⟩ ∧ encView v ≠ encView ⟨[], [], [], [], [], [], []⟩ := by
  exact ⟨by rfl, by decide⟩

/-- What an `Operation` held by jj satisfies for this store: ids are BLAKE2b-512 hashes (64 bytes),
there is at least one parent (`write_operation` asserts it), maps are ordered. -/
structure OperationWF (o : Operation) : Prop where
  viewId : o.viewId.length = idLength
  parents : ∀ p ∈ o.parents, p.length = idLength
  parentsNonempty : o.parents ≠ []
  attributes : BMap.Sorted o.metadata.attributes
  predecessors : ∀ m, o.commitPredecessors = some m → BMap.Sorted m

/-- **C16, operations**: `read_operation(write_operation(o)) = o`. -/
theorem operation_roundtrip (o : Operation) (h : OperationWF o) : operationRoundTrip o = .ok o := by
  have hp : mapE checkIdLen o.parents = .ok o.parents :=
    mapE_ok_id _ _ (fun p hp => by simp [checkIdLen, h.parents p hp])
  have hne : o.parents.isEmpty = false := by
    cases hq : o.parents with
    | nil => exact absurd hq h.parentsNonempty
    | cons a r => rfl
  obtain ⟨viewId, parents, ⟨⟨⟨sm, st⟩, ⟨em, et⟩⟩, desc, host, user, snap, ws, attrs⟩, cp⟩ := o
  simp only [operationRoundTrip, hne, operationFromProto, operationToProto, Bool.false_eq_true, if_false]
  simp only at hp
  have hv : checkIdLen viewId = .ok viewId := by simp [checkIdLen, h.viewId]
  simp only [hp, hv, bind_ok, Option.getD_some, operationMetadataFromProto, operationMetadataToProto,
    timestampFromProto, timestampToProto, BMap.ofList_sorted _ h.attributes]
  cases cp with
  | none => rfl
  | some m =>
    have hc : ((fun e : PCommitPredecessors => (e.commitId, e.predecessorIds)) ∘
        fun e : Bytes × List Id => (⟨e.1, e.2⟩ : PCommitPredecessors)) = id := by funext e; rfl
    simp [hc, BMap.ofList_sorted _ (h.predecessors m rfl)]

/-! ### non-vacuity: concrete values meeting the hypotheses -/

/-- a view with a conflicted local bookmark (absent term inside), a tracked remote bookmark with an
absent target, an empty remote view, a remote tag, a git head and two workspaces -/
def sampleView : View :=
  { headIds := [[1], [2]]
    localBookmarks := [([97], [some [1], none, some [2]])]
    localTags := [([116], [none])]
    remoteViews := [([103], ⟨[], []⟩),
                    ([111], ⟨[([97], ⟨[none], .tracked⟩), ([98], ⟨[some [1]], .new⟩)], [([116], ⟨[some [2]], .tracked⟩)]⟩)]
    gitRefs := [([114], [some [1]])]
    gitHeads := [([100], [some [1]])]
    wcCommitIds := [([100], [1]), ([119], [2])] }

theorem sampleView_wf : ViewWF sampleView := by
  constructor <;> decide

example : viewRoundTrip sampleView = .ok sampleView := by rfl

example : Hashable viewC sampleView := by
  simp [-Prod.forall, Hashable, viewC, C.iso, C.structure, C.named, pair, list, mapC, sampleView, commitIdC, idC,
    nameC, bytes, byte, refTargetC, opt, remoteViewC, remoteRefC, remoteRefStateC, enumUnit, RemoteRefState.ord]

def sampleOperation : Operation :=
  { viewId := List.replicate 64 7
    parents := [List.replicate 64 1, List.replicate 64 2]
    metadata := ⟨⟨⟨-1, -720⟩, ⟨1700000000123, 840⟩⟩, [100], [], [117], true, some [119], [([107], [118])]⟩
    commitPredecessors := some [([1], [[2], [3]]), ([4], [])] }

theorem sampleOperation_wf : OperationWF sampleOperation := by
  refine ⟨by decide, by decide, by decide, by decide, ?_⟩
  intro m hm
  simp only [sampleOperation, Option.some.injEq] at hm
  subst hm; decide

example : operationRoundTrip sampleOperation = .ok sampleOperation := by rfl

example : Hashable operationC sampleOperation := by
  simp [-Prod.forall, Hashable, operationC, operationMetadataC, timestampRangeC, timestampC, millisC, C.iso,
    C.structure, C.named, pair, list, mapC, sampleOperation, commitIdC, idC, nameC, bytes, byte, opt,
    JjModel.Codec.bool, i64, i32, sint]

end JjModel.C16
