import JjModel.Lemmas.RepoMerge
/-!
  C13 — Concurrent operations are merged without losing work.

  Theorems about `Repo.merge` / `mergeView` / `recordRewrites` / `mergeWcCommit` of
  `JjModel/Model/Repo.lean` (the definitions the driver runs through `mergeOperations`).
  The reconciliation is `merge_view` followed by C11's `rebase_descendants`; the statements below
  are about the `merge_view` half and are combined with the C11 theorems in prose (`notes/C13.md`).
  `commits_kept` and `hidden_stay_hidden` are therefore proved in their *recording* form and carry the
  `_partial` suffix; `wc_rule` (`wc_rule_merge_view`) and `refs_from_changer` are complete for one
  merge step.
-/
set_option linter.unusedSimpArgs false
namespace JjModel.C13
open JjModel.Repo

/-! ### working copies -/

/-- **`wc_rule`**: the value `merge_wc_commit` chooses is the trivial three-way merge when it
    exists (both sides agree; or only one side differs from the base — then that side's value,
    `none` = workspace removed), otherwise a removal on either side wins, otherwise the self side. -/
theorem wc_rule (s b o : Option Nat) :
    mergeWcValue s b o =
      if s = o then s else if s = b then o else if o = b then s
      else if s.isNone || o.isNone then none else s :=
  mergeWcValue_rule s b o

/-- … and that value is what the view holds afterwards, other workspaces being untouched -/
theorem wc_rule_applied (v : View) (name : Nat) (b o : Option Nat) :
    assocGet (v.mergeWcCommit name b o).wc name = mergeWcValue (assocGet v.wc name) b o ∧
    ∀ n2, n2 ≠ name → assocGet (v.mergeWcCommit name b o).wc n2 = assocGet v.wc n2 :=
  ⟨mergeWcCommit_get v name b o, fun n2 h => mergeWcCommit_other v name n2 b o h⟩

/-- unchanged by the other side ⇒ own value; unchanged by the own side ⇒ the other side's value
    (including removal); same change on both sides ⇒ that value -/
theorem wc_from_changer (s b o : Option Nat) :
    (o = b → mergeWcValue s b o = s) ∧ (s = b → mergeWcValue s b o = o) ∧
    (s = o → mergeWcValue s b o = s) := by
  rw [wc_rule]
  refine ⟨?_, ?_, ?_⟩
  · intro h; subst h
    by_cases h1 : s = o
    · simp [h1]
    · simp [h1]
  · intro h; subst h
    by_cases h1 : s = o
    · simp [h1]
    · simp [h1]
  · intro h; simp [h]

/-- **`wc_rule`, whole phase**: after the working-copy phase of `merge_view` a workspace the other
    side did not touch is unchanged, every other workspace holds `mergeWcValue(own, base, other)`. -/
theorem wc_rule_merge_view (v base other : View) (name : Nat) :
    assocGet (v.mergeWcs base other).wc name =
      if base.wc.lookup name = other.wc.lookup name then assocGet v.wc name
      else mergeWcValue (assocGet v.wc name) (base.wc.lookup name) (other.wc.lookup name) :=
  mergeWcs_spec v base other name

/-- a conflict (three different values) never invents a commit: removed or the self side -/
theorem wc_conflict (s b o : Option Nat) (h1 : s ≠ o) (h2 : s ≠ b) (h3 : o ≠ b) :
    mergeWcValue s b o = if s.isNone || o.isNone then none else s := by
  rw [wc_rule]; simp [h1, h2, h3]

/-! ### bookmarks -/

/-- **`refs_from_changer`, unchanged by the other side**: the own value stays -/
theorem refs_unchanged_by_other (r : Repo) (base other : View) (b : Nat)
    (h : base.bookmarks.lookup b = other.bookmarks.lookup b) :
    (r.mergeBookmarks base other).view.getBookmark b = r.view.getBookmark b :=
  mergeBookmarks_unchanged_by_other r base other b h

/-- **`refs_from_changer`, changed by the other side** (`tb → to`, `none` = absent; the entry of
    `b` in the diff of the two bookmark maps is unique): the result is
    `merge_ref_targets(own, tb, to)`, which is … -/
theorem refs_changed_by_other (r : Repo) (base other : View) (b : Nat)
    (l1 l2 : List (Nat × Option RefTarget × Option RefTarget)) (tb to : Option RefTarget)
    (hsplit : diffNamed base.bookmarks other.bookmarks = l1 ++ (b, tb, to) :: l2)
    (h1 : ∀ e ∈ l1, e.1 ≠ b) (h2 : ∀ e ∈ l2, e.1 ≠ b) :
    (r.mergeBookmarks base other).view.getBookmark b =
      mergeRefTargets r.store (r.view.getBookmark b) (optTarget tb) (optTarget to) :=
  mergeBookmarks_changed r base other b l1 l2 tb to hsplit h1 h2

/-- **`refs_from_changer`** without side conditions: a bookmark whose value differs between the
    base and the other view (absent = not in the map) becomes
    `merge_ref_targets(own value, base value, other value)`. -/
theorem refs_from_changer (r : Repo) (base other : View) (b : Nat)
    (h : base.bookmarks.lookup b ≠ other.bookmarks.lookup b) :
    (r.mergeBookmarks base other).view.getBookmark b =
      mergeRefTargets r.store (r.view.getBookmark b) (optTarget (base.bookmarks.lookup b))
        (optTarget (other.bookmarks.lookup b)) :=
  mergeBookmarks_changed_any r base other b h

/-- the diff of two name maps lists every name at most once -/
theorem diff_names_unique (a b : List (Nat × RefTarget)) : ((diffNamed a b).map (·.1)).Nodup :=
  diffNamed_nodup a b

/-- … the other side's value when the own side did not change it, -/
theorem refs_from_other (s : Store) (tb to : RefTarget) : mergeRefTargets s tb tb to = to :=
  merged_bookmark_from_other s tb to

/-- … the common value when both sides made the same change, -/
theorem refs_same_change (s : Store) (t tb : RefTarget) : mergeRefTargets s t tb t = t :=
  merged_bookmark_same_change s t tb

/-- … and the own value when the "change" of the other side is no change at all.
    Two different changes go through the non-trivial part of `merge_ref_targets` (C12: resolved
    only by fast-forward, otherwise a conflict keeping every term). -/
theorem refs_other_noop (s : Store) (a b : RefTarget) : mergeRefTargets s a b b = a :=
  mergeRefTargets_right_eq_base s a b

/-- the diff only lists names whose values really differ, with the two values -/
theorem diff_entries_differ {a b : List (Nat × RefTarget)} {e : Nat × Option RefTarget × Option RefTarget}
    (h : e ∈ diffNamed a b) : e.2.1 = a.lookup e.1 ∧ e.2.2 = b.lookup e.1 ∧ e.2.1 ≠ e.2.2 :=
  diffNamed_entry h

/-! ### commits -/

/-- **`commits_kept_partial`**: `merge_view` removes nothing from the head set — every head of the
    own view and every head the other side added relative to the base is a head afterwards (so
    everything either side created is visible when `rebase_descendants` starts).
    GAP: that the subsequent rebase keeps each of them visible *or* replaces it by a rebased copy
    with the same change id is C11 (`rebased_keeps_identity`, `no_orphans_partial`) and inherits
    C11's gap; it is checked end-to-end by the oracle `opmerge:created-change-lost`. -/
theorem commits_kept_partial (r : Repo) (base other : View) (x : Nat)
    (h : x ∈ r.view.heads ∨ (x ∈ other.heads ∧ x ∉ base.heads)) :
    x ∈ (r.mergeView base other).view.heads :=
  mergeView_keeps_heads r base other x h

/-- exactly which heads the head phase produces -/
theorem merged_heads (r : Repo) (base other : View) (x : Nat) :
    x ∈ (r.mergeHeads base other).view.heads ↔
      x ∈ r.view.heads ∨ (x ∈ other.heads ∧ x ∉ base.heads) :=
  mergeHeads_keeps r base other x

/-- **`hidden_stay_hidden_partial`**: every commit reachable from the base heads that a side no
    longer reaches is recorded in the parent mapping by `record_rewrites` (rewritten when exactly
    one added commit carries its change id, divergent when several do, abandoned when none does).
    GAP: "recorded ⇒ not visible after `rebase_descendants`" is C11 (`no_key_is_head` + the rebase
    of descendants, with the source's exception for `Divergent` keys); end-to-end it is the oracle
    `opmerge:hidden-commit-resurrected`. -/
theorem hidden_stay_hidden_partial (r : Repo) (oldHeads newHeads : List Nat) (c : Nat)
    (hc : c ∈ ancestors r.store oldHeads) (hn : c ∉ ancestors r.store newHeads) :
    c ∈ (r.recordRewrites oldHeads newHeads).mapping.keys :=
  recordRewrites_covers r oldHeads newHeads c hc hn

/-- `record_rewrites` touches neither the view nor the store -/
theorem record_rewrites_frame (r : Repo) (oh nh : List Nat) :
    (r.recordRewrites oh nh).view = r.view ∧ (r.recordRewrites oh nh).store = r.store :=
  recordRewrites_frame r oh nh

/-! ### non-vacuity -/

/-- base `0 ← 1 ← 2`; side A rewrote 1 (→ 3) and rebased 2 (→ 4); side B added 5 on top of 2 and
    moved bookmark 1 from 1 to 5 -/
def exBase : View := { heads := [2], bookmarks := [(1, [some 1])], wc := [(1, 2)] }
def exStore : Store :=
  [rootCommit, ⟨[0], 1, 1, [1], []⟩, ⟨[1], 2, 2, [1, 2], []⟩]
def exSideA : Side :=
  { commits := [⟨[0], 1, 7, [1], [1]⟩, ⟨[3], 2, 2, [1, 2], [2]⟩],
    view := { heads := [4], bookmarks := [(1, [some 3])], wc := [(1, 4)] } }
def exSideB : Side :=
  { commits := [⟨[2], 5, 9, [1, 2, 5], []⟩],
    view := { heads := [5], bookmarks := [(1, [some 5])], wc := [(1, 2)] } }

example : diffNamed exBase.bookmarks exSideB.view.bookmarks = [] ++ (1, some [some 1], some [some 5]) :: [] := by
  decide

/-- the merge rebases B's commit 5 onto A's rewrite (new commit 6 on 4), the bookmark — moved by
    both sides — becomes a conflict that keeps both targets, the working copy follows A -/
example : (match mergeOperations exStore exBase [exSideA, exSideB] with
    | .ok (r, _) => some (r.store.length, sortAsc r.view.heads, r.view.bookmarks, r.view.wc,
                          parentsOf r.store 6, changeOf r.store 6)
    | .error _ => none) = some (7, [6], [(1, [some 3, some 1, some 6])], [(1, 4)], [4], 5) := by rfl

example : mergeWcValue (some 4) (some 2) (some 2) = some 4 := by decide
example : mergeWcValue (some 4) (some 2) none = none := by decide
example : mergeWcValue (some 4) (some 2) (some 5) = some 4 := by decide

end JjModel.C13
