import JjModel.Lemmas.Immutable
/-!
  C42 — Immutable commits are never rewritten.

  Theorems about `Model/Immutable.lean` (the definitions the driver `Drv/C42.lean` runs):

  * `immutable_downward_closed`, `immutable_iff_ancestor_of_head` — `immutable()` is the ancestor
    closure of `immutable_heads() | root()`;
  * `descendants_of_mutable_are_mutable`;
  * `check_rewritable_guards` — for every guarded command of the table, every visible commit it
    rewrites or abandons is a descendant of a commit passed to `check_rewritable`;
  * `immutable_untouched` — hence a guarded command that runs without `--ignore-immutable`
    changes no immutable commit; `rejected_iff` says when it is refused instead;
  * `ignore_immutable_protects_root`;
  * `snapshot_on_immutable_creates_child`, `snapshot_never_rewrites_immutable`, `finish_wc_mutable`;
  * placements with both `--insert-after` and `--insert-before` (`new`, `rebase -r`, `duplicate`,
    `revert` `-A X -B Y…`; checked set = the `-B` commits): `new_after_before_rejected_iff`,
    `rebase_after_before_rejected_iff`, `new_after_before_never_rewrites_immutable`;
  * `jj commit` is a guarded command (checked set = `{@}`, /repo edbccd1):
    `commit_rejected_iff_wc_immutable`, `commit_never_rewrites_immutable`;
  * the two commands that touch `@` without asking `check_rewritable` (the abandon-if-discardable
    rule of `jj new` / `jj edit`): `unguarded_only_touch_wc_descendants`,
    `unguarded_safe_if_wc_mutable`, and — because the code really does this — the *negation* of the
    property for them when `@` is immutable: `discard_unguarded_witness`.

  Partial (see notes/C42.md): the theorems are about the command *table*; that each command of
  /repo/cli really passes the listed set to `check_rewritable` and changes no more than the listed
  commits is tied by the differential runs only.  The graph after a command is not modelled
  (each step of a run is checked against the graph jj reports).
-/
namespace JjModel.C42
open JjModel.Immutable

/-- `immutable()` is closed under taking parents. -/
theorem immutable_downward_closed {g : Graph} (hg : Topo g) (heads : List Nat) (c : Commit) (hc : c ∈ g)
    (hi : c.id ∈ immutableSet g heads) : ∀ p ∈ c.parents, p ∈ immutableSet g heads :=
  fun p hp => immutable_parent_closed hg heads c hc hi p hp

/-- … and under taking ancestors. -/
theorem immutable_ancestor_closed {g : Graph} (hg : Topo g) (heads : List Nat) {a d : Nat}
    (h : Anc g a d) (hd : d ∈ immutableSet g heads) : a ∈ immutableSet g heads :=
  immutable_anc_closed hg heads h hd

/-- `immutable() = ::(immutable_heads() | root())`. -/
theorem immutable_iff_ancestor_of_head {g : Graph} (hg : Topo g) (heads : List Nat) (a : Nat) :
    a ∈ immutableSet g heads ↔ a = 0 ∨ ∃ h ∈ heads, Anc g a h :=
  mem_immutableSet_iff hg heads a

theorem descendants_of_mutable_are_mutable {g : Graph} (hg : Topo g) (heads s : List Nat)
    (hs : ∀ r ∈ s, r ∉ immutableSet g heads) : ∀ x ∈ descendants g s, x ∉ immutableSet g heads :=
  fun x hx => mutable_descendants hg heads s hs x hx

/-! ### the command table -/

theorem desc_self (g : Graph) (s : List Nat) (x : Nat) (h : x ∈ s) : x ∈ descendants g s :=
  closeDown_mono g s x h

theorem desc_sub (g : Graph) (s1 s2 : List Nat) (h : ∀ x ∈ s1, x ∈ s2) (x : Nat)
    (hx : x ∈ descendants g s1) : x ∈ descendants g s2 :=
  closeDown_subset g s1 s2 h x hx

/-- Every visible commit a guarded command rewrites or abandons is a descendant (inclusive) of a
commit in the set the command passes to `check_rewritable`. -/
theorem check_rewritable_guards (g : Graph) (wc : Nat) (c : Cmd) (hc : unguarded c = false)
    (x : Nat) (hx : x ∈ affected g wc c) : x ∈ descendants g (checked g wc c) := by
  cases c with
  | describe ts => simpa [affected, effect, checked] using hx
  | abandon ts =>
    simp only [affected, effect, checked, List.mem_append, List.mem_filter] at hx ⊢
    rcases hx with h | h
    · exact h.1
    · exact desc_self g ts x h
  | rebaseS s d =>
    simp only [affected, effect, checked] at hx ⊢
    split at hx <;> simp at hx
    exact hx
  | rebaseB b d =>
    simp only [affected, effect, checked, List.append_nil] at hx ⊢
    exact desc_sub g _ _ (fun y hy => (List.mem_filter.mp hy).1) x hx
  | rebaseR a d =>
    simp only [affected, effect, checked, List.append_nil, List.mem_filter] at hx ⊢
    exact hx.1
  | rebaseRAfter a y => simpa [affected, effect, checked] using hx
  | rebaseRBefore a y => simpa [affected, effect, checked] using hx
  | squashInto a y =>
    simp only [affected, effect, checked] at hx ⊢
    by_cases h : a = y
    · simp [h] at hx
    · simp only [h, if_false, List.mem_append, List.mem_filter, List.mem_singleton] at hx ⊢
      rcases hx with hx | hx
      · exact hx.1
      · exact desc_self g _ x (by simp [hx])
  | squashParent a =>
    simp only [affected, effect, checked, List.mem_append, List.mem_filter, List.mem_singleton] at hx ⊢
    rcases hx with hx | hx
    · exact hx.1
    · exact desc_self g _ x (by simp [hx])
  | newAfter a => simpa [affected, effect, checked] using hx
  | newBefore a => simpa [affected, effect, checked] using hx
  | newOn a => simp [unguarded] at hc
  | edit a => simp [unguarded] at hc
  | metaedit a => simpa [affected, effect, checked] using hx
  | restoreInto s a d =>
    simp only [affected, effect, checked] at hx ⊢
    split at hx <;> simp at hx
    exact hx
  | restoreChanges a =>
    simp only [affected, effect, checked] at hx ⊢
    split at hx <;> simp at hx
    exact hx
  | split a => simpa [affected, effect, checked] using hx
  | diffedit a => simpa [affected, effect, checked] using hx
  | duplicateAfter a y => simpa [affected, effect, checked] using hx
  | parallelize ts => simpa [affected, effect, checked] using hx
  | simplifyParents a => simpa [affected, effect, checked] using hx
  | refSet a => simp [affected, effect] at hx
  | commitWc => simpa [affected, effect, checked] using hx
  | newAB a ys => simpa [affected, effect, checked] using hx
  | rebaseRAB z a ys => simpa [affected, effect, checked] using hx
  | duplicateAB z a ys => simpa [affected, effect, checked] using hx
  | revertAB z a ys => simpa [affected, effect, checked] using hx

theorem run_ok_checked {g : Graph} {heads : List Nat} {wc : Nat} {ign : Bool} {c : Cmd} {rw ab : List Nat}
    (h : run g heads wc ign c = .ok rw ab) :
    checkRewritable g heads ign (checked g wc c) = true ∧
      rw = dedupSorted (effect g wc c).1 ∧ ab = dedupSorted (effect g wc c).2 := by
  unfold run at h
  split at h
  · cases h
  · split at h
    · cases h
    · split at h
      · cases h
      · rename_i h2 _
        injection h with h3 h4
        refine ⟨?_, h3.symm, h4.symm⟩
        simpa using h2

theorem mem_affected_of_ok {g : Graph} {heads : List Nat} {wc : Nat} {ign : Bool} {c : Cmd} {rw ab : List Nat}
    (h : run g heads wc ign c = .ok rw ab) (x : Nat) (hx : x ∈ rw ∨ x ∈ ab) : x ∈ affected g wc c := by
  obtain ⟨_, h1, h2⟩ := run_ok_checked h
  subst h1 h2
  simp only [mem_dedupSorted] at hx
  simpa [affected] using hx

/-- **Main theorem.**  A guarded command that is run without `--ignore-immutable` and is not
refused rewrites and abandons no immutable commit. -/
theorem immutable_untouched {g : Graph} (hg : Topo g) (heads : List Nat) (wc : Nat) (c : Cmd)
    (hc : unguarded c = false) (rw ab : List Nat) (h : run g heads wc false c = .ok rw ab) :
    ∀ x, x ∈ rw ∨ x ∈ ab → x ∉ immutableSet g heads := by
  intro x hx
  have hchk := (run_ok_checked h).1
  have hmut : ∀ r ∈ checked g wc c, r ∉ immutableSet g heads := by
    intro r hr
    simp only [checkRewritable, List.all_eq_true, decide_eq_true_eq] at hchk
    simpa using hchk r hr
  exact mutable_descendants hg heads _ hmut x
    (check_rewritable_guards g wc c hc x (mem_affected_of_ok h x hx))

/-- The command is refused exactly when a commit of its checked set is immutable (and no earlier
usage error applies). -/
theorem rejected_iff (g : Graph) (heads : List Nat) (wc : Nat) (c : Cmd) :
    run g heads wc false c = .rejected ↔
      preError g c = false ∧ ∃ x ∈ checked g wc c, x ∈ immutableSet g heads := by
  unfold run
  by_cases hp : preError g c = true
  · simp [hp]
  · simp only [hp, Bool.false_eq_true, if_false]
    by_cases hk : checkRewritable g heads false (checked g wc c) = true
    · have hk' := hk
      simp only [checkRewritable, List.all_eq_true, decide_eq_true_eq] at hk'
      simp only [hk, Bool.not_true, Bool.false_eq_true, if_false]
      constructor
      · intro h; split at h <;> cases h
      · rintro ⟨_, x, hx, hi⟩
        exact absurd hi (by simpa using hk' x hx)
    · have hk2 : checkRewritable g heads false (checked g wc c) = false := by simpa using hk
      simp only [hk2, Bool.not_false, if_true, true_iff]
      refine ⟨by simp, ?_⟩
      simp only [checkRewritable, List.all_eq_false, decide_eq_true_eq] at hk2
      obtain ⟨x, hx, hi⟩ := hk2
      exact ⟨x, hx, by simpa using hi⟩

theorem anc_root {g : Graph} (hg : Topo g) {r z : Nat} (h : Anc g r z) (hz : z = 0) : r = 0 := by
  cases h with
  | refl => exact hz
  | step hc _ _ => exact absurd hz (hg.noRoot _ hc)

/-- Even with `--ignore-immutable` the root commit is never rewritten or abandoned by a guarded
command. -/
theorem ignore_immutable_protects_root {g : Graph} (hg : Topo g) (heads : List Nat) (wc : Nat) (c : Cmd)
    (hc : unguarded c = false) (rw ab : List Nat) (h : run g heads wc true c = .ok rw ab) :
    0 ∉ rw ∧ 0 ∉ ab := by
  have key : ∀ x, x ∈ rw ∨ x ∈ ab → x ≠ 0 := by
    intro x hx h0
    subst h0
    have hchk := (run_ok_checked h).1
    simp only [checkRewritable, List.all_eq_true, decide_eq_true_eq] at hchk
    obtain ⟨r, hr, ha⟩ := descendants_sound g _ 0
      (check_rewritable_guards g wc c hc 0 (mem_affected_of_ok h 0 hx))
    have := anc_root hg ha rfl
    subst this
    simpa using hchk 0 hr
  exact ⟨fun h0 => key 0 (Or.inl h0) rfl, fun h0 => key 0 (Or.inr h0) rfl⟩

/-! ### the working copy -/

/-- Snapshot of changed files while `@` is immutable: a new child commit, nothing rewritten. -/
theorem snapshot_on_immutable_creates_child (g : Graph) (heads : List Nat) (wc : Nat)
    (h : wc ∈ immutableSet g heads) : snapshot g heads wc false = .child wc := by
  simp [snapshot, h]

/-- Whatever the snapshot does, it rewrites no immutable commit. -/
theorem snapshot_never_rewrites_immutable {g : Graph} (hg : Topo g) (heads : List Nat) (wc : Nat)
    (rw : List Nat) (h : snapshot g heads wc false = .amend rw) : ∀ x ∈ rw, x ∉ immutableSet g heads := by
  intro x hx
  simp only [snapshot, Bool.false_eq_true, if_false] at h
  split at h
  · cases h
  · rename_i hwc
    injection h with h
    subst h
    rw [mem_dedupSorted] at hx
    exact mutable_descendants hg heads [wc] (by simpa using hwc) x hx

/-- `finish_transaction`: afterwards `@` is mutable (for a fresh id that is nobody's parent and not
named by `immutable_heads()`). -/
theorem finish_wc_mutable (g : Graph) (heads : List Nat) (wc fresh : Nat) (h0 : fresh ≠ 0)
    (hh : fresh ∉ heads) (hp : ∀ c ∈ g, fresh ∉ c.parents) (hw : fresh ≠ wc) :
    (finishWc g heads wc fresh).2 ∉ immutableSet (finishWc g heads wc fresh).1 heads := by
  unfold finishWc
  split
  · simp only [immutableSet, ancestors, List.mem_cons, not_or]
    refine ⟨h0, ?_⟩
    intro hin
    rcases closeUp_origin _ _ _ hin with h | ⟨c, hc, hx⟩
    · exact hh h
    · simp only [List.reverse_append, List.reverse_cons, List.reverse_nil, List.nil_append,
        List.singleton_append, List.mem_cons, List.mem_reverse] at hc
      rcases hc with rfl | hc
      · simp at hx; exact hw hx
      · exact hp c hc hx
  · assumption

/-- The unguarded commands change nothing outside the descendants of `@`. -/
theorem unguarded_only_touch_wc_descendants (g : Graph) (wc : Nat) (c : Cmd) (hc : unguarded c = true)
    (x : Nat) (hx : x ∈ affected g wc c) : x ∈ descendants g [wc] := by
  cases c <;> simp [unguarded] at hc
  case newOn a =>
    simp only [affected, effect, discardWc, List.nil_append] at hx
    split at hx <;> simp at hx
    exact desc_self g _ x (by simp [hx])
  case edit a =>
    simp only [affected, effect, discardWc, List.nil_append] at hx
    split at hx <;> simp at hx
    exact desc_self g _ x (by simp [hx])

/-- … so they are harmless whenever `@` is mutable at command start (which `finish_wc_mutable`
guarantees as long as nothing else — another workspace, a configuration change — made it immutable). -/
theorem unguarded_safe_if_wc_mutable {g : Graph} (hg : Topo g) (heads : List Nat) (wc : Nat) (c : Cmd)
    (hc : unguarded c = true) (hwc : wc ∉ immutableSet g heads) :
    ∀ x ∈ affected g wc c, x ∉ immutableSet g heads :=
  fun x hx => mutable_descendants hg heads [wc] (by simpa using hwc) x
    (unguarded_only_touch_wc_descendants g wc c hc x hx)

/-! ### `jj commit` is guarded (finding `unguarded-wc:commit`, repaired by /repo edbccd1) -/

/-- `jj commit` is refused exactly when `@` is immutable at command start (another workspace
tagged it, or the configuration changed); `jj commit` has no usage error in the model. -/
theorem commit_rejected_iff_wc_immutable (g : Graph) (heads : List Nat) (wc : Nat) :
    run g heads wc false .commitWc = .rejected ↔ wc ∈ immutableSet g heads := by
  rw [rejected_iff]
  simp [preError, checked]

/-- `jj commit` that is not refused rewrites `@` and its descendants only, none of them immutable
(instance of `immutable_untouched`; before the repair this held only for a mutable `@`). -/
theorem commit_never_rewrites_immutable {g : Graph} (hg : Topo g) (heads : List Nat) (wc : Nat)
    (rw ab : List Nat) (h : run g heads wc false .commitWc = .ok rw ab) :
    (rw = dedupSorted (descendants g [wc]) ∧ ab = []) ∧ ∀ x, x ∈ rw ∨ x ∈ ab → x ∉ immutableSet g heads := by
  refine ⟨?_, immutable_untouched hg heads wc .commitWc rfl rw ab h⟩
  obtain ⟨_, h1, h2⟩ := run_ok_checked h
  subst h1 h2
  simp [effect, dedupSorted]

/-! ### placements with both `--insert-after` and `--insert-before` (seed C42: the third arm of
`compute_commit_location` lost its `check_rewritable(new_child_ids)`) -/

/-- `jj new -A X -B Y…` is refused exactly when one of the `-B` commits (the new children, which
get the inserted commit as a parent) is immutable — whatever `X` is: the immutability check runs
before the loop check. -/
theorem new_after_before_rejected_iff (g : Graph) (heads : List Nat) (wc x : Nat) (ys : List Nat) :
    run g heads wc false (.newAB x ys) = .rejected ↔ ∃ y ∈ ys, y ∈ immutableSet g heads := by
  rw [rejected_iff]
  simp [preError, checked]

/-- `jj rebase -r Z -A X -B Y…`: refused exactly when `Z` or a `-B` commit is immutable. -/
theorem rebase_after_before_rejected_iff (g : Graph) (heads : List Nat) (wc z x : Nat) (ys : List Nat) :
    run g heads wc false (.rebaseRAB z x ys) = .rejected ↔
      z ∈ immutableSet g heads ∨ ∃ y ∈ ys, y ∈ immutableSet g heads := by
  rw [rejected_iff]
  simp [preError, checked]

/-- A both-flags placement that is not refused rewrites exactly the `-B` commits and their
descendants, none of them immutable (instance of `immutable_untouched`). -/
theorem new_after_before_never_rewrites_immutable {g : Graph} (hg : Topo g) (heads : List Nat)
    (wc x : Nat) (ys rw ab : List Nat) (h : run g heads wc false (.newAB x ys) = .ok rw ab) :
    (rw = dedupSorted (descendants g ys) ∧ ab = []) ∧ ∀ c, c ∈ rw ∨ c ∈ ab → c ∉ immutableSet g heads := by
  refine ⟨?_, immutable_untouched hg heads wc (.newAB x ys) rfl rw ab h⟩
  obtain ⟨_, h1, h2⟩ := run_ok_checked h
  subst h1 h2
  simp [effect, dedupSorted]

/-! ### the code violates the property for the unguarded commands when `@` is immutable -/

def witnessGraph : Graph := [{ id := 1, parents := [0] }, { id := 2, parents := [1], disc := true, empty := true }]

theorem witnessGraph_topo : Topo witnessGraph := by
  constructor
  · intro c hc; simp [witnessGraph] at hc; rcases hc with rfl | rfl <;> simp
  · simp [witnessGraph]

/-- The former counter-example of `jj commit` (`immutable_heads() = {2}`, `@ = 2`, two-workspace
reproducer of the harness): now refused; with `--ignore-immutable` it rewrites `@` as before. -/
example : run witnessGraph [2] 2 false .commitWc = .rejected := by decide
example : run witnessGraph [2] 2 true .commitWc = .ok [2] [] := by decide
example : run witnessGraph [1] 2 false .commitWc = .ok [2] [] := by decide

/-- `jj new <other>` with an immutable, discardable, unreferenced head `@` abandons it
(`MutableRepo::maybe_abandon_wc_commit`; known finding `unguarded-wc:new-on` / `:edit`). -/
theorem discard_unguarded_witness :
    run witnessGraph [2] 2 false (.newOn 1) = .ok [] [2] ∧ 2 ∈ immutableSet witnessGraph [2] := by
  decide

/-! ### non-vacuity -/

def exGraph : Graph :=
  [{ id := 1, parents := [0] }, { id := 2, parents := [1] }, { id := 3, parents := [1, 2] },
   { id := 4, parents := [3], disc := true, empty := true }]

theorem exGraph_topo : Topo exGraph := by
  constructor
  · intro c hc; simp [exGraph] at hc; rcases hc with rfl | rfl | rfl | rfl <;> simp
  · simp [exGraph]

example : dedupSorted (immutableSet exGraph [2]) = [0, 1, 2] := by decide
example : run exGraph [2] 4 false (.describe [3]) = .ok [3, 4] [] := by decide
example : run exGraph [2] 4 false (.describe [2]) = .rejected := by decide
example : run exGraph [2] 4 false (.rebaseRAfter 3 1) = .rejected := by decide
example : run exGraph [2] 4 false (.abandon [3]) = .ok [4] [3] := by decide
example : run exGraph [2] 4 true (.describe [2]) = .ok [2, 3, 4] [] := by decide
example : run exGraph [2] 4 true (.describe [0]) = .rejected := by decide
example : run exGraph [] 4 false (.rebaseB 4 2) = .ok [3, 4] [] := by decide
-- both `-A` and `-B`: immutable `-B` commit that is not an ancestor of the `-A` commit (the seeded
-- defect rewrote 2, 3, 4 here), immutable ancestor (refused before the loop check), mutable
-- ancestor (loop), mutable non-ancestor, two `-B` commits, `--ignore-immutable`
example : run exGraph [2] 4 false (.newAB 1 [2]) = .rejected := by decide
example : run exGraph [2] 4 false (.newAB 4 [2]) = .rejected := by decide
example : run exGraph [2] 4 false (.newAB 4 [3]) = .err := by decide
example : run exGraph [2] 4 false (.newAB 1 [3]) = .ok [3, 4] [] := by decide
example : run exGraph [2] 4 false (.newAB 1 [4, 2]) = .rejected := by decide
example : run exGraph [2] 4 true (.newAB 1 [2]) = .ok [2, 3, 4] [] := by decide
example : run exGraph [2] 4 false (.rebaseRAB 4 1 [2]) = .rejected := by decide
example : run exGraph [2] 4 false (.rebaseRAB 2 1 [4]) = .rejected := by decide
example : run exGraph [1] 4 false (.rebaseRAB 4 1 [2]) = .ok [2, 3, 4] [] := by decide
example : run exGraph [2] 4 false (.duplicateAB 4 1 [2]) = .rejected := by decide
example : run exGraph [2] 4 false (.duplicateAB 0 1 [3]) = .err := by decide
example : run exGraph [2] 4 false (.revertAB 3 1 [2]) = .rejected := by decide
example : run exGraph [2] 4 false (.revertAB 2 2 [4]) = .ok [4] [] := by decide
example : snapshot exGraph [4] 4 false = .child 4 := by decide
example : snapshot exGraph [2] 3 false = .amend [3, 4] := by decide
example : (finishWc exGraph [4] 4 5).2 = 5 := by decide

end JjModel.C42
