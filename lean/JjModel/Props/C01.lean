import JjModel.Lemmas.MergeMapping
import JjModel.Lemmas.MergeFlatten
import JjModel.Lemmas.MergeUpdate
/-!
  C01 — Conflict simplification and flattening preserve meaning.

  Property theorems about the model of `lib/src/merge.rs` (`get_simplified_mapping`, `simplify`,
  `update_from_simplified`, `flatten`) in `JjModel/Model/Merge.lean` — the very definitions the
  driver (`Drv/C01.lean`) runs against the real code.

  `count vs v` = (number of times `v` is a side of `vs`) − (number of times it is a base).
-/
namespace JjModel.C01
open JjModel.Merge
set_option linter.unusedSectionVars false
variable {α : Type} [DecidableEq α]

/-- a merge of odd arity is non-empty, so the value type is inhabited -/
theorem default_of_odd (vs : List α) (h : vs.length % 2 = 1) : Nonempty α := by
  cases vs with
  | nil => simp at h
  | cons x _ => exact ⟨x⟩

/-- **Simplification preserves meaning**: for every value, sides minus bases is unchanged. -/
theorem simplify_count (vs : List α) (h : vs.length % 2 = 1) (v : α) :
    count (simplify vs) v = count vs v := by
  obtain ⟨d⟩ := default_of_odd vs h
  rw [count_eq_scount, count_eq_scount]
  exact (simplifiedMapping_facts vs d h).2.2.1 1 v

/-- The mapping computed by `get_simplified_mapping` is duplicate-free, in range, of odd length,
parity preserving (sides map to original sides, bases to original bases), and `simplify` is the
original read through it. -/
theorem mapping_spec (vs : List α) (h : vs.length % 2 = 1) :
    (simplifiedMapping vs).Nodup ∧
    (∀ i ∈ simplifiedMapping vs, i < vs.length) ∧
    (simplifiedMapping vs).length % 2 = 1 ∧
    (∀ (k i : Nat), (simplifiedMapping vs)[k]? = some i → i % 2 = k % 2) ∧
    (simplify vs).length = (simplifiedMapping vs).length ∧
    (∀ (k i : Nat), (simplifiedMapping vs)[k]? = some i → (simplify vs)[k]? = vs[i]?) := by
  obtain ⟨d⟩ := default_of_odd vs h
  obtain ⟨⟨a', hI⟩, hmap, _, _⟩ := simplifiedMapping_facts vs d h
  refine ⟨hI.nodup, hI.range, hI.odd, hI.parity, by rw [hmap]; simp, ?_⟩
  intro k i hk
  have hi : i < vs.length := hI.range i (List.mem_of_getElem? hk)
  rw [hmap, List.getElem?_map, hk]
  simp [val, List.getElem?_eq_getElem hi]

/-- the arity stays odd (the `assert!` in `Merge::from_vec` cannot fire) -/
theorem simplify_odd (vs : List α) (h : vs.length % 2 = 1) : (simplify vs).length % 2 = 1 := by
  have := mapping_spec vs h
  omega

/-- **A simplified conflict has no value that is both a side and a base.** -/
theorem simplify_disjoint (vs : List α) (h : vs.length % 2 = 1) (x : α) :
    ¬ (x ∈ adds (simplify vs) ∧ x ∈ removes (simplify vs)) := by
  obtain ⟨d⟩ := default_of_odd vs h
  exact Sep_disjoint _ (simplifiedMapping_facts vs d h).2.2.2 x

/-- **Simplifying again is a no-op.** -/
theorem simplify_idem (vs : List α) (h : vs.length % 2 = 1) :
    simplify (simplify vs) = simplify vs := by
  obtain ⟨d⟩ := default_of_odd vs h
  have hsep := (simplifiedMapping_facts vs d h).2.2.2
  generalize simplify vs = w at hsep
  unfold simplify
  rw [simplifiedMapping_of_sep w hsep, applyMapping_range]

/-- The model runs the `while` loop of `get_simplified_mapping` with fuel `len + 1`; this is enough:
any larger fuel gives the same mapping (the loop condition fails before the fuel runs out). -/
theorem fuel_adequate (vs : List α) (h : vs.length % 2 = 1) (k : Nat) :
    mappingLoop vs (vs.length + 1 + k) (List.range vs.length) 0 = simplifiedMapping vs :=
  loop_fuel vs _ k _ 0 (Inv_init _ h) (by simp; omega) (by omega)

/-! ### update_from_simplified -/

theorem updateFromSimplified_eq (vs s : List α) (hs : s.length = (simplifiedMapping vs).length) :
    updateFromSimplified vs s = some (writeBack (simplifiedMapping vs) s vs) := by
  simp [updateFromSimplified, writeBack, hs]

/-- the source's `assert_eq!(mapping.len(), simplified.values.len())` fires exactly when the
edited merge does not have the simplified arity -/
theorem update_from_simplified_none (vs s : List α) :
    updateFromSimplified vs s = none ↔ s.length ≠ (simplifiedMapping vs).length := by
  unfold updateFromSimplified
  simp only
  split <;> simp_all <;> omega

/-- **An edit made to the simplified form and written back lands only on the surviving
positions of the original**: the result has the original arity, position `mapping[k]` holds the
edited value `s[k]`, and every position not named by the mapping is untouched. -/
theorem update_from_simplified_spec (vs s : List α) (h : vs.length % 2 = 1)
    (hs : s.length = (simplifiedMapping vs).length) :
    ∃ u, updateFromSimplified vs s = some u ∧ u.length = vs.length ∧
      (∀ (k i : Nat), (simplifiedMapping vs)[k]? = some i → u[i]? = s[k]?) ∧
      (∀ j : Nat, j ∉ simplifiedMapping vs → u[j]? = vs[j]?) := by
  obtain ⟨hnd, hr, _, _, _, _⟩ := mapping_spec vs h
  refine ⟨_, updateFromSimplified_eq vs s hs, length_writeBack _ _ _, ?_, ?_⟩
  · intro k i hk
    exact writeBack_mem _ _ _ hnd hs.symm k i hk (hr i (List.mem_of_getElem? hk))
  · intro j hj
    exact writeBack_not_mem _ _ _ j hj

/-- Corollary: the written-back merge denotes exactly what the edited simplified merge denotes —
the dropped side/base pairs of the original still cancel. -/
theorem update_from_simplified_count (vs s : List α) (h : vs.length % 2 = 1)
    (hs : s.length = (simplifiedMapping vs).length) (v : α) :
    ∃ u, updateFromSimplified vs s = some u ∧ count u v = count s v := by
  obtain ⟨d⟩ := default_of_odd vs h
  obtain ⟨hnd, hr, _, hp, _, _⟩ := mapping_spec vs h
  refine ⟨_, updateFromSimplified_eq vs s hs, ?_⟩
  have hsgn : ∀ (k i : Nat), (simplifiedMapping vs)[k]? = some i → sgn 1 i = sgn 1 k := by
    intro k i hk; simp only [sgn, hp k i hk]
  rw [count_eq_scount, scount_writeBack d v _ s vs 1 hnd hs.symm hr hsgn,
    ← (simplifiedMapping_facts vs d h).2.1, (simplifiedMapping_facts vs d h).2.2.1 1 v,
    count_eq_scount]
  omega

/-! ### flatten -/

/-- **Flattening preserves meaning**: the signed count of the flattened merge is the alternating
sum `Σᵢ (−1)ⁱ · count mm[i] v` (`altSum mm 1 v`) of the signed counts of the terms —
a side of a base term counts as a base, a base of a base term as a side. -/
theorem flatten_count (mm : List (List α)) (h : mm.length % 2 = 1)
    (hall : ∀ t ∈ mm, t.length % 2 = 1) (v : α) :
    count (flatten mm) v = altSum mm 1 v := by
  cases mm with
  | nil => simp at h
  | cons first rest =>
    have := (flattenFrom_spec first rest v (hall first (by simp)) (by simp at h; omega)
      (fun t ht => hall t (by simp [ht]))).1
    simp only [flatten, altSum, this]; omega

/-- flattening a well-formed nested merge gives odd arity -/
theorem flatten_odd (mm : List (List α)) (h : mm.length % 2 = 1)
    (hall : ∀ t ∈ mm, t.length % 2 = 1) : (flatten mm).length % 2 = 1 := by
  cases mm with
  | nil => simp at h
  | cons first rest =>
    obtain ⟨d⟩ := default_of_odd first (hall first (by simp))
    exact (flattenFrom_spec first rest d (hall first (by simp)) (by simp at h; omega)
      (fun t ht => hall t (by simp [ht]))).2

/-! ### nesting to any depth -/

/-- conflicts whose terms are themselves conflicts, nested to any depth -/
inductive NMerge (α : Type) where
  | leaf : α → NMerge α
  | node : List (NMerge α) → NMerge α

mutual
/-- flatten bottom-up with the modelled `flatten` at every level -/
def flattenDeep : NMerge α → List α
  | .leaf a => [a]
  | .node ts => flatten (flattenDeepList ts)
def flattenDeepList : List (NMerge α) → List (List α)
  | [] => []
  | t :: ts => flattenDeep t :: flattenDeepList ts
end

mutual
/-- what a nested conflict denotes: sides count positively, bases negatively, at every level -/
def denote : NMerge α → α → Int
  | .leaf a, v => ind a v
  | .node ts, v => denoteList ts 1 v
def denoteList : List (NMerge α) → Int → α → Int
  | [], _, _ => 0
  | t :: ts, s, v => s * denote t v + denoteList ts (-s) v
end

mutual
/-- every level has odd arity -/
def WF : NMerge α → Prop
  | .leaf _ => True
  | .node ts => ts.length % 2 = 1 ∧ WFList ts
def WFList : List (NMerge α) → Prop
  | [] => True
  | t :: ts => WF t ∧ WFList ts
end

theorem length_flattenDeepList (ts : List (NMerge α)) : (flattenDeepList ts).length = ts.length := by
  induction ts with
  | nil => simp [flattenDeepList]
  | cons t ts ih => simp [flattenDeepList, ih]

mutual
theorem flattenDeep_spec (t : NMerge α) (h : WF t) (v : α) :
    count (flattenDeep t) v = denote t v ∧ (flattenDeep t).length % 2 = 1 := by
  match t, h with
  | .leaf a, _ => simp [flattenDeep, denote, count]
  | .node ts, h =>
    simp only [WF] at h
    obtain ⟨h1, h2⟩ := flattenDeepList_spec ts h.2 v
    simp only [flattenDeep, denote]
    have hl : (flattenDeepList ts).length % 2 = 1 := by rw [length_flattenDeepList]; exact h.1
    exact ⟨by rw [flatten_count _ hl h2, h1 1], flatten_odd _ hl h2⟩
theorem flattenDeepList_spec (ts : List (NMerge α)) (h : WFList ts) (v : α) :
    (∀ s, altSum (flattenDeepList ts) s v = denoteList ts s v) ∧
      ∀ l ∈ flattenDeepList ts, l.length % 2 = 1 := by
  match ts, h with
  | [], _ => simp [flattenDeepList, altSum, denoteList]
  | t :: ts, h =>
    simp only [WFList] at h
    obtain ⟨h1, h2⟩ := flattenDeep_spec t h.1 v
    obtain ⟨h3, h4⟩ := flattenDeepList_spec ts h.2 v
    simp only [flattenDeepList, altSum, denoteList, List.mem_cons]
    refine ⟨fun s => by rw [h1, h3], ?_⟩
    rintro l (rfl | hl)
    · exact h2
    · exact h4 l hl
end

/-- **Flattening a conflict nested to any depth preserves meaning** (every level flattened with
the modelled `flatten`, innermost first). -/
theorem flattenDeep_count (t : NMerge α) (h : WF t) (v : α) :
    count (flattenDeep t) v = denote t v := (flattenDeep_spec t h v).1

/-! ### non-vacuity -/

example : simplify [0, 1, 2, 0, 3] = [3, 1, 2] := by decide
example : simplifiedMapping [0, 1, 2, 0, 3] = [4, 1, 2] := by decide
example : count [0, 1, 2, 0, 3] 0 = 0 ∧ count (simplify [0, 1, 2, 0, 3]) 0 = 0 := by decide
example : simplify [1, 1, 2, 2, 3, 3, 1, 2, 3] = [1, 2, 3] := by decide
example : 0 ∈ adds [0, 1, 2, 0, 3] ∧ 0 ∈ removes [0, 1, 2, 0, 3] := by decide
example : updateFromSimplified [0, 1, 2, 0, 3] [7, 8, 9] = some [0, 8, 9, 0, 7] := by decide
example : updateFromSimplified [0, 1, 2, 0, 3] [7, 8] = none := by decide
example : flatten [[4, 3, 5], [2, 1, 0], [7, 6, 8]] = [4, 3, 5, 0, 1, 2, 7, 6, 8] := by decide
example : altSum [[0, 1, 2], [0, 3, 1], [1]] 1 1 = -1 ∧
    count (flatten [[0, 1, 2], [0, 3, 1], [1]]) 1 = -1 := by decide

/-- a depth-3 nested conflict: well formed, flattens to 7 terms, denotation preserved -/
def nmEx : NMerge Nat :=
  .node [.node [.leaf 0, .leaf 1, .leaf 2], .node [.node [.leaf 0, .leaf 3, .leaf 1]], .leaf 1]
example : WF nmEx := by simp [nmEx, WF, WFList]
example : flattenDeep nmEx = [0, 1, 2, 1, 3, 0, 1] := by decide
example : denote nmEx 1 = -1 ∧ count (flattenDeep nmEx) 1 = -1 := by decide

end JjModel.C01
