import JjModel.Lemmas.HeadsInv
/-!
  C10 — Visible heads are normalized and cover everything referenced.

  Theorems about the view-heads state machine of `Model/Heads.lean`.

  * `normalize_heads_spec` — `View::normalize_heads` keeps exactly the maximal elements of the head
    set (w.r.t. any partial order with least element `root`); `normalize_heads_normal` — the result
    is non-empty, duplicate-free, an antichain, and contains the root only alone;
    `normalize_heads_covers` — everything below an old head is below a new head;
    `normalize_heads_idempotent`.
  * `add_heads_fast_path_ok` — the incremental `replace_heads` path of `MutableRepo::add_heads`
    yields the same set as insertion + normalisation when the new head has a parent — which is the
    guard `!head.parent_ids().is_empty()` of `add_heads`; hence `add_head_eq_insert_normalize`:
    the model's `addHead` = insertion + normalisation for *every* indexed commit, the root included
    (`add_head_of_root_ok`, `edit_root_ok`: the scenarios of the fixed finding).
    `addHeadUnguarded_of_root_breaks_inv` is a sentinel about the *unguarded* variant (a separate
    definition, not the model): without the guard the parentless root breaks the invariant.
  * `Inv` (the property) and the transaction invariant `Pre`; `inv_init`, `pre_step` (one lemma
    per operation in `Lemmas/HeadsInv.lean`), `inv_commit`, `pre_reachable`, **`inv_reachable`**:
    after every `Transaction::commit` of every sequence of the covered operations the view
    satisfies `Inv`.
  * `rebase_inv_partial` — `rebase_descendants` re-establishes the invariant *given* that its
    reference-update phase leaves a well-formed index and no reference on a rewritten commit
    (`RebaseRefsOk`, not proved here: it is C11's `bookmarks_follow`); the head part
    (`update_heads_covers`: every visible commit that was not rewritten stays visible) is proved.
    `checkRebaseRefsOk_sound` / `rebase_inv_monitored`: the premise is decided by an executable
    monitor that the driver evaluates on every `rebase` of every generated sequence.
-/
namespace JjModel.C10
open JjModel.Heads JjModel.Refs

/-! ### `View::normalize_heads` -/

/-- `View::normalize_heads` = maximal elements of the head set. -/
theorem normalize_heads_spec (anc : Nat → Nat → Bool) (hpo : PO anc) (root : Nat) (hs : List Nat)
    (hroot : ∀ x ∈ hs, anc root x = true) (hne : hs ≠ []) (hnd : hs.Nodup) (x : Nat) :
    x ∈ normalizeHeadIds anc root hs ↔ x ∈ hs ∧ ∀ d ∈ hs, anc x d = true → d = x :=
  Heads.normalize_heads_spec anc hpo root hs hroot hne hnd x

/-- an empty head set is padded with the root -/
theorem normalize_heads_empty (anc : Nat → Nat → Bool) (root : Nat) : normalizeHeadIds anc root [] = [root] := rfl

theorem normalize_heads_normal (anc : Nat → Nat → Bool) (hpo : PO anc) (root : Nat) (hs : List Nat)
    (hroot : ∀ x ∈ hs, anc root x = true) (hnd : hs.Nodup) : Normal anc root (normalizeHeadIds anc root hs) :=
  normal_normalizeHeadIds anc hpo root hs hroot hnd

theorem normalize_heads_covers (anc : Nat → Nat → Bool) (hpo : PO anc) (root : Nat) (hs : List Nat)
    (hroot : ∀ x ∈ hs, anc root x = true) (hnd : hs.Nodup) (x : Nat) (hx : x ∈ hs) :
    ∃ h ∈ normalizeHeadIds anc root hs, anc x h = true :=
  normalizeHeadIds_covers anc hpo root hs hroot hnd x hx

/-- normalising a normalized set changes nothing (as a set) -/
theorem normalize_heads_idempotent (anc : Nat → Nat → Bool) (hpo : PO anc) (root : Nat) (hs : List Nat)
    (hroot : ∀ x ∈ hs, anc root x = true) (hnd : hs.Nodup) (x : Nat) :
    x ∈ normalizeHeadIds anc root (normalizeHeadIds anc root hs) ↔ x ∈ normalizeHeadIds anc root hs := by
  have hn := normal_normalizeHeadIds anc hpo root hs hroot hnd
  apply normalizeHeadIds_of_normal anc hpo root _ _ hn
  intro y hy
  by_cases hne : hs = []
  · subst hne; simp [normalizeHeadIds] at hy; subst hy; exact hpo.refl _
  · exact hroot y (normalizeHeadIds_subset anc root hs hne y hy)

/-! ### the incremental fast path of `add_heads` -/

/-- `replace_heads(c, parents)` = insert + normalize, when the heads are normalized, every parent of
`c` is a head, and `c` has a parent.  (A statement about the bare set function `fastHeads`; the last
hypothesis is exactly the guard `!head.parent_ids().is_empty()` of `add_heads`, so the model-level
statement `add_head_eq_insert_normalize` below needs no such side condition.) -/
theorem add_heads_fast_path_ok (anc : Nat → Nat → Bool) (hpo : PO anc) (root : Nat) (hs : List Nat) (c : Nat)
    (hroot : ∀ x ∈ setInsert c hs, anc root x = true) (hn : Normal anc root hs)
    (ps : List Nat) (hps : ps ≠ []) (hsub : ∀ p ∈ ps, p ∈ hs)
    (hpar : ∀ x, anc x c = true ↔ x = c ∨ ∃ p ∈ ps, anc x p = true)
    (hstrict : ∀ p ∈ ps, anc c p = false) (x : Nat) :
    x ∈ fastHeads hs c ps ↔ x ∈ normalizeHeadIds anc root (setInsert c hs) :=
  Heads.add_heads_fast_path_ok anc hpo root hs c hroot hn ps hps hsub hpar hstrict x

/-- the model's `addHead` takes the incremental path exactly when the guard of `add_heads` holds:
the commit has a parent and every parent is a current head -/
theorem addHead_fast_path (r : Repo) (c : Nat)
    (h : (!(r.parentsOf c).isEmpty && (r.parentsOf c).all (fun p => r.heads.contains p)) = true) :
    (addHead r c).heads = fastHeads r.heads c (r.parentsOf c) ∧ (addHead r c).normalized = r.normalized := by
  unfold addHead
  dsimp only
  rw [if_pos h]
  exact ⟨rfl, rfl⟩

/-- a commit without parents (the root) never takes the incremental path -/
theorem addHead_parentless (r : Repo) (c : Nat) (h : r.parentsOf c = []) : addHead r c = viewAddHead r c := by
  unfold addHead
  dsimp only
  rw [h]; rfl

/-- **`add_head` is insert + normalize, for every indexed commit (the root included).**  In a
transaction state whose heads are flagged normalized, `add_head(c)` followed by `normalize_heads`
yields exactly the head set that plain insertion of `c` followed by normalisation yields — whichever
path `add_heads` took.  No "has a parent" hypothesis: the guard in `add_heads` supplies it on the
incremental path, and the general path is insertion by definition. -/
theorem add_head_eq_insert_normalize (r : Repo) (p : Pre r) (hflag : r.normalized = true) (c : Nat)
    (hc : c < r.size) (x : Nat) :
    x ∈ (normalizeHeads (addHead r c)).heads ↔ x ∈ normalizeHeadIds r.isAnc 0 (setInsert c r.heads) := by
  by_cases hg : (!(r.parentsOf c).isEmpty && (r.parentsOf c).all (fun p => r.heads.contains p)) = true
  · have hg' := Bool.and_eq_true_iff.mp hg
    have hpne : r.parentsOf c ≠ [] := by
      intro he; have h1 := hg'.1; rw [he] at h1; simp at h1
    have hsub : ∀ q ∈ r.parentsOf c, q ∈ r.heads := by
      intro q hq; have := List.all_eq_true.mp hg'.2 q hq; simpa using this
    have e : addHead r c = replaceHeads r c (r.parentsOf c) := by
      unfold addHead; dsimp only; rw [if_pos hg]
    have e2 : normalizeHeads (replaceHeads r c (r.parentsOf c)) = replaceHeads r c (r.parentsOf c) := by
      unfold normalizeHeads; rw [if_pos (show (replaceHeads r c (r.parentsOf c)).normalized = true from hflag)]
    rw [e, e2]
    show x ∈ fastHeads r.heads c (r.parentsOf c) ↔ _
    refine Heads.add_heads_fast_path_ok r.isAnc p.wf.po 0 r.heads c ?_ (p.flag hflag) _ hpne hsub
      (p.wf.anc_parents c hc) (p.wf.parent_strict c hc) x
    intro y hy
    rcases (mem_setInsert c y r.heads).mp hy with rfl | hy
    · exact p.wf.root_anc y hc
    · exact p.wf.root_anc y (p.range y hy)
  · have e : addHead r c = viewAddHead r c := by
      unfold addHead; dsimp only; rw [if_neg hg]
    rw [e]
    rfl

/-- **Fixed finding (regression sentinel for the scenario).** `new:0 commit addhead:0 commit`:
`add_head(root)` in a normalized repo with the single non-root head 1 now goes through the general
path, and `commit` persists `heads = {1}`. -/
theorem add_head_of_root_ok :
    ∃ r', commitTx (addHead (newCommit Repo.init [0] false).1 0) = some r' ∧ r'.heads = [1] ∧ Inv r' := by
  refine ⟨_, rfl, by decide, ⟨⟨by decide, by decide, by decide, by decide⟩, ⟨by decide, by decide⟩⟩⟩

/-- … and likewise through `edit(ws, root)`, which adds the head before `set_wc_commit` rejects the
root commit (`new:0 commit edit:0:0 commit`) -/
theorem edit_root_ok :
    ∃ r', (edit (newCommit Repo.init [0] false).1 0 0).2 = false ∧
      commitTx (edit (newCommit Repo.init [0] false).1 0 0).1 = some r' ∧ r'.heads = [1] ∧ Inv r' := by
  refine ⟨_, by decide, rfl, by decide, ⟨⟨by decide, by decide, by decide, by decide⟩, ⟨by decide, by decide⟩⟩⟩

/-- **Why the guard is needed (sentinel about the *unguarded* variant `addHeadUnguarded`, which is
not the model the driver runs).**  Taking the incremental path whenever "all parents are heads" —
vacuously true for the parentless root — `add_head(root)` in a normalized repo with one non-root
head leaves `{1, root}` flagged as normalized, and `commit` persists it.  This was the behaviour of
`MutableRepo::add_heads` before the guard `!head.parent_ids().is_empty()` was added. -/
theorem addHeadUnguarded_of_root_breaks_inv :
    ∃ r r', Inv r ∧ commitTx (addHeadUnguarded r 0) = some r' ∧ ¬ Inv r' := by
  refine ⟨(newCommit Repo.init [0] false).1, { (newCommit Repo.init [0] false).1 with heads := [1, 0] }, ?_, rfl, ?_⟩
  · refine ⟨⟨by decide, by decide, by decide, by decide⟩, ⟨by decide, by decide⟩⟩
  · intro h
    have := h.normal.rootAlone (by decide)
    revert this; decide

/-- the two variants differ only on commits without parents -/
theorem addHeadUnguarded_eq (r : Repo) (c : Nat) (h : r.parentsOf c ≠ []) : addHeadUnguarded r c = addHead r c := by
  unfold addHeadUnguarded addHead
  dsimp only
  have : (r.parentsOf c).isEmpty = false := by
    cases hp : r.parentsOf c with
    | nil => exact absurd hp h
    | cons _ _ => rfl
  rw [this]; rfl

/-! ### the invariant over operation sequences -/

theorem wf_init : WF Repo.init := by
  have hrow : ∀ c, Repo.init.ancs.getD c [] = if c = 0 then [0] else [] := by
    intro c; cases c <;> simp [Repo.init]
  have hpar : ∀ c, Repo.init.parentsOf c = [] := by
    intro c; cases c <;> simp [Repo.init, Repo.parentsOf]
  refine ⟨by decide, rfl, ?_, ?_, ?_, ?_, ?_, ?_, ?_, ?_⟩
  · intro c hc; have : c = 0 := by simp [Repo.init, Repo.size] at hc; exact hc
    subst this; rw [hrow]; simp
  · intro c a ha; rw [hrow] at ha; split at ha <;> simp_all [Repo.init, Repo.size]
  · intro c hc; have : c = 0 := by simp [Repo.init, Repo.size] at hc; exact hc
    subst this; rw [hrow]; simp
  · intro c p hp; rw [hpar] at hp; cases hp
  · intro c h0 hc; simp [Repo.init, Repo.size] at hc; omega
  · intro c hc x; have : c = 0 := by simp [Repo.init, Repo.size] at hc; exact hc
    subst this; rw [hrow, hpar]; simp
  · intro a b c hab hbc; rw [hrow] at hab hbc ⊢
    split at hbc
    · split at hab <;> simp_all
    · cases hbc
  · intro a b hab hba; rw [hrow] at hab hba
    split at hab <;> split at hba <;> simp_all

theorem pre_init : Pre Repo.init :=
  ⟨wf_init, by decide, by decide, fun _ => ⟨by decide, by decide, by decide, by decide⟩, ⟨by decide, by decide⟩⟩

theorem inv_init : Inv Repo.init :=
  ⟨⟨by decide, by decide, by decide, by decide⟩, ⟨by decide, by decide⟩⟩

/-- what `rebase_descendants` must have achieved before `update_heads` runs (not proved here) -/
def RebaseRefsOk (r : Repo) : Prop :=
  WF (rebaseRefs r) ∧ (rebaseRefs r).heads.Nodup ∧ (∀ h ∈ (rebaseRefs r).heads, h < (rebaseRefs r).size) ∧
    Covered (rebaseRefs r) ∧ RefsAvoidKeys (rebaseRefs r)

/-- `update_heads`: a visible commit that was not rewritten stays visible -/
theorem update_heads_covers (r : Repo) (w : WF r) (hrange : ∀ h ∈ r.heads, h < r.size)
    (x : Nat) (hx : r.isVisible x = true) (hxk : x ∉ r.keys) :
    ∃ h ∈ updatedHeadIds r, r.isAnc x h = true :=
  updateHeads_covers r w hrange x hx hxk

/-- **partial**: the gap is `RebaseRefsOk` (the rebase loop and the reference updates keep the
index well-formed and move every reference off the rewritten commits). -/
theorem rebase_inv_partial (r : Repo) (h : RebaseRefsOk r) :
    Pre (rebaseDescendants r) ∧ Inv (rebaseDescendants r) := by
  obtain ⟨w, hnd, hrange, hcov, havoid⟩ := h
  obtain ⟨p, hflag⟩ := pre_updateHeads (rebaseRefs r) w hnd hrange hcov havoid
  have e : rebaseDescendants r = { updateHeads (rebaseRefs r) with mapping := [] } := rfl
  rw [e]
  generalize updateHeads (rebaseRefs r) = u at p hflag
  have p' : Pre { u with mapping := [] } :=
    ⟨WF.congr (r := u) rfl rfl p.wf, p.nodup, p.range, p.flag, p.cov⟩
  exact ⟨p', ⟨p'.flag hflag, p'.cov⟩⟩

/-- The executable monitor run by the driver on every `rebase` of every case is sound for the
premise of `rebase_inv_partial` … -/
theorem checkRebaseRefsOk_sound (r : Repo) (h : checkRebaseRefsOk r = true) : RebaseRefsOk r :=
  Heads.checkRebaseRefsOk_sound r h

/-- … so whenever the monitor accepts (it did on every `rebase` of every generated sequence of the
main stream; a rejection would show up as a model/implementation disagreement),
`rebase_descendants` re-establishes the invariant. -/
theorem rebase_inv_monitored (r : Repo) (h : checkRebaseRefsOk r = true) :
    Pre (rebaseDescendants r) ∧ Inv (rebaseDescendants r) :=
  rebase_inv_partial r (checkRebaseRefsOk_sound r h)

/-- the operations covered by the theorem, with their preconditions in the current state
(`rmhead` — `MutableRepo::remove_head` on its own — is not among them) -/
inductive OpOk (r : Repo) : Op → Prop
  | new (ps : List Nat) : ps ≠ [] → (∀ q ∈ ps, q < r.size) → OpOk r (.new ps)
  | rw (c : Nat) : 0 < c → c < r.size → OpOk r (.rw c)
  | ab (c : Nat) : 0 < c → OpOk r (.ab c)
  | rebase : RebaseRefsOk r → OpOk r .rebase
  | bm (name : Nat) (t : Target) : (∀ x ∈ addedIds t, x < r.size) → OpOk r (.bm name t)
  | edit (ws c : Nat) : c < r.size → OpOk r (.edit ws c)
  | co (ws c : Nat) : c < r.size → OpOk r (.co ws c)
  | rmws (ws : Nat) : OpOk r (.rmws ws)
  | setwc (ws c : Nat) : c = 0 ∨ r.isVisible c = true → OpOk r (.setwc ws c)
  | addhead (c : Nat) : c < r.size → OpOk r (.addhead c)
  | commit : OpOk r .commit

/-- `inv_step`: every covered operation preserves the transaction invariant -/
theorem pre_step (r : Repo) (p : Pre r) (op : Op) (ok : OpOk r op) (r' : Repo) (b : Bool)
    (h : step r op = some (r', b)) : Pre r' := by
  cases ok with
  | new ps h1 h2 => simp [step] at h; rw [← h.1]; exact pre_newCommit r p ps false h1 h2
  | rw c h1 h2 =>
    simp only [step] at h; rw [if_neg (by omega)] at h; simp at h; rw [← h.1]; exact pre_rewriteCommit r p c h1 h2
  | ab c h1 =>
    simp only [step] at h; rw [if_neg (by omega)] at h; simp at h; rw [← h.1]; exact pre_abandonCommit r p c
  | rebase h1 => simp [step] at h; rw [← h.1]; exact (rebase_inv_partial r h1).1
  | bm name t h1 => simp [step] at h; rw [← h.1]; exact pre_setLocalBookmark r p name t h1
  | edit ws c h1 =>
    simp [step] at h; have := pre_edit r p ws c h1; rw [h] at this; exact this
  | co ws c h1 =>
    simp [step] at h; have := pre_checkOut r p ws c h1; rw [h] at this; exact this
  | rmws ws => simp [step] at h; rw [← h.1]; exact pre_removeWorkspace r p ws
  | setwc ws c h1 =>
    simp [step] at h; have := pre_setWcCommit r p ws c h1; rw [h] at this; exact this
  | addhead c h1 => simp [step] at h; rw [← h.1]; exact pre_addHead r p c h1
  | commit =>
    simp only [step, Option.map_eq_some_iff] at h
    obtain ⟨r'', h1, h2⟩ := h
    simp at h2; rw [← h2.1]; exact (Heads.inv_commit r r'' p h1).2

/-- `Transaction::commit` of a state satisfying the transaction invariant yields `Inv` -/
theorem inv_commit (r : Repo) (p : Pre r) (r' : Repo) (b : Bool) (h : step r .commit = some (r', b)) : Inv r' := by
  simp only [step, Option.map_eq_some_iff] at h
  obtain ⟨r'', h1, h2⟩ := h
  simp at h2; rw [← h2.1]; exact (Heads.inv_commit r r'' p h1).1

/-- states reachable from a fresh repo by covered operations -/
inductive Reach : Repo → Prop
  | init : Reach Repo.init
  | step (r : Repo) (op : Op) (r' : Repo) (b : Bool) : Reach r → OpOk r op → step r op = some (r', b) → Reach r'

theorem pre_reachable (r : Repo) (h : Reach r) : Pre r := by
  induction h with
  | init => exact pre_init
  | step r op r' b _ ok hs ih => exact pre_step r ih op ok r' b hs

/-- **`inv_reachable`**: after every committed operation of every sequence of covered operations
the view's heads are normalized and cover every local bookmark target and working-copy commit. -/
theorem inv_reachable (r : Repo) (h : Reach r) (r' : Repo) (b : Bool)
    (hc : step r .commit = some (r', b)) : Inv r' :=
  inv_commit r (pre_reachable r h) r' b hc

/-! ### non-vacuity -/

/-- `new:0 new:1 bm:0:2 edit:0:1 commit` is a covered sequence -/
example : ∃ r, Reach r ∧ (step r .commit).isSome = true ∧ r.size = 3 := by
  let r1 := (newCommit Repo.init [0] false).1
  let r2 := (newCommit r1 [1] false).1
  let r3 := setLocalBookmark r2 0 [some 2]
  let r4 := (edit r3 0 1).1
  have h1 : Reach r1 := .step _ (.new [0]) r1 true .init (.new _ (by decide) (by decide)) rfl
  have h2 : Reach r2 := .step _ (.new [1]) r2 true h1 (.new _ (by decide) (by decide)) rfl
  have h3 : Reach r3 := .step _ (.bm 0 [some 2]) r3 true h2 (.bm _ _ (by decide)) rfl
  have h4 : Reach r4 := .step _ (.edit 0 1) r4 true h3 (.edit _ _ (by decide)) rfl
  exact ⟨r4, h4, by decide, by decide⟩

/-- the sequences of the fixed finding are covered: `new:0 commit addhead:0 commit` and
`new:0 commit edit:0:0 commit` (the `edit` returns `Err`), both ending with `heads = {1}` -/
example : ∃ r, Reach r ∧ ∃ r', step r .commit = some (r', true) ∧ r'.heads = [1] := by
  let r1 := (newCommit Repo.init [0] false).1
  let r2 := normalizeHeads r1
  let r3 := addHead r2 0
  have h1 : Reach r1 := .step _ (.new [0]) r1 true .init (.new _ (by decide) (by decide)) rfl
  have h2 : Reach r2 := .step _ .commit r2 true h1 .commit rfl
  have h3 : Reach r3 := .step _ (.addhead 0) r3 true h2 (.addhead _ (by decide)) rfl
  exact ⟨r3, h3, _, rfl, by decide⟩

example : ∃ r, Reach r ∧ ∃ r', step r .commit = some (r', true) ∧ r'.heads = [1] := by
  let r1 := (newCommit Repo.init [0] false).1
  let r2 := normalizeHeads r1
  let r3 := (edit r2 0 0).1
  have h1 : Reach r1 := .step _ (.new [0]) r1 true .init (.new _ (by decide) (by decide)) rfl
  have h2 : Reach r2 := .step _ .commit r2 true h1 .commit rfl
  have h3 : Reach r3 := .step _ (.edit 0 0) r3 false h2 (.edit _ _ (by decide)) rfl
  exact ⟨r3, h3, _, rfl, by decide⟩

/-- `add_head_eq_insert_normalize` at the root: hypotheses hold in the state after `new:0 commit` -/
example : Pre (newCommit Repo.init [0] false).1 ∧ (newCommit Repo.init [0] false).1.normalized = true ∧
    0 < (newCommit Repo.init [0] false).1.size :=
  ⟨pre_newCommit _ pre_init [0] false (by decide) (by decide), by decide, by decide⟩

/-- a linear order is an instance of `PO`, with least element 0 -/
example : PO (fun a b => decide (a ≤ b)) :=
  ⟨by simp, by intro a b c; simp; omega, by intro a b; simp; omega⟩

example : normalizeHeadIds (fun a b => decide (a ≤ b)) 0 [0, 2, 1] = [2] := by decide

end JjModel.C10
